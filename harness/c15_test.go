//go:build verif

package lucene

// Bounded stand-in / counterexample search for property C15
// (custom drivers: Render folds the tree with exactly the supplied functions).
//
// Injected into the root package of /repo with `go test -overlay`; never written to /repo.
//
// Oracle = the text of the property, checked with render functions that this file supplies:
//   T1  tracing map: every function records (operator, left, right) and returns a marker that is
//       unique to the call.  From the root marker the recorded calls are matched against the tree
//       (walked by this file): every node exactly once, children before parents, the function of
//       the node's operator, left/right = the children's markers in that order, wrapped in one pair
//       of parentheses at most; leaves receive their value in SQL spelling; no other calls.
//   T2  term-building map and its 19 single-operator variants: the variant's output differs from
//       the base output exactly at the nodes of that operator.
//   T3  maps with one operator removed: error and empty output iff the tree has such a node,
//       unchanged output otherwise.
//   T4  driver.Shared (+ functions for FUZZY/BOOST): spies see every node of their operator once,
//       a single-operator override that brackets its result shows up exactly at those nodes,
//       removing an operator makes Render fail without partial SQL.
//   T5  ToPostgres / ToParameterizedPostgres fail (no SQL, no params) on every accepted query
//       whose tree contains a FUZZY or BOOST node.

import (
	"encoding/json"
	"fmt"
	"math/rand"
	"os"
	"regexp"
	"runtime"
	"sort"
	"strconv"
	"strings"
	"sync"
	"testing"

	"github.com/grindlemire/go-lucene/pkg/driver"
	"github.com/grindlemire/go-lucene/pkg/lucene/expr"
)

// ---------------------------------------------------------------------------------------------
// report plumbing

type vc15Report struct {
	Property    string         `json:"property"`
	Tier        string         `json:"tier"`
	Seed        int64          `json:"seed"`
	Evaluations int            `json:"evaluations"`
	Distinct    int            `json:"distinct_nontrivial"`
	Bound       string         `json:"bound"`
	FailCount   int            `json:"failure_count"`
	ByCategory  map[string]int `json:"by_category"`
	Failures    []string       `json:"failures"`
	Samples     []string       `json:"samples"`
}

type vc15Fail struct {
	cat   string
	input string
	msg   string
}

type vc15Agg struct {
	count map[string]int
	best  map[string][]vc15Fail
}

func vc15NewAgg() *vc15Agg {
	return &vc15Agg{count: map[string]int{}, best: map[string][]vc15Fail{}}
}

func vc15Less(a, b vc15Fail) bool {
	if len(a.input) != len(b.input) {
		return len(a.input) < len(b.input)
	}
	if a.input != b.input {
		return a.input < b.input
	}
	return a.msg < b.msg
}

func (g *vc15Agg) add(f vc15Fail) {
	g.count[f.cat]++
	g.insert(f)
}

func (g *vc15Agg) insert(f vc15Fail) {
	l := g.best[f.cat]
	for _, x := range l {
		if x.input == f.input && x.msg == f.msg {
			return
		}
	}
	l = append(l, f)
	sort.Slice(l, func(i, j int) bool { return vc15Less(l[i], l[j]) })
	if len(l) > 3 {
		l = l[:3]
	}
	g.best[f.cat] = l
}

func (g *vc15Agg) merge(o *vc15Agg) {
	for c, n := range o.count {
		g.count[c] += n
	}
	for _, l := range o.best {
		for _, f := range l {
			g.insert(f)
		}
	}
}

func (g *vc15Agg) messages() (msgs []string, total int) {
	cats := []string{}
	for c, n := range g.count {
		cats = append(cats, c)
		total += n
	}
	sort.Strings(cats)
	for _, c := range cats {
		for _, f := range g.best[c] {
			if len(msgs) < 25 {
				msgs = append(msgs, fmt.Sprintf("[%s] %s : %s", c, strconv.Quote(f.input), f.msg))
			}
		}
	}
	return msgs, total
}

func vc15Env() (tier string, seed int64) {
	tier = os.Getenv("VERIF_TIER")
	if tier != "thorough" {
		tier = "quick"
	}
	seed = 1
	if v := os.Getenv("VERIF_SEED"); v != "" {
		if n, err := strconv.ParseInt(v, 10, 64); err == nil {
			seed = n
		}
	}
	return tier, seed
}

func vc15Site() string {
	pcs := make([]uintptr, 64)
	n := runtime.Callers(3, pcs)
	frames := runtime.CallersFrames(pcs[:n])
	for {
		fr, more := frames.Next()
		fn := fr.Function
		if strings.Contains(fn, "go-lucene") && !strings.Contains(fn, "vc15") && !strings.Contains(fn, "TestVerif") {
			if i := strings.LastIndex(fn, "/"); i >= 0 {
				fn = fn[i+1:]
			}
			var b strings.Builder
			dash := false
			for _, r := range strings.ToLower(fn) {
				if (r >= 'a' && r <= 'z') || (r >= '0' && r <= '9') {
					b.WriteRune(r)
					dash = false
				} else if !dash && b.Len() > 0 {
					b.WriteByte('-')
					dash = true
				}
			}
			return strings.Trim(b.String(), "-")
		}
		if !more {
			return "unknown-site"
		}
	}
}

func vc15Guard(f func()) (site, text string) {
	defer func() {
		if r := recover(); r != nil {
			site = "in-" + vc15Site()
			text = fmt.Sprint(r)
		}
	}()
	f()
	return "", ""
}

// ---------------------------------------------------------------------------------------------
// the tree, walked by this file

var vc15AllOps = []expr.Operator{expr.And, expr.Or, expr.Equals, expr.Like, expr.Not, expr.Range, expr.Must, expr.MustNot,
	expr.Boost, expr.Fuzzy, expr.Literal, expr.Wild, expr.Regexp, expr.Greater, expr.Less, expr.GreaterEq, expr.LessEq, expr.In, expr.List}

func vc15IsLeafOp(o expr.Operator) bool {
	return o == expr.Literal || o == expr.Wild || o == expr.Regexp
}

// vc15Count counts the expression nodes of every operator.
func vc15Count(in any, c map[expr.Operator]int) {
	switch v := in.(type) {
	case *expr.Expression:
		if v == nil {
			return
		}
		c[v.Op]++
		vc15Count(v.Left, c)
		vc15Count(v.Right, c)
	case []*expr.Expression:
		for _, e := range v {
			vc15Count(e, c)
		}
	case *expr.RangeBoundary:
		if v != nil {
			vc15Count(v.Min, c)
			vc15Count(v.Max, c)
		}
	}
}

// ---------------------------------------------------------------------------------------------
// T1: unique-marker tracing

type vc15Call struct {
	op          expr.Operator
	left, right string
	ret         string
}

type vc15Tracer struct{ calls []vc15Call }

func (t *vc15Tracer) fn(op expr.Operator) driver.RenderFN {
	return func(left, right string) (string, error) {
		ret := fmt.Sprintf("@%d@", len(t.calls))
		t.calls = append(t.calls, vc15Call{op: op, left: left, right: right, ret: ret})
		return ret, nil
	}
}

func (t *vc15Tracer) fns() map[expr.Operator]driver.RenderFN {
	m := map[expr.Operator]driver.RenderFN{}
	for _, op := range vc15AllOps {
		m[op] = t.fn(op)
	}
	return m
}

var vc15Marker = regexp.MustCompile(`@[0-9]+@`)

// vc15AsMarker: arg must be one marker, wrapped in one pair of parentheses at most.
func vc15AsMarker(arg string) (idx int, ok bool) {
	if len(arg) >= 2 && arg[0] == '(' && arg[len(arg)-1] == ')' && vc15Marker.MatchString(arg[1:len(arg)-1]) && vc15Marker.FindString(arg[1:len(arg)-1]) == arg[1:len(arg)-1] {
		arg = arg[1 : len(arg)-1]
	}
	if vc15Marker.FindString(arg) != arg || arg == "" {
		return 0, false
	}
	n, err := strconv.Atoi(arg[1 : len(arg)-1])
	return n, err == nil
}

// vc15RawOK: the value of a leaf in SQL spelling - the text of the value, bare or in one pair of
// quotes ('..' with doubled single quotes, or ".." for a column).
func vc15RawOK(v any, arg string) bool {
	want := fmt.Sprint(v)
	if arg == want {
		return true
	}
	if len(arg) >= 2 && arg[0] == '\'' && arg[len(arg)-1] == '\'' {
		return strings.ReplaceAll(arg[1:len(arg)-1], "''", "'") == want
	}
	if len(arg) >= 2 && arg[0] == '"' && arg[len(arg)-1] == '"' {
		return arg[1:len(arg)-1] == want
	}
	return false
}

type vc15Verifier struct {
	calls []vc15Call
	used  []bool
	cat   string
	msg   string
}

func (v *vc15Verifier) fail(cat, format string, args ...any) {
	if v.cat == "" {
		v.cat, v.msg = cat, fmt.Sprintf(format, args...)
	}
}

// node verifies that arg is the rendering of the expression node n and returns the index of
// the call that rendered it (-1 on failure).
func (v *vc15Verifier) node(n *expr.Expression, arg, where string) int {
	if v.cat != "" {
		return -1
	}
	k, ok := vc15AsMarker(arg)
	if !ok || k >= len(v.calls) {
		v.fail("fold-args", "%s: expected the result of the call for the %v node (in parentheses at most), got %q", where, n.Op, arg)
		return -1
	}
	c := v.calls[k]
	if v.used[k] {
		v.fail("fold-call-count", "%s: the result of call #%d (%v) is used for two nodes", where, k, c.op)
		return -1
	}
	v.used[k] = true
	if c.op != n.Op {
		v.fail("fold-wrong-function", "%s: node has operator %v, but its rendering came from the function registered for %v", where, n.Op, c.op)
		return -1
	}
	child := func(in any, a, side string) {
		if v.cat != "" {
			return
		}
		w := where + "." + side
		switch x := in.(type) {
		case nil:
			if a != "" {
				v.fail("fold-args", "%s: node %v has no %s child, expected \"\", the function got %q", w, n.Op, side, a)
			}
		case *expr.Expression:
			j := v.node(x, a, w)
			if v.cat == "" && j >= k {
				v.fail("fold-not-bottom-up", "%s: child was rendered by call #%d, after its parent's call #%d", w, j, k)
			}
		case []*expr.Expression:
			ms := vc15Marker.FindAllString(a, -1)
			rest := vc15Marker.ReplaceAllString(a, "")
			if len(ms) != len(x) || strings.Trim(rest, ", ") != "" {
				v.fail("fold-args", "%s: expected the %d rendered list elements separated by commas, the function got %q", w, len(x), a)
				return
			}
			for i, el := range x {
				j := v.node(el, ms[i], fmt.Sprintf("%s[%d]", w, i))
				if v.cat == "" && j >= k {
					v.fail("fold-not-bottom-up", "%s[%d]: element was rendered by call #%d, after its parent's call #%d", w, i, j, k)
				}
			}
		case *expr.RangeBoundary:
			ms := vc15Marker.FindAllString(a, -1)
			rest := vc15Marker.ReplaceAllString(a, "")
			if len(ms) != 2 || strings.Trim(rest, "[](), ") != "" {
				v.fail("fold-args", "%s: expected the rendered minimum and maximum in brackets, the function got %q", w, a)
				return
			}
			for i, b := range []any{x.Min, x.Max} {
				be, isExpr := b.(*expr.Expression)
				if !isExpr {
					v.fail("fold-args", "%s: range bound %d is not an expression (%T)", w, i, b)
					return
				}
				j := v.node(be, ms[i], fmt.Sprintf("%s.bound%d", w, i))
				if v.cat == "" && j >= k {
					v.fail("fold-not-bottom-up", "%s.bound%d: bound was rendered by call #%d, after its parent's call #%d", w, i, j, k)
				}
			}
		default:
			// a raw value: only leaves carry one
			if !vc15RawOK(x, a) {
				v.fail("fold-leaf-serialization", "%s: leaf value %#v, the %v function got %q", w, x, n.Op, a)
			}
		}
	}
	child(n.Left, c.left, "left")
	child(n.Right, c.right, "right")
	return k
}

func vc15CheckTrace(e *expr.Expression, nodes int, fail func(cat, msg string)) (foldOK bool) {
	tr := &vc15Tracer{}
	b := driver.Base{RenderFNs: tr.fns()}
	var out string
	var err error
	if site, txt := vc15Guard(func() { out, err = b.Render(e) }); site != "" {
		fail("panic-render-"+site, "Render with a tracing map panicked: "+txt)
		return false
	}
	if err != nil {
		fail("fold-spurious-error", fmt.Sprintf("every operator has a function and none of them fails, expected Render to succeed, got error: %v", err))
		return false
	}
	v := &vc15Verifier{calls: tr.calls, used: make([]bool, len(tr.calls))}
	k := v.node(e, out, "root")
	if v.cat == "" && k != len(tr.calls)-1 {
		v.fail("fold-not-bottom-up", "the root was rendered by call #%d of %d, expected it to be the last call", k, len(tr.calls))
	}
	if v.cat == "" {
		for i, u := range v.used {
			if !u {
				v.fail("fold-call-count", "call #%d (%v function, left %q, right %q) does not belong to any node: the tree has %d nodes, %d calls were made",
					i, tr.calls[i].op, tr.calls[i].left, tr.calls[i].right, nodes, len(tr.calls))
				break
			}
		}
	}
	if v.cat == "" && len(tr.calls) != nodes {
		v.fail("fold-call-count", "the tree has %d nodes, %d calls were made", nodes, len(tr.calls))
	}
	if v.cat != "" {
		fail(v.cat, fmt.Sprintf("%s (output %q, %d calls)", v.msg, out, len(tr.calls)))
		return false
	}
	return true
}

// ---------------------------------------------------------------------------------------------
// T2 / T3: term-building functions, variants and removals

func vc15TermFn(name string) driver.RenderFN {
	return func(left, right string) (string, error) {
		return name + "<" + left + ";" + right + ">", nil
	}
}

func vc15TermMap() map[expr.Operator]driver.RenderFN {
	m := map[expr.Operator]driver.RenderFN{}
	for _, op := range vc15AllOps {
		m[op] = vc15TermFn("#" + op.String())
	}
	return m
}

func vc15Copy(m map[expr.Operator]driver.RenderFN) map[expr.Operator]driver.RenderFN {
	c := map[expr.Operator]driver.RenderFN{}
	for k, v := range m {
		c[k] = v
	}
	return c
}

func vc15Render(fns map[expr.Operator]driver.RenderFN, e *expr.Expression) (out string, err error, site, txt string) {
	site, txt = vc15Guard(func() { out, err = driver.Base{RenderFNs: fns}.Render(e) })
	return
}

// vc15Maps holds every stateless function map once (they are only read by Render); the spies
// count into the owner's array, so every worker owns one vc15Maps.
type vc15Maps struct {
	termBase    map[expr.Operator]driver.RenderFN
	termVariant map[expr.Operator]map[expr.Operator]driver.RenderFN
	termRemoved map[expr.Operator]map[expr.Operator]driver.RenderFN
	complete    map[expr.Operator]driver.RenderFN
	spies       map[expr.Operator]driver.RenderFN
	seen        map[expr.Operator]int
	over        map[expr.Operator]map[expr.Operator]driver.RenderFN
	removed     map[expr.Operator]map[expr.Operator]driver.RenderFN
	rot         int
}

func vc15NewMaps() *vc15Maps {
	m := &vc15Maps{
		termBase:    vc15TermMap(),
		termVariant: map[expr.Operator]map[expr.Operator]driver.RenderFN{},
		termRemoved: map[expr.Operator]map[expr.Operator]driver.RenderFN{},
		complete:    vc15Complete(),
		spies:       map[expr.Operator]driver.RenderFN{},
		seen:        map[expr.Operator]int{},
		over:        map[expr.Operator]map[expr.Operator]driver.RenderFN{},
		removed:     map[expr.Operator]map[expr.Operator]driver.RenderFN{},
	}
	for _, op := range vc15AllOps {
		v := vc15Copy(m.termBase)
		v[op] = vc15TermFn("#" + op.String() + "'")
		m.termVariant[op] = v
		r := vc15Copy(m.termBase)
		delete(r, op)
		m.termRemoved[op] = r

		op, f := op, m.complete[op]
		m.spies[op] = func(l, r string) (string, error) { m.seen[op]++; return f(l, r) }
		if !vc15IsLeafOp(op) {
			o := vc15Copy(m.complete)
			o[op] = func(l, r string) (string, error) {
				s, err := f(l, r)
				return "\u27e6" + s + "\u27e7", err
			}
			m.over[op] = o
		}
		rm := vc15Copy(m.complete)
		delete(rm, op)
		m.removed[op] = rm
	}
	return m
}

// opsToCheck: every operator that occurs in the tree plus two that do not (rotating), so that
// over the corpus every operator is also tried on trees that lack it.
func (m *vc15Maps) opsToCheck(counts map[expr.Operator]int) []expr.Operator {
	out := []expr.Operator{}
	absent := []expr.Operator{}
	for _, op := range vc15AllOps {
		if counts[op] > 0 {
			out = append(out, op)
		} else {
			absent = append(absent, op)
		}
	}
	for i := 0; i < 2 && len(absent) > 0; i++ {
		m.rot++
		out = append(out, absent[m.rot%len(absent)])
	}
	return out
}

func vc15CheckTerms(m *vc15Maps, e *expr.Expression, counts map[expr.Operator]int, ops []expr.Operator, foldOK bool, fail func(cat, msg string)) {
	outB, errB, site, txt := vc15Render(m.termBase, e)
	if site != "" {
		fail("panic-render-"+site, "Render with a term-building map panicked: "+txt)
		return
	}
	if errB != nil {
		fail("fold-spurious-error", fmt.Sprintf("every operator has a function and none of them fails, expected Render to succeed, got error: %v", errB))
		return
	}
	for _, op := range ops {
		// T2: replace the function of one operator
		name := "#" + op.String()
		outV, errV, site, txt := vc15Render(m.termVariant[op], e)
		if site != "" {
			fail("panic-render-"+site, "Render with a term-building map panicked: "+txt)
			return
		}
		if foldOK && (errV != nil || strings.ReplaceAll(outV, name+"'<", name+"<") != outB || strings.Count(outV, name+"'<") != counts[op]) {
			fail("override-not-local", fmt.Sprintf("replacing the %v function by one that writes %s' : expected the output to change at exactly the %d %v nodes; base %q, with override %q (err %v)",
				op, name, counts[op], op, outB, outV, errV))
		}

		// T3: remove the function of one operator
		outR, errR, site, txt := vc15Render(m.termRemoved[op], e)
		if site != "" {
			fail("panic-render-"+site, fmt.Sprintf("Render with the %v function removed panicked: %s", op, txt))
			return
		}
		if counts[op] > 0 {
			if errR == nil {
				fail("missing-function-no-error", fmt.Sprintf("the tree has %d %v nodes and no function is registered for %v: expected an error, got output %q", counts[op], op, op, outR))
			} else if outR != "" {
				fail("missing-function-partial-sql", fmt.Sprintf("no function is registered for %v: Render returned the error %q together with the partial output %q", op, errR, outR))
			}
		} else if errR != nil || outR != outB {
			fail("missing-function-spurious-effect", fmt.Sprintf("the tree has no %v node, removing that function should change nothing: expected %q, got %q (err %v)", op, outB, outR, errR))
		}
	}
}

// ---------------------------------------------------------------------------------------------
// T4: driver.Shared completed with functions for FUZZY and BOOST

func vc15Complete() map[expr.Operator]driver.RenderFN {
	m := vc15Copy(driver.Shared)
	m[expr.Fuzzy] = func(l, r string) (string, error) { return "FUZZY<" + l + ">", nil }
	m[expr.Boost] = func(l, r string) (string, error) { return "BOOST<" + l + ">", nil }
	return m
}

func vc15CheckShared(m *vc15Maps, e *expr.Expression, counts map[expr.Operator]int, ops []expr.Operator, foldOK bool, st *vc15Stats, fail func(cat, msg string)) {
	outP, errP, site, txt := vc15Render(m.complete, e)
	if site != "" {
		fail("panic-render-"+site, "Render with driver.Shared (+FUZZY, BOOST) panicked: "+txt)
		return
	}
	if errP != nil {
		// a Shared function refused a value (e.g. a comma in a range bound); nothing to compare
		st.sharedErr++
		return
	}

	// spies that behave like the original functions
	for op := range m.seen {
		delete(m.seen, op)
	}
	outS, errS, site, txt := vc15Render(m.spies, e)
	if site != "" {
		fail("panic-render-"+site, "Render with spies around driver.Shared panicked: "+txt)
		return
	}
	if foldOK && (errS != nil || outS != outP) {
		fail("shared-spy-changes-output", fmt.Sprintf("wrapping every Shared function in a pass-through spy: expected %q, got %q (err %v)", outP, outS, errS))
	}
	for _, op := range vc15AllOps {
		if foldOK && m.seen[op] != counts[op] {
			fail("shared-spy-call-count", fmt.Sprintf("the tree has %d %v nodes, the function registered for %v was called %d times", counts[op], op, op, m.seen[op]))
			break
		}
	}

	for _, op := range ops {
		// single-operator override (README: "swap out any that you want to").  Functions of
		// Shared that parse their operands only ever have leaves below them, so overrides of
		// non-leaf operators must show up verbatim.
		if foldOK && !vc15IsLeafOp(op) {
			outO, errO, site, txt := vc15Render(m.over[op], e)
			if site != "" {
				fail("panic-render-"+site, "Render with one Shared function overridden panicked: "+txt)
				return
			}
			stripped := strings.ReplaceAll(strings.ReplaceAll(outO, "\u27e6", ""), "\u27e7", "")
			if errO != nil || stripped != outP || strings.Count(outO, "\u27e6") != counts[op] {
				fail("shared-override-not-local", fmt.Sprintf("overriding Shared[%v] by a function that brackets its result: expected brackets at exactly the %d %v nodes of %q, got %q (err %v)",
					op, counts[op], op, outP, outO, errO))
			}
		}

		outR, errR, site, txt := vc15Render(m.removed[op], e)
		if site != "" {
			fail("panic-render-"+site, fmt.Sprintf("Render with Shared[%v] removed panicked: %s", op, txt))
			return
		}
		if counts[op] > 0 {
			if errR == nil {
				fail("missing-function-no-error", fmt.Sprintf("the tree has %d %v nodes and Shared minus %v has no function for them: expected an error, got output %q", counts[op], op, op, outR))
			} else if outR != "" {
				fail("missing-function-partial-sql", fmt.Sprintf("Shared minus %v: Render returned the error %q together with the partial output %q", op, errR, outR))
			}
		} else if errR != nil || outR != outP {
			fail("missing-function-spurious-effect", fmt.Sprintf("the tree has no %v node, removing Shared[%v] should change nothing: expected %q, got %q (err %v)", op, op, outP, outR, errR))
		}
	}
}

// ---------------------------------------------------------------------------------------------
// T5: the built-in postgres entry points on fuzzy / boost queries

func vc15CheckPostgres(q string, counts map[expr.Operator]int, st *vc15Stats, fail func(cat, msg string)) {
	if counts[expr.Fuzzy]+counts[expr.Boost] == 0 {
		return
	}
	st.fuzzyBoost++
	var s string
	var params []any
	var err error
	if site, txt := vc15Guard(func() { s, err = ToPostgres(q) }); site != "" {
		fail("panic-topostgres-"+site, "ToPostgres panicked: "+txt)
	} else if err == nil || s != "" {
		fail("topostgres-accepts-fuzzy-boost", fmt.Sprintf("the query has %d FUZZY and %d BOOST nodes, expected ToPostgres to fail without SQL, got %q (err %v)", counts[expr.Fuzzy], counts[expr.Boost], s, err))
	}
	if site, txt := vc15Guard(func() { s, params, err = ToParameterizedPostgres(q) }); site != "" {
		fail("panic-toparameterizedpostgres-"+site, "ToParameterizedPostgres panicked: "+txt)
	} else if err == nil || s != "" {
		fail("toparameterizedpostgres-accepts-fuzzy-boost", fmt.Sprintf("the query has %d FUZZY and %d BOOST nodes, expected ToParameterizedPostgres to fail without SQL, got %q %v (err %v)",
			counts[expr.Fuzzy], counts[expr.Boost], s, params, err))
	}
}

// ---------------------------------------------------------------------------------------------
// the enumerated trees

var vc15Atoms = []string{
	`b`, `7`, `-3`, `1.5`, `"x y"`, `w*`, `/re+/`, `héé`,
	`a:b`, `a:7`, `a:1.5`, `a:"x y"`, `a:""`, `a:w*`, `a:?x`, `a:/re+/`, `héé:"日本 語"`, `"a b":b`, `a:it\'s`,
	`a:>7`, `a:>=1.5`, `a:<b`, `a:<="x y"`, `a=b`,
	`a:[1 TO 5]`, `a:{1 TO 5}`, `a:[* TO 5]`, `a:{1.5 TO *}`, `a:[b TO "x y"]`, `a:{"" TO héé}`, `a:[1 TO 2.5}`,
	`a:(b OR 7)`, `a:(b OR "x y" OR 1.5)`, `a:(héé OR "")`, `a:(w* OR b)`, `a:(b)`,
}

var vc15CoreQuick = []string{`b`, `a:7`, `a:"x y"`, `a:w*`, `a:[1 TO *]`, `a:(b OR 7)`}
var vc15CoreThorough = []string{`b`, `a:7`, `a:"x y"`, `a:w*`, `a:[1 TO *]`, `a:(b OR 7)`, `a:>=1.5`, `a:/r/`, `a:{b TO "x y"}`, `héé:""`, `-3`}

var vc15Unary = []string{`NOT %s`, `+%s`, `-%s`, `%s~`, `%s~2`, `%s^`, `%s^1.5`, `(%s)`, `a:(%s)`}
var vc15Binary = []string{`%s AND %s`, `%s OR %s`, `%s %s`}

func vc15RandomQuery(r *rand.Rand, depth int) string {
	if depth == 0 || r.Intn(5) == 0 {
		return vc15Atoms[r.Intn(len(vc15Atoms))]
	}
	if r.Intn(2) == 0 {
		return fmt.Sprintf(vc15Unary[r.Intn(len(vc15Unary))], vc15RandomQuery(r, depth-1))
	}
	return fmt.Sprintf(vc15Binary[r.Intn(len(vc15Binary))], vc15RandomQuery(r, depth-1), vc15RandomQuery(r, depth-1))
}

// constructor-built trees (shapes the parser refuses, e.g. nested prefix operators)
type vc15Built struct {
	label string
	mk    func() *expr.Expression
}

func vc15BuiltTrees() []vc15Built {
	atoms := []vc15Built{
		{`Lit("b")`, func() *expr.Expression { return expr.Lit("b") }},
		{`Eq("a",7)`, func() *expr.Expression { return expr.Eq("a", 7) }},
		{`Eq("a",WILD("w*"))`, func() *expr.Expression { return expr.Eq("a", expr.WILD("w*")) }},
		{`Rang("a",1,"*",true)`, func() *expr.Expression { return expr.Rang("a", 1, "*", true) }},
		{`Rang("a","b","x y",false)`, func() *expr.Expression { return expr.Rang("a", "b", "x y", false) }},
		{`IN("a",LIST(Lit("x"),Lit(3)))`, func() *expr.Expression { return expr.IN("a", expr.LIST(expr.Lit("x"), expr.Lit(3))) }},
		{`LESSEQ("a",1.5)`, func() *expr.Expression { return expr.LESSEQ("a", 1.5) }},
	}
	type un struct {
		name string
		f    func(*expr.Expression) *expr.Expression
	}
	uns := []un{
		{"NOT", func(e *expr.Expression) *expr.Expression { return expr.NOT(e) }},
		{"MUST", func(e *expr.Expression) *expr.Expression { return expr.MUST(e) }},
		{"MUSTNOT", func(e *expr.Expression) *expr.Expression { return expr.MUSTNOT(e) }},
		{"BOOST2", func(e *expr.Expression) *expr.Expression { return expr.BOOST(e, 2.0) }},
		{"FUZZY", func(e *expr.Expression) *expr.Expression { return expr.FUZZY(e) }},
	}
	type bin struct {
		name string
		f    func(a, b *expr.Expression) *expr.Expression
	}
	bins := []bin{
		{"AND", func(a, b *expr.Expression) *expr.Expression { return expr.AND(a, b) }},
		{"OR", func(a, b *expr.Expression) *expr.Expression { return expr.OR(a, b) }},
	}
	level := func(prev, all []vc15Built, firstNew int) (out []vc15Built) {
		for _, a := range prev {
			a := a
			for _, u := range uns {
				u := u
				out = append(out, vc15Built{u.name + "(" + a.label + ")", func() *expr.Expression { return u.f(a.mk()) }})
			}
		}
		for i, a := range all {
			for j, b := range all {
				if i < firstNew && j < firstNew {
					continue
				}
				a, b := a, b
				for _, o := range bins {
					o := o
					out = append(out, vc15Built{o.name + "(" + a.label + "," + b.label + ")", func() *expr.Expression { return o.f(a.mk(), b.mk()) }})
				}
			}
		}
		return out
	}
	t1 := level(atoms, atoms, 0)
	le1 := append(append([]vc15Built{}, atoms...), t1...)
	t2 := level(t1, le1, len(atoms))
	return append(le1, t2...)
}

// ---------------------------------------------------------------------------------------------

type vc15Stats struct {
	accepted   int
	rejected   int
	nontrivial int
	fuzzyBoost int
	sharedErr  int
	ops        map[expr.Operator]int
}

func vc15CheckTree(m *vc15Maps, label string, e *expr.Expression, query string, st *vc15Stats, agg *vc15Agg) {
	fail := func(cat, msg string) { agg.add(vc15Fail{cat: cat, input: label, msg: msg}) }
	counts := map[expr.Operator]int{}
	vc15Count(e, counts)
	nodes := 0
	nonLeaf := 0
	for op, n := range counts {
		nodes += n
		st.ops[op] += n
		if !vc15IsLeafOp(op) {
			nonLeaf += n
		}
	}
	if nonLeaf > 0 {
		st.nontrivial++
	}
	// when the fold itself is wrong on this tree (T1), the override / spy comparisons would only
	// repeat that finding under other names; the removal checks are independent of it
	foldOK := vc15CheckTrace(e, nodes, fail)
	ops := m.opsToCheck(counts)
	vc15CheckTerms(m, e, counts, ops, foldOK, fail)
	vc15CheckShared(m, e, counts, ops, foldOK, st, fail)
	if query != "" {
		vc15CheckPostgres(query, counts, st, fail)
	}
}

func TestVerifStandin_C15(t *testing.T) {
	tier, seed := vc15Env()
	rep := vc15Report{Property: "C15", Tier: tier, Seed: seed, ByCategory: map[string]int{}, Failures: []string{}, Samples: []string{}}

	// ---- the corpus of queries (deterministic order, de-duplicated) ----
	queries := []string{}
	seen := map[string]struct{}{}
	add := func(q string) {
		if _, dup := seen[q]; dup {
			return
		}
		seen[q] = struct{}{}
		queries = append(queries, q)
	}
	phase := map[string]int{}
	n0 := 0
	mark := func(name string) { phase[name] = len(queries) - n0; n0 = len(queries) }

	for _, a := range vc15Atoms {
		add(a)
	}
	for _, a := range vc15Atoms {
		for _, u := range vc15Unary {
			add(fmt.Sprintf(u, a))
		}
	}
	for _, a := range vc15Atoms {
		for _, b := range vc15Atoms {
			for _, f := range vc15Binary {
				add(fmt.Sprintf(f, a, b))
			}
		}
	}
	mark("depth1")

	core := vc15CoreQuick
	if tier == "thorough" {
		core = vc15CoreThorough
	}
	t1 := []string{}
	for _, a := range core {
		for _, u := range vc15Unary {
			t1 = append(t1, fmt.Sprintf(u, a))
		}
	}
	for _, a := range core {
		for _, b := range core {
			for _, f := range vc15Binary {
				t1 = append(t1, fmt.Sprintf(f, a, b))
			}
		}
	}
	le1 := append(append([]string{}, core...), t1...)
	for _, a := range t1 {
		for _, u := range vc15Unary {
			add(fmt.Sprintf(u, a))
		}
	}
	for i, a := range le1 {
		for j, b := range le1 {
			if i < len(core) && j < len(core) {
				continue
			}
			for _, f := range vc15Binary {
				add(fmt.Sprintf(f, a, b))
			}
		}
	}
	mark("depth2")

	nRandom := 40000
	if tier == "thorough" {
		nRandom = 600000
	}
	rng := rand.New(rand.NewSource(seed))
	for i := 0; i < nRandom; i++ {
		q := vc15RandomQuery(rng, 3+rng.Intn(3))
		if len(q) <= 300 {
			add(q)
		}
	}
	mark("random")
	seen = nil

	built := vc15BuiltTrees()

	// ---- evaluate in parallel ----
	workers := runtime.NumCPU()
	if workers > 16 {
		workers = 16
	}
	aggs := make([]*vc15Agg, workers)
	stats := make([]*vc15Stats, workers)
	var wg sync.WaitGroup
	total := len(queries) + len(built)
	for w := 0; w < workers; w++ {
		aggs[w], stats[w] = vc15NewAgg(), &vc15Stats{ops: map[expr.Operator]int{}}
		wg.Add(1)
		go func(w int) {
			defer wg.Done()
			maps := vc15NewMaps()
			for i := w; i < total; i += workers {
				if i < len(queries) {
					q := queries[i]
					var e *expr.Expression
					var err error
					if site, txt := vc15Guard(func() { e, err = Parse(q) }); site != "" {
						aggs[w].add(vc15Fail{cat: "panic-parse-" + site, input: q, msg: "Parse panicked: " + txt})
						continue
					}
					if err != nil || e == nil {
						stats[w].rejected++
						continue
					}
					stats[w].accepted++
					vc15CheckTree(maps, q, e, q, stats[w], aggs[w])
					continue
				}
				b := built[i-len(queries)]
				var e *expr.Expression
				if site, txt := vc15Guard(func() { e = b.mk() }); site != "" || e == nil {
					aggs[w].add(vc15Fail{cat: "harness-constructor", input: b.label, msg: "building the tree panicked: " + txt})
					continue
				}
				if expr.Validate(e) != nil {
					continue
				}
				vc15CheckTree(maps, b.label, e, "", stats[w], aggs[w])
			}
		}(w)
	}
	wg.Wait()

	agg := vc15NewAgg()
	sum := vc15Stats{ops: map[expr.Operator]int{}}
	for w := 0; w < workers; w++ {
		agg.merge(aggs[w])
		sum.accepted += stats[w].accepted
		sum.rejected += stats[w].rejected
		sum.nontrivial += stats[w].nontrivial
		sum.fuzzyBoost += stats[w].fuzzyBoost
		sum.sharedErr += stats[w].sharedErr
		for op, n := range stats[w].ops {
			sum.ops[op] += n
		}
	}
	cover := []string{}
	for _, op := range vc15AllOps {
		cover = append(cover, fmt.Sprintf("%s=%d", op, sum.ops[op]))
		if sum.ops[op] == 0 {
			agg.add(vc15Fail{cat: "harness-coverage", input: op.String(), msg: "no tree of the corpus has this operator"})
		}
	}

	rep.Evaluations = sum.accepted + len(built)
	rep.Distinct = sum.nontrivial
	rep.Bound = fmt.Sprintf("trees = Parse of the distinct queries of the grammar t ::= atom | NOT t | +t | -t | t~ | t~2 | t^ | t^1.5 | (t) | a:(t) | t AND t | t OR t | t t "+
		"(%d atoms: bare values, field:value, comparisons, inclusive/exclusive/open ranges, lists, wildcards, regexps, non-ASCII, escaped quote): "+
		"all atoms, all unary forms over all atoms, all binary forms over all pairs of atoms (%d queries); complete depth-2 closure over a %d-atom core (%d); %d seeded random derivations of depth 3-5 (%d distinct); "+
		"Parse accepted %d and rejected %d of them; plus %d trees built with the expr constructors (complete depth-2 closure of NOT/MUST/MUSTNOT/BOOST/FUZZY/AND/OR over 7 atoms, incl. nested prefix operators the parser refuses). "+
		"Per tree: 1 unique-marker tracing map (call log matched against the tree), the term-building map + its single-operator variant and its one-operator-removed map for every operator of the tree and two rotating absent ones, "+
		"driver.Shared+FUZZY+BOOST plain / with pass-through spies / bracket-override and removal for the same operators (skipped for %d trees on which a Shared function itself returns an error), "+
		"and ToPostgres + ToParameterizedPostgres on the %d accepted queries with a FUZZY or BOOST node. "+
		"evaluations = trees checked; distinct_nontrivial = trees with at least one non-leaf operator node. Node counts: %s",
		len(vc15Atoms), phase["depth1"], len(core), phase["depth2"], nRandom, phase["random"],
		sum.accepted, sum.rejected, len(built), sum.sharedErr, sum.fuzzyBoost, strings.Join(cover, " "))

	for i := 0; i < len(queries) && len(rep.Samples) < 8; i += len(queries)/7 + 1 {
		rep.Samples = append(rep.Samples, strconv.Quote(queries[i]))
	}
	rep.Samples = append(rep.Samples, strconv.Quote(built[len(built)-1].label))

	rep.Failures, rep.FailCount = agg.messages()
	if rep.Failures == nil {
		rep.Failures = []string{}
	}
	rep.ByCategory = agg.count

	if out := os.Getenv("VERIF_REPORT"); out != "" {
		b, _ := json.MarshalIndent(rep, "", " ")
		if err := os.WriteFile(out, b, 0o644); err != nil {
			t.Errorf("cannot write report: %v", err)
		}
	}
	for _, f := range rep.Failures {
		t.Errorf("C15 violated: %s", f)
	}
	t.Logf("C15 %s: %d trees (%d parsed + %d built), %d non-trivial, %d with fuzzy/boost, %d failures in %d categories",
		tier, rep.Evaluations, sum.accepted, len(built), rep.Distinct, sum.fuzzyBoost, rep.FailCount, len(rep.ByCategory))
}
