//go:build verif

package lucene

// Bounded stand-in / counterexample search for property C07.
// Juxtaposition means AND, with the precedence of AND.
// Injected into the repository root with `go test -overlay`; never written to /repo.
// Interface: /verif/harness/README.md (VERIF_TIER, VERIF_SEED, VERIF_REPORT).
//
// The oracle is the property statement: trees are built with the public
// constructors of pkg/lucene/expr, printed by a printer that knows only the
// documented precedence table (OR < AND < NOT < ^ < ~ < - < +, binary operators
// left-associative, field:value binds tightest), and compared with what Parse
// returns; relations between two Parse runs are used where the statement is one.
// Every failure is classified: it is attributed to a failing operand if there is
// one, otherwise minimised, and the tag names the minimal shape.  Failures of the
// current code are findings and are reported, never filtered.
// The common core at the end of the file is shared (as a copy with another
// identifier prefix) with the other parser stand-ins.

import (
	"encoding/json"
	"fmt"
	"hash/fnv"
	"math/rand"
	"os"
	"reflect"
	"runtime"
	"runtime/debug"
	"sort"
	"strconv"
	"strings"
	"sync"
	"sync/atomic"
	"testing"
	"time"

	"github.com/grindlemire/go-lucene/pkg/lucene/expr"
)

// ---------------------------------------------------------------------------
// C07: every subset of the eligible AND nodes of a tree is written as
// juxtaposition; the parse must have the same outcome as the parse of the text
// with every AND written out.
// ---------------------------------------------------------------------------

type vc07Gap struct {
	idx        int // preorder index of the AND node
	n, parent  *vc07node
	leftEnd    vc07tok // last token of the left operand as printed
	rightStart vc07tok // first token of the right operand as printed
	eligible   bool
}

// vc07Ands lists the AND nodes of n with the tokens on both sides of their gap.
func vc07Ands(n *vc07node) []vc07Gap {
	var out []vc07Gap
	vc07walk(n, func(idx int, x, parent *vc07node, _ int) {
		if x.kind == vc07And {
			out = append(out, vc07Gap{idx: idx, n: x, parent: parent})
		}
	})
	for i := range out {
		decor := make([]uint8, n.nodes)
		decor[out[i].idx] = vc07dJuxt
		toks := vc07print(n, 0, decor)
		for j, t := range toks {
			if t.sp && j > 0 {
				out[i].leftEnd, out[i].rightStart = toks[j-1], t
			}
		}
		// `x^ y` / `x~ y` would make y the boost power / fuzzy distance: there the
		// two operands may not be written with only whitespace between them
		le := out[i].leftEnd
		out[i].eligible = !(le.k == 's' && (le.s == "^" || le.s == "~"))
	}
	return out
}

// vc07Pair parses the explicit and the juxtaposed text of (n, subset) and says whether the outcomes agree.
func vc07Pair(n *vc07node, set []int, df bool) (same bool, explicit, juxt string, re, rj vc07res) {
	decor := make([]uint8, n.nodes)
	for _, i := range set {
		decor[i] = vc07dJuxt
	}
	explicit = vc07join(vc07print(n, 0, nil), 0)
	juxt = vc07join(vc07print(n, 0, decor), 0)
	re, rj = vc07parse(explicit, df), vc07parse(juxt, df)
	return vc07sameOutcome(re, rj), explicit, juxt, re, rj
}

// vc07GapContext describes the tokens around a gap when they are not plain terms.
func vc07GapContext(a vc07Gap) (after, before string) {
	switch a.leftEnd.s {
	case ")":
		after = "-after-group"
	case "]", "}":
		after = "-after-range"
	}
	switch {
	case a.rightStart.s == "(":
		before = "-before-group"
	case a.rightStart.s == "+" || a.rightStart.s == "-" || (a.rightStart.k == 'k' && a.rightStart.s == "NOT"):
		before = "-before-prefix-operator"
	}
	return after, before
}

// vc07Classify names the root cause class of a failure with a single juxtaposed AND.
func vc07Classify(n *vc07node, a vc07Gap, df bool, budget *int) (cat, input, detail string) {
	_, explicit, juxt, re, rj := vc07Pair(n, []int{a.idx}, df)
	describe := func(explicit string, re, rj vc07res, df bool) string {
		opt := ""
		if df {
			opt = " (both parsed with a default field)"
		}
		return fmt.Sprintf("with AND written out %s gives %s, but juxtaposed gives %s%s", strconv.Quote(explicit), re.String(), rj.String(), opt)
	}
	if re.panic != "" || rj.panic != "" {
		return "panic", juxt, describe(explicit, re, rj, df)
	}
	after, before := vc07GapContext(a)
	if re.ok() && !rj.ok() && after+before != "" {
		// the gap is next to a bracket or a prefix operator: the context is the category
		return "juxtaposition-rejected" + after + before, juxt, describe(explicit, re, rj, df)
	}
	suffix := ""
	if df {
		if same, _, _, _, _ := vc07Pair(n, []int{a.idx}, false); same {
			suffix = "-with-default-field"
		} else {
			df = false
			_, explicit, juxt, re, rj = vc07Pair(n, []int{a.idx}, false)
		}
	}
	// the smallest tree showing it: the AND node on its own, if that fails in the same way
	t, ta := n, a
	standalone := a.n == n
	if !standalone && *budget > 0 {
		for _, sa := range vc07Ands(a.n) {
			if sa.n == a.n {
				if same, e2, j2, re2, rj2 := vc07Pair(a.n, []int{sa.idx}, df); !same && re2.ok() == re.ok() && rj2.ok() == rj.ok() {
					t, ta, standalone = a.n, sa, true
					explicit, juxt, re, rj = e2, j2, re2, rj2
				}
				break
			}
		}
	}
	// reduce the operands to plain terms where they do not matter
	if *budget > 0 {
		*budget--
		g := vc07genericLeaves()
		try := func(p int) {
			t2 := vc07replaceAt(t, p, g[p%len(g)])
			for _, ga := range vc07Ands(t2) {
				if ga.idx != ta.idx {
					continue
				}
				if a2, b2 := vc07GapContext(ga); a2 != after || b2 != before || !ga.eligible {
					return
				}
				if same, e2, j2, re2, rj2 := vc07Pair(t2, []int{ga.idx}, df); !same && re2.ok() == re.ok() && rj2.ok() == rj.ok() {
					t, ta = t2, ga
					explicit, juxt, re, rj = e2, j2, re2, rj2
				}
			}
		}
		for round := 0; round < 3; round++ {
			l, r := ta.n.l, ta.n.r
			pl := ta.idx + 1
			pr := pl + l.nodes
			if !vc07isGeneric(r) {
				try(pr)
			}
			l, r = ta.n.l, ta.n.r
			if !vc07isGeneric(l) {
				try(pl)
			}
			l = ta.n.l
			if l.kind != vc07Leaf { // keep the operator of the left operand, simplify what it applies to
				if !vc07isGeneric(l.l) {
					try(pl + 1)
				}
				l = ta.n.l
				if l.r != nil && !vc07isGeneric(l.r) {
					try(pl + 1 + l.l.nodes)
				}
			}
			r = ta.n.r
			pr = ta.idx + 1 + ta.n.l.nodes
			if r.kind != vc07Leaf && !vc07isGeneric(r.l) {
				try(pr + 1)
			}
		}
	}
	L, R := vc07treeName(ta.n.l), vc07treeName(ta.n.r)
	switch {
	case re.ok() && !rj.ok():
		cat = "juxtaposition-rejected-after-" + L + "-before-" + R
	case !re.ok() && rj.ok():
		cat = "juxtaposition-accepted-where-and-rejected-after-" + L + "-before-" + R
	default:
		cat = "juxtaposition-regroups-after-" + L + "-before-" + R
	}
	if !standalone && a.parent != nil {
		side := "-left"
		if a.parent.r == a.n {
			side = "-right"
		}
		if a.parent.r == nil {
			side = ""
		}
		cat += "-inside-" + vc07opName(a.parent) + side
	}
	return cat + suffix, juxt, describe(explicit, re, rj, df)
}

func vc07CheckTree(n *vc07node, a *vc07agg, budget *int, wantSample bool) {
	ands := vc07Ands(n)
	elig := []vc07Gap{}
	for _, x := range ands {
		if x.eligible {
			elig = append(elig, x)
		}
	}
	if len(elig) == 0 {
		return
	}
	explicit := vc07join(vc07print(n, 0, nil), 0)
	re := [2]vc07res{vc07parse(explicit, false), vc07parse(explicit, true)}
	// subsets: all of them up to 6 eligible nodes, else singles, pairs and the full set
	var masks []uint
	k := len(elig)
	if k <= 6 {
		for m := uint(1); m < 1<<uint(k); m++ {
			masks = append(masks, m)
		}
		sort.Slice(masks, func(i, j int) bool { // singles first
			bi, bj := vc07Bits(masks[i]), vc07Bits(masks[j])
			if bi != bj {
				return bi < bj
			}
			return masks[i] < masks[j]
		})
	} else {
		if k > 60 {
			k = 60
		}
		for i := 0; i < k; i++ {
			masks = append(masks, 1<<uint(i))
		}
		for i := 0; i < k; i++ {
			for j := i + 1; j < k; j++ {
				masks = append(masks, 1<<uint(i)|1<<uint(j))
			}
		}
		masks = append(masks, 1<<uint(k)-1)
	}
	var singleCat [2]map[uint]string
	singleCat[0], singleCat[1] = map[uint]string{}, map[uint]string{}
	decor := make([]uint8, n.nodes)
	for _, m := range masks {
		for i := range decor {
			decor[i] = 0
		}
		for i := 0; i < k; i++ {
			if m&(1<<uint(i)) != 0 {
				decor[elig[i].idx] = vc07dJuxt
			}
		}
		juxt := vc07join(vc07print(n, 0, decor), 0)
		if wantSample && m == masks[len(masks)-1] {
			a.sample(juxt)
		}
		for d := 0; d < 2; d++ {
			a.evals++
			a.distinct++
			rj := vc07parse(juxt, d == 1)
			if vc07sameOutcome(re[d], rj) {
				continue
			}
			if vc07Bits(m) == 1 {
				var x vc07Gap
				for i := 0; i < k; i++ {
					if m == 1<<uint(i) {
						x = elig[i]
					}
				}
				if after, before := vc07GapContext(x); re[d].ok() && rj.panic == "" && after+before != "" {
					// rejected next to a bracket or a prefix operator: the context is the category
					cat := "juxtaposition-rejected" + after + before
					singleCat[d][m] = cat
					if len(juxt) <= 32 {
						opt := ""
						if d == 1 {
							opt = " (both parsed with a default field)"
						}
						a.fail(cat, juxt, fmt.Sprintf("with AND written out %s gives %s, but juxtaposed gives %s%s", strconv.Quote(explicit), re[d].String(), rj.String(), opt))
					} else {
						a.fail(cat, "", "")
					}
					continue
				}
				cat, input, detail := vc07Classify(n, x, d == 1, budget)
				singleCat[d][m] = cat
				a.fail(cat, input, detail)
				continue
			}
			// several gaps: attribute to a gap that fails on its own
			attributed := false
			for i := 0; i < k && !attributed; i++ {
				if c, ok := singleCat[d][m&(1<<uint(i))]; ok && m&(1<<uint(i)) != 0 {
					a.fail(c, "", "")
					attributed = true
				}
			}
			if !attributed {
				cat := "juxtaposition-combination"
				if rj.panic != "" {
					cat = "panic"
				}
				a.fail(cat, juxt, fmt.Sprintf("each gap alone agrees with the explicit AND, together: with AND written out %s gives %s, but juxtaposed gives %s (default field: %v)", strconv.Quote(explicit), re[d].String(), rj.String(), d == 1))
			}
		}
	}
}

func vc07Bits(m uint) int {
	c := 0
	for ; m != 0; m &= m - 1 {
		c++
	}
	return c
}

func vc07HasAnd(n *vc07node) bool {
	if n == nil {
		return false
	}
	return n.kind == vc07And || vc07HasAnd(n.l) || vc07HasAnd(n.r)
}

// vc07ChainOperands: operand shapes for the flat chains x1 . x2 . ... . xn
// (each . is AND, juxtaposition or OR).
func vc07ChainOperands(leaves []*vc07node) []*vc07node {
	byName := map[string]*vc07node{}
	for _, l := range leaves {
		byName[l.name] = l
	}
	ab, foo, rng, seven, list, quoted, wild := byName["eq-word"], byName["bare-word"], byName["range-incl-int"], byName["bare-int"], byName["list-words"], byName["bare-quoted"], byName["eq-wild"]
	return []*vc07node{
		ab, foo, rng, seven,
		vc07un(vc07Not, "", ab), vc07un(vc07Must, "", ab), vc07un(vc07MustNot, "", foo),
		vc07un(vc07Boost, "2", ab), vc07un(vc07Fuzzy, "2", foo), vc07un(vc07Fuzzy, "", ab),
		vc07bin(vc07Or, ab, foo), list, quoted, wild,
	}
}

func TestVerifStandin_C07(t *testing.T) {
	env := vc07getenv()
	total := vc07newAgg()
	leaves := vc07leaves()
	core, nSample, sampleDepth, chainLen, chainOps := 10, 60000, 2, 4, 10
	if env.thorough {
		core, nSample, sampleDepth, chainLen, chainOps = 24, 600000, 3, 5, 14
	}
	if s := os.Getenv("VERIF_C07_CORE"); s != "" {
		core, _ = strconv.Atoi(s)
	}

	// phase A: depth <= 1 over the full alphabet
	t1 := vc07nextLevel(leaves, leaves)
	var trees int64
	vc07parallel(env, total, len(t1), func(u int, a *vc07agg) {
		if n := t1[u]; vc07HasAnd(n) {
			b := 1 << 20
			vc07CheckTree(n, a, &b, u%211 == 0)
			atomic.AddInt64(&trees, 1)
		}
	})

	// phase B: depth 2 exhaustively over the first `core` leaves
	t1core := vc07nextLevel(leaves[:core], leaves[:core])
	vc07parallel(env, total, len(t1core), func(u int, a *vc07agg) {
		b := 400
		x := t1core[u]
		cnt := int64(0)
		if x.depth == 1 && vc07HasAnd(x) {
			for _, op := range vc07unops {
				vc07CheckTree(vc07un(op.kind, op.arg, x), a, &b, false)
				cnt++
			}
		}
		for yi, y := range t1core {
			if x.depth == 0 && y.depth == 0 {
				continue
			}
			for _, k := range []int{vc07And, vc07Or} {
				n := vc07bin(k, x, y)
				if vc07HasAnd(n) {
					vc07CheckTree(n, a, &b, u%53 == 7 && yi == (u*31)%len(t1core))
					cnt++
				}
			}
		}
		atomic.AddInt64(&trees, cnt)
	})

	// phase C: chains x1 . x2 . ... . xn with every . in {AND, OR} (left-associative, AND
	// binding tighter), every subset of the ANDs juxtaposed
	allOps := vc07ChainOperands(leaves)
	var chains int64
	for n := 3; n <= chainLen; n++ {
		nn := n
		ops := allOps[:chainOps]
		if nn >= 5 {
			ops = []*vc07node{allOps[0], allOps[1], allOps[2], allOps[4], allOps[5], allOps[6], allOps[7], allOps[10]}
		}
		combos := 1
		for i := 0; i < nn-1; i++ {
			combos *= len(ops)
		}
		vc07parallel(env, total, combos, func(u int, a *vc07agg) {
			b := 200
			idx := make([]int, nn)
			for i, r := 0, u; i < nn-1; i++ {
				idx[i] = r % len(ops)
				r /= len(ops)
			}
			cnt := int64(0)
			for last := 0; last < len(ops); last++ {
				idx[nn-1] = last
				for conn := 0; conn < 1<<uint(nn-1); conn++ { // bit i set: connector i is OR
					if conn == 1<<uint(nn-1)-1 {
						continue // no AND at all
					}
					// OR of AND-chains, both left-associative
					var orAcc, andAcc *vc07node
					for i := 0; i < nn; i++ {
						x := ops[idx[i]]
						if andAcc == nil {
							andAcc = x
						} else {
							andAcc = vc07bin(vc07And, andAcc, x)
						}
						if i == nn-1 || conn&(1<<uint(i)) != 0 {
							if orAcc == nil {
								orAcc = andAcc
							} else {
								orAcc = vc07bin(vc07Or, orAcc, andAcc)
							}
							andAcc = nil
						}
					}
					vc07CheckTree(orAcc, a, &b, u%101 == 3 && last == 1 && conn == 0)
					cnt++
				}
			}
			atomic.AddInt64(&chains, cnt)
		})
	}

	// phase D: seeded random deeper trees over the full alphabet
	const chunk = 1000
	vc07parallel(env, total, (nSample+chunk-1)/chunk, func(u int, a *vc07agg) {
		rng := rand.New(rand.NewSource(env.seed*1000003 + int64(u)))
		b := 100
		for i := 0; i < chunk && u*chunk+i < nSample; i++ {
			var n *vc07node
			for try := 0; try < 50; try++ {
				n = vc07randTree(rng, 1+rng.Intn(sampleDepth), t1)
				if n.depth >= 2 && n.nodes <= 40 && vc07HasAnd(n) {
					break
				}
			}
			if !vc07HasAnd(n) {
				continue
			}
			vc07CheckTree(n, a, &b, i == 0 && u%5 == 0)
		}
	})

	bound := fmt.Sprintf("expression trees as in C05 (OR, AND, NOT, ^, ~, -, + over a %d-leaf alphabet covering every leaf form and value kind) that contain an AND: "+
		"all of depth <= 1 over the full alphabet and all of depth 2 over the first %d leaves (%d trees); "+
		"%d flat chains of 3..%d operands from %d operand shapes (terms, NOT/+/- prefixed, ^/~ suffixed, range, group, list; 8 of them for 5 operands) with every AND/OR connector pattern; "+
		"%d seeded random trees of depth 2..%d; for each tree every non-empty subset of the eligible AND nodes (all but those whose left operand ends in a bare ^ or ~) is written as juxtaposition "+
		"(all subsets up to 6 nodes, beyond that singles, pairs and the full set), parsed without and with a default field and compared with the parse of the fully explicit text. "+
		"distinct_nontrivial = evaluations: every (tree, subset, option) gives a different input by construction.",
		len(leaves), core, trees, chains, chainLen, chainOps, nSample, sampleDepth+1)
	vc07finish(t, env, "C07", bound, total)
}

// ---------------------------------------------------------------------------
// Common core.  Every stand-in file is self-contained (it can be injected on its
// own) and carries its own copy of this section under its own identifier prefix,
// so that several stand-ins can also be compiled into one package.
// ---------------------------------------------------------------------------

// vc07DefaultField is a field name used nowhere else in the generated queries.
const vc07DefaultField = "dflt"

// ---- tokens and layout ----------------------------------------------------

// vc07tok is one token of query text as the printer emits it.
type vc07tok struct {
	s  string
	k  byte // 'w' word/number/wildcard, 'k' keyword, 'q' quoted string or regexp, 's' one-character symbol, 'm' the minus operator
	sp bool // canonical layout puts a space before this token (juxtaposition gap)
}

func vc07tw(s string) vc07tok { return vc07tok{s: s, k: 'w'} }
func vc07tk(s string) vc07tok { return vc07tok{s: s, k: 'k'} }
func vc07tq(s string) vc07tok { return vc07tok{s: s, k: 'q'} }
func vc07ts(s string) vc07tok {
	if s == "-" {
		return vc07tok{s: s, k: 'm'}
	}
	return vc07tok{s: s, k: 's'}
}

// vc07needSpace says whether whitespace between a and b is mandatory to keep them
// two tokens (conservative: only a gap with a one-character symbol on one side is
// ever written without whitespace; '-' glues to a preceding word and to a
// following digit).
func vc07needSpace(a, b vc07tok) bool {
	wordish := func(t vc07tok) bool { return t.k == 'w' || t.k == 'k' || t.k == 'q' }
	if wordish(a) && (wordish(b) || b.k == 'm') {
		return true
	}
	if a.k == 'm' && wordish(b) && b.s != "" && b.s[0] >= '0' && b.s[0] <= '9' {
		return true
	}
	return false
}

// vc07canonFill is the canonical layout: single spaces around keywords and in
// juxtaposition gaps, nothing around symbols, no leading/trailing whitespace.
// fill[i] is the text before token i, fill[len(toks)] the trailing text.
func vc07canonFill(toks []vc07tok) []string {
	fill := make([]string, len(toks)+1)
	for i := 1; i < len(toks); i++ {
		a, b := toks[i-1], toks[i]
		if a.k == 'k' || b.k == 'k' || b.sp || vc07needSpace(a, b) {
			fill[i] = " "
		}
	}
	return fill
}

// vc07tightFill has whitespace only where it is mandatory.
func vc07tightFill(toks []vc07tok) []string {
	fill := make([]string, len(toks)+1)
	for i := 1; i < len(toks); i++ {
		if vc07needSpace(toks[i-1], toks[i]) {
			fill[i] = " "
		}
	}
	return fill
}

var vc07looseCycle = []string{"  ", "\t", "\n", " \t ", "\r\n", " "}

// vc07looseFill puts (varying) whitespace into every gap, and before and after.
func vc07looseFill(toks []vc07tok) []string {
	fill := make([]string, len(toks)+1)
	for i := range fill {
		fill[i] = vc07looseCycle[i%len(vc07looseCycle)]
	}
	return fill
}

func vc07fill(toks []vc07tok, fill []string) string {
	var sb strings.Builder
	for i, t := range toks {
		sb.WriteString(fill[i])
		sb.WriteString(t.s)
	}
	sb.WriteString(fill[len(toks)])
	return sb.String()
}

// vc07join lays the tokens out: mode 0 canonical, 1 tight, 2 loose.
func vc07join(toks []vc07tok, mode int) string {
	switch mode {
	case 1:
		return vc07fill(toks, vc07tightFill(toks))
	case 2:
		return vc07fill(toks, vc07looseFill(toks))
	}
	return vc07fill(toks, vc07canonFill(toks))
}

// ---- expression trees of the property ---------------------------------------

const (
	vc07Leaf = iota
	vc07Or
	vc07And
	vc07Not
	vc07Boost
	vc07Fuzzy
	vc07MustNot
	vc07Must
)

// The documented table: OR < AND < NOT < ^ < ~ < - < + (< field:value and atoms).
var vc07precOf = [...]int{vc07Leaf: 9, vc07Or: 1, vc07And: 2, vc07Not: 3, vc07Boost: 4, vc07Fuzzy: 5, vc07MustNot: 6, vc07Must: 7}

var vc07kindName = [...]string{vc07Leaf: "term", vc07Or: "or", vc07And: "and", vc07Not: "not", vc07Boost: "boost", vc07Fuzzy: "fuzzy", vc07MustNot: "mustnot", vc07Must: "must"}

type vc07node struct {
	kind int
	l, r *vc07node
	arg  string // boost power / fuzzy distance as written; "" = left implicit
	// leaves
	name   string // unique, e.g. "eq-wild"
	form   string // bare, eq, cmp, range, list
	toks   []vc07tok
	vs, ve int // token span [vs,ve) of the field's value, vs<0: none
	mk     func() *expr.Expression
	// bookkeeping
	depth  int
	nodes  int
	status []string // per check variant, filled for shared (materialised) nodes: "" = holds, else failure category
}

func vc07un(kind int, arg string, x *vc07node) *vc07node {
	return &vc07node{kind: kind, arg: arg, l: x, depth: x.depth + 1, nodes: x.nodes + 1}
}

func vc07bin(kind int, a, b *vc07node) *vc07node {
	d := a.depth
	if b.depth > d {
		d = b.depth
	}
	return &vc07node{kind: kind, l: a, r: b, depth: d + 1, nodes: a.nodes + b.nodes + 1}
}

// vc07opName is the operator name used in category tags.
func vc07opName(n *vc07node) string {
	s := vc07kindName[n.kind]
	if n.kind == vc07Leaf {
		return n.name
	}
	if (n.kind == vc07Boost || n.kind == vc07Fuzzy) && n.arg == "" {
		s += "-default"
	} else if (n.kind == vc07Boost || n.kind == vc07Fuzzy) && n.arg != "2" {
		s += "-fractional"
	}
	return s
}

// vc07build is the oracle: the tree the text denotes, built with the public
// constructors only.
func vc07build(n *vc07node) *expr.Expression {
	switch n.kind {
	case vc07Leaf:
		return n.mk()
	case vc07Or:
		return expr.OR(vc07build(n.l), vc07build(n.r))
	case vc07And:
		return expr.AND(vc07build(n.l), vc07build(n.r))
	case vc07Not:
		return expr.NOT(vc07build(n.l))
	case vc07Must:
		return expr.MUST(vc07build(n.l))
	case vc07MustNot:
		return expr.MUSTNOT(vc07build(n.l))
	case vc07Boost:
		p := 1.0
		if n.arg != "" {
			p, _ = strconv.ParseFloat(n.arg, 64)
		}
		return expr.BOOST(vc07build(n.l), p)
	case vc07Fuzzy:
		d := 1
		if n.arg != "" {
			d, _ = strconv.Atoi(n.arg)
		}
		return expr.FUZZY(vc07build(n.l), d)
	}
	return nil
}

// decorations of a node, addressed by its preorder index in the tree
const (
	vc07dJuxt   = 1  // AND node: write no operator, only whitespace
	vc07dParen1 = 2  // one redundant pair of parentheses around the node
	vc07dParen2 = 4  // two more redundant pairs
	vc07dValue  = 8  // leaf: redundant parentheses around the field's value
	vc07dElems  = 16 // value-list leaf: redundant parentheses around every element (the operands of its ORs)
)

type vc07printer struct {
	pm       int     // 0 parentheses exactly where the table requires them, 1 also around every compound operand, 2 around every operand and the whole query
	decor    []uint8 // by preorder index, may be nil
	idx      int
	out      []vc07tok
	juxtNext bool
}

func (p *vc07printer) emit(t vc07tok) {
	if p.juxtNext {
		t.sp = true
		p.juxtNext = false
	}
	p.out = append(p.out, t)
}

// node prints n where an operand of at least precedence minPrec is required.
// Binary operators are left-associative: the right operand of an operator of
// precedence p must have precedence > p, the left one >= p.  A prefix or postfix
// operator of precedence p takes an operand of precedence >= p.
func (p *vc07printer) node(n *vc07node, minPrec int, operand bool) {
	var d uint8
	if p.decor != nil && p.idx < len(p.decor) {
		d = p.decor[p.idx]
	}
	p.idx++
	pairs := 0
	if vc07precOf[n.kind] < minPrec {
		pairs = 1
	}
	if pairs == 0 {
		if operand && (p.pm == 2 || (p.pm == 1 && n.kind != vc07Leaf)) {
			pairs = 1
		}
		if !operand && p.pm == 2 {
			pairs = 1
		}
	}
	if d&vc07dParen1 != 0 {
		pairs++
	}
	if d&vc07dParen2 != 0 {
		pairs += 2
	}
	for i := 0; i < pairs; i++ {
		p.emit(vc07ts("("))
	}
	pr := vc07precOf[n.kind]
	switch n.kind {
	case vc07Leaf:
		for i, t := range n.toks {
			if d&vc07dValue != 0 && i == n.vs {
				p.emit(vc07ts("("))
			}
			if elem := d&vc07dElems != 0 && n.form == "list" && i > 2 && i < len(n.toks)-1 && t.k != 'k'; elem {
				p.emit(vc07ts("("))
				p.emit(t)
				p.emit(vc07ts(")"))
			} else {
				p.emit(t)
			}
			if d&vc07dValue != 0 && i == n.ve-1 {
				p.emit(vc07ts(")"))
			}
		}
	case vc07Or, vc07And:
		p.node(n.l, pr, true)
		if n.kind == vc07And && d&vc07dJuxt != 0 {
			p.juxtNext = true
		} else if n.kind == vc07And {
			p.emit(vc07tk("AND"))
		} else {
			p.emit(vc07tk("OR"))
		}
		p.node(n.r, pr+1, true)
	case vc07Not:
		p.emit(vc07tk("NOT"))
		p.node(n.l, pr, true)
	case vc07Must:
		p.emit(vc07ts("+"))
		p.node(n.l, pr, true)
	case vc07MustNot:
		p.emit(vc07ts("-"))
		p.node(n.l, pr, true)
	case vc07Boost, vc07Fuzzy:
		p.node(n.l, pr, true)
		if n.kind == vc07Boost {
			p.emit(vc07ts("^"))
		} else {
			p.emit(vc07ts("~"))
		}
		if n.arg != "" {
			p.emit(vc07tw(n.arg))
		}
	}
	for i := 0; i < pairs; i++ {
		p.emit(vc07ts(")"))
	}
}

func vc07print(n *vc07node, pm int, decor []uint8) []vc07tok {
	p := vc07printer{pm: pm, decor: decor, out: make([]vc07tok, 0, 4*n.nodes+8)}
	p.node(n, 0, false)
	return p.out
}

// vc07walk visits the nodes in the printer's preorder; side: 0 root, 1 left/only operand, 2 right operand.
func vc07walk(n *vc07node, f func(idx int, n, parent *vc07node, side int)) {
	idx := 0
	var rec func(n, parent *vc07node, side int)
	rec = func(n, parent *vc07node, side int) {
		f(idx, n, parent, side)
		idx++
		if n.l != nil {
			rec(n.l, n, 1)
		}
		if n.r != nil {
			rec(n.r, n, 2)
		}
	}
	rec(n, nil, 0)
}

// ---- leaf alphabet ----------------------------------------------------------

func vc07leafBare(name string, t vc07tok, mk func() *expr.Expression) *vc07node {
	return &vc07node{kind: vc07Leaf, name: "bare-" + name, form: "bare", toks: []vc07tok{t}, vs: -1, ve: -1, mk: mk, nodes: 1}
}

func vc07leafEq(name string, field, val vc07tok, mk func() *expr.Expression) *vc07node {
	return &vc07node{kind: vc07Leaf, name: "eq-" + name, form: "eq", toks: []vc07tok{field, vc07ts(":"), val}, vs: 2, ve: 3, mk: mk, nodes: 1}
}

func vc07leafCmp(name string, op string, val vc07tok, mk func() *expr.Expression) *vc07node {
	toks := []vc07tok{vc07tw("a"), vc07ts(":")}
	for _, c := range op {
		toks = append(toks, vc07ts(string(c)))
	}
	toks = append(toks, val)
	return &vc07node{kind: vc07Leaf, name: "cmp-" + name, form: "cmp", toks: toks, vs: len(toks) - 1, ve: len(toks), mk: mk, nodes: 1}
}

func vc07leafRange(name string, open string, lo, hi vc07tok, mk func() *expr.Expression) *vc07node {
	cl := "]"
	if open == "{" {
		cl = "}"
	}
	toks := []vc07tok{vc07tw("a"), vc07ts(":"), vc07ts(open), lo, vc07tk("TO"), hi, vc07ts(cl)}
	return &vc07node{kind: vc07Leaf, name: "range-" + name, form: "range", toks: toks, vs: 2, ve: 7, mk: mk, nodes: 1}
}

func vc07leafList(name string, vals []vc07tok, mk func() *expr.Expression) *vc07node {
	toks := []vc07tok{vc07tw("a"), vc07ts(":"), vc07ts("(")}
	for i, v := range vals {
		if i > 0 {
			toks = append(toks, vc07tk("OR"))
		}
		toks = append(toks, v)
	}
	toks = append(toks, vc07ts(")"))
	return &vc07node{kind: vc07Leaf, name: "list-" + name, form: "list", toks: toks, vs: 2, ve: len(toks), mk: mk, nodes: 1}
}

// vc07leaves returns the leaf alphabet: every leaf form (bare term, field:value,
// comparison, range, value list) and every value kind (word, quoted string, int,
// float, negative number, wildcard, regexp, escaped word).  The first `core`
// leaves of the result (ordered so that every form comes early) make up the
// reduced alphabets.
func vc07leaves() []*vc07node {
	L, W, R := expr.Lit, expr.WILD, expr.REGEXP
	col := func(s string) *expr.Expression { return expr.Lit(s) } // the constructors turn a string on the left of a field operator into a column
	ls := []*vc07node{
		// one of each form first
		vc07leafEq("word", vc07tw("a"), vc07tw("b"), func() *expr.Expression { return expr.Eq(col("a"), L("b")) }),
		vc07leafBare("word", vc07tw("foo"), func() *expr.Expression { return L("foo") }),
		vc07leafRange("incl-int", "[", vc07tw("1"), vc07tw("5"), func() *expr.Expression { return expr.Rang(col("a"), L(1), L(5), true) }),
		vc07leafCmp("ge-int", ">=", vc07tw("5"), func() *expr.Expression { return expr.GREATEREQ(col("a"), L(5)) }),
		vc07leafList("words", []vc07tok{vc07tw("foo"), vc07tw("bar")}, func() *expr.Expression { return expr.IN(col("a"), expr.LIST(L("foo"), L("bar"))) }),
		vc07leafBare("int", vc07tw("7"), func() *expr.Expression { return L(7) }),
		vc07leafEq("wild", vc07tw("a"), vc07tw("w*"), func() *expr.Expression { return expr.Eq(col("a"), W("w*")) }),
		vc07leafBare("quoted", vc07tq(`"q r"`), func() *expr.Expression { return L("q r") }),
		// 8 so far
		vc07leafRange("excl-open", "{", vc07tw("2"), vc07tw("*"), func() *expr.Expression { return expr.Rang(col("a"), L(2), W("*"), false) }),
		vc07leafBare("neg", vc07tw("-3"), func() *expr.Expression { return L(-3) }),
		vc07leafEq("quoted", vc07tw("c"), vc07tq(`"q r"`), func() *expr.Expression { return expr.Eq(col("c"), L("q r")) }),
		vc07leafCmp("lt-float", "<", vc07tw("1.5"), func() *expr.Expression { return expr.LESS(col("a"), L(1.5)) }),
		vc07leafBare("wild", vc07tw("w*"), func() *expr.Expression { return W("w*") }),
		vc07leafEq("regexp", vc07tw("a"), vc07tq(`/r.x/`), func() *expr.Expression { return expr.Eq(col("a"), R("/r.x/")) }),
		vc07leafList("ints3", []vc07tok{vc07tw("1"), vc07tw("2"), vc07tw("3")}, func() *expr.Expression { return expr.IN(col("a"), expr.LIST(L(1), L(2), L(3))) }),
		vc07leafBare("float", vc07tw("1.5"), func() *expr.Expression { return L(1.5) }),
		// 16 so far
		vc07leafEq("int", vc07tw("n"), vc07tw("7"), func() *expr.Expression { return expr.Eq(col("n"), L(7)) }),
		vc07leafCmp("gt-word", ">", vc07tw("foo"), func() *expr.Expression { return expr.GREATER(col("a"), L("foo")) }),
		vc07leafRange("incl-words", "[", vc07tw("foo"), vc07tw("zed"), func() *expr.Expression { return expr.Rang(col("a"), L("foo"), L("zed"), true) }),
		vc07leafBare("regexp", vc07tq(`/r.x/`), func() *expr.Expression { return R("/r.x/") }),
		vc07leafEq("quoted-field", vc07tq(`"x y"`), vc07tw("b"), func() *expr.Expression { return expr.Eq(col("x y"), L("b")) }),
		vc07leafCmp("le-neg", "<=", vc07tw("-3"), func() *expr.Expression { return expr.LESSEQ(col("a"), L(-3)) }),
		vc07leafBare("keywordish", vc07tw("andy"), func() *expr.Expression { return L("andy") }),
		vc07leafRange("excl-quoted", "{", vc07tq(`"ab"`), vc07tq(`"az"`), func() *expr.Expression { return expr.Rang(col("a"), L("ab"), L("az"), false) }),
		// 24 so far
		vc07leafEq("neg", vc07tw("a"), vc07tw("-3"), func() *expr.Expression { return expr.Eq(col("a"), L(-3)) }),
		vc07leafEq("float", vc07tw("a"), vc07tw("1.5"), func() *expr.Expression { return expr.Eq(col("a"), L(1.5)) }),
		vc07leafEq("keywordish", vc07tw("nota"), vc07tw("ORB"), func() *expr.Expression { return expr.Eq(col("nota"), L("ORB")) }),
		vc07leafEq("wild-q", vc07tw("f_1"), vc07tw("?x"), func() *expr.Expression { return expr.Eq(col("f_1"), W("?x")) }),
		vc07leafBare("escaped", vc07tw(`b\:c`), func() *expr.Expression { return L("b:c") }),
		vc07leafBare("quoted-ops", vc07tq(`"x OR (y"`), func() *expr.Expression { return L("x OR (y") }),
		vc07leafBare("wild-q", vc07tw("?x"), func() *expr.Expression { return W("?x") }),
		vc07leafCmp("gt-int", ">", vc07tw("5"), func() *expr.Expression { return expr.GREATER(col("a"), L(5)) }),
		vc07leafCmp("lt-int", "<", vc07tw("5"), func() *expr.Expression { return expr.LESS(col("a"), L(5)) }),
		vc07leafCmp("le-int", "<=", vc07tw("5"), func() *expr.Expression { return expr.LESSEQ(col("a"), L(5)) }),
		vc07leafCmp("ge-quoted", ">=", vc07tq(`"q r"`), func() *expr.Expression { return expr.GREATEREQ(col("a"), L("q r")) }),
		vc07leafRange("excl-int", "{", vc07tw("1"), vc07tw("5"), func() *expr.Expression { return expr.Rang(col("a"), L(1), L(5), false) }),
		vc07leafRange("incl-open-lo", "[", vc07tw("*"), vc07tw("5"), func() *expr.Expression { return expr.Rang(col("a"), W("*"), L(5), true) }),
		vc07leafRange("incl-float", "[", vc07tw("1.5"), vc07tw("2.5"), func() *expr.Expression { return expr.Rang(col("a"), L(1.5), L(2.5), true) }),
		vc07leafRange("incl-neg", "[", vc07tw("-5"), vc07tw("-1"), func() *expr.Expression { return expr.Rang(col("a"), L(-5), L(-1), true) }),
		vc07leafList("mixed", []vc07tok{vc07tq(`"q r"`), vc07tw("x"), vc07tw("1.5")}, func() *expr.Expression { return expr.IN(col("a"), expr.LIST(L("q r"), L("x"), L(1.5))) }),
	}
	return ls
}

// generic field:value leaves used to test whether a failure depends on the leaves at all
func vc07genericLeaves() []*vc07node {
	mk := func(f, v string) *vc07node {
		return vc07leafEq("generic", vc07tw(f), vc07tw(v), func() *expr.Expression { return expr.Eq(expr.Lit(f), expr.Lit(v)) })
	}
	return []*vc07node{mk("a", "b"), mk("c", "d"), mk("e", "f"), mk("g", "h"), mk("i", "j"), mk("k", "l"), mk("m", "n"), mk("o", "p")}
}

// vc07generic replaces the leaves of n by generic ones (cyclically).
func vc07generic(n *vc07node) *vc07node {
	g := vc07genericLeaves()
	i := 0
	var rec func(n *vc07node) *vc07node
	rec = func(n *vc07node) *vc07node {
		if n.kind == vc07Leaf {
			x := g[i%len(g)]
			i++
			return x
		}
		c := *n
		c.status = nil
		c.l = rec(n.l)
		if n.r != nil {
			c.r = rec(n.r)
		}
		return &c
	}
	return rec(n)
}

func vc07isGeneric(n *vc07node) bool { return n.kind == vc07Leaf && n.name == "eq-generic" }

// vc07replaceAt returns a copy of n in which the subtree at preorder index p is r.
func vc07replaceAt(n *vc07node, p int, r *vc07node) *vc07node {
	idx := 0
	var rec func(x *vc07node) *vc07node
	rec = func(x *vc07node) *vc07node {
		i := idx
		idx++
		if i == p {
			idx += x.nodes - 1
			return r
		}
		if x.kind == vc07Leaf {
			return x
		}
		c := *x
		c.status = nil
		c.l = rec(x.l)
		c.depth, c.nodes = c.l.depth+1, c.l.nodes+1
		if x.r != nil {
			c.r = rec(x.r)
			c.nodes += c.r.nodes
			if c.r.depth+1 > c.depth {
				c.depth = c.r.depth + 1
			}
		}
		return &c
	}
	return rec(n)
}

// vc07shrink reduces a failing tree to a locally minimal failing one: subtrees are
// replaced by plain field:value terms or by one of their own operands, boost
// powers and fuzzy distances are normalised to 2, as long as fails() stays true.
func vc07shrink(n *vc07node, fails func(*vc07node) bool) *vc07node {
	g := vc07genericLeaves()
	for step := 0; step < 300; step++ {
		type pos struct {
			idx int
			x   *vc07node
		}
		var list []pos
		vc07walk(n, func(idx int, x, _ *vc07node, _ int) { list = append(list, pos{idx, x}) })
		progressed := false
	search:
		for _, p := range list {
			var cands []*vc07node
			if p.x.kind != vc07Leaf {
				cands = append(cands, p.x.l)
				if p.x.r != nil {
					cands = append(cands, p.x.r)
				}
			}
			if !vc07isGeneric(p.x) {
				cands = append(cands, g[p.idx%len(g)])
			}
			if (p.x.kind == vc07Boost || p.x.kind == vc07Fuzzy) && p.x.arg != "2" {
				c := *p.x
				c.arg, c.status = "2", nil
				cands = append(cands, &c)
			}
			for _, c := range cands {
				if t := vc07replaceAt(n, p.idx, c); fails(t) {
					n, progressed = t, true
					break search
				}
			}
		}
		if !progressed {
			break
		}
	}
	return n
}

// vc07treeName renders a (small) tree as a category tag: leaves that were
// replaceable by a plain term are "term", operators are named, operands follow "of".
func vc07treeName(n *vc07node) string {
	switch {
	case n.kind == vc07Leaf:
		if vc07isGeneric(n) {
			return "term"
		}
		return n.name
	case n.r == nil:
		return vc07opName(n) + "-of-" + vc07treeName(n.l)
	}
	return vc07opName(n) + "-of-" + vc07treeName(n.l) + "-and-" + vc07treeName(n.r)
}

// vc07shape is the two-level operator skeleton with leaf forms (cache key for classifications).
func vc07shape(n *vc07node) string {
	one := func(c *vc07node) string {
		if c == nil {
			return ""
		}
		if c.kind == vc07Leaf {
			return c.form
		}
		return vc07opName(c)
	}
	if n.kind == vc07Leaf {
		return n.name
	}
	return vc07opName(n) + "(" + one(n.l) + "," + one(n.r) + ")"
}

type vc07unop struct {
	kind int
	arg  string
}

var vc07unops = []vc07unop{{vc07Not, ""}, {vc07Must, ""}, {vc07MustNot, ""}, {vc07Boost, ""}, {vc07Boost, "2"}, {vc07Boost, "1.5"}, {vc07Fuzzy, ""}, {vc07Fuzzy, "2"}}

// vc07nextLevel materialises leaves ∪ unary(prev) ∪ binary(prev × prev).
func vc07nextLevel(leaves, prev []*vc07node) []*vc07node {
	out := append([]*vc07node{}, leaves...)
	for _, u := range vc07unops {
		for _, x := range prev {
			out = append(out, vc07un(u.kind, u.arg, x))
		}
	}
	for _, k := range []int{vc07And, vc07Or} {
		for _, a := range prev {
			for _, b := range prev {
				out = append(out, vc07bin(k, a, b))
			}
		}
	}
	return out
}

// vc07randTree draws a tree of depth <= depth; leaves and (shared) small subtrees come from pool.
func vc07randTree(rng *rand.Rand, depth int, pool []*vc07node) *vc07node {
	if depth <= 0 || rng.Intn(8) == 0 {
		return pool[rng.Intn(len(pool))]
	}
	switch r := rng.Intn(10); {
	case r < 5:
		k := vc07And
		if rng.Intn(5) < 2 {
			k = vc07Or
		}
		return vc07bin(k, vc07randTree(rng, depth-1, pool), vc07randTree(rng, depth-1, pool))
	default:
		u := vc07unops[rng.Intn(len(vc07unops))]
		return vc07un(u.kind, u.arg, vc07randTree(rng, depth-1, pool))
	}
}

// ---- running the parser -------------------------------------------------------

type vc07res struct {
	e     *expr.Expression
	err   error
	panic string
}

func vc07parse(q string, df bool) (r vc07res) {
	defer func() {
		if p := recover(); p != nil {
			r = vc07res{panic: fmt.Sprint(p)}
		}
	}()
	if df {
		r.e, r.err = Parse(q, WithDefaultField(vc07DefaultField))
	} else {
		r.e, r.err = Parse(q)
	}
	if r.err == nil && r.e == nil {
		r.err = fmt.Errorf("nil expression with nil error")
	}
	return r
}

func (r vc07res) ok() bool { return r.panic == "" && r.err == nil }

// vc07sameOutcome: both rejected, or both accepted with deep-equal trees.
func vc07sameOutcome(a, b vc07res) bool {
	if a.panic != "" || b.panic != "" {
		return false
	}
	if (a.err == nil) != (b.err == nil) {
		return false
	}
	return a.err != nil || vc07equal(a.e, b.e)
}

// vc07equal is reflect.DeepEqual specialised to expression trees (DeepEqual's
// bookkeeping dominates the run time otherwise); whenever it says "different"
// the callers confirm with reflect.DeepEqual, which remains the definition.
func vc07equalFast(a, b any) bool {
	switch x := a.(type) {
	case nil:
		return b == nil
	case *expr.Expression:
		y, ok := b.(*expr.Expression)
		if !ok {
			return false
		}
		if x == nil || y == nil {
			return x == y
		}
		cx, cy := *x, *y
		cx.Left, cx.Right, cy.Left, cy.Right = nil, nil, nil, nil
		if cx != cy { // operator, boost power, fuzzy distance
			return false
		}
		return vc07equalFast(x.Left, y.Left) && vc07equalFast(x.Right, y.Right)
	case []*expr.Expression:
		y, ok := b.([]*expr.Expression)
		if !ok || (x == nil) != (y == nil) || len(x) != len(y) {
			return false
		}
		for i := range x {
			if !vc07equalFast(x[i], y[i]) {
				return false
			}
		}
		return true
	case *expr.RangeBoundary:
		y, ok := b.(*expr.RangeBoundary)
		if !ok {
			return false
		}
		if x == nil || y == nil {
			return x == y
		}
		return x.Inclusive == y.Inclusive && vc07equalFast(x.Min, y.Min) && vc07equalFast(x.Max, y.Max)
	case string, int, float64, bool, expr.Column:
		return a == b
	}
	return reflect.DeepEqual(a, b)
}

func vc07equal(a, b *expr.Expression) bool {
	return vc07equalFast(a, b) || reflect.DeepEqual(a, b)
}

func (r vc07res) String() string {
	switch {
	case r.panic != "":
		return "PANIC " + r.panic
	case r.err != nil:
		return "error: " + r.err.Error()
	}
	return vc07show(r.e)
}

// vc07show prints a tree unambiguously without relying on the library's printers.
func vc07show(x any) (s string) {
	defer func() {
		if p := recover(); p != nil {
			s = fmt.Sprintf("<unprintable: %v>", p)
		}
	}()
	switch v := x.(type) {
	case nil:
		return "nil"
	case *expr.Expression:
		if v == nil {
			return "nil-expr"
		}
		op := v.Op.String()
		if op == "" {
			op = fmt.Sprintf("OP%d", int(v.Op))
		}
		extra := ""
		rv := reflect.ValueOf(v).Elem()
		if v.Op == expr.Boost {
			extra = fmt.Sprintf("^%v", rv.FieldByName("boostPower").Float())
		}
		if v.Op == expr.Fuzzy {
			extra = fmt.Sprintf("~%v", rv.FieldByName("fuzzyDistance").Int())
		}
		if v.Right == nil {
			return op + extra + "(" + vc07show(v.Left) + ")"
		}
		return op + extra + "(" + vc07show(v.Left) + ", " + vc07show(v.Right) + ")"
	case []*expr.Expression:
		parts := make([]string, len(v))
		for i, e := range v {
			parts[i] = vc07show(e)
		}
		return "[" + strings.Join(parts, ", ") + "]"
	case *expr.RangeBoundary:
		if v == nil {
			return "nil-boundary"
		}
		return fmt.Sprintf("{min %s, max %s, inclusive %v}", vc07show(v.Min), vc07show(v.Max), v.Inclusive)
	case expr.Column:
		return "col:" + strconv.Quote(string(v))
	case string:
		return strconv.Quote(v)
	}
	return fmt.Sprintf("%T:%v", x, x)
}

// vc07erase removes every `dflt:` scoping from a tree (copying, never mutating).
func vc07erase(x any) any {
	switch v := x.(type) {
	case *expr.Expression:
		if v == nil {
			return v
		}
		if v.Op == expr.Equals || v.Op == expr.Like {
			if l, ok := v.Left.(*expr.Expression); ok && l != nil && l.Op == expr.Literal {
				if c, ok := l.Left.(expr.Column); ok && string(c) == vc07DefaultField {
					return vc07erase(v.Right)
				}
			}
		}
		c := *v
		c.Left = vc07erase(v.Left)
		c.Right = vc07erase(v.Right)
		return &c
	case []*expr.Expression:
		out := make([]*expr.Expression, len(v))
		for i, e := range v {
			out[i], _ = vc07erase(e).(*expr.Expression)
		}
		return out
	case *expr.RangeBoundary:
		if v == nil {
			return v
		}
		c := *v
		c.Min = vc07erase(v.Min)
		c.Max = vc07erase(v.Max)
		return &c
	}
	return x
}

func vc07eraseRes(r vc07res) vc07res {
	if r.ok() {
		defer func() { recover() }()
		if e, ok := vc07erase(r.e).(*expr.Expression); ok {
			r.e = e
		}
	}
	return r
}

func vc07hash(s string) uint64 {
	h := fnv.New64a()
	h.Write([]byte(s))
	return h.Sum64()
}

// ---- aggregation, report ------------------------------------------------------

type vc07msg struct {
	input string
	text  string
}

type vc07cat struct {
	n    int64
	best []vc07msg // the (at most 3) smallest inputs
}

type vc07agg struct {
	evals    int64
	distinct int64
	skipped  int64
	cats     map[string]*vc07cat
	samples  []string
}

func vc07newAgg() *vc07agg { return &vc07agg{cats: map[string]*vc07cat{}} }

func vc07msgLess(a, b vc07msg) bool {
	if len(a.input) != len(b.input) {
		return len(a.input) < len(b.input)
	}
	if a.input != b.input {
		return a.input < b.input
	}
	return a.text < b.text
}

func (c *vc07cat) add(m vc07msg) {
	for i, o := range c.best {
		if o.input == m.input { // one message per input, the shorter one
			if len(m.text) < len(o.text) || (len(m.text) == len(o.text) && m.text < o.text) {
				c.best[i] = m
			}
			return
		}
	}
	c.best = append(c.best, m)
	sort.Slice(c.best, func(i, j int) bool { return vc07msgLess(c.best[i], c.best[j]) })
	if len(c.best) > 3 {
		c.best = c.best[:3]
	}
}

// fail counts one failing evaluation under cat; input/detail are recorded as a
// candidate message unless input is empty (failure attributed to a smaller input).
func (a *vc07agg) fail(cat, input, detail string) {
	c := a.cats[cat]
	if c == nil {
		c = &vc07cat{}
		a.cats[cat] = c
	}
	c.n++
	if input != "" || detail != "" {
		if len(detail) > 420 {
			detail = detail[:420] + "..."
		}
		c.add(vc07msg{input: input, text: fmt.Sprintf("[%s] %s : %s", cat, strconv.Quote(input), detail)})
	}
}

func (a *vc07agg) sample(s string) {
	if len(a.samples) < 4 {
		a.samples = append(a.samples, strconv.Quote(s))
	}
}

func (a *vc07agg) merge(b *vc07agg) {
	a.evals += b.evals
	a.distinct += b.distinct
	a.skipped += b.skipped
	for k, c := range b.cats {
		d := a.cats[k]
		if d == nil {
			d = &vc07cat{}
			a.cats[k] = d
		}
		d.n += c.n
		for _, m := range c.best {
			d.add(m)
		}
	}
	a.samples = append(a.samples, b.samples...)
}

type vc07report struct {
	Property   string           `json:"property"`
	Tier       string           `json:"tier"`
	Seed       int64            `json:"seed"`
	Evals      int64            `json:"evaluations"`
	Distinct   int64            `json:"distinct_nontrivial"`
	Bound      string           `json:"bound"`
	FailCount  int64            `json:"failure_count"`
	ByCategory map[string]int64 `json:"by_category"`
	Failures   []string         `json:"failures"`
	Samples    []string         `json:"samples"`
}

type vc07env struct {
	tier     string
	thorough bool
	seed     int64
	report   string
	deadline time.Time
	expired  int32
	oldGC    int
	oldLimit int64
}

func vc07getenv() *vc07env {
	e := &vc07env{tier: "quick", seed: 1, report: os.Getenv("VERIF_REPORT")}
	if os.Getenv("VERIF_TIER") == "thorough" {
		e.tier, e.thorough = "thorough", true
	}
	if s, err := strconv.ParseInt(os.Getenv("VERIF_SEED"), 10, 64); err == nil {
		e.seed = s
	}
	// the parser allocates heavily and the live heap is tiny: without this the
	// collector runs continuously and the 16 workers mostly wait for it
	e.oldGC = debug.SetGCPercent(-1)
	e.oldLimit = debug.SetMemoryLimit(3 << 30)
	// safety net only (go test itself gives up after 10 minutes): the domains are sized
	// for about 60 CPU-seconds (quick) and 25 CPU-minutes (thorough)
	if e.thorough {
		e.deadline = time.Now().Add(8 * time.Minute)
	} else {
		e.deadline = time.Now().Add(90 * time.Second)
	}
	return e
}

func (e *vc07env) timeUp() bool {
	if atomic.LoadInt32(&e.expired) != 0 {
		return true
	}
	if time.Now().After(e.deadline) {
		atomic.StoreInt32(&e.expired, 1)
		return true
	}
	return false
}

// vc07parallel runs fn(unit) for unit in [0,n) on all cores; every unit gets its
// own aggregate and the aggregates are merged in unit order (deterministic).
func vc07parallel(env *vc07env, total *vc07agg, n int, fn func(unit int, a *vc07agg)) {
	if n <= 0 {
		return
	}
	workers := runtime.NumCPU()
	if workers > n {
		workers = n
	}
	aggs := make([]*vc07agg, workers)
	var next int64 = -1
	var wg sync.WaitGroup
	for w := 0; w < workers; w++ {
		aggs[w] = vc07newAgg()
		wg.Add(1)
		go func(a *vc07agg) {
			defer wg.Done()
			for {
				u := int(atomic.AddInt64(&next, 1))
				if u >= n {
					return
				}
				if env.timeUp() {
					a.skipped++
					continue
				}
				func() {
					defer func() {
						if p := recover(); p != nil {
							a.fail("harness-panic", fmt.Sprintf("unit %d", u), fmt.Sprint(p))
						}
					}()
					fn(u, a)
				}()
			}
		}(aggs[w])
	}
	wg.Wait()
	for _, a := range aggs {
		// samples: keep deterministic order irrespective of scheduling
		sort.Strings(a.samples)
		total.merge(a)
	}
	sort.Strings(total.samples)
}

func vc07finish(t *testing.T, env *vc07env, property, bound string, total *vc07agg) {
	debug.SetGCPercent(env.oldGC)
	debug.SetMemoryLimit(env.oldLimit)
	rep := vc07report{Property: property, Tier: env.tier, Seed: env.seed, Evals: total.evals, Distinct: total.distinct,
		Bound: bound, ByCategory: map[string]int64{}, Failures: []string{}, Samples: []string{}}
	if total.skipped > 0 {
		rep.Bound += fmt.Sprintf(" -- TRUNCATED: %d work units skipped because the time budget ran out", total.skipped)
	}
	names := []string{}
	for k, c := range total.cats {
		rep.ByCategory[k] = c.n
		rep.FailCount += c.n
		names = append(names, k)
	}
	sort.Strings(names)
	for round := 0; round < 3; round++ {
		for _, k := range names {
			if b := total.cats[k].best; round < len(b) && len(rep.Failures) < 25 {
				rep.Failures = append(rep.Failures, b[round].text)
			}
		}
	}
	sort.Strings(rep.Failures)
	if len(total.samples) > 8 {
		step := len(total.samples) / 8
		s := []string{}
		for i := 0; i < len(total.samples) && len(s) < 8; i += step {
			s = append(s, total.samples[i])
		}
		total.samples = s
	}
	rep.Samples = append(rep.Samples, total.samples...)
	if env.report != "" {
		b, _ := json.MarshalIndent(rep, "", " ")
		if err := os.WriteFile(env.report, b, 0o644); err != nil {
			t.Errorf("cannot write report: %v", err)
		}
	}
	t.Logf("%s %s: %d evaluations, %d distinct non-trivial, %d failing in %d categories", property, env.tier, rep.Evals, rep.Distinct, rep.FailCount, len(names))
	for _, k := range names {
		t.Logf("  %-60s %d", "["+k+"]", total.cats[k].n)
	}
	for _, f := range rep.Failures {
		t.Errorf("%s violated: %s", property, f)
	}
	if rep.FailCount > 0 && len(rep.Failures) == 0 {
		t.Errorf("%s violated %d times (no message recorded)", property, rep.FailCount)
	}
}
