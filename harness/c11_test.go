//go:build verif

package lucene

// Bounded stand-in / counterexample search for property C11:
//
//	"A default field scopes bare terms and changes nothing else."
//
// Injected into the repository root with `go test -overlay`; never written to /repo.
//
// For every input q of the enumerated domain and every default-field name f of
// {"d", "my field", "d\"q"} (none of them occurs in any q) the statement is checked
// literally on Parse(q) and Parse(q, WithDefaultField(f)):
//
//   - one succeeds iff the other does;
//   - erasing every f: scoping from the second tree gives exactly the first tree
//     (operators, values with their types, fuzzy distances and boost powers included);
//   - no bare term remains in the second tree: a term standing alone as the whole
//     query or as an operand of AND, OR, NOT, +, -, ~, ^ (juxtaposition is AND) has
//     become f:term;
//   - explicitly fielded terms are never re-scoped: nothing on the value side of an
//     explicit field (field:value, field:(group), comparisons, ranges, value lists)
//     carries an f: scoping.
//
// The oracle is the statement; neither tree is taken as the expected value of the other
// beyond the erasure relation the statement itself defines.
//
// Interface: /verif/harness/README.md (VERIF_TIER, VERIF_SEED, VERIF_REPORT).  Extra knobs,
// not needed for normal runs: VERIF_INPUT=<input, Go-quoted or verbatim> replays the check
// on that single input; VERIF_C11_LEN / VERIF_C11_XLEN / VERIF_C11_RANDOM override the bounds.
// The test also runs a self-test of its own oracle on hand-built trees first.

import (
	"encoding/json"
	"fmt"
	"hash/fnv"
	"math"
	"math/rand"
	"os"
	"reflect"
	"runtime"
	"runtime/debug"
	"sort"
	"strconv"
	"strings"
	"sync"
	"testing"

	"github.com/grindlemire/go-lucene/internal/lex"
	"github.com/grindlemire/go-lucene/pkg/lucene/expr"
)

// ---- the alphabets ---------------------------------------------------------------------------

type vc11Sym struct {
	text string
	typ  lex.TokType
}

// vc11Main: every token type and every literal kind, one or two representatives each.
var vc11Main = []vc11Sym{
	{"a", lex.TLiteral}, {"b", lex.TLiteral}, {`"q r"`, lex.TQuoted}, {"7", lex.TLiteral},
	{"1.5", lex.TLiteral}, {"-3", lex.TLiteral}, {"w*", lex.TLiteral}, {"/r/", lex.TRegexp},
	{"AND", lex.TAnd}, {"OR", lex.TOr}, {"NOT", lex.TNot}, {"TO", lex.TTO},
	{"(", lex.TLParen}, {")", lex.TRParen}, {"[", lex.TLSquare}, {"]", lex.TRSquare},
	{"{", lex.TLCurly}, {"}", lex.TRCurly}, {":", lex.TColon}, {"=", lex.TEqual},
	{">", lex.TGreater}, {"<", lex.TLess}, {"+", lex.TPlus}, {"-", lex.TMinus},
	{"~", lex.TTilde}, {"^", lex.TCarrot},
}

// vc11Reduced: one representative per syntactic role (second word, float, negative
// number, curly brackets and '<' left out); enumerated one symbol longer than vc11Main.
var vc11Reduced = []vc11Sym{
	{"a", lex.TLiteral}, {`"q r"`, lex.TQuoted}, {"7", lex.TLiteral}, {"w*", lex.TLiteral}, {"/r/", lex.TRegexp},
	{"AND", lex.TAnd}, {"OR", lex.TOr}, {"NOT", lex.TNot}, {"TO", lex.TTO},
	{"(", lex.TLParen}, {")", lex.TRParen}, {"[", lex.TLSquare}, {"]", lex.TRSquare},
	{":", lex.TColon}, {"=", lex.TEqual}, {">", lex.TGreater}, {"+", lex.TPlus}, {"-", lex.TMinus},
	{"~", lex.TTilde}, {"^", lex.TCarrot},
}

// vc11Small: a still smaller sub-alphabet for the longest layer of the thorough tier.
var vc11Small = []vc11Sym{
	{"a", lex.TLiteral}, {"7", lex.TLiteral}, {"w*", lex.TLiteral},
	{"AND", lex.TAnd}, {"OR", lex.TOr}, {"NOT", lex.TNot}, {"TO", lex.TTO},
	{"(", lex.TLParen}, {")", lex.TRParen}, {"[", lex.TLSquare}, {"]", lex.TRSquare},
	{":", lex.TColon}, {"=", lex.TEqual}, {">", lex.TGreater}, {"+", lex.TPlus}, {"-", lex.TMinus},
	{"~", lex.TTilde}, {"^", lex.TCarrot},
}

// vc11Extra: further lexemes of the term classes (they behave like the terms above
// syntactically, so they are enumerated to a smaller length bound).
var vc11Extra = []vc11Sym{
	{"*", lex.TLiteral}, {`"q*"`, lex.TQuoted}, {`"/x/"`, lex.TQuoted}, {`'s t'`, lex.TQuoted},
	{`e\*`, lex.TLiteral}, {`x\:y`, lex.TLiteral}, {`p\\q`, lex.TLiteral}, {"inf", lex.TLiteral},
	{"nan", lex.TLiteral}, {"1e3", lex.TLiteral}, {`"7"`, lex.TQuoted}, {"-7.5", lex.TLiteral},
	{"été", lex.TLiteral},
}

// ---- the statement, on a pair of trees ----------------------------------------------------------------

// vc11Fields: the default-field names (a plain one, one needing quotes, one containing a quote).
var vc11Fields = []string{"d", "my field", `"d"q"`}

func vc11IsLeaf(e *expr.Expression) bool {
	return e != nil && (e.Op == expr.Literal || e.Op == expr.Wild || e.Op == expr.Regexp)
}

// vc11Scope: e is "f:term" as the default field produces it - an equality / pattern
// match whose field position holds the column f.
func vc11Scope(e *expr.Expression, f string) bool {
	if e == nil || (e.Op != expr.Equals && e.Op != expr.Like) {
		return false
	}
	l, ok := e.Left.(*expr.Expression)
	if !ok || l == nil || l.Op != expr.Literal || l.Right != nil {
		return false
	}
	switch v := l.Left.(type) {
	case expr.Column:
		return string(v) == f
	case string:
		return v == f
	}
	return false
}

// vc11Erase returns a copy of the tree with every f: scoping replaced by the scoped term.
func vc11Erase(x any, f string) any {
	switch v := x.(type) {
	case *expr.Expression:
		if v == nil {
			return v
		}
		if vc11Scope(v, f) {
			return vc11Erase(v.Right, f)
		}
		c := *v
		c.Left, c.Right = vc11Erase(v.Left, f), vc11Erase(v.Right, f)
		return &c
	case []*expr.Expression:
		out := make([]*expr.Expression, len(v))
		for i, it := range v {
			out[i], _ = vc11Erase(it, f).(*expr.Expression)
		}
		return out
	case *expr.RangeBoundary:
		if v == nil {
			return v
		}
		return &expr.RangeBoundary{Min: vc11Erase(v.Min, f), Max: vc11Erase(v.Max, f), Inclusive: v.Inclusive}
	}
	return x
}

func vc11Hidden(e *expr.Expression) (int64, float64) {
	v := reflect.ValueOf(e).Elem()
	return v.FieldByName("fuzzyDistance").Int(), v.FieldByName("boostPower").Float()
}

// vc11FirstDiff returns the first place (pre-order) where two trees differ.
func vc11FirstDiff(a, b any) (x, y any, differ bool) {
	switch va := a.(type) {
	case *expr.Expression:
		vb, ok := b.(*expr.Expression)
		if !ok || (va == nil) != (vb == nil) {
			return a, b, true
		}
		if va == nil {
			return nil, nil, false
		}
		da, pa := vc11Hidden(va)
		db, pb := vc11Hidden(vb)
		if va.Op != vb.Op || da != db || (pa != pb && !(math.IsNaN(pa) && math.IsNaN(pb))) {
			return a, b, true
		}
		if x, y, d := vc11FirstDiff(va.Left, vb.Left); d {
			return x, y, true
		}
		return vc11FirstDiff(va.Right, vb.Right)
	case []*expr.Expression:
		vb, ok := b.([]*expr.Expression)
		if !ok || len(va) != len(vb) {
			return a, b, true
		}
		for i := range va {
			if x, y, d := vc11FirstDiff(va[i], vb[i]); d {
				return x, y, true
			}
		}
		return nil, nil, false
	case *expr.RangeBoundary:
		vb, ok := b.(*expr.RangeBoundary)
		if !ok || (va == nil) != (vb == nil) {
			return a, b, true
		}
		if va == nil {
			return nil, nil, false
		}
		if va.Inclusive != vb.Inclusive {
			return a, b, true
		}
		if x, y, d := vc11FirstDiff(va.Min, vb.Min); d {
			return x, y, true
		}
		return vc11FirstDiff(va.Max, vb.Max)
	case float64:
		vb, ok := b.(float64)
		if ok && (va == vb || (math.IsNaN(va) && math.IsNaN(vb))) {
			return nil, nil, false
		}
		return a, b, true
	}
	if !reflect.DeepEqual(a, b) { // scalars: same dynamic type and value
		return a, b, true
	}
	return nil, nil, false
}

var vc11OperandCat = map[expr.Operator]string{
	expr.Must:    "unscoped-operand-of-plus",
	expr.MustNot: "unscoped-operand-of-minus",
	expr.Fuzzy:   "unscoped-operand-of-fuzzy",
	expr.Boost:   "unscoped-operand-of-boost",
}

// vc11Walk looks for bare terms (outside explicit fields) and for f: scopings on the
// value side of explicit fields.
func vc11Walk(x any, f string, parent expr.Operator, root, underField bool, out map[string]string) {
	note := func(cat, what string) {
		if _, have := out[cat]; !have {
			out[cat] = what
		}
	}
	switch v := x.(type) {
	case []*expr.Expression:
		for _, it := range v {
			vc11Walk(it, f, parent, false, underField, out)
		}
		return
	case *expr.RangeBoundary:
		if v != nil {
			vc11Walk(v.Min, f, parent, false, underField, out)
			vc11Walk(v.Max, f, parent, false, underField, out)
		}
		return
	}
	e, ok := x.(*expr.Expression)
	if !ok || e == nil {
		return
	}
	if vc11Scope(e, f) {
		if underField {
			note("term-under-explicit-field-rescoped", fmt.Sprintf("%s stands on the value side of an explicit field", vc11Show(e)))
		}
		return
	}
	if vc11IsLeaf(e) {
		if underField {
			return // scoped by the explicit field
		}
		where := "the whole query"
		if !root {
			where = "an operand of " + parent.String()
		}
		what := fmt.Sprintf("the term %s is %s and is not scoped", vc11Show(e), where)
		plain := e.Op == expr.Literal
		if c, special := vc11OperandCat[parent]; special && !root {
			note(c, what)
		} else if plain {
			note("unscoped-plain-term", what)
		}
		if !plain {
			note("unscoped-pattern-term", what)
		}
		return
	}
	switch e.Op {
	case expr.And, expr.Or, expr.Not, expr.Must, expr.MustNot, expr.Fuzzy, expr.Boost:
		vc11Walk(e.Left, f, e.Op, false, underField, out)
		vc11Walk(e.Right, f, e.Op, false, underField, out)
	case expr.Equals, expr.Like, expr.In, expr.Range, expr.Greater, expr.Less, expr.GreaterEq, expr.LessEq:
		vc11Walk(e.Right, f, e.Op, false, true, out)
	case expr.List:
		vc11Walk(e.Left, f, e.Op, false, underField, out)
	}
}

// vc11Judge: the statement for one accepted query; t0 = Parse(q), tf = Parse(q, WithDefaultField(f)).
func vc11Judge(t0, tf *expr.Expression, f string) map[string]string {
	out := map[string]string{}
	erased := vc11Erase(tf, f)
	if x, y, differ := vc11FirstDiff(t0, erased); differ {
		cat := "erasure-differs"
		ex, isX := x.(*expr.Expression)
		ey, isY := y.(*expr.Expression)
		switch {
		case isX && isY && ex != nil && ey != nil && ex.Op == expr.In && ey.Op == expr.Equals:
			cat = "value-list-lost"
		case isX && isY && ex != nil && ey != nil && ex.Op == expr.Literal && (ey.Op == expr.Wild || ey.Op == expr.Regexp) && reflect.DeepEqual(ex.Left, ey.Left):
			cat = "quoted-term-retyped-as-pattern"
		}
		out[cat] = fmt.Sprintf("erasing the scoping gives %s, which differs from the tree without the option at %s (there) vs %s (here)", vc11Show(erased), vc11Show(x), vc11Show(y))
	}
	vc11Walk(tf, f, expr.Undefined, true, false, out)
	return out
}

// vc11Show prints any tree part without trusting the printers.
func vc11Show(x any) (s string) {
	defer func() {
		if r := recover(); r != nil {
			s = fmt.Sprintf("<unprintable %T: %v>", x, r)
		}
	}()
	switch v := x.(type) {
	case *expr.RangeBoundary:
		if v == nil {
			return "<nil boundary>"
		}
		return fmt.Sprintf("[%s TO %s]", vc11Show(v.Min), vc11Show(v.Max))
	case []*expr.Expression:
		parts := []string{}
		for _, it := range v {
			parts = append(parts, vc11Show(it))
		}
		return "LIST(" + strings.Join(parts, ", ") + ")"
	case *expr.Expression:
		if v == nil {
			return "<nil expression>"
		}
	}
	return fmt.Sprintf("%#v", x)
}

// ---- running the library safely ------------------------------------------------------------------

func vc11Parse(in string, withField bool, f string) (e *expr.Expression, err error, pan string) {
	defer func() {
		if r := recover(); r != nil {
			pan = fmt.Sprint(r)
		}
	}()
	if withField {
		e, err = Parse(in, WithDefaultField(f))
	} else {
		e, err = Parse(in)
	}
	return
}

// vc11NTok: number of tokens the lexer finds in the input (size of a witness).
func vc11NTok(in string) (n int) {
	defer func() {
		if r := recover(); r != nil {
			n = len(in)
		}
	}()
	l := lex.Lex(in)
	for n <= len(in) {
		if t := l.Next(); t.Typ == lex.TEOF || t.Typ == lex.TErr {
			break
		}
		n++
	}
	return n
}

// ---- statistics -----------------------------------------------------------------------------------

type vc11Fail struct {
	ncat  int // number of deviations the input shows at once (single-cause witnesses first)
	ntok  int
	rnd   bool // found by random sampling (canonical enumerated inputs are preferred as witnesses)
	input string
	msg   string
}

func (a vc11Fail) less(b vc11Fail) bool {
	if a.ncat != b.ncat {
		return a.ncat < b.ncat
	}
	if a.ntok != b.ntok {
		return a.ntok < b.ntok
	}
	if a.rnd != b.rnd {
		return !a.rnd
	}
	if oa, ob := vc11Odd(a.input), vc11Odd(b.input); oa != ob {
		return oa < ob
	}
	if len(a.input) != len(b.input) {
		return len(a.input) < len(b.input)
	}
	if a.input != b.input {
		return a.input < b.input
	}
	return a.msg < b.msg
}

// vc11Odd counts the characters that make a witness harder to read (anything but the
// words a, b, the digit 7, keywords, blanks and operator characters).
func vc11Odd(in string) int {
	n := 0
	for _, r := range in {
		if !strings.ContainsRune("ab7 :()[]{}+-~^=<>", r) && !(r >= 'A' && r <= 'Z') {
			n++
		}
	}
	return n
}

type vc11Stats struct {
	evals, accepted int64
	rnd             bool
	byCat           map[string]int64
	best            map[string][]vc11Fail
}

func vc11NewStats() *vc11Stats {
	return &vc11Stats{byCat: map[string]int64{}, best: map[string][]vc11Fail{}}
}

// keep records f as a witness of cat if it is among the three smallest; the message is
// only built then (mk == nil: f.msg is already there).
func (s *vc11Stats) keep(cat string, f vc11Fail, mk func() string) {
	l := s.best[cat]
	for _, g := range l {
		if g.input == f.input { // one message per input and category
			return
		}
	}
	if len(l) == 3 && !f.less(l[2]) {
		return
	}
	if mk != nil {
		f.msg = mk()
	}
	l = append(l, f)
	sort.Slice(l, func(a, b int) bool { return l[a].less(l[b]) })
	if len(l) > 3 {
		l = l[:3]
	}
	s.best[cat] = l
}

func (s *vc11Stats) fail(cat string, ntok int, input string, mk func() string) {
	s.failN(cat, 1, ntok, input, mk)
}

func (s *vc11Stats) failN(cat string, ncat, ntok int, input string, mk func() string) {
	s.byCat[cat]++
	s.keep(cat, vc11Fail{ncat: ncat, ntok: ntok, rnd: s.rnd, input: input}, mk)
}

func (s *vc11Stats) merge(o *vc11Stats) {
	s.evals += o.evals
	s.accepted += o.accepted
	for c, n := range o.byCat {
		s.byCat[c] += n
	}
	for c, l := range o.best {
		for _, f := range l {
			s.keep(c, f, nil)
		}
	}
}

// vc11Check runs the statement of C11 on one input for every field name of fields.
// want (may be nil) is the symbol sequence the input was rendered from (size only).
func vc11Check(st *vc11Stats, in string, want []vc11Sym, fields []string) {
	q := strconv.Quote(in)
	size := len(want)
	if want == nil {
		size = vc11NTok(in)
	}
	t0, err0, pan0 := vc11Parse(in, false, "")
	if pan0 != "" {
		st.fail("panic", size, in, func() string { return fmt.Sprintf("[panic] %s : Parse without option panicked: %s", q, pan0) })
		return
	}
	ok0 := err0 == nil && t0 != nil
	accepted := ok0
	for _, f := range fields {
		st.evals++
		tf, errf, panf := vc11Parse(in, true, f)
		if panf != "" {
			st.fail("panic", size, in, func() string { return fmt.Sprintf("[panic] %s : Parse with default field %q panicked: %s", q, f, panf) })
			continue
		}
		okf := errf == nil && tf != nil
		accepted = accepted || okf
		switch {
		case ok0 && !okf:
			st.fail("accepted-only-without-default-field", size, in,
				func() string {
					return fmt.Sprintf("[accepted-only-without-default-field] %s : expected Parse with default field %q to succeed as it does without the option (%s), got error %q", q, f, vc11Show(t0), errf)
				})
		case !ok0 && okf:
			st.fail("accepted-only-with-default-field", size, in,
				func() string {
					return fmt.Sprintf("[accepted-only-with-default-field] %s : expected Parse with default field %q to fail as it does without the option (%q), got %s", q, f, err0, vc11Show(tf))
				})
		case ok0 && okf:
			bad := vc11Judge(t0, tf, f)
			for cat, what := range bad {
				st.failN(cat, len(bad), size, in,
					func() string {
						return fmt.Sprintf("[%s] %s : with default field %q Parse returned %s, without it %s; %s", cat, q, f, vc11Show(tf), vc11Show(t0), what)
					})
			}
		}
	}
	if accepted {
		st.accepted++
	}
}

// ---- enumeration ------------------------------------------------------------------------------------

func vc11Render(seq []vc11Sym) string {
	parts := make([]string, len(seq))
	for i, s := range seq {
		parts[i] = s.text
	}
	return strings.Join(parts, " ")
}

// vc11Enumerate checks every sequence of minLen..maxLen symbols over alpha; when
// needFrom >= 0 only sequences containing a symbol with index >= needFrom.
// It returns the number of inputs checked.
func vc11Enumerate(alpha []vc11Sym, sep string, minLen, maxLen, needFrom int, fields []string, total *vc11Stats) int64 {
	if maxLen < 1 || maxLen < minLen {
		return 0
	}
	type task struct{ first, second int } // second < 0: the one-symbol sequence itself
	tasks := make(chan task, 64)
	var mu sync.Mutex
	var wg sync.WaitGroup
	var inputs int64
	for w := 0; w < runtime.NumCPU(); w++ {
		wg.Add(1)
		go func() {
			defer wg.Done()
			st := vc11NewStats()
			var n int64
			seq := make([]vc11Sym, 0, maxLen)
			extra := func(k int) bool { return needFrom >= 0 && k >= needFrom }
			visit := func(hasExtra bool) {
				if len(seq) >= minLen && (needFrom < 0 || hasExtra) {
					n++
					vc11Check(st, strings.Join(vc11Texts(seq), sep), seq, fields)
				}
			}
			var rec func(hasExtra bool)
			rec = func(hasExtra bool) {
				visit(hasExtra)
				if len(seq) == maxLen {
					return
				}
				for k, s := range alpha {
					seq = append(seq, s)
					rec(hasExtra || extra(k))
					seq = seq[:len(seq)-1]
				}
			}
			for t := range tasks {
				if t.second < 0 {
					seq = append(seq[:0], alpha[t.first])
					visit(extra(t.first))
					continue
				}
				seq = append(seq[:0], alpha[t.first], alpha[t.second])
				rec(extra(t.first) || extra(t.second))
			}
			mu.Lock()
			total.merge(st)
			inputs += n
			mu.Unlock()
		}()
	}
	for a := range alpha {
		tasks <- task{a, -1}
		for b := range alpha {
			if maxLen >= 2 {
				tasks <- task{a, b}
			}
		}
	}
	close(tasks)
	wg.Wait()
	return inputs
}

// vc11Templates: sentences longer than the exhaustive bound (ranges, value lists, the
// examples quoted in the property text); every token sequence within two symbol
// substitutions, or one deletion, or one insertion of one of them is checked.
var vc11Templates = [][]string{
	{"a", ":", "[", "7", "TO", "b", "]"},
	{"a", ":", "{", "7", "TO", "b", "}"},
	{"a", ":", "(", "b", "OR", "7", ")"},
	{"a", ":", ">", "(", "b", "7", ")"},
	{"a", ":", ">", "b", ":", "7"},
	{"(", "(", ")", "NOT", "a", ")"},
	{"a", ":", "[", "b", ":", "7", "TO", "7", "]"},
	{"NOT", "a", ":", "b", "~", "7", "^", "7"},
}

// vc11Bounds: the exhaustive token layers (alphabet, longest sequence); a canonical
// rendering that belongs to one of them is skipped by the other parts of the domain, so
// that every input is counted once.
type vc11Layer struct {
	alpha  []vc11Sym
	maxLen int
}

type vc11Bounds []vc11Layer

func (b vc11Bounds) covered(parts []string) bool {
	for _, l := range b {
		if len(parts) > l.maxLen {
			continue
		}
		in := true
		for _, p := range parts {
			in = in && vc11In(l.alpha, p)
		}
		if in {
			return true
		}
	}
	return false
}

func vc11In(a []vc11Sym, text string) bool {
	for _, s := range a {
		if s.text == text {
			return true
		}
	}
	return false
}

func vc11Neighbourhood(all []vc11Sym, bounds vc11Bounds, fields []string, total *vc11Stats) int64 {
	bySym := map[string]vc11Sym{}
	for _, s := range all {
		bySym[s.text] = s
	}
	var jobs [][]vc11Sym
	seen := map[string]bool{}
	add := func(seq []vc11Sym) {
		k := vc11Render(seq)
		if !seen[k] && !bounds.covered(vc11Texts(seq)) {
			seen[k] = true
			jobs = append(jobs, append([]vc11Sym(nil), seq...))
		}
	}
	for _, tpl := range vc11Templates {
		base := make([]vc11Sym, len(tpl))
		for i, t := range tpl {
			base[i] = bySym[t]
		}
		add(base)
		cur := append([]vc11Sym(nil), base...)
		for i := range base {
			for _, x := range all {
				cur[i] = x
				add(cur)
				for j := i + 1; j < len(base); j++ {
					for _, y := range all {
						cur[j] = y
						add(cur)
					}
					cur[j] = base[j]
				}
			}
			cur[i] = base[i]
		}
		for i := range base { // one deletion
			add(append(append([]vc11Sym(nil), base[:i]...), base[i+1:]...))
		}
		for i := 0; i <= len(base); i++ { // one insertion
			for _, x := range all {
				add(append(append(append([]vc11Sym(nil), base[:i]...), x), base[i:]...))
			}
		}
	}
	var wg sync.WaitGroup
	var mu sync.Mutex
	workers := runtime.NumCPU()
	for w := 0; w < workers; w++ {
		wg.Add(1)
		go func(w int) {
			defer wg.Done()
			st := vc11NewStats()
			for k := w; k < len(jobs); k += workers {
				vc11Check(st, vc11Render(jobs[k]), jobs[k], fields)
			}
			mu.Lock()
			total.merge(st)
			mu.Unlock()
		}(w)
	}
	wg.Wait()
	return int64(len(jobs))
}

// ---- random sampling beyond the bound ---------------------------------------------------------------

type vc11Gen struct{ r *rand.Rand }

func (g *vc11Gen) term() string {
	terms := []string{"a", "b", "c", `"q r"`, "7", "1.5", "-3", "w*", "/r/", "*", "x?", `"q*"`, "42", "foo", `'s'`, "0"}
	return terms[g.r.Intn(len(terms))]
}

// expr generates the tokens of a query of the documented grammar.
func (g *vc11Gen) expr(depth int) []string {
	if depth <= 0 {
		return []string{g.term()}
	}
	switch g.r.Intn(14) {
	case 0, 1:
		return []string{g.term()}
	case 2:
		return append([]string{g.term(), ":"}, g.expr(depth-1)...)
	case 3:
		ops := [][]string{{">"}, {"<"}, {">", "="}, {"<", "="}}
		return append(append([]string{g.term(), ":"}, ops[g.r.Intn(4)]...), g.term())
	case 4:
		if g.r.Intn(2) == 0 {
			return []string{g.term(), ":", "[", g.term(), "TO", g.term(), "]"}
		}
		return []string{g.term(), ":", "{", g.term(), "TO", g.term(), "}"}
	case 5:
		return append(append([]string{"("}, g.expr(depth-1)...), ")")
	case 6:
		return append([]string{"+"}, g.expr(depth-1)...)
	case 7:
		return append([]string{"-"}, g.expr(depth-1)...)
	case 8:
		return append([]string{"NOT"}, g.expr(depth-1)...)
	case 9:
		out := append(g.expr(depth-1), "~")
		if g.r.Intn(2) == 0 {
			out = append(out, strconv.Itoa(g.r.Intn(4)))
		}
		return out
	case 10:
		out := append(g.expr(depth-1), "^")
		if g.r.Intn(2) == 0 {
			out = append(out, []string{"2", "0.5", "3", "1.5"}[g.r.Intn(4)])
		}
		return out
	case 11:
		return append(append(g.expr(depth-1), "AND"), g.expr(depth-1)...)
	case 12:
		return append(append(g.expr(depth-1), "OR"), g.expr(depth-1)...)
	default:
		return append(g.expr(depth-1), g.expr(depth-1)...)
	}
}

func (g *vc11Gen) input(all []vc11Sym) string {
	var toks []string
	switch g.r.Intn(4) {
	case 0: // arbitrary token sequence longer than the enumerated bound
		n := 6 + g.r.Intn(7)
		for k := 0; k < n; k++ {
			toks = append(toks, all[g.r.Intn(len(all))].text)
		}
	default: // a grammatical query, possibly damaged
		toks = g.expr(1 + g.r.Intn(3))
		for m := g.r.Intn(3); m > 0 && len(toks) > 0; m-- {
			p := g.r.Intn(len(toks))
			s := all[g.r.Intn(len(all))].text
			switch g.r.Intn(3) {
			case 0:
				toks[p] = s
			case 1:
				toks = append(toks[:p], toks[p+1:]...)
			default:
				toks = append(toks[:p], append([]string{s}, toks[p:]...)...)
			}
		}
	}
	// layout: mostly single spaces, sometimes none or several (the lexer's token list is the reference)
	var b strings.Builder
	for k, t := range toks {
		if k > 0 {
			switch g.r.Intn(8) {
			case 0:
			case 1:
				b.WriteString("  ")
			default:
				b.WriteByte(' ')
			}
		}
		b.WriteString(t)
	}
	return b.String()
}

func vc11Random(seed int64, count int, bounds vc11Bounds, fields []string, total *vc11Stats, samples *[]string) (distinct int) {
	all := append(append([]vc11Sym{}, vc11Main...), vc11Extra...)
	// a fixed number of independent streams, so that the sample does not depend on the
	// number of CPUs; the streams are distributed over the available cores
	const workers = 64
	per := count / workers
	sets := make([]map[uint64]string, workers)
	stats := make([]*vc11Stats, workers)
	var wg sync.WaitGroup
	slots := make(chan struct{}, runtime.NumCPU())
	for w := 0; w < workers; w++ {
		wg.Add(1)
		go func(w int) {
			defer wg.Done()
			slots <- struct{}{}
			defer func() { <-slots }()
			g := &vc11Gen{rand.New(rand.NewSource(seed*1000003 + int64(w)))}
			st := vc11NewStats()
			st.rnd = true
			seen := map[uint64]string{}
			for k := 0; k < per; k++ {
				in := g.input(all)
				if in == "" || bounds.covered(strings.Split(in, " ")) {
					continue
				}
				h := fnv.New64a()
				h.Write([]byte(in))
				if _, dup := seen[h.Sum64()]; dup {
					continue
				}
				if k < 2 {
					seen[h.Sum64()] = in
				} else {
					seen[h.Sum64()] = ""
				}
				vc11Check(st, in, nil, fields)
			}
			sets[w], stats[w] = seen, st
		}(w)
	}
	wg.Wait()
	union := map[uint64]bool{}
	for w := 0; w < workers; w++ {
		total.merge(stats[w])
		for h := range sets[w] {
			union[h] = true
		}
	}
	var smp []string
	for w := 0; w < workers && w < 2; w++ {
		for _, s := range sets[w] {
			if s != "" {
				smp = append(smp, strconv.Quote(s))
			}
		}
	}
	sort.Strings(smp)
	*samples = append(*samples, smp...)
	return len(union)
}

// ---- entry point ------------------------------------------------------------------------------------

type vc11Report struct {
	Property    string           `json:"property"`
	Tier        string           `json:"tier"`
	Seed        int64            `json:"seed"`
	Evaluations int64            `json:"evaluations"`
	Distinct    int64            `json:"distinct_nontrivial"`
	Bound       string           `json:"bound"`
	FailCount   int64            `json:"failure_count"`
	ByCategory  map[string]int64 `json:"by_category"`
	Failures    []string         `json:"failures"`
	Samples     []string         `json:"samples"`
}

func vc11EnvInt(name string, def int) int {
	if v := os.Getenv(name); v != "" {
		if n, err := strconv.Atoi(v); err == nil {
			return n
		}
	}
	return def
}

// vc11SelfTest feeds the judge hand-built pairs (tree without option, tree with option):
// pairs that satisfy the statement must pass, every kind of deviation must be flagged.
func vc11SelfTest() (bad []string) {
	lit := func(v any) *expr.Expression { return expr.Lit(v) }
	d := func(x *expr.Expression) *expr.Expression { return expr.Eq(lit("d"), x) }
	cases := []struct {
		t0, tf *expr.Expression
		want   string
	}{
		{lit("a"), d(lit("a")), ""},
		{expr.WILD("w*"), d(expr.WILD("w*")), ""},
		{expr.AND(lit("a"), expr.NOT(lit(7))), expr.AND(d(lit("a")), expr.NOT(d(lit(7)))), ""},
		{expr.MUST(expr.FUZZY(lit("a"), 2)), expr.MUST(expr.FUZZY(d(lit("a")), 2)), ""},
		{expr.OR(expr.Eq(lit("a"), lit("b")), lit("c")), expr.OR(expr.Eq(lit("a"), lit("b")), d(lit("c"))), ""},
		{expr.IN(lit("a"), expr.LIST([]*expr.Expression{lit("x"), lit("y")})), expr.IN(lit("a"), expr.LIST([]*expr.Expression{lit("x"), lit("y")})), ""},
		{expr.Eq(lit("a"), expr.AND(lit("b"), lit("c"))), expr.Eq(lit("a"), expr.AND(lit("b"), lit("c"))), ""},
		{expr.Rang(lit("a"), lit(1), lit(5), true), expr.Rang(lit("a"), lit(1), lit(5), true), ""},
		{lit("a"), lit("a"), "unscoped-plain-term"},
		{expr.WILD("w*"), expr.WILD("w*"), "unscoped-pattern-term"},
		{expr.AND(lit("a"), expr.REGEXP("/r/")), expr.AND(d(lit("a")), expr.REGEXP("/r/")), "unscoped-pattern-term"},
		{expr.MUST(lit("a")), expr.MUST(lit("a")), "unscoped-operand-of-plus"},
		{expr.MUSTNOT(lit("a")), expr.MUSTNOT(lit("a")), "unscoped-operand-of-minus"},
		{expr.FUZZY(lit("a"), 2), expr.FUZZY(lit("a"), 2), "unscoped-operand-of-fuzzy"},
		{expr.BOOST(lit("a"), 2), expr.BOOST(lit("a"), 2), "unscoped-operand-of-boost"},
		{expr.BOOST(expr.WILD("w*"), 2), expr.BOOST(expr.WILD("w*"), 2), "unscoped-operand-of-boost+unscoped-pattern-term"},
		{expr.IN(lit("a"), expr.LIST([]*expr.Expression{lit("x"), lit("y")})), expr.Eq(lit("a"), expr.OR(d(lit("x")), d(lit("y")))), "term-under-explicit-field-rescoped+value-list-lost"},
		{expr.Eq(lit("a"), expr.AND(lit("b"), lit("c"))), expr.Eq(lit("a"), expr.AND(d(lit("b")), d(lit("c")))), "term-under-explicit-field-rescoped"},
		{expr.Eq(lit("a"), lit("b")), expr.Eq(lit("a"), d(lit("b"))), "term-under-explicit-field-rescoped"},
		{lit("q*"), d(expr.WILD("q*")), "quoted-term-retyped-as-pattern"},
		{expr.AND(lit("a"), lit("b")), expr.OR(d(lit("a")), d(lit("b"))), "erasure-differs"},
		{expr.AND(lit("a"), lit("b")), expr.AND(d(lit("b")), d(lit("a"))), "erasure-differs"},
		{expr.FUZZY(expr.Eq(lit("a"), lit("b")), 2), expr.FUZZY(expr.Eq(lit("a"), lit("b")), 3), "erasure-differs"},
		{lit(7), d(lit("7")), "erasure-differs"},
		{expr.NOT(lit("a")), d(lit("a")), "erasure-differs"},
	}
	for _, c := range cases {
		got := vc11Judge(c.t0, c.tf, "d")
		keys := []string{}
		for k := range got {
			keys = append(keys, k)
		}
		sort.Strings(keys)
		if strings.Join(keys, "+") != c.want {
			bad = append(bad, fmt.Sprintf("pair %s / %s: judge says %q, expected %q", vc11Show(c.t0), vc11Show(c.tf), strings.Join(keys, "+"), c.want))
		}
	}
	return bad
}

func TestVerifStandin_C11(t *testing.T) {
	defer debug.SetGCPercent(debug.SetGCPercent(400)) // allocation-heavy: collect less often
	tier := os.Getenv("VERIF_TIER")
	if tier != "thorough" {
		tier = "quick"
	}
	seed := int64(vc11EnvInt("VERIF_SEED", 1))
	// quick: main alphabet to 4 with all field names, 20-symbol sub-alphabet at 5 with the
	// first name; thorough: main alphabet at 5 and 18-symbol sub-alphabet at 6 with the first name
	mainLen, extraLen, randomN := 4, 3, 200000
	mainLen = vc11EnvInt("VERIF_C11_LEN", mainLen)
	type layer struct {
		alpha  []vc11Sym
		maxLen int
	}
	tops := []layer{{vc11Reduced, mainLen + 1}}
	if tier == "thorough" {
		extraLen, randomN = 4, 2000000
		tops = []layer{{vc11Main, mainLen + 1}, {vc11Small, mainLen + 2}}
	}
	extraLen = vc11EnvInt("VERIF_C11_XLEN", extraLen)
	randomN = vc11EnvInt("VERIF_C11_RANDOM", randomN)
	// the long layers run with the first field name only; the names needing quoting are
	// exercised on every other part of the domain
	topFields := vc11Fields[:1]

	for _, b := range vc11SelfTest() {
		t.Errorf("C11 harness self-test: %s", b)
	}
	total := vc11NewStats()
	var samples []string
	var bound string
	if raw := os.Getenv("VERIF_INPUT"); raw != "" {
		// replay of a single input (Go-quoted or verbatim)
		in := raw
		if u, err := strconv.Unquote(raw); err == nil {
			in = u
		}
		vc11Check(total, in, nil, vc11Fields)
		samples = append(samples, strconv.Quote(in))
		bound = fmt.Sprintf("replay of the single input given in VERIF_INPUT with the default fields %q", vc11Fields)
	} else {
		all := append(append([]vc11Sym{}, vc11Main...), vc11Extra...)
		bounds := vc11Bounds{{vc11Main, mainLen}, {all, extraLen}}
		for _, l := range tops {
			bounds = append(bounds, vc11Layer{l.alpha, l.maxLen})
		}
		vc11Check(total, "", []vc11Sym{}, vc11Fields)
		n1 := 1 + vc11Enumerate(vc11Main, " ", 1, mainLen, -1, vc11Fields, total)
		var n2 int64
		desc2 := ""
		for _, l := range tops {
			n2 += vc11Enumerate(l.alpha, " ", l.maxLen, l.maxLen, -1, topFields, total)
			desc2 += fmt.Sprintf(" every sequence of %d symbols over the %d symbols %v;", l.maxLen, len(l.alpha), vc11Texts(l.alpha))
		}
		n3 := vc11Enumerate(all, " ", 1, extraLen, len(vc11Main), vc11Fields, total)
		n4 := vc11Neighbourhood(all, bounds, vc11Fields, total)
		n5 := vc11Random(seed, randomN, bounds, vc11Fields, total, &samples)
		samples = append([]string{`""`, `"a"`, `"a : b"`, `"NOT a AND b"`, `"+ a ~ 7"`, `"a : ( b OR 7 )"`, `"w* \"q r\""`}, samples...)
		bound = fmt.Sprintf("all inputs x default-field names %q (none occurs in an input); per pair Parse(q) is compared with Parse(q, WithDefaultField(f)). "+
			"Inputs: (1) every sequence of 0..%d symbols over the %d-symbol token alphabet %v rendered with single spaces (%d inputs); "+
			"(2) with the field names %q only:%s (%d inputs); "+
			"(3) every sequence of 1..%d symbols over alphabet (1) plus %d further term lexemes %v that contains one of the latter (%d inputs); "+
			"(4) every sequence within two substitutions, one deletion or one insertion (over the %d symbols of (3)) of %d longer sentences %v (%d inputs); "+
			"(5) %d distinct seeded random inputs: grammar-generated queries with up to 2 token mutations and arbitrary sequences of 6..12 tokens, random layout. "+
			"Non-trivial = accepted by Parse with or without the option, so that the trees were compared.",
			vc11Fields, mainLen, len(vc11Main), vc11Texts(vc11Main), n1, topFields, desc2, n2,
			extraLen, len(vc11Extra), vc11Texts(vc11Extra), n3, len(all), len(vc11Templates), vc11Templates, n4, n5)
	}

	rep := vc11Report{Property: "C11", Tier: tier, Seed: seed, Evaluations: total.evals, Distinct: total.accepted,
		Bound: bound, ByCategory: total.byCat, Failures: []string{}, Samples: samples}
	cats := make([]string, 0, len(total.best))
	for c := range total.best {
		cats = append(cats, c)
	}
	sort.Strings(cats)
	for _, c := range cats {
		rep.FailCount += total.byCat[c]
	}
	// at most 25 messages: first the smallest of every category, then the second smallest, ...
	for round := 0; round < 3; round++ {
		for _, c := range cats {
			if l := total.best[c]; round < len(l) && len(rep.Failures) < 25 {
				rep.Failures = append(rep.Failures, l[round].msg)
			}
		}
	}
	if out := os.Getenv("VERIF_REPORT"); out != "" {
		b, _ := json.MarshalIndent(rep, "", " ")
		if err := os.WriteFile(out, b, 0o644); err != nil {
			t.Errorf("cannot write report: %v", err)
		}
	}
	t.Logf("C11 %s: %d evaluations, %d accepted inputs, %d failures in %d categories", tier, rep.Evaluations, rep.Distinct, rep.FailCount, len(cats))
	for _, c := range cats {
		t.Logf("  %-45s %d", c, total.byCat[c])
	}
	for _, f := range rep.Failures {
		t.Errorf("C11 violated: %s", f)
	}
}

func vc11Texts(a []vc11Sym) []string {
	out := make([]string, len(a))
	for i, s := range a {
		out[i] = s.text
	}
	return out
}
