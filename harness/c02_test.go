//go:build verif

package fuzz

// Bounded stand-in for property C02: "Rendered SQL is one confined boolean expression; user
// text only in literals".
//
// Injected into the /repo/fuzz module (the only place where PostgreSQL's own parser,
// github.com/pganalyze/pg_query_go/v4, is available offline):
//
//   echo '{"Replace": {"/repo/fuzz/zz_verif_c02_test.go": "/verif/harness/c02_test.go"}}' > /tmp/ov.json
//   cd /repo/fuzz && VERIF_REPORT=/tmp/rep.json go test -tags verif -overlay /tmp/ov.json -vet=off -count=1 -run 'TestVerifStandin_C02$' .
//
// Queries are assembled from templates and hostile field names / values, so the stand-in
// knows which field names and which values occur in each query without asking the library.
// Whenever ToPostgres / ToParameterizedPostgres succeeds, `SELECT 1 FROM t WHERE (<text>)`
// (placeholders rewritten to $n) is given to PostgreSQL's scanner and parser and checked:
// no NUL / invalid UTF-8, no comment token, the parentheses of <text> are balanced on their
// own, exactly one statement which is exactly that SELECT (no other clause), the WHERE tree
// consists only of AND/OR/NOT, the comparisons = < <= > >=, BETWEEN, IN, SIMILAR TO, ~,
// column references, constants and parameters; every column reference is a field name of
// the query (or the default field), every string constant is a value of the query (patterns
// after * -> %, ? -> _), parameters are numbered 1..len(params).

import (
	"encoding/json"
	"fmt"
	"math/rand"
	"os"
	"runtime"
	"sort"
	"strconv"
	"strings"
	"sync"
	"sync/atomic"
	"testing"
	"unicode"
	"unicode/utf8"

	lucene "github.com/grindlemire/go-lucene"
	pg_query "github.com/pganalyze/pg_query_go/v4"
)

// ---- hostile pieces -------------------------------------------------------------------------

type vc02Piece struct {
	sem     string // the field name / value that is meant
	written string // how it is spelled in the query
	class   string // "", "nan-inf", "long", ...
	pattern bool   // spelled with live wildcards
	regex   bool
}

func vc02WordRune(r rune) bool { return r == '_' || unicode.IsLetter(r) || unicode.IsDigit(r) }

func vc02IsKeyword(s string) bool {
	switch strings.ToUpper(s) {
	case "AND", "OR", "NOT", "TO":
		return true
	}
	return false
}

func vc02BareOK(s string) bool {
	if s == "" || vc02IsKeyword(s) || !utf8.ValidString(s) {
		return false
	}
	for i, r := range s {
		if vc02WordRune(r) || (i > 0 && (r == '.' || r == '-')) {
			continue
		}
		return false
	}
	return true
}

// vc02Escaped spells s as a bare word with a backslash in front of every special byte.
func vc02Escaped(s string) string {
	if vc02IsKeyword(s) {
		return `\` + s
	}
	var sb strings.Builder
	for i := 0; i < len(s); {
		r, w := utf8.DecodeRuneInString(s[i:])
		if r != utf8.RuneError && (vc02WordRune(r) || (i > 0 && (r == '.' || r == '-'))) {
			sb.WriteString(s[i : i+w])
		} else {
			sb.WriteByte('\\')
			sb.WriteString(s[i : i+w])
		}
		i += w
	}
	return sb.String()
}

func vc02Class(s string) string {
	switch strings.ToLower(strings.TrimLeft(s, "+-")) {
	case "nan", "inf", "infinity":
		return "nan-inf"
	}
	if len(s) > 63 {
		return "long"
	}
	return ""
}

// vc02Spellings returns the ways a hostile string can be written as one term.
func vc02Spellings(sem string, all bool) []vc02Piece {
	var out []vc02Piece
	cl := vc02Class(sem)
	if vc02BareOK(sem) {
		out = append(out, vc02Piece{sem: sem, written: sem, class: cl})
	} else if sem != "" {
		out = append(out, vc02Piece{sem: sem, written: vc02Escaped(sem), class: cl})
	}
	if !strings.Contains(sem, `"`) {
		out = append(out, vc02Piece{sem: sem, written: `"` + sem + `"`, class: cl})
	} else if all {
		// Lucene spelling of a phrase containing a double quote
		out = append(out, vc02Piece{sem: sem, written: `"` + strings.ReplaceAll(strings.ReplaceAll(sem, `\`, `\\`), `"`, `\"`) + `"`, class: cl})
	}
	if all && !strings.Contains(sem, `'`) && sem != "" {
		out = append(out, vc02Piece{sem: sem, written: `'` + sem + `'`, class: cl})
	}
	if all && vc02BareOK(sem) {
		out = append(out, vc02Piece{sem: sem, written: `\` + sem, class: cl}) // needlessly escaped first character
	}
	return out
}

var vc02Long64 = strings.Repeat("x", 64)
var vc02Long100 = strings.Repeat("col_", 25)
var vc02Long100b = strings.Repeat("col_", 24) + "zzzz"

func vc02FieldNames(thorough bool) []string {
	out := []string{
		"a", "A b", `a"b`, `a'b`, "a;b", "a--b", "a/*b", `a\b`, "a\x00b", "a\xffb", vc02Long64, vc02Long100, vc02Long100b,
		"select", "a.b", "é", "NaN", "Inf", `";--`, `a" OR "1"="1`, "1",
	}
	if thorough {
		out = append(out, `a""b`, `a\`, "a?", "a*", "1.5", "-Inf", "a\nb", "a)b", "a(b", `a\"b`, "$1", "a?b", "\xc3", "日本", strings.Repeat("é", 40), "t.a", `"`, `'`, "*/", "a b;DROP TABLE t")
	}
	return out
}

func vc02Values(thorough bool) []string {
	out := []string{
		"b", "it's", "'", "''", `\'`, `\`, `b\`, "x'; DROP TABLE t;--", "--", "/*", "*/ OR 1=1 /*", ";", "$1", "?", `b"c`,
		"b\x00c", "\xff", "b\xc3", "NaN", "Inf", "Infinity", "nan", "-Inf", "1e400", "0x1p-2", "1_0", "é", strings.Repeat("v", 100),
		"E'x'", "b\nc", "%", "_", ")", "(", "') OR ('1'='1", "1) OR (1=1", "1", "-1.5", "b c", "b,c", "'--", "\\'; --",
	}
	if thorough {
		out = append(out, `U&'x'`, "$$", "$a$b$a$", "b\rc", "b\tc", "''''", `\\`, `\\'`, "+Inf", "inf", "INFINITY", "NAN", "1e309", "0x10", "b;c", "/**/", "--\n", "x' AND 'y", "x'||'y", "::text", "b::int", "(SELECT 1)", "pg_sleep(1)", "[b TO c]", "b:c", "\x00", "'\x00", "\xe2\x82", "\xf0\x9f\x98\x80", "a b", "a b", "＇", "ʼ", "ʼ; --")
	}
	return out
}

func vc02Patterns(thorough bool) []vc02Piece {
	specs := [][2]string{ // semantic pattern, written
		{"*", "*"}, {"?", "?"}, {"b*", "b*"}, {"*b?", "*b?"}, {"it's*", `it\'s*`}, {"'*", `\'*`}, {"*--", `*\-\-`}, {"*/**", `*\/\**`},
		{"b%*", `b\%*`}, {"b_*", "b_*"}, {`b\*`, `b\\*`}, {"*;*", `*\;*`}, {`*"*`, `*\"*`}, {"b c*", `b\ c*`}, {"*\x00", "*\\\x00"}, {"*\xff", "*\\\xff"},
	}
	if thorough {
		specs = append(specs, [][2]string{{"*'*'*", `*\'*\'*`}, {"?'", `?\'`}, {"*)", `*\)`}, {"*$1", `*\$1`}, {"NaN*", "NaN*"}, {"*" + strings.Repeat("p", 70), "*" + strings.Repeat("p", 70)}, {"*''", `*\'\'`}, {`*\'`, `*\\\'`}}...)
	}
	var out []vc02Piece
	for _, s := range specs {
		out = append(out, vc02Piece{sem: s[0], written: s[1], pattern: true})
	}
	return out
}

func vc02Regexps(thorough bool) []vc02Piece {
	bodies := []string{"b", "ab+c", "a'b", "';--", "a b", `a\/b`, "a\"b", "*/", "a\x00b", "\xff", "b*?"}
	if thorough {
		bodies = append(bodies, "", "'", "''", "a||b", "(b)", "$1", `\'`, "NaN", "b\nc")
	}
	var out []vc02Piece
	for _, b := range bodies {
		out = append(out, vc02Piece{sem: b, written: "/" + b + "/", regex: true})
	}
	return out
}

// ---- a query with what is known about it ------------------------------------------------------

type vc02Query struct {
	text     string
	def      string
	fields   []vc02Piece
	values   []vc02Piece
	fuzz     bool // random text: only the text itself is known
	template string
}

func vc02Translate(s string) string {
	return strings.ReplaceAll(strings.ReplaceAll(s, "*", "%"), "?", "_")
}

func vc02Inner(w string) string {
	if len(w) >= 2 && (w[0] == '"' && w[len(w)-1] == '"') {
		return w[1 : len(w)-1]
	}
	return w
}

// vc02Readings: the texts that count as "this field name / value": what is meant, what is
// written (without the phrase quotes), and the written form with the escape backslashes
// removed; for values also each of these after the wildcard translation.  (How escapes are
// decoded is the business of C03; C02 only wants every name and constant to be one of the
// query's own terms.)
func vc02Readings(p vc02Piece, value bool) []string {
	inner := vc02Inner(p.written)
	base := []string{p.sem, p.written, inner, strings.ReplaceAll(inner, `\`, ""), strings.ReplaceAll(p.written, `"`, "")}
	if p.regex {
		base = append(base, "/"+p.sem+"/")
	}
	if !value {
		return base
	}
	out := base
	for _, b := range base {
		out = append(out, vc02Translate(b))
	}
	return out
}

// ---- the checks on the SQL text -------------------------------------------------------------

type vc02Finding struct {
	kind string
	msg  string
}

// vc02RewriteParams rewrites ? to $n outside quoted identifiers and string constants.
func vc02RewriteParams(sql string) (string, int) {
	var sb strings.Builder
	n := 0
	for i := 0; i < len(sql); i++ {
		c := sql[i]
		if c == '"' || c == '\'' {
			j := i + 1
			for j < len(sql) {
				if sql[j] == c {
					if j+1 < len(sql) && sql[j+1] == c {
						j += 2
						continue
					}
					break
				}
				j++
			}
			if j >= len(sql) {
				j = len(sql) - 1
			}
			sb.WriteString(sql[i : j+1])
			i = j
			continue
		}
		if c == '?' {
			n++
			sb.WriteString("$" + strconv.Itoa(n))
			continue
		}
		sb.WriteByte(c)
	}
	return sb.String(), n
}

type vc02Walk struct {
	cols    []string
	strs    []string
	params  []int
	badNode string
}

func vc02Str(m map[string]any, k string) string {
	s, _ := m[k].(string)
	return s
}

func vc02OnlyKeys(m map[string]any, allowed ...string) string {
	for k := range m {
		ok := false
		for _, a := range allowed {
			if a == k {
				ok = true
			}
		}
		if !ok {
			return k
		}
	}
	return ""
}

func vc02OpName(m map[string]any) string {
	names, _ := m["name"].([]any)
	if len(names) != 1 {
		return "?"
	}
	n, _ := names[0].(map[string]any)
	s, _ := n["String"].(map[string]any)
	return vc02Str(s, "sval")
}

// walk checks one node of the WHERE tree (generic JSON form of the PostgreSQL parse tree).
func (w *vc02Walk) walk(node any) {
	if w.badNode != "" {
		return
	}
	m, ok := node.(map[string]any)
	if !ok || len(m) != 1 {
		w.badNode = fmt.Sprintf("unexpected node %v", node)
		return
	}
	for typ, body := range m {
		b, _ := body.(map[string]any)
		switch typ {
		case "BoolExpr":
			if k := vc02OnlyKeys(b, "boolop", "args", "location"); k != "" {
				w.badNode = "BoolExpr." + k
				return
			}
			switch vc02Str(b, "boolop") {
			case "AND_EXPR", "OR_EXPR", "NOT_EXPR":
			default:
				w.badNode = "BoolExpr " + vc02Str(b, "boolop")
				return
			}
			args, _ := b["args"].([]any)
			for _, a := range args {
				w.walk(a)
			}
		case "A_Expr":
			if k := vc02OnlyKeys(b, "kind", "name", "lexpr", "rexpr", "location"); k != "" {
				w.badNode = "A_Expr." + k
				return
			}
			kind, op := vc02Str(b, "kind"), vc02OpName(b)
			if b["lexpr"] == nil || b["rexpr"] == nil {
				w.badNode = fmt.Sprintf("unary operator %s", op)
				return
			}
			switch kind {
			case "AEXPR_OP":
				switch op {
				case "=", "<", "<=", ">", ">=", "~":
				default:
					w.badNode = "operator " + op
					return
				}
				w.walk(b["lexpr"])
				w.walk(b["rexpr"])
			case "AEXPR_IN":
				if op != "=" {
					w.badNode = "NOT IN"
					return
				}
				w.walk(b["lexpr"])
				w.walkList(b["rexpr"], 0)
			case "AEXPR_BETWEEN":
				w.walk(b["lexpr"])
				w.walkList(b["rexpr"], 2)
			case "AEXPR_SIMILAR":
				if op != "~" {
					w.badNode = "NOT SIMILAR TO"
					return
				}
				w.walk(b["lexpr"])
				fc, _ := b["rexpr"].(map[string]any)
				f, _ := fc["FuncCall"].(map[string]any)
				if f == nil || len(fc) != 1 {
					w.badNode = "SIMILAR TO without its implicit similar_to_escape"
					return
				}
				if k := vc02OnlyKeys(f, "funcname", "args", "funcformat", "location"); k != "" {
					w.badNode = "FuncCall." + k
					return
				}
				fn, _ := json.Marshal(f["funcname"])
				if string(fn) != `[{"String":{"sval":"pg_catalog"}},{"String":{"sval":"similar_to_escape"}}]` {
					w.badNode = "function call " + string(fn)
					return
				}
				args, _ := f["args"].([]any)
				if len(args) != 1 {
					w.badNode = "SIMILAR TO ... ESCAPE"
					return
				}
				w.walk(args[0])
			default:
				w.badNode = "expression kind " + kind
			}
		case "ColumnRef":
			if k := vc02OnlyKeys(b, "fields", "location"); k != "" {
				w.badNode = "ColumnRef." + k
				return
			}
			fields, _ := b["fields"].([]any)
			if len(fields) != 1 {
				w.badNode = fmt.Sprintf("qualified column reference with %d parts", len(fields))
				return
			}
			f, _ := fields[0].(map[string]any)
			s, ok := f["String"].(map[string]any)
			if !ok {
				w.badNode = "column reference that is not a name (star?)"
				return
			}
			w.cols = append(w.cols, vc02Str(s, "sval"))
		case "A_Const":
			if k := vc02OnlyKeys(b, "ival", "fval", "sval", "location"); k != "" {
				w.badNode = "A_Const." + k
				return
			}
			if sv, ok := b["sval"].(map[string]any); ok {
				w.strs = append(w.strs, vc02Str(sv, "sval"))
			}
		case "ParamRef":
			n, _ := b["number"].(float64)
			w.params = append(w.params, int(n))
		default:
			w.badNode = "node " + typ
		}
	}
}

func (w *vc02Walk) walkList(node any, want int) {
	m, _ := node.(map[string]any)
	l, _ := m["List"].(map[string]any)
	if l == nil || len(m) != 1 {
		w.badNode = "IN / BETWEEN without a plain list"
		return
	}
	items, _ := l["items"].([]any)
	if want > 0 && len(items) != want {
		w.badNode = "BETWEEN with a wrong number of bounds"
		return
	}
	for _, it := range items {
		w.walk(it)
	}
}

const vc02Prefix = "SELECT 1 FROM t WHERE ("

// vc02CheckSQL applies the statement of C02 to one rendered text.
func vc02CheckSQL(q *vc02Query, text string, nparams int, parameterized bool) *vc02Finding {
	if strings.IndexByte(text, 0) >= 0 {
		return &vc02Finding{"nul-byte-in-sql", fmt.Sprintf("SQL %s contains a NUL byte", strconv.Quote(text))}
	}
	if !utf8.ValidString(text) {
		return &vc02Finding{"invalid-utf8-in-sql", fmt.Sprintf("SQL %s is not valid UTF-8", strconv.Quote(text))}
	}
	body := text
	if parameterized {
		var n int
		body, n = vc02RewriteParams(text)
		if n != nparams {
			return &vc02Finding{"placeholder-count", fmt.Sprintf("SQL %s has %d placeholders outside quotes but %d parameters were returned", strconv.Quote(text), n, nparams)}
		}
	}
	stmt := vc02Prefix + body + ")"
	scan, err := pg_query.Scan(stmt)
	if err != nil {
		return &vc02Finding{"pg-scan-error", fmt.Sprintf("PostgreSQL cannot tokenize %s: %v", strconv.Quote(stmt), err)}
	}
	depth := 0
	for i, tk := range scan.Tokens {
		switch tk.Token {
		case pg_query.Token_SQL_COMMENT, pg_query.Token_C_COMMENT:
			return &vc02Finding{"comment-in-sql", fmt.Sprintf("SQL %s contains a comment at byte %d", strconv.Quote(text), int(tk.Start)-len(vc02Prefix))}
		case pg_query.Token_ASCII_40:
			depth++
		case pg_query.Token_ASCII_41:
			depth--
			if depth == 0 && i != len(scan.Tokens)-1 {
				return &vc02Finding{"unbalanced-parentheses", fmt.Sprintf("SQL %s closes the parenthesis it was put into", strconv.Quote(text))}
			}
		case pg_query.Token_ASCII_59:
			return &vc02Finding{"statement-separator", fmt.Sprintf("SQL %s contains a ; token", strconv.Quote(text))}
		}
	}
	if depth != 0 {
		return &vc02Finding{"unbalanced-parentheses", fmt.Sprintf("SQL %s leaves %d parentheses open", strconv.Quote(text), depth)}
	}
	js, err := pg_query.ParseToJSON(stmt)
	if err != nil {
		return &vc02Finding{"pg-parse-error", fmt.Sprintf("PostgreSQL rejects %s: %v", strconv.Quote(stmt), err)}
	}
	var tree map[string]any
	if err := json.Unmarshal([]byte(js), &tree); err != nil {
		return &vc02Finding{"pg-parse-error", fmt.Sprintf("unreadable parse tree: %v", err)}
	}
	stmts, _ := tree["stmts"].([]any)
	if len(stmts) != 1 {
		return &vc02Finding{"not-one-statement", fmt.Sprintf("SQL %s makes %d statements", strconv.Quote(text), len(stmts))}
	}
	raw, _ := stmts[0].(map[string]any)
	st, _ := raw["stmt"].(map[string]any)
	sel, _ := st["SelectStmt"].(map[string]any)
	if sel == nil || len(st) != 1 {
		return &vc02Finding{"not-the-select", fmt.Sprintf("SQL %s turns the statement into something else than the SELECT", strconv.Quote(text))}
	}
	if k := vc02OnlyKeys(sel, "targetList", "fromClause", "whereClause", "limitOption", "op"); k != "" {
		return &vc02Finding{"extra-clause", fmt.Sprintf("SQL %s adds the clause %s to the SELECT", strconv.Quote(text), k)}
	}
	tl, _ := json.Marshal(sel["targetList"])
	fc, _ := json.Marshal(sel["fromClause"])
	if string(tl) != `[{"ResTarget":{"location":7,"val":{"A_Const":{"ival":{"ival":1},"location":7}}}}]` ||
		string(fc) != `[{"RangeVar":{"inh":true,"location":14,"relname":"t","relpersistence":"p"}}]` ||
		vc02Str(sel, "limitOption") != "LIMIT_OPTION_DEFAULT" || vc02Str(sel, "op") != "SETOP_NONE" || sel["whereClause"] == nil {
		return &vc02Finding{"not-the-select", fmt.Sprintf("SQL %s changes the SELECT outside its WHERE expression", strconv.Quote(text))}
	}
	w := &vc02Walk{}
	w.walk(sel["whereClause"])
	if w.badNode != "" {
		return &vc02Finding{"disallowed-construct", fmt.Sprintf("SQL %s contains %s (only AND/OR/NOT, comparisons, BETWEEN, IN, SIMILAR TO, ~, columns, constants and parameters are allowed)", strconv.Quote(text), w.badNode)}
	}
	if parameterized {
		for i, n := range w.params {
			if n != i+1 {
				return &vc02Finding{"placeholder-count", fmt.Sprintf("SQL %s: parameter references %v are not 1..%d in order", strconv.Quote(text), w.params, nparams)}
			}
		}
		if len(w.params) != nparams {
			return &vc02Finding{"placeholder-count", fmt.Sprintf("SQL %s: %d parameter references but %d parameters", strconv.Quote(text), len(w.params), nparams)}
		}
	} else if len(w.params) > 0 {
		return &vc02Finding{"disallowed-construct", fmt.Sprintf("inline SQL %s contains a parameter reference", strconv.Quote(text))}
	}

	// every column reference is a field name of the query, every string constant one of its values
	if q.fuzz {
		noq := strings.ReplaceAll(q.text, `"`, "")
		hay := []string{q.text, strings.ReplaceAll(q.text, `\`, ""), noq, strings.ReplaceAll(noq, `\`, ""), q.def}
		in := func(s string, translate bool) bool {
			for _, h := range hay {
				if strings.Contains(h, s) || (translate && strings.Contains(vc02Translate(h), s)) {
					return true
				}
			}
			return false
		}
		for _, c := range w.cols {
			if !in(c, false) {
				return &vc02Finding{"foreign-column", fmt.Sprintf("SQL %s references column %s which is no part of the query text", strconv.Quote(text), strconv.Quote(c))}
			}
		}
		for _, s := range w.strs {
			if !in(s, true) {
				return &vc02Finding{"foreign-string-constant", fmt.Sprintf("SQL %s contains the constant %s which is no part of the query text", strconv.Quote(text), strconv.Quote(s))}
			}
		}
		return nil
	}
	okCols := map[string]bool{}
	if q.def != "" {
		okCols[q.def] = true
	}
	for _, f := range q.fields {
		for _, r := range vc02Readings(f, false) {
			okCols[r] = true
		}
	}
	okStrs := map[string]bool{"*": true} // an unbounded range end is written * in the query
	for _, v := range q.values {
		for _, r := range vc02Readings(v, true) {
			okStrs[r] = true
		}
	}
	for _, c := range w.cols {
		if !okCols[c] {
			return &vc02Finding{"foreign-column", fmt.Sprintf("SQL %s references column %s which is not a field name of the query", strconv.Quote(text), strconv.Quote(c))}
		}
	}
	for _, s := range w.strs {
		if !okStrs[s] {
			return &vc02Finding{"foreign-string-constant", fmt.Sprintf("SQL %s contains the constant %s which is not a value of the query", strconv.Quote(text), strconv.Quote(s))}
		}
	}
	return nil
}

// ---- calling the library ------------------------------------------------------------------------

func vc02Inline(q *vc02Query) (sql string, err error, pan any) {
	defer func() {
		if r := recover(); r != nil {
			pan = r
		}
	}()
	if q.def != "" {
		sql, err = lucene.ToPostgres(q.text, lucene.WithDefaultField(q.def))
	} else {
		sql, err = lucene.ToPostgres(q.text)
	}
	return
}

func vc02Param(q *vc02Query) (sql string, params []any, err error, pan any) {
	defer func() {
		if r := recover(); r != nil {
			pan = r
		}
	}()
	if q.def != "" {
		sql, params, err = lucene.ToParameterizedPostgres(q.text, lucene.WithDefaultField(q.def))
	} else {
		sql, params, err = lucene.ToParameterizedPostgres(q.text)
	}
	return
}

// vc02Category names the root cause of a finding.
func vc02Category(q *vc02Query, f *vc02Finding, mode string) string {
	if f.kind == "panic" {
		return "panic"
	}
	nan, long := false, false
	for _, p := range append(append([]vc02Piece{}, q.fields...), q.values...) {
		if p.class == "nan-inf" && p.written == p.sem {
			nan = true
		}
		if p.class == "long" {
			long = true
		}
	}
	if len(q.def) > 63 {
		long = true
	}
	if q.fuzz {
		up := strings.ToUpper(q.text)
		if strings.Contains(up, "NAN") || strings.Contains(up, "INF") {
			nan = true
		}
	}
	switch {
	case nan && (f.kind == "foreign-column" || f.kind == "disallowed-construct") && (strings.Contains(f.msg, `"nan"`) || strings.Contains(f.msg, `"inf"`) || strings.Contains(f.msg, `"infinity"`) || strings.Contains(f.msg, "operator +") || strings.Contains(f.msg, "operator -")):
		return "nan-inf-word-read-as-number"
	case long && f.kind == "foreign-column":
		return "identifier-truncated-at-63-bytes"
	}
	if f.kind == "placeholder-count" && strings.Contains(f.msg, `SQL "? `) {
		// a field name that reads as a number is rendered as a placeholder; a range repeats it
		return "numeric-field-name-placeholder-repeated-in-range"
	}
	if f.kind == "foreign-string-constant" || f.kind == "foreign-column" {
		// a phrase spelled with \" inside is cut at that quote: the rest is read as further terms
		for _, p := range append(append([]vc02Piece{}, q.fields...), q.values...) {
			if len(p.written) > 2 && p.written[0] == '"' && strings.Contains(p.written, `\"`) {
				return "phrase-escapes-unprocessed"
			}
		}
	}
	if q.fuzz {
		return "fuzz-" + f.kind
	}
	return f.kind
}

// ---- the domain -------------------------------------------------------------------------------

type vc02Template struct {
	text   string // {F} {G} fields, {V} {W} values, {P} pattern, {R} regexp
	needs  string
	barish bool // contains a bare term: interesting with a default field
}

var vc02Templates = []vc02Template{
	{"{F}:{V}", "FV", false},
	{"{F}:<{V}", "FV", false},
	{"{F}:>={V}", "FV", false},
	{"NOT {F}:{V}", "FV", false},
	{"-{F}:{V}", "FV", false},
	{"+{F}:{V}", "FV", false},
	{"{F}:[{V} TO *]", "FV", false},
	{"{F}:{* TO {V}}", "FV", false},
	{"{F}:({V})", "FV", false},
	{"{V}", "V", true},
	{"NOT {V}", "V", true},
	{"{F}:{V}~2", "FV", false},
	{"{F}:{V}^2", "FV", false},
	{"{F}={V}", "FV", false},
	{"{F}:{P}", "FP", false},
	{"{P}", "P", true},
	{"{F}:{R}", "FR", false},
	{"{R}", "R", true},
	{"{F}:[{V} TO {W}]", "FVW", false},
	{"{F}:{{V} TO {W}}", "FVW", false},
	{"{F}:({V} OR {W})", "FVW", false},
	{"{F}:({V} AND {W})", "FVW", false},
	{"{F}:({V} {W})", "FVW", false},
	{"{V} OR {W}", "VW", true},
	{"{V} {W}", "VW", true},
	{"{F}:{V} AND {G}:{W}", "FGVW", false},
	{"{F}:{V} OR NOT {G}:{W}", "FGVW", false},
	{"({F}:{V} {G}:{W})", "FGVW", false},
	{"{F}:{V} AND {W}", "FVW", true},
	{"{F}:[{P} TO {V}]", "FPV", false},
	{"{F}:({P} OR {V})", "FPV", false},
}

func vc02Fill(t vc02Template, f, g, v, w, p, r *vc02Piece, def string) vc02Query {
	text := t.text
	q := vc02Query{def: def, template: t.text}
	put := func(ph string, pc *vc02Piece, field bool) {
		if pc == nil || !strings.Contains(text, ph) {
			return
		}
		text = strings.ReplaceAll(text, ph, pc.written)
		if field {
			q.fields = append(q.fields, *pc)
		} else {
			q.values = append(q.values, *pc)
		}
	}
	put("{F}", f, true)
	put("{G}", g, true)
	put("{V}", v, false)
	put("{W}", w, false)
	put("{P}", p, false)
	put("{R}", r, false)
	q.text = text
	return q
}

func vc02Domain(thorough bool, seed int64) (qs []vc02Query, desc string) {
	var fields, values []vc02Piece
	for _, s := range vc02FieldNames(thorough) {
		fields = append(fields, vc02Spellings(s, thorough)...)
	}
	for _, s := range vc02Values(thorough) {
		values = append(values, vc02Spellings(s, true)...)
	}
	pats := vc02Patterns(thorough)
	res := vc02Regexps(thorough)
	pick := func(ps []vc02Piece, sems ...string) []vc02Piece {
		var out []vc02Piece
		for _, p := range ps {
			for _, s := range sems {
				if p.sem == s {
					out = append(out, p)
				}
			}
		}
		return out
	}
	smallF := pick(fields, "a", `a"b`, "a;b", vc02Long100, "NaN", "1")
	smallV := pick(values, "b", "it's", "x'; DROP TABLE t;--", "NaN", `b\`, "\xff", "b,c", "/*")
	if thorough {
		smallF = append(smallF, pick(fields, "A b", `a\b`, "a\x00b", vc02Long100b, "a--b")...)
		smallV = append(smallV, pick(values, "'", `\'`, "b\x00c", "Inf", "*/ OR 1=1 /*", "') OR ('1'='1", "$1", "?", "1) OR (1=1", "-Inf")...)
	}
	// first spelling of each name only
	first := func(ps []vc02Piece) []vc02Piece {
		var out []vc02Piece
		for i, p := range ps {
			if i == 0 || ps[i-1].sem != p.sem {
				out = append(out, p)
			}
		}
		return out
	}
	tinyF, tinyV := first(smallF), first(smallV)
	hostileDefs := []string{`d"f`, "d f", "d;--", strings.Repeat("d", 70), "d\x00f", "\xff", "NaN", `d\f`, "d'f", "d/*f"}
	seen := map[string]bool{}
	add := func(q vc02Query) {
		k := q.def + "\x00\x01" + q.text
		if !seen[k] {
			seen[k] = true
			qs = append(qs, q)
		}
	}
	one := []*vc02Piece{nil}
	ptrs := func(ps []vc02Piece) []*vc02Piece {
		out := make([]*vc02Piece, len(ps))
		for i := range ps {
			out[i] = &ps[i]
		}
		return out
	}
	for _, t := range vc02Templates {
		fs, gs, vs, ws, ps, rs := one, one, one, one, one, one
		has := func(c string) bool { return strings.Contains(t.needs, c) }
		holes := strings.Count(t.needs, "V") + strings.Count(t.needs, "W") + strings.Count(t.needs, "P") + strings.Count(t.needs, "G")
		if has("F") {
			fs = ptrs(fields)
			if holes >= 2 {
				fs = ptrs(tinyF)
			}
		}
		if has("G") {
			fs, gs = ptrs(fields), ptrs(tinyF)
			if thorough {
				fs, gs = ptrs(first(fields)), ptrs(tinyF[:6])
			}
		}
		if has("V") {
			vs = ptrs(values)
			if has("G") || has("P") {
				vs = ptrs(tinyV)
			}
		}
		if has("W") {
			ws = ptrs(tinyV)
			if !has("F") {
				ws = ptrs(smallV)
			}
		}
		if has("P") {
			ps = ptrs(pats)
			vs = ptrs(smallV)
		}
		if has("R") {
			rs = ptrs(res)
		}
		for _, f := range fs {
			for _, g := range gs {
				for _, v := range vs {
					for _, w := range ws {
						for _, p := range ps {
							for _, r := range rs {
								add(vc02Fill(t, f, g, v, w, p, r, ""))
								// with a default field: every bare-term template; the others for the small name set
								if t.barish || thorough || f == nil || f.sem == "a" || f.sem == "NaN" || f.sem == `a"b` {
									add(vc02Fill(t, f, g, v, w, p, r, "def"))
								}
								if t.barish && (holes <= 1 || (v != nil && v.sem == "b") || (w != nil && w.sem == "b")) {
									for _, d := range hostileDefs {
										add(vc02Fill(t, f, g, v, w, p, r, d))
									}
								}
							}
						}
					}
				}
			}
		}
	}
	nTemplated := len(qs)

	// seeded random texts glued from hostile fragments
	frags := []string{"a", "b", "NaN", "Inf", ":", `"`, `'`, `\`, "(", ")", "[", "]", "{", "}", " TO ", " AND ", " OR ", " NOT ", "*", "?", "--", "/*", "*/", ";", "\x00", "\xff", "~", "^", " ", "/", "+", "-", "<", ">", "=", "1", ".5", "é", ",", "$1", "''", `\"`, `\'`}
	nRandom := 30000
	if thorough {
		nRandom = 600000
	}
	rng := rand.New(rand.NewSource(seed))
	for i := 0; i < nRandom; i++ {
		n := 1 + rng.Intn(9)
		var sb strings.Builder
		for j := 0; j < n; j++ {
			sb.WriteString(frags[rng.Intn(len(frags))])
		}
		d := ""
		switch rng.Intn(4) {
		case 0:
			d = "def"
		case 1:
			d = hostileDefs[rng.Intn(len(hostileDefs))]
		}
		add(vc02Query{text: sb.String(), def: d, fuzz: true, template: "random"})
	}
	desc = fmt.Sprintf("%d templated queries: %d templates (term, comparisons, NOT/+/-, closed and open ranges, lists, bare terms, fuzzy, boost, =, patterns, regexps, two-field conjunctions) filled with %d field-name spellings of %d hostile names "+
		"(quotes, backslash, ; -- /* NUL, invalid UTF-8, 64/100-byte names, NaN/Inf, keywords; bare / backslash-escaped / \"phrase\" / 'phrase'), %d value spellings of %d hostile values, %d patterns, %d regexps "+
		"(two-hole templates use %d names x %d spellings for the second hole), each with no default field and with default field \"def\" (bare-term templates also with %d hostile default fields); "+
		"plus %d distinct seeded random texts of 1-9 hostile fragments. Each query is rendered inline and parameterized; every successful rendering is checked with PostgreSQL's scanner and parser (pg_query_go v4, PostgreSQL 15 grammar).",
		nTemplated, len(vc02Templates), len(fields), len(vc02FieldNames(thorough)), len(values), len(vc02Values(thorough)), len(pats), len(res), len(smallF), len(smallV), len(hostileDefs), len(qs)-nTemplated)
	return qs, desc
}

// ---- report -------------------------------------------------------------------------------------

type vc02Failure struct {
	cat   string
	input string
	msg   string
	size  int
}

type vc02Report struct {
	Property           string         `json:"property"`
	Tier               string         `json:"tier"`
	Seed               int64          `json:"seed"`
	Evaluations        int            `json:"evaluations"`
	DistinctNontrivial int            `json:"distinct_nontrivial"`
	Bound              string         `json:"bound"`
	FailureCount       int            `json:"failure_count"`
	ByCategory         map[string]int `json:"by_category"`
	Failures           []string       `json:"failures"`
	Samples            []string       `json:"samples"`
}

func vc02Parallel(n int, fn func(i int)) {
	workers := runtime.NumCPU()
	if workers > 16 {
		workers = 16
	}
	var wg sync.WaitGroup
	var next int64
	const chunk = 128
	for w := 0; w < workers; w++ {
		wg.Add(1)
		go func() {
			defer wg.Done()
			for {
				start := int(atomic.AddInt64(&next, chunk)) - chunk
				if start >= n {
					return
				}
				end := start + chunk
				if end > n {
					end = n
				}
				for i := start; i < end; i++ {
					fn(i)
				}
			}
		}()
	}
	wg.Wait()
}

func TestVerifStandin_C02(t *testing.T) {
	tier := os.Getenv("VERIF_TIER")
	if tier != "thorough" {
		tier = "quick"
	}
	seed := int64(1)
	if s := os.Getenv("VERIF_SEED"); s != "" {
		if v, err := strconv.ParseInt(s, 10, 64); err == nil {
			seed = v
		}
	}
	qs, desc := vc02Domain(tier == "thorough", seed)

	var mu sync.Mutex
	var fails []vc02Failure
	var rendered int64
	vc02Parallel(len(qs), func(i int) {
		q := &qs[i]
		ok := false
		report := func(f *vc02Finding, mode string) {
			if f == nil {
				return
			}
			in := strconv.Quote(q.text)
			if q.def != "" {
				in += " default field " + strconv.Quote(q.def)
			}
			fl := vc02Failure{cat: vc02Category(q, f, mode), input: in + " (" + mode + ")", msg: f.msg, size: len(q.text) + len(q.def)}
			mu.Lock()
			fails = append(fails, fl)
			mu.Unlock()
		}
		func() {
			defer func() {
				if r := recover(); r != nil {
					report(&vc02Finding{"panic", fmt.Sprintf("panic while checking: %v", r)}, "harness")
				}
			}()
			sql, err, pan := vc02Inline(q)
			switch {
			case pan != nil:
				report(&vc02Finding{"panic", fmt.Sprintf("ToPostgres panicked: %v", pan)}, "inline")
			case err == nil:
				ok = true
				report(vc02CheckSQL(q, sql, 0, false), "inline")
			}
			psql, params, err, pan := vc02Param(q)
			switch {
			case pan != nil:
				report(&vc02Finding{"panic", fmt.Sprintf("ToParameterizedPostgres panicked: %v", pan)}, "parameterized")
			case err == nil:
				ok = true
				report(vc02CheckSQL(q, psql, len(params), true), "parameterized")
			}
		}()
		if ok {
			atomic.AddInt64(&rendered, 1)
		}
	})

	sort.Slice(fails, func(i, j int) bool {
		a, b := fails[i], fails[j]
		if a.cat != b.cat {
			return a.cat < b.cat
		}
		if a.size != b.size {
			return a.size < b.size
		}
		return a.input < b.input
	})
	rep := &vc02Report{Property: "C02", Tier: tier, Seed: seed, Evaluations: len(qs), DistinctNontrivial: int(rendered),
		Bound:      "distinct (query text, default field) pairs; non-trivial = at least one of ToPostgres / ToParameterizedPostgres succeeds (the property only speaks about successful renderings). " + desc,
		ByCategory: map[string]int{}, Failures: []string{}}
	perCat := map[string][]string{}
	var catOrder []string
	show := os.Getenv("VERIF_SHOW")
	for _, f := range fails {
		rep.ByCategory[f.cat]++
		if rep.ByCategory[f.cat] == 1 {
			catOrder = append(catOrder, f.cat)
		}
		m := fmt.Sprintf("[%s] %s : %s", f.cat, f.input, f.msg)
		if rep.ByCategory[f.cat] <= 3 {
			perCat[f.cat] = append(perCat[f.cat], m)
		}
		if show == f.cat && rep.ByCategory[f.cat] <= 60 {
			t.Logf("SHOW %s", m)
		}
	}
	quota := map[string]int{}
	total := 0
	for round := 0; round < 3; round++ {
		for _, c := range catOrder {
			if round < len(perCat[c]) && total < 25 {
				quota[c]++
				total++
			}
		}
	}
	for _, c := range catOrder {
		rep.Failures = append(rep.Failures, perCat[c][:quota[c]]...)
	}
	rep.FailureCount = len(fails)
	for i := 0; i < len(qs) && len(rep.Samples) < 12; i += 1 + len(qs)/12 {
		rep.Samples = append(rep.Samples, strconv.Quote(qs[i].text))
	}
	if path := os.Getenv("VERIF_REPORT"); path != "" {
		data, err := json.MarshalIndent(rep, "", " ")
		if err == nil {
			err = os.WriteFile(path, data, 0o644)
		}
		if err != nil {
			t.Logf("cannot write report: %v", err)
		}
	}
	t.Logf("C02 %s seed=%d: %d evaluations, %d rendered, %d failures in %d categories", tier, seed, rep.Evaluations, rep.DistinctNontrivial, rep.FailureCount, len(rep.ByCategory))
	for _, c := range catOrder {
		t.Logf("  [%s] x %d", c, rep.ByCategory[c])
	}
	for _, m := range rep.Failures {
		t.Errorf("%s", m)
	}
}
