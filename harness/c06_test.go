//go:build verif

package lucene

// Bounded stand-in / counterexample search for property C06:
//
//	"Every accepted query's tree is a derivation of the text that was typed."
//
// Injected into the repository root with `go test -overlay`; never written to /repo.
//
// For every input of the enumerated domain and for both configurations (without /
// with a default field) the input is parsed; whenever Parse accepts, an independent
// derivation checker (written from the grammar quoted in the property statement:
// term, field:E, field:>v, field:[a TO b], (E), +E, -E, NOT E, E~n, E^n, E AND E,
// E OR E, juxtaposition) must lay the returned tree over the token list the lexer
// produces for the same input.  The checker is a memoised existential search over
// all splits; it never looks at how the parser decided.  It proves per input:
// every term token is exactly one leaf, in order, with its typed value; every
// operator token is consumed by exactly one node of the matching kind; brackets
// pair up around non-empty groups; nothing in the tree lacks a source token (the
// only token-less nodes allowed are the AND of a juxtaposition and, when the option
// is set, the default-field scoping of a single term).
//
// When no strict derivation exists the checker retries with the smallest set of
// named relaxations under which one exists; every relaxation is its own finding
// category, so that one known deviation never hides another one.
//
// Interface: /verif/harness/README.md (VERIF_TIER, VERIF_SEED, VERIF_REPORT).  Extra knobs,
// not needed for normal runs: VERIF_INPUT=<input, Go-quoted or verbatim> replays the check
// on that single input; VERIF_C06_LEN / VERIF_C06_RLEN / VERIF_C06_XLEN / VERIF_C06_RANDOM override the bounds.
// The test also runs a self-test of its own oracle on hand-built trees first.

import (
	"encoding/json"
	"fmt"
	"hash/fnv"
	"math"
	"math/rand"
	"os"
	"reflect"
	"runtime"
	"runtime/debug"
	"sort"
	"strconv"
	"strings"
	"sync"
	"testing"

	"github.com/grindlemire/go-lucene/internal/lex"
	"github.com/grindlemire/go-lucene/pkg/lucene/expr"
)

// ---- the alphabets ---------------------------------------------------------------------------

type vc06Sym struct {
	text string
	typ  lex.TokType
}

// vc06Main: every token type and every literal kind, one or two representatives each.
var vc06Main = []vc06Sym{
	{"a", lex.TLiteral}, {"b", lex.TLiteral}, {`"q r"`, lex.TQuoted}, {"7", lex.TLiteral},
	{"1.5", lex.TLiteral}, {"-3", lex.TLiteral}, {"w*", lex.TLiteral}, {"/r/", lex.TRegexp},
	{"AND", lex.TAnd}, {"OR", lex.TOr}, {"NOT", lex.TNot}, {"TO", lex.TTO},
	{"(", lex.TLParen}, {")", lex.TRParen}, {"[", lex.TLSquare}, {"]", lex.TRSquare},
	{"{", lex.TLCurly}, {"}", lex.TRCurly}, {":", lex.TColon}, {"=", lex.TEqual},
	{">", lex.TGreater}, {"<", lex.TLess}, {"+", lex.TPlus}, {"-", lex.TMinus},
	{"~", lex.TTilde}, {"^", lex.TCarrot},
}

// vc06Reduced: one representative per syntactic role (second word, float, negative
// number, curly brackets and '<' left out); enumerated one symbol longer than vc06Main.
var vc06Reduced = []vc06Sym{
	{"a", lex.TLiteral}, {`"q r"`, lex.TQuoted}, {"7", lex.TLiteral}, {"w*", lex.TLiteral}, {"/r/", lex.TRegexp},
	{"AND", lex.TAnd}, {"OR", lex.TOr}, {"NOT", lex.TNot}, {"TO", lex.TTO},
	{"(", lex.TLParen}, {")", lex.TRParen}, {"[", lex.TLSquare}, {"]", lex.TRSquare},
	{":", lex.TColon}, {"=", lex.TEqual}, {">", lex.TGreater}, {"+", lex.TPlus}, {"-", lex.TMinus},
	{"~", lex.TTilde}, {"^", lex.TCarrot},
}

// vc06Small: a still smaller sub-alphabet for the longest layer of the thorough tier.
var vc06Small = []vc06Sym{
	{"a", lex.TLiteral}, {"7", lex.TLiteral}, {"w*", lex.TLiteral},
	{"AND", lex.TAnd}, {"OR", lex.TOr}, {"NOT", lex.TNot}, {"TO", lex.TTO},
	{"(", lex.TLParen}, {")", lex.TRParen}, {"[", lex.TLSquare}, {"]", lex.TRSquare},
	{":", lex.TColon}, {"=", lex.TEqual}, {">", lex.TGreater}, {"+", lex.TPlus}, {"-", lex.TMinus},
	{"~", lex.TTilde}, {"^", lex.TCarrot},
}

// vc06Extra: further lexemes of the term classes (they behave like the terms above
// syntactically, so they are enumerated to a smaller length bound).
var vc06Extra = []vc06Sym{
	{"*", lex.TLiteral}, {`"q*"`, lex.TQuoted}, {`"/x/"`, lex.TQuoted}, {`'s t'`, lex.TQuoted},
	{`e\*`, lex.TLiteral}, {`x\:y`, lex.TLiteral}, {`p\\q`, lex.TLiteral}, {"inf", lex.TLiteral},
	{"nan", lex.TLiteral}, {"1e3", lex.TLiteral}, {`"7"`, lex.TQuoted}, {"-7.5", lex.TLiteral},
	{"été", lex.TLiteral},
}

const vc06Field = "d" // default field of the second configuration; occurs in no enumerated input

// ---- typed value of a term token (oracle, from the statement; not parseLiteral) --------------

func vc06Digits(s string) bool {
	if s == "" {
		return false
	}
	for i := 0; i < len(s); i++ {
		if s[i] < '0' || s[i] > '9' {
			return false
		}
	}
	return true
}

// vc06Number: decimal numeral syntax  -?digits[.digits*][(e|E)[-]digits]
func vc06Number(s string) (isInt, isFloat bool) {
	t := strings.TrimPrefix(s, "-")
	mant, exp, hasExp := t, "", false
	if k := strings.IndexAny(t, "eE"); k >= 0 {
		mant, exp, hasExp = t[:k], strings.TrimPrefix(strings.TrimPrefix(t[k+1:], "-"), "+"), true
	}
	ip, fp, hasDot := mant, "", false
	if k := strings.IndexByte(mant, '.'); k >= 0 {
		ip, fp, hasDot = mant[:k], mant[k+1:], true
	}
	if !vc06Digits(ip) || (hasDot && fp != "" && !vc06Digits(fp)) || (hasExp && !vc06Digits(exp)) {
		return false, false
	}
	if !hasDot && !hasExp {
		return true, false
	}
	return false, true
}

// vc06UnescapedWildcard: the word contains * or ? not preceded by a backslash.
func vc06UnescapedWildcard(s string) bool {
	for i := 0; i < len(s); i++ {
		if s[i] == '\\' {
			i++
			continue
		}
		if s[i] == '*' || s[i] == '?' {
			return true
		}
	}
	return false
}

func vc06Unescape(s string) string {
	var b strings.Builder
	for i := 0; i < len(s); i++ {
		if s[i] == '\\' && i+1 < len(s) {
			i++
		}
		b.WriteByte(s[i])
	}
	return b.String()
}

// vc06TermValue: operator and value of the leaf a term token stands for.
func vc06TermValue(tok lex.Token) (expr.Operator, any) {
	v := tok.Val
	switch tok.Typ {
	case lex.TQuoted:
		if len(v) >= 2 {
			return expr.Literal, v[1 : len(v)-1]
		}
		return expr.Literal, v
	case lex.TRegexp:
		return expr.Regexp, v
	}
	if isInt, isFloat := vc06Number(v); isInt || isFloat {
		if isInt {
			if n, err := strconv.Atoi(v); err == nil {
				return expr.Literal, n
			}
		}
		if f, err := strconv.ParseFloat(v, 64); err == nil {
			return expr.Literal, f
		}
		return expr.Literal, v // a numeral beyond float64 has no number to stand for
	}
	if vc06UnescapedWildcard(v) {
		return expr.Wild, v
	}
	return expr.Literal, vc06Unescape(v)
}

func vc06IsTermTok(t lex.TokType) bool {
	return t == lex.TLiteral || t == lex.TQuoted || t == lex.TRegexp
}

func vc06IsLeaf(e *expr.Expression) bool {
	return e != nil && (e.Op == expr.Literal || e.Op == expr.Wild || e.Op == expr.Regexp)
}

func vc06ValEq(a, b any) bool {
	if c, ok := a.(expr.Column); ok {
		a = string(c)
	}
	if c, ok := b.(expr.Column); ok {
		b = string(c)
	}
	if fa, ok := a.(float64); ok {
		fb, ok2 := b.(float64)
		return ok2 && (fa == fb || (math.IsNaN(fa) && math.IsNaN(fb)))
	}
	return a == b // same dynamic type and value
}

// vc06LeafCat names the deviation between a term token and the leaf laid over it.
func vc06LeafCat(tok lex.Token, leaf *expr.Expression, field bool) string {
	_, isNum := leaf.Left.(float64)
	if _, isI := leaf.Left.(int); isI {
		isNum = true
	}
	ls, isStr := leaf.Left.(string)
	if c, ok := leaf.Left.(expr.Column); ok {
		ls, isStr = string(c), true
	}
	switch {
	case tok.Typ == lex.TQuoted && tok.Val[0] == '\'' && isStr && ls == tok.Val:
		return "single-quoted-value-keeps-quotes"
	case tok.Typ == lex.TQuoted && (leaf.Op == expr.Wild || leaf.Op == expr.Regexp):
		return "quoted-string-retyped-as-pattern"
	case tok.Typ == lex.TQuoted && isNum:
		return "quoted-string-retyped-as-number"
	case tok.Typ == lex.TLiteral && isNum:
		if i, f := vc06Number(tok.Val); !i && !f {
			return "word-typed-as-number"
		}
	case tok.Typ == lex.TLiteral && !vc06UnescapedWildcard(tok.Val) && strings.ContainsAny(tok.Val, "*?") && (leaf.Op == expr.Wild || (field && isStr && ls == tok.Val)):
		return "escaped-wildcard-typed-as-pattern"
	case tok.Typ == lex.TLiteral && strings.Contains(tok.Val, `\\`) && isStr:
		return "escaped-backslash-dropped"
	}
	if field {
		return "field-leaf-typed-value"
	}
	return "leaf-typed-value"
}

// ---- the derivation checker ---------------------------------------------------------------------

const (
	vc06FEq         = 1 << iota // '=' stands where the grammar has ':'
	vc06FCmp                    // field:>v with v not a single term
	vc06FMixed                  // a range opened and closed by brackets of different kinds
	vc06FAmount                 // E~n / E^n with n not a bare number token
	vc06FAmountVal              // the distance / power in the node is not the number typed
	vc06FLeaf                   // a leaf does not carry the typed value of its token
	vc06FEmpty                  // empty groups () were silently dropped
	vc06FParenField             // the field name of field:E stands inside parentheses
	vc06FRangeBound             // a range bound is a compound expression, not a single term
	vc06NFlags      = 9
)

var vc06FlagCat = [vc06NFlags]string{
	"equals-sign-as-field-operator",
	"comparison-value-not-a-term",
	"range-mixed-brackets",
	"fuzzy-boost-amount-not-a-number-token",
	"fuzzy-boost-amount-value",
	"leaf-typed-value",
	"empty-group-dropped",
	"parenthesized-field-name",
	"range-bound-not-a-term",
}

type vc06Pair struct {
	tok   int
	leaf  *expr.Expression
	field bool
}

type vc06Key struct {
	e    *expr.Expression
	i, j int
}

type vc06Res struct {
	ok bool
	w  []vc06Pair
}

type vc06M struct {
	toks  []lex.Token
	df    string
	flags uint
	memo  map[vc06Key]vc06Res
}

func (m *vc06M) typ(i int) lex.TokType { return m.toks[i].Typ }

func vc06Cat(a, b []vc06Pair) []vc06Pair {
	if len(a) == 0 {
		return b
	}
	if len(b) == 0 {
		return a
	}
	out := make([]vc06Pair, 0, len(a)+len(b))
	return append(append(out, a...), b...)
}

// leaf: the token at i is a term and x is the leaf it stands for.
func (m *vc06M) leaf(x any, i int, field bool) vc06Res {
	e, ok := x.(*expr.Expression)
	if !ok || !vc06IsLeaf(e) || e.Right != nil || i >= len(m.toks) || !vc06IsTermTok(m.typ(i)) {
		return vc06Res{}
	}
	op, val := vc06TermValue(m.toks[i])
	exact := vc06ValEq(e.Left, val)
	if field {
		// a field name is held as a column; its operator says nothing
		_, isCol := e.Left.(expr.Column)
		_, isStrVal := val.(string)
		exact = exact && (isCol == isStrVal)
	} else {
		_, isCol := e.Left.(expr.Column)
		exact = exact && e.Op == op && !isCol
	}
	if exact {
		return vc06Res{ok: true}
	}
	if m.flags&vc06FLeaf != 0 {
		return vc06Res{ok: true, w: []vc06Pair{{i, e, field}}}
	}
	return vc06Res{}
}

func (m *vc06M) isDefaultScope(e *expr.Expression) bool {
	if m.df == "" || (e.Op != expr.Equals && e.Op != expr.Like) {
		return false
	}
	l, ok := e.Left.(*expr.Expression)
	if !ok || l == nil || l.Op != expr.Literal || l.Right != nil {
		return false
	}
	c, isCol := l.Left.(expr.Column)
	return isCol && string(c) == m.df
}

// node: x derives exactly the tokens [i, j).
func (m *vc06M) node(x any, i, j int) vc06Res {
	e, ok := x.(*expr.Expression)
	if !ok || e == nil || j <= i {
		return vc06Res{}
	}
	k := vc06Key{e, i, j}
	if r, seen := m.memo[k]; seen {
		return r
	}
	m.memo[k] = vc06Res{} // cut cycles (a tree has none; defensive)
	r := m.node1(e, i, j)
	m.memo[k] = r
	return r
}

// field: a field name starts at i; returns the index after it.  The grammar has a
// single term token there; relaxed (vc06FParenField) it may stand in parentheses.
func (m *vc06M) field(x any, i, j int) (vc06Res, int) {
	if r := m.leaf(x, i, true); r.ok {
		return r, i + 1
	}
	if m.flags&vc06FParenField != 0 {
		d := 0
		for i+d < j && m.typ(i+d) == lex.TLParen {
			d++
		}
		if d > 0 && i+2*d < j {
			closed := true
			for k := 1; k <= d; k++ {
				closed = closed && m.typ(i+d+k) == lex.TRParen
			}
			if r := m.leaf(x, i+d, true); closed && r.ok {
				return r, i + 2*d + 1
			}
		}
	}
	return vc06Res{}, i
}

func (m *vc06M) fieldOp(i int, allowEq bool) bool {
	if m.typ(i) == lex.TColon {
		return true
	}
	return allowEq && m.typ(i) == lex.TEqual && m.flags&vc06FEq != 0
}

func (m *vc06M) node1(e *expr.Expression, i, j int) vc06Res {
	// (E): a group contributes no node; it must enclose a non-empty derivation
	if j-i >= 3 && m.typ(i) == lex.TLParen && m.typ(j-1) == lex.TRParen {
		if r := m.node(e, i+1, j-1); r.ok {
			return r
		}
	}
	// default-field scoping of a single term (only when the option is set)
	if j == i+1 && m.isDefaultScope(e) {
		if r := m.leaf(e.Right, i, false); r.ok {
			return r
		}
	}
	switch e.Op {
	case expr.Literal, expr.Wild, expr.Regexp:
		if j == i+1 {
			return m.leaf(e, i, false)
		}
	case expr.Equals, expr.Like, expr.In:
		f, c := m.field(e.Left, i, j)
		if !f.ok || j-c < 2 || !m.fieldOp(c, true) {
			break
		}
		var v vc06Res
		switch e.Op {
		case expr.Equals:
			v = m.node(e.Right, c+1, j)
		case expr.Like:
			if r, isE := e.Right.(*expr.Expression); isE && r != nil && (r.Op == expr.Wild || r.Op == expr.Regexp) {
				v = m.node(r, c+1, j)
			}
		case expr.In:
			if r, isE := e.Right.(*expr.Expression); isE && r != nil && r.Op == expr.List && r.Right == nil {
				if items, isL := r.Left.([]*expr.Expression); isL && len(items) >= 1 {
					v = m.list(items, c+1, j)
				}
			}
		}
		if v.ok {
			return vc06Res{true, vc06Cat(f.w, v.w)}
		}
	case expr.Greater, expr.Less, expr.GreaterEq, expr.LessEq:
		n := 2 // : >
		if e.Op == expr.GreaterEq || e.Op == expr.LessEq {
			n = 3 // : > =
		}
		f, c := m.field(e.Left, i, j)
		if !f.ok || j-c < n+1 || m.typ(c) != lex.TColon {
			break
		}
		want := lex.TGreater
		if e.Op == expr.Less || e.Op == expr.LessEq {
			want = lex.TLess
		}
		if m.typ(c+1) != want || (n == 3 && m.typ(c+2) != lex.TEqual) {
			break
		}
		if r, isE := e.Right.(*expr.Expression); isE && vc06IsLeaf(r) {
			// a single value (a group around it adds nothing)
			if v := m.node(r, c+n, j); v.ok {
				return vc06Res{true, vc06Cat(f.w, v.w)}
			}
		} else if m.flags&vc06FCmp != 0 {
			if v := m.node(e.Right, c+n, j); v.ok {
				return vc06Res{true, vc06Cat(f.w, v.w)}
			}
		}
	case expr.Range:
		b, isB := e.Right.(*expr.RangeBoundary)
		if !isB || b == nil {
			break
		}
		f, c := m.field(e.Left, i, j) // then  : [ a TO b ]
		if f.ok && m.flags&vc06FRangeBound != 0 && j-c >= 6 && m.fieldOp(c, false) {
			// relaxed: field : [ E TO E ] with arbitrary expressions as bounds
			o, cl := m.typ(c+1), m.typ(j-1)
			if ((o == lex.TLSquare && cl == lex.TRSquare) == b.Inclusive) && (o == lex.TLSquare || o == lex.TLCurly) && (cl == lex.TRSquare || cl == lex.TRCurly) {
				for p := c + 3; p < j-2; p++ {
					if m.typ(p) != lex.TTO {
						continue
					}
					if lo := m.node(b.Min, c+2, p); lo.ok {
						if hi := m.node(b.Max, p+1, j-1); hi.ok {
							return vc06Res{true, vc06Cat(vc06Cat(f.w, lo.w), hi.w)}
						}
					}
				}
			}
		}
		if !f.ok || j != c+6 || !m.fieldOp(c, false) || m.typ(c+3) != lex.TTO {
			break
		}
		o, cl := m.typ(c+1), m.typ(c+5)
		incl := o == lex.TLSquare && cl == lex.TRSquare
		excl := o == lex.TLCurly && cl == lex.TRCurly
		mixed := (o == lex.TLSquare && cl == lex.TRCurly) || (o == lex.TLCurly && cl == lex.TRSquare)
		if !(incl && b.Inclusive) && !(excl && !b.Inclusive) && !(mixed && m.flags&vc06FMixed != 0) {
			break
		}
		lo, hi := m.leaf(b.Min, c+2, false), m.leaf(b.Max, c+4, false)
		if lo.ok && hi.ok {
			return vc06Res{true, vc06Cat(vc06Cat(f.w, lo.w), hi.w)}
		}
	case expr.Not, expr.Must, expr.MustNot:
		want := map[expr.Operator]lex.TokType{expr.Not: lex.TNot, expr.Must: lex.TPlus, expr.MustNot: lex.TMinus}[e.Op]
		if m.typ(i) == want && e.Right == nil {
			return m.node(e.Left, i+1, j)
		}
	case expr.Fuzzy, expr.Boost:
		if e.Right != nil {
			break
		}
		want := lex.TTilde
		if e.Op == expr.Boost {
			want = lex.TCarrot
		}
		for p := j - 1; p > i; p-- {
			if m.typ(p) != want || !m.amount(e, p+1, j) {
				continue
			}
			if l := m.node(e.Left, i, p); l.ok {
				return l
			}
		}
	case expr.And, expr.Or:
		want := lex.TAnd
		if e.Op == expr.Or {
			want = lex.TOr
		}
		for p := i + 1; p < j-1; p++ {
			if m.typ(p) != want {
				continue
			}
			if l := m.node(e.Left, i, p); l.ok {
				if r := m.node(e.Right, p+1, j); r.ok {
					return vc06Res{true, vc06Cat(l.w, r.w)}
				}
			}
		}
		if e.Op == expr.And { // juxtaposition: the one node without a token
			for p := i + 1; p < j; p++ {
				if l := m.node(e.Left, i, p); l.ok {
					if r := m.node(e.Right, p, j); r.ok {
						return vc06Res{true, vc06Cat(l.w, r.w)}
					}
				}
			}
		}
	}
	return vc06Res{}
}

// list: the values of a value list, in order, joined by OR tokens, grouped by parentheses.
func (m *vc06M) list(items []*expr.Expression, i, j int) vc06Res {
	if j <= i {
		return vc06Res{}
	}
	if j-i >= 3 && m.typ(i) == lex.TLParen && m.typ(j-1) == lex.TRParen {
		if r := m.list(items, i+1, j-1); r.ok {
			return r
		}
	}
	if len(items) == 1 {
		if j == i+1 {
			return m.leaf(items[0], i, false)
		}
		return vc06Res{}
	}
	for p := i + 1; p < j-1; p++ {
		if m.typ(p) != lex.TOr {
			continue
		}
		for k := 1; k < len(items); k++ {
			if l := m.list(items[:k], i, p); l.ok {
				if r := m.list(items[k:], p+1, j); r.ok {
					return vc06Res{true, vc06Cat(l.w, r.w)}
				}
			}
		}
	}
	return vc06Res{}
}

// vc06Hidden reads the distance / power of a fuzzy / boost node (unexported fields).
func vc06Hidden(e *expr.Expression) (dist int64, power float64) {
	v := reflect.ValueOf(e).Elem()
	return v.FieldByName("fuzzyDistance").Int(), v.FieldByName("boostPower").Float()
}

// amount: the tokens [i, j) after ~ or ^ are nothing (amount 1) or one number token
// whose value is the amount stored in the node.  Relaxed (vc06FAmount): any
// non-empty token range, i.e. an arbitrary expression standing for the amount.
func (m *vc06M) amount(e *expr.Expression, i, j int) bool {
	dist, power := vc06Hidden(e)
	same := func(f float64) bool {
		if e.Op == expr.Fuzzy {
			return float64(dist) == f
		}
		return power == f
	}
	if i == j {
		return same(1) || m.flags&vc06FAmountVal != 0
	}
	if j == i+1 && m.typ(i) == lex.TLiteral {
		if isInt, isFloat := vc06Number(m.toks[i].Val); isInt || isFloat {
			f, _ := strconv.ParseFloat(m.toks[i].Val, 64)
			return same(f) || m.flags&vc06FAmountVal != 0
		}
	}
	return m.flags&vc06FAmount != 0
}

// vc06DropEmptyGroups removes adjacent ( ) pairs until none is left.
func vc06DropEmptyGroups(toks []lex.Token) ([]lex.Token, bool) {
	out := append([]lex.Token(nil), toks...)
	dropped := false
	for again := true; again; {
		again = false
		for i := 0; i+1 < len(out); i++ {
			if out[i].Typ == lex.TLParen && out[i+1].Typ == lex.TRParen {
				out = append(out[:i], out[i+2:]...)
				again, dropped = true, true
				break
			}
		}
	}
	return out, dropped
}

func vc06Try(toks []lex.Token, e *expr.Expression, df string, flags uint) vc06Res {
	m := &vc06M{toks: toks, df: df, flags: flags, memo: map[vc06Key]vc06Res{}}
	return m.node(e, 0, len(toks))
}

// vc06Leaves lists the leaves of the tree in reading order (diagnostics only).
func vc06Leaves(x any, df string, out *[]*expr.Expression, ops map[expr.Operator]int) {
	switch v := x.(type) {
	case *expr.Expression:
		if v == nil {
			return
		}
		if vc06IsLeaf(v) {
			*out = append(*out, v)
			return
		}
		m := vc06M{df: df}
		if m.isDefaultScope(v) {
			vc06Leaves(v.Right, df, out, ops)
			return
		}
		ops[v.Op]++
		vc06Leaves(v.Left, df, out, ops)
		vc06Leaves(v.Right, df, out, ops)
	case []*expr.Expression:
		for _, it := range v {
			vc06Leaves(it, df, out, ops)
		}
	case *expr.RangeBoundary:
		if v != nil {
			vc06Leaves(v.Min, df, out, ops)
			vc06Leaves(v.Max, df, out, ops)
		}
	}
}

// vc06Derive returns the finding categories for one accepted input ("" slice: none).
func vc06Derive(toks []lex.Token, e *expr.Expression, df string) []string {
	if vc06Try(toks, e, df, 0).ok {
		return nil
	}
	// smallest set of relaxations under which a derivation exists
	type cand struct {
		flags uint
		bits  int
	}
	var cands []cand
	for f := uint(1); f < 1<<vc06NFlags; f++ {
		n := 0
		for b := uint(0); b < vc06NFlags; b++ {
			if f&(1<<b) != 0 {
				n++
			}
		}
		cands = append(cands, cand{f, n})
	}
	sort.Slice(cands, func(a, b int) bool {
		if cands[a].bits != cands[b].bits {
			return cands[a].bits < cands[b].bits
		}
		return cands[a].flags < cands[b].flags
	})
	reduced, dropped := vc06DropEmptyGroups(toks)
	for _, c := range cands {
		tk := toks
		if c.flags&vc06FEmpty != 0 {
			if !dropped {
				continue
			}
			tk = reduced
		}
		r := vc06Try(tk, e, df, c.flags)
		if !r.ok {
			continue
		}
		var cats []string
		for b := uint(0); b < vc06NFlags; b++ {
			if c.flags&(1<<b) == 0 {
				continue
			}
			if 1<<b == vc06FLeaf {
				if vc06Permuted(tk, r.w) {
					cats = append(cats, "terms-reordered")
					continue
				}
				seen := map[string]bool{}
				for _, p := range r.w {
					lc := vc06LeafCat(tk[p.tok], p.leaf, p.field)
					if !seen[lc] {
						seen[lc] = true
						cats = append(cats, lc)
					}
				}
				continue
			}
			cats = append(cats, vc06FlagCat[b])
		}
		if len(cats) == 0 {
			cats = []string{"leaf-typed-value"}
		}
		return cats
	}
	// no derivation at all: say what is unaccounted for
	var leaves []*expr.Expression
	ops := map[expr.Operator]int{}
	vc06Leaves(e, df, &leaves, ops)
	terms, amounts := 0, 0
	tokOps := map[lex.TokType]int{}
	for k, t := range toks {
		if vc06IsTermTok(t.Typ) {
			terms++
			if k > 0 && (toks[k-1].Typ == lex.TTilde || toks[k-1].Typ == lex.TCarrot) {
				amounts++
			}
		} else {
			tokOps[t.Typ]++
		}
	}
	switch {
	case len(leaves) > terms:
		return []string{"term-invented"}
	case len(leaves) < terms-amounts:
		return []string{"term-token-dropped"}
	case ops[expr.And] < tokOps[lex.TAnd] || ops[expr.Not] < tokOps[lex.TNot] || ops[expr.Must] < tokOps[lex.TPlus] || ops[expr.MustNot] < tokOps[lex.TMinus] ||
		ops[expr.Fuzzy] < tokOps[lex.TTilde] || ops[expr.Boost] < tokOps[lex.TCarrot] || ops[expr.Or] < tokOps[lex.TOr]-vc06ListOrs(e):
		return []string{"operator-token-dropped"}
	case ops[expr.Not] > tokOps[lex.TNot] || ops[expr.Must] > tokOps[lex.TPlus] || ops[expr.MustNot] > tokOps[lex.TMinus] ||
		ops[expr.Fuzzy] > tokOps[lex.TTilde] || ops[expr.Boost] > tokOps[lex.TCarrot] || ops[expr.Or] > tokOps[lex.TOr]:
		return []string{"operator-invented"}
	}
	return []string{"no-derivation"}
}

// vc06Permuted: the leaves that do not match their tokens carry exactly the typed
// values of those tokens, in another order.
func vc06Permuted(toks []lex.Token, w []vc06Pair) bool {
	if len(w) < 2 {
		return false
	}
	used := make([]bool, len(w))
	for _, p := range w {
		found := false
		for k, q := range w {
			op, val := vc06TermValue(toks[q.tok])
			if !used[k] && vc06ValEq(p.leaf.Left, val) && (p.field || q.field || p.leaf.Op == op) {
				used[k], found = true, true
				break
			}
		}
		if !found {
			return false
		}
	}
	return true
}

// vc06ListOrs: OR tokens legitimately absorbed by value lists (k values absorb k-1).
func vc06ListOrs(x any) int {
	e, ok := x.(*expr.Expression)
	if !ok || e == nil {
		return 0
	}
	if e.Op == expr.List {
		if l, isL := e.Left.([]*expr.Expression); isL && len(l) > 0 {
			return len(l) - 1
		}
		return 0
	}
	n := vc06ListOrs(e.Left) + vc06ListOrs(e.Right)
	return n
}

// ---- running the library safely ------------------------------------------------------------------

func vc06Parse(in, df string) (e *expr.Expression, err error, pan string) {
	defer func() {
		if r := recover(); r != nil {
			pan = fmt.Sprint(r)
		}
	}()
	if df == "" {
		e, err = Parse(in)
	} else {
		e, err = Parse(in, WithDefaultField(df))
	}
	return
}

func vc06Show(e *expr.Expression) (s string) {
	defer func() {
		if r := recover(); r != nil {
			s = fmt.Sprintf("<unprintable tree: %v>", r)
		}
	}()
	return fmt.Sprintf("%#v", e)
}

func vc06Tokens(in string) (toks []lex.Token, ok bool, pan string) {
	defer func() {
		if r := recover(); r != nil {
			pan = fmt.Sprint(r)
		}
	}()
	l := lex.Lex(in)
	for n := 0; n <= len(in)+1; n++ {
		t := l.Next()
		if t.Typ == lex.TEOF {
			return toks, true, ""
		}
		if t.Typ == lex.TErr {
			return toks, false, ""
		}
		toks = append(toks, t)
	}
	return toks, false, ""
}

// ---- statistics -----------------------------------------------------------------------------------

type vc06Fail struct {
	ncat  int // number of deviations the input shows at once (single-cause witnesses first)
	ntok  int
	rnd   bool // found by random sampling (canonical enumerated inputs are preferred as witnesses)
	input string
	msg   string
}

func (a vc06Fail) less(b vc06Fail) bool {
	if a.ncat != b.ncat {
		return a.ncat < b.ncat
	}
	if a.ntok != b.ntok {
		return a.ntok < b.ntok
	}
	if a.rnd != b.rnd {
		return !a.rnd
	}
	if oa, ob := vc06Odd(a.input), vc06Odd(b.input); oa != ob {
		return oa < ob
	}
	if len(a.input) != len(b.input) {
		return len(a.input) < len(b.input)
	}
	if a.input != b.input {
		return a.input < b.input
	}
	return a.msg < b.msg
}

// vc06Odd counts the characters that make a witness harder to read (anything but the
// words a, b, the digit 7, keywords, blanks and operator characters).
func vc06Odd(in string) int {
	n := 0
	for _, r := range in {
		if !strings.ContainsRune("ab7 :()[]{}+-~^=<>", r) && !(r >= 'A' && r <= 'Z') {
			n++
		}
	}
	return n
}

type vc06Stats struct {
	evals, accepted int64
	rnd             bool
	byCat           map[string]int64
	best            map[string][]vc06Fail
}

func vc06NewStats() *vc06Stats {
	return &vc06Stats{byCat: map[string]int64{}, best: map[string][]vc06Fail{}}
}

// keep records f as a witness of cat if it is among the three smallest; the message is
// only built then (mk == nil: f.msg is already there).
func (s *vc06Stats) keep(cat string, f vc06Fail, mk func() string) {
	l := s.best[cat]
	for _, g := range l {
		if g.input == f.input { // one message per input and category
			return
		}
	}
	if len(l) == 3 && !f.less(l[2]) {
		return
	}
	if mk != nil {
		f.msg = mk()
	}
	l = append(l, f)
	sort.Slice(l, func(a, b int) bool { return l[a].less(l[b]) })
	if len(l) > 3 {
		l = l[:3]
	}
	s.best[cat] = l
}

func (s *vc06Stats) fail(cat string, ntok int, input string, mk func() string) {
	s.failN(cat, 1, ntok, input, mk)
}

func (s *vc06Stats) failN(cat string, ncat, ntok int, input string, mk func() string) {
	s.byCat[cat]++
	s.keep(cat, vc06Fail{ncat: ncat, ntok: ntok, rnd: s.rnd, input: input}, mk)
}

func (s *vc06Stats) merge(o *vc06Stats) {
	s.evals += o.evals
	s.accepted += o.accepted
	for c, n := range o.byCat {
		s.byCat[c] += n
	}
	for c, l := range o.best {
		for _, f := range l {
			s.keep(c, f, nil)
		}
	}
}

// vc06Check runs the statement of C06 on one input in both configurations.
// want (may be nil) is the symbol sequence the input was rendered from.
func vc06Check(st *vc06Stats, in string, want []vc06Sym) {
	q := strconv.Quote(in)
	type outcome struct {
		cfg string
		df  string
		e   *expr.Expression
	}
	var acc []outcome
	for _, df := range []string{"", vc06Field} {
		st.evals++
		cfg := "no default field"
		if df != "" {
			cfg = "default field " + strconv.Quote(df)
		}
		e, err, pan := vc06Parse(in, df)
		if pan != "" {
			st.fail("panic", len(want), in, func() string { return fmt.Sprintf("[panic] %s : Parse (%s) panicked: %s", q, cfg, pan) })
			continue
		}
		if err == nil && e != nil {
			acc = append(acc, outcome{cfg, df, e})
		}
	}
	if len(acc) == 0 {
		return // rejected: nothing to derive (whether it should have been accepted is not C06)
	}
	st.accepted++
	toks, lexOK, pan := vc06Tokens(in)
	if pan != "" {
		st.fail("panic", len(want), in, func() string { return fmt.Sprintf("[panic] %s : the lexer panicked: %s", q, pan) })
		return
	}
	if want != nil {
		same := lexOK && len(toks) == len(want)
		for k := 0; same && k < len(want); k++ {
			same = toks[k].Typ == want[k].typ && toks[k].Val == want[k].text
		}
		if !same {
			st.fail("token-list-differs-from-typed-symbols", len(want), in,
				func() string {
					return fmt.Sprintf("[token-list-differs-from-typed-symbols] %s : expected the %d space-separated symbols as tokens, lexer returned %v (complete=%v)", q, len(want), toks, lexOK)
				})
		}
	}
	for _, o := range acc {
		if !lexOK {
			st.fail("accepted-despite-lexical-error", len(toks), in,
				func() string {
					return fmt.Sprintf("[accepted-despite-lexical-error] %s : the lexer reports an error after %d tokens, expected rejection, Parse (%s) returned %s", q, len(toks), o.cfg, vc06Show(o.e))
				})
			continue
		}
		cats := vc06Derive(toks, o.e, o.df)
		for _, cat := range cats {
			why := vc06Why[cat]
			if why == "" {
				why = "no derivation of the tokens in the documented grammar yields this tree"
			}
			st.failN(cat, len(cats), len(toks), in,
				func() string {
					return fmt.Sprintf("[%s] %s : expected the tree to be a derivation of the %d tokens %v in the documented grammar (%s); Parse (%s) returned %s", cat, q, len(toks), toks, why, o.cfg, vc06Show(o.e))
				})
		}
	}
}

// vc06Why: what the statement demands and the tree violates, per category.
var vc06Why = map[string]string{
	"equals-sign-as-field-operator":         "'=' alone is no operator of the grammar - field:E is written with ':' -, the tree fits only if '=' is read as ':'",
	"comparison-value-not-a-term":           "field:>v compares with a single value, the tree has a compound expression there",
	"range-mixed-brackets":                  "brackets must pair up: a range opened with '[' was closed with '}' or vice versa and the tree records only one kind",
	"fuzzy-boost-amount-not-a-number-token": "in E~n / E^n the amount is one number token; here other tokens (an operator, a group, a quoted string, a word) were folded into the amount and have no node",
	"fuzzy-boost-amount-value":              "the distance/power stored in the node is not the number that was typed",
	"empty-group-dropped":                   "brackets pair up around non-empty groups; an empty () was dropped silently",
	"range-bound-not-a-term":                "field:[a TO b] has single terms as bounds; the tree holds a compound expression there",
	"parenthesized-field-name":              "the field of field:E is a single term token; here the field name was taken from a parenthesized group",
	"leaf-typed-value":                      "a leaf does not carry the typed value of its term token",
	"field-leaf-typed-value":                "the field leaf does not carry the value of its term token",
	"single-quoted-value-keeps-quotes":      "a quoted string token stands for the text between its quotes; the leaf still contains the single quotes",
	"quoted-string-retyped-as-pattern":      "a quoted string token is a string leaf; the tree holds a wildcard/regexp leaf",
	"quoted-string-retyped-as-number":       "a quoted string token is a string leaf; the tree holds a number",
	"word-typed-as-number":                  "a word that is not a decimal numeral is a string leaf; the tree holds a number",
	"escaped-wildcard-typed-as-pattern":     "a word whose * and ? are all escaped is a plain string; the tree holds a wildcard leaf / the raw escaped text",
	"escaped-backslash-dropped":             "an escaped backslash stands for a backslash; the leaf lost it",
	"terms-reordered":                       "the leaves carry the values of the term tokens in another order",
	"term-invented":                         "the tree has more leaves than the input has term tokens",
	"term-token-dropped":                    "the input has term tokens that are no leaf of the tree",
	"operator-token-dropped":                "the input has operator tokens that no node consumes",
	"operator-invented":                     "the tree has operator nodes without a source token",
}

// ---- enumeration ------------------------------------------------------------------------------------

func vc06Render(seq []vc06Sym) string {
	parts := make([]string, len(seq))
	for i, s := range seq {
		parts[i] = s.text
	}
	return strings.Join(parts, " ")
}

// vc06Enumerate checks every sequence of minLen..maxLen symbols over alpha; when
// needFrom >= 0 only sequences containing a symbol with index >= needFrom.
// It returns the number of inputs checked.
func vc06Enumerate(alpha []vc06Sym, minLen, maxLen, needFrom int, total *vc06Stats) int64 {
	if maxLen < 1 || maxLen < minLen {
		return 0
	}
	type task struct{ first, second int } // second < 0: the one-symbol sequence itself
	tasks := make(chan task, 64)
	var mu sync.Mutex
	var wg sync.WaitGroup
	var inputs int64
	for w := 0; w < runtime.NumCPU(); w++ {
		wg.Add(1)
		go func() {
			defer wg.Done()
			st := vc06NewStats()
			var n int64
			seq := make([]vc06Sym, 0, maxLen)
			extra := func(k int) bool { return needFrom >= 0 && k >= needFrom }
			visit := func(hasExtra bool) {
				if len(seq) >= minLen && (needFrom < 0 || hasExtra) {
					n++
					vc06Check(st, vc06Render(seq), seq)
				}
			}
			var rec func(hasExtra bool)
			rec = func(hasExtra bool) {
				visit(hasExtra)
				if len(seq) == maxLen {
					return
				}
				for k, s := range alpha {
					seq = append(seq, s)
					rec(hasExtra || extra(k))
					seq = seq[:len(seq)-1]
				}
			}
			for t := range tasks {
				if t.second < 0 {
					seq = append(seq[:0], alpha[t.first])
					visit(extra(t.first))
					continue
				}
				seq = append(seq[:0], alpha[t.first], alpha[t.second])
				rec(extra(t.first) || extra(t.second))
			}
			mu.Lock()
			total.merge(st)
			inputs += n
			mu.Unlock()
		}()
	}
	for a := range alpha {
		tasks <- task{a, -1}
		for b := range alpha {
			if maxLen >= 2 {
				tasks <- task{a, b}
			}
		}
	}
	close(tasks)
	wg.Wait()
	return inputs
}

// vc06Templates: sentences longer than the exhaustive bound (ranges, value lists, the
// examples quoted in the property text); every token sequence within two symbol
// substitutions, or one deletion, or one insertion of one of them is checked.
var vc06Templates = [][]string{
	{"a", ":", "[", "7", "TO", "b", "]"},
	{"a", ":", "{", "7", "TO", "b", "}"},
	{"a", ":", "(", "b", "OR", "7", ")"},
	{"a", ":", ">", "(", "b", "7", ")"},
	{"a", ":", ">", "b", ":", "7"},
	{"(", "(", ")", "NOT", "a", ")"},
	{"a", ":", "[", "b", ":", "7", "TO", "7", "]"},
	{"NOT", "a", ":", "b", "~", "7", "^", "7"},
}

// vc06Bounds: the exhaustive token layers (alphabet, longest sequence); a canonical
// rendering that belongs to one of them is skipped by the other parts of the domain, so
// that every input is counted once.
type vc06Layer struct {
	alpha  []vc06Sym
	maxLen int
}

type vc06Bounds []vc06Layer

func (b vc06Bounds) covered(parts []string) bool {
	for _, l := range b {
		if len(parts) > l.maxLen {
			continue
		}
		in := true
		for _, p := range parts {
			in = in && vc06In(l.alpha, p)
		}
		if in {
			return true
		}
	}
	return false
}

func vc06In(a []vc06Sym, text string) bool {
	for _, s := range a {
		if s.text == text {
			return true
		}
	}
	return false
}

func vc06Neighbourhood(all []vc06Sym, bounds vc06Bounds, total *vc06Stats) int64 {
	bySym := map[string]vc06Sym{}
	for _, s := range all {
		bySym[s.text] = s
	}
	var jobs [][]vc06Sym
	seen := map[string]bool{}
	add := func(seq []vc06Sym) {
		k := vc06Render(seq)
		if !seen[k] && !bounds.covered(vc06Texts(seq)) {
			seen[k] = true
			jobs = append(jobs, append([]vc06Sym(nil), seq...))
		}
	}
	for _, tpl := range vc06Templates {
		base := make([]vc06Sym, len(tpl))
		for i, t := range tpl {
			base[i] = bySym[t]
		}
		add(base)
		cur := append([]vc06Sym(nil), base...)
		for i := range base {
			for _, x := range all {
				cur[i] = x
				add(cur)
				for j := i + 1; j < len(base); j++ {
					for _, y := range all {
						cur[j] = y
						add(cur)
					}
					cur[j] = base[j]
				}
			}
			cur[i] = base[i]
		}
		for i := range base { // one deletion
			add(append(append([]vc06Sym(nil), base[:i]...), base[i+1:]...))
		}
		for i := 0; i <= len(base); i++ { // one insertion
			for _, x := range all {
				add(append(append(append([]vc06Sym(nil), base[:i]...), x), base[i:]...))
			}
		}
	}
	var wg sync.WaitGroup
	var mu sync.Mutex
	workers := runtime.NumCPU()
	for w := 0; w < workers; w++ {
		wg.Add(1)
		go func(w int) {
			defer wg.Done()
			st := vc06NewStats()
			for k := w; k < len(jobs); k += workers {
				vc06Check(st, vc06Render(jobs[k]), jobs[k])
			}
			mu.Lock()
			total.merge(st)
			mu.Unlock()
		}(w)
	}
	wg.Wait()
	return int64(len(jobs))
}

// ---- random sampling beyond the bound ---------------------------------------------------------------

type vc06Gen struct{ r *rand.Rand }

func (g *vc06Gen) term() string {
	terms := []string{"a", "b", "c", `"q r"`, "7", "1.5", "-3", "w*", "/r/", "*", "x?", `"q*"`, "42", "foo", `'s'`, "0"}
	return terms[g.r.Intn(len(terms))]
}

// expr generates the tokens of a query of the documented grammar.
func (g *vc06Gen) expr(depth int) []string {
	if depth <= 0 {
		return []string{g.term()}
	}
	switch g.r.Intn(14) {
	case 0, 1:
		return []string{g.term()}
	case 2:
		return append([]string{g.term(), ":"}, g.expr(depth-1)...)
	case 3:
		ops := [][]string{{">"}, {"<"}, {">", "="}, {"<", "="}}
		return append(append([]string{g.term(), ":"}, ops[g.r.Intn(4)]...), g.term())
	case 4:
		if g.r.Intn(2) == 0 {
			return []string{g.term(), ":", "[", g.term(), "TO", g.term(), "]"}
		}
		return []string{g.term(), ":", "{", g.term(), "TO", g.term(), "}"}
	case 5:
		return append(append([]string{"("}, g.expr(depth-1)...), ")")
	case 6:
		return append([]string{"+"}, g.expr(depth-1)...)
	case 7:
		return append([]string{"-"}, g.expr(depth-1)...)
	case 8:
		return append([]string{"NOT"}, g.expr(depth-1)...)
	case 9:
		out := append(g.expr(depth-1), "~")
		if g.r.Intn(2) == 0 {
			out = append(out, strconv.Itoa(g.r.Intn(4)))
		}
		return out
	case 10:
		out := append(g.expr(depth-1), "^")
		if g.r.Intn(2) == 0 {
			out = append(out, []string{"2", "0.5", "3", "1.5"}[g.r.Intn(4)])
		}
		return out
	case 11:
		return append(append(g.expr(depth-1), "AND"), g.expr(depth-1)...)
	case 12:
		return append(append(g.expr(depth-1), "OR"), g.expr(depth-1)...)
	default:
		return append(g.expr(depth-1), g.expr(depth-1)...)
	}
}

func (g *vc06Gen) input(all []vc06Sym) string {
	var toks []string
	switch g.r.Intn(4) {
	case 0: // arbitrary token sequence longer than the enumerated bound
		n := 6 + g.r.Intn(7)
		for k := 0; k < n; k++ {
			toks = append(toks, all[g.r.Intn(len(all))].text)
		}
	default: // a grammatical query, possibly damaged
		toks = g.expr(1 + g.r.Intn(3))
		for m := g.r.Intn(3); m > 0 && len(toks) > 0; m-- {
			p := g.r.Intn(len(toks))
			s := all[g.r.Intn(len(all))].text
			switch g.r.Intn(3) {
			case 0:
				toks[p] = s
			case 1:
				toks = append(toks[:p], toks[p+1:]...)
			default:
				toks = append(toks[:p], append([]string{s}, toks[p:]...)...)
			}
		}
	}
	// layout: mostly single spaces, sometimes none or several (the lexer's token list is the reference)
	var b strings.Builder
	for k, t := range toks {
		if k > 0 {
			switch g.r.Intn(8) {
			case 0:
			case 1:
				b.WriteString("  ")
			default:
				b.WriteByte(' ')
			}
		}
		b.WriteString(t)
	}
	return b.String()
}

func vc06Random(seed int64, count int, bounds vc06Bounds, total *vc06Stats, samples *[]string) (distinct int) {
	all := append(append([]vc06Sym{}, vc06Main...), vc06Extra...)
	// a fixed number of independent streams, so that the sample does not depend on the
	// number of CPUs; the streams are distributed over the available cores
	const workers = 64
	per := count / workers
	sets := make([]map[uint64]string, workers)
	stats := make([]*vc06Stats, workers)
	var wg sync.WaitGroup
	slots := make(chan struct{}, runtime.NumCPU())
	for w := 0; w < workers; w++ {
		wg.Add(1)
		go func(w int) {
			defer wg.Done()
			slots <- struct{}{}
			defer func() { <-slots }()
			g := &vc06Gen{rand.New(rand.NewSource(seed*1000003 + int64(w)))}
			st := vc06NewStats()
			st.rnd = true
			seen := map[uint64]string{}
			for k := 0; k < per; k++ {
				in := g.input(all)
				if in == "" || bounds.covered(strings.Split(in, " ")) {
					continue
				}
				h := fnv.New64a()
				h.Write([]byte(in))
				if _, dup := seen[h.Sum64()]; dup {
					continue
				}
				if k < 2 {
					seen[h.Sum64()] = in
				} else {
					seen[h.Sum64()] = ""
				}
				vc06Check(st, in, nil)
			}
			sets[w], stats[w] = seen, st
		}(w)
	}
	wg.Wait()
	union := map[uint64]bool{}
	for w := 0; w < workers; w++ {
		total.merge(stats[w])
		for h := range sets[w] {
			union[h] = true
		}
	}
	var smp []string
	for w := 0; w < workers && w < 2; w++ {
		for _, s := range sets[w] {
			if s != "" {
				smp = append(smp, strconv.Quote(s))
			}
		}
	}
	sort.Strings(smp)
	*samples = append(*samples, smp...)
	return len(union)
}

// ---- self-test of the oracle ----------------------------------------------------------------------

// vc06SelfTest feeds the checker hand-built (input, tree) pairs: trees that are the
// derivation must pass, trees that drop / reorder / invent / retype content must be
// flagged with the expected category.  Returns the list of discrepancies.
func vc06SelfTest() (bad []string) {
	lit := func(v any) *expr.Expression { return expr.Lit(v) }
	cases := []struct {
		in   string
		df   string
		tree *expr.Expression
		want string // "" = derivation
	}{
		{"a AND b", "", expr.AND(lit("a"), lit("b")), ""},
		{"a b", "", expr.AND(lit("a"), lit("b")), ""},
		{"( a ) OR NOT b", "", expr.OR(lit("a"), expr.NOT(lit("b"))), ""},
		{"a : [ 7 TO * ]", "", expr.Rang(lit("a"), lit(7), expr.WILD("*"), true), ""},
		{"a : ( b OR 7 )", "", expr.IN(lit("a"), expr.LIST([]*expr.Expression{lit("b"), lit(7)})), ""},
		{"a : > = 1.5", "", expr.GREATEREQ(lit("a"), lit(1.5)), ""},
		{"+ a ~ 2 - b ^", "", expr.AND(expr.MUST(expr.FUZZY(lit("a"), 2)), expr.MUSTNOT(expr.BOOST(lit("b")))), ""},
		{"a b", "d", expr.AND(expr.Eq(lit("d"), lit("a")), expr.Eq(lit("d"), lit("b"))), ""},
		{"a : w*", "", expr.Eq(lit("a"), expr.WILD("w*")), ""},
		{"a b", "", expr.AND(lit("b"), lit("a")), "terms-reordered"},
		{"a AND b", "", expr.OR(lit("a"), lit("b")), "operator-token-dropped"},
		{"a OR b", "", expr.AND(lit("a"), lit("b")), "operator-token-dropped"},
		{"NOT a", "", lit("a"), "operator-token-dropped"},
		{"a", "", expr.NOT(lit("a")), "operator-invented"},
		{"a b", "", lit("a"), "term-token-dropped"},
		{"a", "", expr.AND(lit("a"), lit("a")), "term-invented"},
		{"a", "", lit("b"), "leaf-typed-value"},
		{"7", "", lit("7"), "leaf-typed-value"},
		{`"7"`, "", lit(7), "quoted-string-retyped-as-number"},
		{"a", "", expr.Eq(lit("d"), lit("a")), "term-invented"}, // default-field wrapper without the option
		{"( ( ) NOT a )", "", expr.NOT(lit("a")), "empty-group-dropped"},
		{"a : [ b : c TO 5 ]", "", expr.Rang(lit("a"), expr.Eq(lit("b"), lit("c")), lit(5), true), "range-bound-not-a-term"},
		{"a : [ 1 TO 5 }", "", expr.Rang(lit("a"), lit(1), lit(5), false), "range-mixed-brackets"},
		{"a : [ 1 TO 5 ]", "", expr.Rang(lit("a"), lit(1), lit(5), false), "no-derivation"},
		{"a ~ 2", "", expr.FUZZY(lit("a"), 3), "fuzzy-boost-amount-value"},
		{"a ~ ( 2 )", "", expr.FUZZY(lit("a"), 2), "fuzzy-boost-amount-not-a-number-token"},
		{"a = b", "", expr.Eq(lit("a"), lit("b")), "equals-sign-as-field-operator"},
		{"a : > ( b c )", "", expr.GREATER(lit("a"), expr.AND(lit("b"), lit("c"))), "comparison-value-not-a-term"},
		{"( a ) : b", "", expr.Eq(lit("a"), lit("b")), "parenthesized-field-name"},
		{"( a", "", lit("a"), "no-derivation"},
		{"a )", "", lit("a"), "no-derivation"},
		{"a : ( b OR c )", "", expr.IN(lit("a"), expr.LIST([]*expr.Expression{lit("c"), lit("b")})), "terms-reordered"},
	}
	for _, c := range cases {
		toks, ok, _ := vc06Tokens(c.in)
		if !ok {
			bad = append(bad, fmt.Sprintf("%q does not lex", c.in))
			continue
		}
		got := strings.Join(vc06Derive(toks, c.tree, c.df), "+")
		if got != c.want {
			bad = append(bad, fmt.Sprintf("%q with tree %s: checker says %q, expected %q", c.in, vc06Show(c.tree), got, c.want))
		}
	}
	return bad
}

// ---- entry point ------------------------------------------------------------------------------------

type vc06Report struct {
	Property    string           `json:"property"`
	Tier        string           `json:"tier"`
	Seed        int64            `json:"seed"`
	Evaluations int64            `json:"evaluations"`
	Distinct    int64            `json:"distinct_nontrivial"`
	Bound       string           `json:"bound"`
	FailCount   int64            `json:"failure_count"`
	ByCategory  map[string]int64 `json:"by_category"`
	Failures    []string         `json:"failures"`
	Samples     []string         `json:"samples"`
}

func vc06EnvInt(name string, def int) int {
	if v := os.Getenv(name); v != "" {
		if n, err := strconv.Atoi(v); err == nil {
			return n
		}
	}
	return def
}

func TestVerifStandin_C06(t *testing.T) {
	defer debug.SetGCPercent(debug.SetGCPercent(400)) // allocation-heavy: collect less often
	tier := os.Getenv("VERIF_TIER")
	if tier != "thorough" {
		tier = "quick"
	}
	seed := int64(vc06EnvInt("VERIF_SEED", 1))
	// quick: main alphabet to 4, 20-symbol sub-alphabet at 5; thorough: main alphabet to 5,
	// 18-symbol sub-alphabet at 6
	mainLen, extraLen, randomN, top := 4, 3, 300000, vc06Reduced
	if tier == "thorough" {
		mainLen, extraLen, randomN, top = 5, 4, 3000000, vc06Small
	}
	mainLen = vc06EnvInt("VERIF_C06_LEN", mainLen)
	topLen := vc06EnvInt("VERIF_C06_RLEN", mainLen+1)
	extraLen = vc06EnvInt("VERIF_C06_XLEN", extraLen)
	randomN = vc06EnvInt("VERIF_C06_RANDOM", randomN)

	for _, b := range vc06SelfTest() {
		t.Errorf("C06 harness self-test: %s", b)
	}
	total := vc06NewStats()
	var samples []string
	var bound string
	if raw := os.Getenv("VERIF_INPUT"); raw != "" {
		// replay of a single input (Go-quoted or verbatim)
		in := raw
		if u, err := strconv.Unquote(raw); err == nil {
			in = u
		}
		vc06Check(total, in, nil)
		samples = append(samples, strconv.Quote(in))
		bound = "replay of the single input given in VERIF_INPUT, without and with default field"
	} else {
		all := append(append([]vc06Sym{}, vc06Main...), vc06Extra...)
		bounds := vc06Bounds{{vc06Main, mainLen}, {top, topLen}, {all, extraLen}}
		vc06Check(total, "", []vc06Sym{})
		n1 := 1 + vc06Enumerate(vc06Main, 1, mainLen, -1, total)
		n2 := vc06Enumerate(top, mainLen+1, topLen, -1, total)
		n3 := vc06Enumerate(all, 1, extraLen, len(vc06Main), total)
		n4 := vc06Neighbourhood(all, bounds, total)
		n5 := vc06Random(seed, randomN, bounds, total, &samples)
		samples = append([]string{`""`, `"a"`, `"a : b"`, `"NOT a AND b"`, `"( a ) ~ 7"`, `"a : [ 7 TO b ]"`, `"été a"`}, samples...)
		bound = fmt.Sprintf("all inputs x {no default field, default field %q}. Inputs: (1) every sequence of 0..%d symbols over the %d-symbol alphabet %v rendered with single spaces (%d inputs); "+
			"(2) every sequence of %d..%d symbols over its %d-symbol sub-alphabet %v (%d inputs); "+
			"(3) every sequence of 1..%d symbols over alphabet (1) plus %d further term lexemes %v that contains one of the latter (%d inputs); "+
			"(4) every sequence within two substitutions, one deletion or one insertion (over the %d symbols of (3)) of %d longer sentences %v (%d inputs); "+
			"(5) %d distinct seeded random inputs: grammar-generated queries with up to 2 token mutations and arbitrary sequences of 6..12 tokens, random layout. "+
			"Non-trivial = accepted by Parse in at least one configuration, so that the derivation check ran.",
			vc06Field, mainLen, len(vc06Main), vc06Texts(vc06Main), n1, mainLen+1, topLen, len(top), vc06Texts(top), n2,
			extraLen, len(vc06Extra), vc06Texts(vc06Extra), n3, len(all), len(vc06Templates), vc06Templates, n4, n5)
	}

	rep := vc06Report{Property: "C06", Tier: tier, Seed: seed, Evaluations: total.evals, Distinct: total.accepted,
		Bound: bound, ByCategory: total.byCat, Failures: []string{}, Samples: samples}
	cats := make([]string, 0, len(total.best))
	for c := range total.best {
		cats = append(cats, c)
	}
	sort.Strings(cats)
	for _, c := range cats {
		rep.FailCount += total.byCat[c]
	}
	// at most 25 messages: first the smallest of every category, then the second smallest, ...
	for round := 0; round < 3; round++ {
		for _, c := range cats {
			if l := total.best[c]; round < len(l) && len(rep.Failures) < 25 {
				rep.Failures = append(rep.Failures, l[round].msg)
			}
		}
	}
	if out := os.Getenv("VERIF_REPORT"); out != "" {
		b, _ := json.MarshalIndent(rep, "", " ")
		if err := os.WriteFile(out, b, 0o644); err != nil {
			t.Errorf("cannot write report: %v", err)
		}
	}
	t.Logf("C06 %s: %d evaluations, %d accepted inputs, %d failures in %d categories", tier, rep.Evaluations, rep.Distinct, rep.FailCount, len(cats))
	for _, c := range cats {
		t.Logf("  %-45s %d", c, total.byCat[c])
	}
	for _, f := range rep.Failures {
		t.Errorf("C06 violated: %s", f)
	}
}

func vc06Texts(a []vc06Sym) []string {
	out := make([]string, len(a))
	for i, s := range a {
		out[i] = s.text
	}
	return out
}
