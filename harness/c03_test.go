//go:build verif

package lucene

// Bounded stand-in for property C03: "Inline SQL selects exactly the rows the query means".
//
// The stand-in builds queries of the filterable fragment from its own syntax trees, prints
// them in Lucene syntax, renders them with ToPostgres, re-reads the SQL text with a small
// evaluator that follows PostgreSQL's grammar (operator precedence included) and compares,
// on probe rows that hit every region cut out by the constants of the query and of the SQL,
// the truth value of the SQL with the truth value of the query computed directly from the
// tree (the oracle never calls the library).
//
// Run:
//   echo '{"Replace": {"/repo/zz_verif_c03_test.go": "/verif/harness/c03_test.go"}}' > /tmp/ov_c03.json
//   cd /repo && VERIF_REPORT=/tmp/rep_c03.json go test -tags verif -overlay /tmp/ov_c03.json -vet=off -count=1 -run 'TestVerifStandin_C03$' .
// (VERIF_TIER=thorough for the large tier; VERIF_SHOW=<category> logs up to 40 inputs of one category.)
// The file is self-contained: the shared machinery below is a private copy with the vc03 prefix.

import (
	"encoding/json"
	"fmt"
	"math"
	"math/big"
	"math/bits"
	"math/rand"
	"os"
	"regexp"
	"runtime"
	"sort"
	"strconv"
	"strings"
	"sync"
	"sync/atomic"
	"testing"
	"unicode"
	"unicode/utf8"
)

// =====================================================================================
// Shared machinery (self-contained copy; every identifier carries the vc03 prefix)
//
//   1. a tiny model of the filterable Lucene fragment (vc03Node / vc03Val) with a printer
//      that writes the query text in Lucene syntax and an evaluator that computes the
//      query's OWN meaning on a row (this is the oracle: it never looks at the library);
//   2. a tokenizer / parser / evaluator for the SQL subset the driver emits, with
//      PostgreSQL's operator precedence (OR < AND < NOT < comparison < BETWEEN/IN/SIMILAR
//      < other operators such as ~ < unary +/-);
//   3. probe-row construction: for every field the regions cut out by the constants of the
//      query AND of the SQL text (so a rounded or invented constant is seen too).
// =====================================================================================

type vc03Kind int

const (
	vc03KInt  vc03Kind = iota // integer, text as written
	vc03KDec                  // decimal, text as written
	vc03KStr                  // string value
	vc03KPat                  // wildcard pattern (* any run, ? any one character)
	vc03KRe                   // regular expression /body/
	vc03KOpen                 // the unbounded range end *
)

// pattern token: k=0 literal rune r, k=1 '*', k=2 '?'
type vc03PTok struct {
	k int
	r rune
}

const (
	vc03StyleBare    = 0 // written as a bare word
	vc03StyleQuoted  = 1 // written as a "phrase" (\ and " escaped with a backslash)
	vc03StyleEscaped = 2 // written as a bare word with every special character backslash-escaped
)

type vc03Val struct {
	kind  vc03Kind
	text  string // number as written / the string itself / regexp body
	style int
	pat   []vc03PTok
	rat   *big.Rat
	num   *vc03Num
}

// vc03Num is an exact rational with an allocation-free comparison for the common case
// (numerator and denominator fit in 63 bits).
type vc03Num struct {
	r     *big.Rat
	n, d  int64
	small bool
}

func vc03MkNum(r *big.Rat) *vc03Num {
	x := &vc03Num{r: r}
	if r.Num().IsInt64() && r.Denom().IsInt64() && r.Num().Int64() != math.MinInt64 {
		x.n, x.d, x.small = r.Num().Int64(), r.Denom().Int64(), true
	}
	return x
}

func vc03NumCmp(a, b *vc03Num) int {
	if !a.small || !b.small {
		return a.r.Cmp(b.r)
	}
	sa, sb := 0, 0
	switch {
	case a.n > 0:
		sa = 1
	case a.n < 0:
		sa = -1
	}
	switch {
	case b.n > 0:
		sb = 1
	case b.n < 0:
		sb = -1
	}
	if sa != sb {
		if sa < sb {
			return -1
		}
		return 1
	}
	if sa == 0 {
		return 0
	}
	ua, ub := uint64(a.n), uint64(b.n)
	if sa < 0 {
		ua, ub = uint64(-a.n), uint64(-b.n)
	}
	h1, l1 := bits.Mul64(ua, uint64(b.d))
	h2, l2 := bits.Mul64(ub, uint64(a.d))
	c := 0
	switch {
	case h1 != h2:
		if h1 < h2 {
			c = -1
		} else {
			c = 1
		}
	case l1 != l2:
		if l1 < l2 {
			c = -1
		} else {
			c = 1
		}
	}
	return c * sa
}

const (
	vc03OpEq = iota
	vc03OpLt
	vc03OpLe
	vc03OpGt
	vc03OpGe
	vc03OpRange
	vc03OpIn
	vc03OpLike
	vc03OpRegex
	vc03OpAnd
	vc03OpOr
	vc03OpNot
	vc03OpMust    // +x
	vc03OpMustNot // -x
	vc03OpJuxt    // x y  (only generated for +/- prefixed operands: the conjunction of the clauses)
)

type vc03Node struct {
	op             int
	field          string
	num            bool // type of the field: numeric or string
	vals           []vc03Val
	loIncl, hiIncl bool
	kids           []*vc03Node
}

func vc03IsLeaf(n *vc03Node) bool { return n.op <= vc03OpRegex }

func vc03Int(s string) vc03Val {
	r, ok := new(big.Rat).SetString(s)
	if !ok {
		panic("bad int " + s)
	}
	return vc03Val{kind: vc03KInt, text: s, rat: r, num: vc03MkNum(r)}
}

func vc03Dec(s string) vc03Val {
	r, ok := new(big.Rat).SetString(s)
	if !ok {
		panic("bad dec " + s)
	}
	return vc03Val{kind: vc03KDec, text: s, rat: r, num: vc03MkNum(r)}
}

func vc03Str(s string, style int) vc03Val { return vc03Val{kind: vc03KStr, text: s, style: style} }

func vc03Open() vc03Val { return vc03Val{kind: vc03KOpen, text: "*"} }

func vc03Re(body string) vc03Val { return vc03Val{kind: vc03KRe, text: body} }

// vc03Pat builds a pattern from a compact spelling: '*' and '?' are wildcards, every other
// rune is a literal, and a rune preceded by '\' is a literal even if it is * or ?.
func vc03Pat(spec string) vc03Val {
	var toks []vc03PTok
	rs := []rune(spec)
	for i := 0; i < len(rs); i++ {
		switch {
		case rs[i] == '\\' && i+1 < len(rs):
			i++
			toks = append(toks, vc03PTok{0, rs[i]})
		case rs[i] == '*':
			toks = append(toks, vc03PTok{1, 0})
		case rs[i] == '?':
			toks = append(toks, vc03PTok{2, 0})
		default:
			toks = append(toks, vc03PTok{0, rs[i]})
		}
	}
	return vc03Val{kind: vc03KPat, text: spec, pat: toks}
}

func vc03WordRune(r rune) bool {
	return r == '_' || unicode.IsLetter(r) || unicode.IsDigit(r)
}

// ---- printer: Lucene query syntax -----------------------------------------------------

func vc03PrintVal(v vc03Val) string {
	switch v.kind {
	case vc03KInt, vc03KDec:
		return v.text
	case vc03KOpen:
		return "*"
	case vc03KRe:
		return "/" + v.text + "/"
	case vc03KPat:
		var sb strings.Builder
		for i, t := range v.pat {
			switch t.k {
			case 1:
				sb.WriteByte('*')
			case 2:
				sb.WriteByte('?')
			default:
				if vc03WordRune(t.r) || (i > 0 && (t.r == '.' || t.r == '-')) {
					sb.WriteRune(t.r)
				} else {
					sb.WriteByte('\\')
					sb.WriteRune(t.r)
				}
			}
		}
		return sb.String()
	}
	switch v.style {
	case vc03StyleBare:
		return v.text
	case vc03StyleQuoted:
		s := strings.ReplaceAll(v.text, `\`, `\\`)
		s = strings.ReplaceAll(s, `"`, `\"`)
		return `"` + s + `"`
	default:
		var sb strings.Builder
		switch strings.ToUpper(v.text) {
		case "AND", "OR", "NOT", "TO":
			return `\` + v.text // an escaped first letter makes the keyword an ordinary term
		}
		for i, r := range v.text {
			if vc03WordRune(r) || (i > 0 && (r == '.' || r == '-')) {
				sb.WriteRune(r)
			} else {
				sb.WriteByte('\\')
				sb.WriteRune(r)
			}
		}
		return sb.String()
	}
}

func vc03PrintLeaf(n *vc03Node) string {
	switch n.op {
	case vc03OpEq, vc03OpLike, vc03OpRegex:
		return n.field + ":" + vc03PrintVal(n.vals[0])
	case vc03OpLt:
		return n.field + ":<" + vc03PrintVal(n.vals[0])
	case vc03OpLe:
		return n.field + ":<=" + vc03PrintVal(n.vals[0])
	case vc03OpGt:
		return n.field + ":>" + vc03PrintVal(n.vals[0])
	case vc03OpGe:
		return n.field + ":>=" + vc03PrintVal(n.vals[0])
	case vc03OpRange:
		o, c := "{", "}"
		if n.loIncl {
			o = "["
		}
		if n.hiIncl {
			c = "]"
		}
		return n.field + ":" + o + vc03PrintVal(n.vals[0]) + " TO " + vc03PrintVal(n.vals[1]) + c
	case vc03OpIn:
		parts := make([]string, len(n.vals))
		for i, v := range n.vals {
			parts[i] = vc03PrintVal(v)
		}
		return n.field + ":(" + strings.Join(parts, " OR ") + ")"
	}
	panic("not a leaf")
}

func vc03Level(n *vc03Node) int {
	switch n.op {
	case vc03OpOr:
		return 1
	case vc03OpAnd:
		return 2
	case vc03OpJuxt:
		return 0 // always parenthesised when nested
	case vc03OpNot:
		return 3
	case vc03OpMust, vc03OpMustNot:
		return 4
	}
	return 9
}

// vc03Print writes the tree as query text.  full=false: parentheses only where the
// standard precedence (NOT > AND > OR, prefix +/- tightest) needs them; full=true: every
// compound operand is parenthesised.  A prefix operator applied to another prefix
// operator is always parenthesised (Lucene allows one modifier per clause).
func vc03Print(n *vc03Node, full bool) string {
	if vc03IsLeaf(n) {
		return vc03PrintLeaf(n)
	}
	child := func(c *vc03Node, parentLevel int, unaryParent bool) string {
		s := vc03Print(c, full)
		if vc03IsLeaf(c) {
			return s
		}
		need := full || vc03Level(c) < parentLevel
		if unaryParent && !vc03IsLeaf(c) {
			need = true // compound or prefixed operand of a prefix operator
		}
		if need {
			return "(" + s + ")"
		}
		return s
	}
	switch n.op {
	case vc03OpAnd:
		return child(n.kids[0], 2, false) + " AND " + child(n.kids[1], 2, false)
	case vc03OpOr:
		return child(n.kids[0], 1, false) + " OR " + child(n.kids[1], 1, false)
	case vc03OpJuxt:
		return child(n.kids[0], 4, false) + " " + child(n.kids[1], 4, false)
	case vc03OpNot:
		c := n.kids[0]
		if vc03IsLeaf(c) {
			return "NOT " + vc03Print(c, full)
		}
		return "NOT (" + vc03Print(c, full) + ")"
	case vc03OpMust:
		return "+" + child(n.kids[0], 9, true)
	case vc03OpMustNot:
		return "-" + child(n.kids[0], 9, true)
	}
	panic("bad op")
}

func vc03Size(n *vc03Node) int {
	s := 1
	for _, k := range n.kids {
		s += vc03Size(k)
	}
	return s
}

func vc03LeavesOf(n *vc03Node, out []*vc03Node) []*vc03Node {
	if vc03IsLeaf(n) {
		return append(out, n)
	}
	for _, k := range n.kids {
		out = vc03LeavesOf(k, out)
	}
	return out
}

// ---- the query's own meaning ------------------------------------------------------------

type vc03Cell struct {
	num bool
	n   *vc03Num
	s   string
}

type vc03Row map[string]vc03Cell

func vc03CmpVal(c vc03Cell, v vc03Val) int {
	if c.num {
		return vc03NumCmp(c.n, v.num)
	}
	return strings.Compare(c.s, v.text)
}

func vc03MatchPat(p []vc03PTok, s []rune) bool {
	if len(p) == 0 {
		return len(s) == 0
	}
	switch p[0].k {
	case 1:
		for i := 0; i <= len(s); i++ {
			if vc03MatchPat(p[1:], s[i:]) {
				return true
			}
		}
		return false
	case 2:
		return len(s) > 0 && vc03MatchPat(p[1:], s[1:])
	}
	return len(s) > 0 && s[0] == p[0].r && vc03MatchPat(p[1:], s[1:])
}

// vc03Meaning is the oracle: +x means x, -x means NOT x, numbers compare numerically,
// strings compare as strings (byte order), * / ? match any run / any one character.
func vc03Meaning(n *vc03Node, row vc03Row) bool {
	switch n.op {
	case vc03OpAnd, vc03OpJuxt:
		return vc03Meaning(n.kids[0], row) && vc03Meaning(n.kids[1], row)
	case vc03OpOr:
		return vc03Meaning(n.kids[0], row) || vc03Meaning(n.kids[1], row)
	case vc03OpNot, vc03OpMustNot:
		return !vc03Meaning(n.kids[0], row)
	case vc03OpMust:
		return vc03Meaning(n.kids[0], row)
	}
	c := row[n.field]
	switch n.op {
	case vc03OpEq:
		return vc03CmpVal(c, n.vals[0]) == 0
	case vc03OpLt:
		return vc03CmpVal(c, n.vals[0]) < 0
	case vc03OpLe:
		return vc03CmpVal(c, n.vals[0]) <= 0
	case vc03OpGt:
		return vc03CmpVal(c, n.vals[0]) > 0
	case vc03OpGe:
		return vc03CmpVal(c, n.vals[0]) >= 0
	case vc03OpRange:
		lo, hi := n.vals[0], n.vals[1]
		if lo.kind != vc03KOpen {
			d := vc03CmpVal(c, lo)
			if d < 0 || (d == 0 && !n.loIncl) {
				return false
			}
		}
		if hi.kind != vc03KOpen {
			d := vc03CmpVal(c, hi)
			if d > 0 || (d == 0 && !n.hiIncl) {
				return false
			}
		}
		return true
	case vc03OpIn:
		for _, v := range n.vals {
			if vc03CmpVal(c, v) == 0 {
				return true
			}
		}
		return false
	case vc03OpLike:
		return vc03MatchPat(n.vals[0].pat, []rune(c.s))
	case vc03OpRegex:
		re, err := regexp.Compile(`^(?s:` + n.vals[0].text + `)$`)
		return err == nil && re.MatchString(c.s)
	}
	panic("bad op")
}

// ---- SQL subset: tokenizer ------------------------------------------------------------

const (
	vc03TIdent = iota
	vc03TStr
	vc03TNum
	vc03TParam
	vc03TOp
	vc03TKw
	vc03TLParen
	vc03TRParen
	vc03TComma
	vc03TEOF
)

type vc03Tok struct {
	t   int
	s   string
	idx int // parameter index
}

var vc03Keywords = map[string]bool{"AND": true, "OR": true, "NOT": true, "BETWEEN": true, "IN": true, "SIMILAR": true, "TO": true}

func vc03LexSQL(sql string) ([]vc03Tok, error) {
	var toks []vc03Tok
	nparam := 0
	i := 0
	for i < len(sql) {
		c := sql[i]
		switch {
		case c == ' ' || c == '\t' || c == '\n' || c == '\r':
			i++
		case c == '"':
			j := i + 1
			var sb strings.Builder
			closed := false
			for j < len(sql) {
				if sql[j] == '"' {
					if j+1 < len(sql) && sql[j+1] == '"' {
						sb.WriteByte('"')
						j += 2
						continue
					}
					closed = true
					j++
					break
				}
				sb.WriteByte(sql[j])
				j++
			}
			if !closed {
				return nil, fmt.Errorf("unterminated quoted identifier")
			}
			if sb.Len() == 0 {
				return nil, fmt.Errorf("zero-length delimited identifier")
			}
			toks = append(toks, vc03Tok{t: vc03TIdent, s: sb.String()})
			i = j
		case c == '\'':
			j := i + 1
			var sb strings.Builder
			closed := false
			for j < len(sql) {
				if sql[j] == '\'' {
					if j+1 < len(sql) && sql[j+1] == '\'' {
						sb.WriteByte('\'')
						j += 2
						continue
					}
					closed = true
					j++
					break
				}
				sb.WriteByte(sql[j])
				j++
			}
			if !closed {
				return nil, fmt.Errorf("unterminated string constant")
			}
			toks = append(toks, vc03Tok{t: vc03TStr, s: sb.String()})
			i = j
		case c >= '0' && c <= '9' || (c == '.' && i+1 < len(sql) && sql[i+1] >= '0' && sql[i+1] <= '9'):
			j := i
			for j < len(sql) && sql[j] >= '0' && sql[j] <= '9' {
				j++
			}
			if j < len(sql) && sql[j] == '.' {
				j++
				for j < len(sql) && sql[j] >= '0' && sql[j] <= '9' {
					j++
				}
			}
			if j < len(sql) && (sql[j] == 'e' || sql[j] == 'E') {
				k := j + 1
				if k < len(sql) && (sql[k] == '+' || sql[k] == '-') {
					k++
				}
				if k < len(sql) && sql[k] >= '0' && sql[k] <= '9' {
					for k < len(sql) && sql[k] >= '0' && sql[k] <= '9' {
						k++
					}
					j = k
				}
			}
			if j < len(sql) && (sql[j] == '_' || sql[j] >= 'a' && sql[j] <= 'z' || sql[j] >= 'A' && sql[j] <= 'Z') {
				return nil, fmt.Errorf("trailing junk after numeric literal at %d", i)
			}
			toks = append(toks, vc03Tok{t: vc03TNum, s: sql[i:j]})
			i = j
		case c == '?':
			toks = append(toks, vc03Tok{t: vc03TParam, idx: nparam})
			nparam++
			i++
		case c == '_' || c >= 'a' && c <= 'z' || c >= 'A' && c <= 'Z' || c >= 0x80:
			j := i
			for j < len(sql) && (sql[j] == '_' || sql[j] == '$' || sql[j] >= 'a' && sql[j] <= 'z' || sql[j] >= 'A' && sql[j] <= 'Z' || sql[j] >= '0' && sql[j] <= '9' || sql[j] >= 0x80) {
				j++
			}
			w := sql[i:j]
			if vc03Keywords[strings.ToUpper(w)] {
				toks = append(toks, vc03Tok{t: vc03TKw, s: strings.ToUpper(w)})
			} else {
				toks = append(toks, vc03Tok{t: vc03TIdent, s: strings.ToLower(w)})
			}
			i = j
		case c == '(':
			toks = append(toks, vc03Tok{t: vc03TLParen})
			i++
		case c == ')':
			toks = append(toks, vc03Tok{t: vc03TRParen})
			i++
		case c == ',':
			toks = append(toks, vc03Tok{t: vc03TComma})
			i++
		case c == '-' && i+1 < len(sql) && sql[i+1] == '-':
			return nil, fmt.Errorf("SQL comment at %d", i)
		case c == '/' && i+1 < len(sql) && sql[i+1] == '*':
			return nil, fmt.Errorf("SQL comment at %d", i)
		case c == '<' || c == '>' || c == '=' || c == '~' || c == '+' || c == '-':
			if (c == '<' || c == '>') && i+1 < len(sql) && sql[i+1] == '=' {
				toks = append(toks, vc03Tok{t: vc03TOp, s: sql[i : i+2]})
				i += 2
			} else {
				toks = append(toks, vc03Tok{t: vc03TOp, s: string(c)})
				i++
			}
		default:
			return nil, fmt.Errorf("character %q at %d is outside the emitted SQL subset", c, i)
		}
	}
	toks = append(toks, vc03Tok{t: vc03TEOF})
	return toks, nil
}

// ---- SQL subset: parser (PostgreSQL precedence) ------------------------------------------

const (
	vc03SCol = iota
	vc03SStr
	vc03SNum
	vc03SParam
	vc03SCmp     // a op b
	vc03SBetween // a BETWEEN b AND c
	vc03SIn      // a IN list
	vc03SSimilar // a SIMILAR TO b
	vc03SRegex   // a ~ b
	vc03SAnd
	vc03SOr
	vc03SNot
	vc03SNeg // unary minus on a non-constant
	vc03SPos // unary plus
)

type vc03SQL struct {
	k       int
	s       string // column name / string constant / operator
	n       *big.Rat
	num     *vc03Num
	idx     int
	a, b, c *vc03SQL
	list    []*vc03SQL
}

type vc03Parser struct {
	toks []vc03Tok
	p    int
}

func (p *vc03Parser) peek() vc03Tok { return p.toks[p.p] }
func (p *vc03Parser) next() vc03Tok { t := p.toks[p.p]; p.p++; return t }
func (p *vc03Parser) isKw(s string) bool {
	t := p.peek()
	return t.t == vc03TKw && t.s == s
}

func vc03ParseSQL(sql string) (*vc03SQL, error) {
	toks, err := vc03LexSQL(sql)
	if err != nil {
		return nil, err
	}
	p := &vc03Parser{toks: toks}
	e, err := p.parseOr()
	if err != nil {
		return nil, err
	}
	if p.peek().t != vc03TEOF {
		return nil, fmt.Errorf("syntax error: unexpected token %d after the expression", p.p)
	}
	return e, nil
}

func (p *vc03Parser) parseOr() (*vc03SQL, error) {
	l, err := p.parseAnd()
	if err != nil {
		return nil, err
	}
	for p.isKw("OR") {
		p.next()
		r, err := p.parseAnd()
		if err != nil {
			return nil, err
		}
		l = &vc03SQL{k: vc03SOr, a: l, b: r}
	}
	return l, nil
}

func (p *vc03Parser) parseAnd() (*vc03SQL, error) {
	l, err := p.parseNot()
	if err != nil {
		return nil, err
	}
	for p.isKw("AND") {
		p.next()
		r, err := p.parseNot()
		if err != nil {
			return nil, err
		}
		l = &vc03SQL{k: vc03SAnd, a: l, b: r}
	}
	return l, nil
}

func (p *vc03Parser) parseNot() (*vc03SQL, error) {
	if p.isKw("NOT") {
		p.next()
		e, err := p.parseNot()
		if err != nil {
			return nil, err
		}
		return &vc03SQL{k: vc03SNot, a: e}, nil
	}
	return p.parseCmp()
}

func vc03IsCmpOp(t vc03Tok) bool {
	return t.t == vc03TOp && (t.s == "=" || t.s == "<" || t.s == "<=" || t.s == ">" || t.s == ">=")
}

func (p *vc03Parser) parseCmp() (*vc03SQL, error) {
	l, err := p.parseIn()
	if err != nil {
		return nil, err
	}
	if vc03IsCmpOp(p.peek()) {
		op := p.next().s
		r, err := p.parseIn()
		if err != nil {
			return nil, err
		}
		l = &vc03SQL{k: vc03SCmp, s: op, a: l, b: r}
		if vc03IsCmpOp(p.peek()) {
			return nil, fmt.Errorf("syntax error: comparison operators are non-associative")
		}
	}
	return l, nil
}

func (p *vc03Parser) parseIn() (*vc03SQL, error) {
	l, err := p.parseOp()
	if err != nil {
		return nil, err
	}
	switch {
	case p.isKw("BETWEEN"):
		p.next()
		lo, err := p.parseOp()
		if err != nil {
			return nil, err
		}
		if !p.isKw("AND") {
			return nil, fmt.Errorf("syntax error: BETWEEN without AND")
		}
		p.next()
		hi, err := p.parseOp()
		if err != nil {
			return nil, err
		}
		return &vc03SQL{k: vc03SBetween, a: l, b: lo, c: hi}, nil
	case p.isKw("IN"):
		p.next()
		if p.peek().t != vc03TLParen {
			return nil, fmt.Errorf("syntax error: IN without list")
		}
		p.next()
		var items []*vc03SQL
		for {
			e, err := p.parseOr()
			if err != nil {
				return nil, err
			}
			items = append(items, e)
			if p.peek().t == vc03TComma {
				p.next()
				continue
			}
			break
		}
		if p.peek().t != vc03TRParen {
			return nil, fmt.Errorf("syntax error: unterminated IN list")
		}
		p.next()
		return &vc03SQL{k: vc03SIn, a: l, list: items}, nil
	case p.isKw("SIMILAR"):
		p.next()
		if !p.isKw("TO") {
			return nil, fmt.Errorf("syntax error: SIMILAR without TO")
		}
		p.next()
		r, err := p.parseOp()
		if err != nil {
			return nil, err
		}
		return &vc03SQL{k: vc03SSimilar, a: l, b: r}, nil
	}
	return l, nil
}

func (p *vc03Parser) parseOp() (*vc03SQL, error) {
	l, err := p.parseUnary()
	if err != nil {
		return nil, err
	}
	for {
		t := p.peek()
		if t.t == vc03TOp && t.s == "~" {
			p.next()
			r, err := p.parseUnary()
			if err != nil {
				return nil, err
			}
			l = &vc03SQL{k: vc03SRegex, a: l, b: r}
			continue
		}
		if t.t == vc03TOp && (t.s == "+" || t.s == "-") {
			return nil, fmt.Errorf("arithmetic operator %s is outside the emitted SQL subset", t.s)
		}
		return l, nil
	}
}

func (p *vc03Parser) parseUnary() (*vc03SQL, error) {
	t := p.peek()
	if t.t == vc03TOp && (t.s == "-" || t.s == "+") {
		p.next()
		e, err := p.parseUnary()
		if err != nil {
			return nil, err
		}
		if e.k == vc03SNum {
			if t.s == "-" {
				neg := new(big.Rat).Neg(e.n)
				return &vc03SQL{k: vc03SNum, n: neg, num: vc03MkNum(neg), s: "-" + e.s}, nil
			}
			return e, nil
		}
		if t.s == "-" {
			return &vc03SQL{k: vc03SNeg, a: e}, nil
		}
		return &vc03SQL{k: vc03SPos, a: e}, nil
	}
	return p.parsePrimary()
}

func (p *vc03Parser) parsePrimary() (*vc03SQL, error) {
	t := p.next()
	switch t.t {
	case vc03TLParen:
		e, err := p.parseOr()
		if err != nil {
			return nil, err
		}
		if p.peek().t != vc03TRParen {
			return nil, fmt.Errorf("syntax error: missing )")
		}
		p.next()
		return e, nil
	case vc03TIdent:
		return &vc03SQL{k: vc03SCol, s: t.s}, nil
	case vc03TStr:
		return &vc03SQL{k: vc03SStr, s: t.s}, nil
	case vc03TNum:
		r, ok := new(big.Rat).SetString(t.s)
		if !ok {
			return nil, fmt.Errorf("bad numeric constant %q", t.s)
		}
		return &vc03SQL{k: vc03SNum, n: r, num: vc03MkNum(r), s: t.s}, nil
	case vc03TParam:
		return &vc03SQL{k: vc03SParam, idx: t.idx}, nil
	}
	return nil, fmt.Errorf("syntax error at token %d", p.p-1)
}

func vc03SQLConsts(e *vc03SQL, nums *[]*big.Rat, strs *[]string) {
	if e == nil {
		return
	}
	switch e.k {
	case vc03SNum:
		*nums = append(*nums, e.n)
	case vc03SStr:
		*strs = append(*strs, e.s)
	}
	vc03SQLConsts(e.a, nums, strs)
	vc03SQLConsts(e.b, nums, strs)
	vc03SQLConsts(e.c, nums, strs)
	for _, x := range e.list {
		vc03SQLConsts(x, nums, strs)
	}
}

// ---- SQL subset: evaluator ----------------------------------------------------------------

type vc03Sv struct {
	t int8 // 0 bool, 1 number, 2 string
	b bool
	n *vc03Num
	s string
}

func vc03TypeName(v vc03Sv) string {
	return [...]string{"boolean", "numeric", "text"}[v.t]
}

var vc03ReCache sync.Map

// vc03SimilarRegexp translates a SIMILAR TO pattern the way PostgreSQL's similar_to_escape
// does (default escape character backslash): % -> .*, _ -> ., \c -> literal c, the regular
// expression metacharacters | * + ? { } ( ) [ ] keep their meaning, . ^ $ are literals.
func vc03SimilarRegexp(pat string) (*regexp.Regexp, error) {
	if re, ok := vc03ReCache.Load("S" + pat); ok {
		if re == nil {
			return nil, fmt.Errorf("invalid SIMILAR TO pattern %q", pat)
		}
		return re.(*regexp.Regexp), nil
	}
	var sb strings.Builder
	sb.WriteString(`^(?s:`)
	rs := []rune(pat)
	for i := 0; i < len(rs); i++ {
		r := rs[i]
		switch {
		case r == '\\':
			if i+1 >= len(rs) {
				return nil, fmt.Errorf("invalid SIMILAR TO pattern %q: ends with the escape character", pat)
			}
			i++
			sb.WriteString(regexp.QuoteMeta(string(rs[i])))
		case r == '%':
			sb.WriteString(`.*`)
		case r == '_':
			sb.WriteString(`.`)
		case strings.ContainsRune(`|*+?{}()[]`, r):
			sb.WriteRune(r)
		default:
			sb.WriteString(regexp.QuoteMeta(string(r)))
		}
	}
	sb.WriteString(`)$`)
	re, err := regexp.Compile(sb.String())
	if err != nil {
		return nil, fmt.Errorf("invalid SIMILAR TO pattern %q: %v", pat, err)
	}
	vc03ReCache.Store("S"+pat, re)
	return re, nil
}

func vc03PosixRegexp(pat string) (*regexp.Regexp, error) {
	if re, ok := vc03ReCache.Load("R" + pat); ok {
		return re.(*regexp.Regexp), nil
	}
	re, err := regexp.Compile(`(?s)` + pat)
	if err != nil {
		return nil, fmt.Errorf("invalid regular expression %q: %v", pat, err)
	}
	vc03ReCache.Store("R"+pat, re)
	return re, nil
}

func vc03CompareSv(a, b vc03Sv, op string) (int, error) {
	if a.t != b.t || a.t == 0 {
		return 0, fmt.Errorf("operator does not exist: %s %s %s", vc03TypeName(a), op, vc03TypeName(b))
	}
	if a.t == 1 {
		return vc03NumCmp(a.n, b.n), nil
	}
	return strings.Compare(a.s, b.s), nil
}

func vc03EvalSQL(e *vc03SQL, row vc03Row, params []vc03Sv) (vc03Sv, error) {
	switch e.k {
	case vc03SCol:
		c, ok := row[e.s]
		if !ok {
			return vc03Sv{}, fmt.Errorf("column %q does not exist", e.s)
		}
		if c.num {
			return vc03Sv{t: 1, n: c.n}, nil
		}
		return vc03Sv{t: 2, s: c.s}, nil
	case vc03SStr:
		return vc03Sv{t: 2, s: e.s}, nil
	case vc03SNum:
		return vc03Sv{t: 1, n: e.num}, nil
	case vc03SParam:
		if e.idx >= len(params) {
			return vc03Sv{}, fmt.Errorf("there is no parameter $%d", e.idx+1)
		}
		return params[e.idx], nil
	case vc03SNeg, vc03SPos:
		v, err := vc03EvalSQL(e.a, row, params)
		if err != nil {
			return v, err
		}
		if v.t != 1 {
			return v, fmt.Errorf("operator does not exist: unary sign on %s", vc03TypeName(v))
		}
		if e.k == vc03SNeg {
			return vc03Sv{t: 1, n: vc03MkNum(new(big.Rat).Neg(v.n.r))}, nil
		}
		return v, nil
	case vc03SAnd, vc03SOr:
		a, err := vc03EvalSQL(e.a, row, params)
		if err != nil {
			return a, err
		}
		b, err := vc03EvalSQL(e.b, row, params)
		if err != nil {
			return b, err
		}
		if a.t != 0 || b.t != 0 {
			return a, fmt.Errorf("argument of AND/OR must be type boolean, not %s/%s", vc03TypeName(a), vc03TypeName(b))
		}
		if e.k == vc03SAnd {
			return vc03Sv{b: a.b && b.b}, nil
		}
		return vc03Sv{b: a.b || b.b}, nil
	case vc03SNot:
		a, err := vc03EvalSQL(e.a, row, params)
		if err != nil {
			return a, err
		}
		if a.t != 0 {
			return a, fmt.Errorf("argument of NOT must be type boolean, not %s", vc03TypeName(a))
		}
		return vc03Sv{b: !a.b}, nil
	case vc03SCmp:
		a, err := vc03EvalSQL(e.a, row, params)
		if err != nil {
			return a, err
		}
		b, err := vc03EvalSQL(e.b, row, params)
		if err != nil {
			return b, err
		}
		d, err := vc03CompareSv(a, b, e.s)
		if err != nil {
			return a, err
		}
		switch e.s {
		case "=":
			return vc03Sv{b: d == 0}, nil
		case "<":
			return vc03Sv{b: d < 0}, nil
		case "<=":
			return vc03Sv{b: d <= 0}, nil
		case ">":
			return vc03Sv{b: d > 0}, nil
		default:
			return vc03Sv{b: d >= 0}, nil
		}
	case vc03SBetween:
		a, err := vc03EvalSQL(e.a, row, params)
		if err != nil {
			return a, err
		}
		lo, err := vc03EvalSQL(e.b, row, params)
		if err != nil {
			return lo, err
		}
		hi, err := vc03EvalSQL(e.c, row, params)
		if err != nil {
			return hi, err
		}
		d1, err := vc03CompareSv(a, lo, ">=")
		if err != nil {
			return a, err
		}
		d2, err := vc03CompareSv(a, hi, "<=")
		if err != nil {
			return a, err
		}
		return vc03Sv{b: d1 >= 0 && d2 <= 0}, nil
	case vc03SIn:
		a, err := vc03EvalSQL(e.a, row, params)
		if err != nil {
			return a, err
		}
		res := false
		for _, it := range e.list {
			v, err := vc03EvalSQL(it, row, params)
			if err != nil {
				return v, err
			}
			d, err := vc03CompareSv(a, v, "=")
			if err != nil {
				return a, err
			}
			if d == 0 {
				res = true
			}
		}
		return vc03Sv{b: res}, nil
	case vc03SSimilar, vc03SRegex:
		a, err := vc03EvalSQL(e.a, row, params)
		if err != nil {
			return a, err
		}
		b, err := vc03EvalSQL(e.b, row, params)
		if err != nil {
			return b, err
		}
		if a.t != 2 || b.t != 2 {
			return a, fmt.Errorf("operator does not exist: %s ~ %s", vc03TypeName(a), vc03TypeName(b))
		}
		var re *regexp.Regexp
		if e.k == vc03SSimilar {
			re, err = vc03SimilarRegexp(b.s)
		} else {
			re, err = vc03PosixRegexp(b.s)
		}
		if err != nil {
			return a, err
		}
		return vc03Sv{b: re.MatchString(a.s)}, nil
	}
	return vc03Sv{}, fmt.Errorf("unknown SQL node")
}

func vc03ShowSQL(e *vc03SQL) string {
	if e == nil {
		return ""
	}
	switch e.k {
	case vc03SCol:
		return `"` + e.s + `"`
	case vc03SStr:
		return `'` + strings.ReplaceAll(e.s, `'`, `''`) + `'`
	case vc03SNum:
		return e.s
	case vc03SParam:
		return fmt.Sprintf("$%d", e.idx+1)
	case vc03SCmp:
		return "(" + vc03ShowSQL(e.a) + " " + e.s + " " + vc03ShowSQL(e.b) + ")"
	case vc03SBetween:
		return "(" + vc03ShowSQL(e.a) + " BETWEEN " + vc03ShowSQL(e.b) + " AND " + vc03ShowSQL(e.c) + ")"
	case vc03SIn:
		var parts []string
		for _, x := range e.list {
			parts = append(parts, vc03ShowSQL(x))
		}
		return "(" + vc03ShowSQL(e.a) + " IN (" + strings.Join(parts, ", ") + "))"
	case vc03SSimilar:
		return "(" + vc03ShowSQL(e.a) + " SIMILAR TO " + vc03ShowSQL(e.b) + ")"
	case vc03SRegex:
		return "(" + vc03ShowSQL(e.a) + " ~ " + vc03ShowSQL(e.b) + ")"
	case vc03SAnd:
		return "(" + vc03ShowSQL(e.a) + " AND " + vc03ShowSQL(e.b) + ")"
	case vc03SOr:
		return "(" + vc03ShowSQL(e.a) + " OR " + vc03ShowSQL(e.b) + ")"
	case vc03SNot:
		return "(NOT " + vc03ShowSQL(e.a) + ")"
	case vc03SNeg:
		return "(-" + vc03ShowSQL(e.a) + ")"
	case vc03SPos:
		return "(+" + vc03ShowSQL(e.a) + ")"
	}
	return "?"
}

// ---- probe rows -----------------------------------------------------------------------------

func vc03PatProbes(p []vc03PTok) []string {
	build := func(star, q string, skip int, repl string) string {
		var sb strings.Builder
		for i, t := range p {
			if i == skip {
				sb.WriteString(repl)
				continue
			}
			switch t.k {
			case 1:
				sb.WriteString(star)
			case 2:
				sb.WriteString(q)
			default:
				sb.WriteRune(t.r)
			}
		}
		return sb.String()
	}
	var out []string
	for _, f := range []string{"", "z", "zq"} {
		out = append(out, build(f, "z", -1, ""))
	}
	base := build("z", "z", -1, "")
	out = append(out, "z"+base, base+"z", build("", "", -1, ""), build("z/z", "é", -1, ""))
	for i, t := range p {
		switch t.k {
		case 0:
			out = append(out, build("z", "z", i, "z"), build("z", "z", i, ""), build("", "z", i, "Z"))
		case 2:
			out = append(out, build("z", "z", i, ""), build("z", "z", i, "zz"))
		}
	}
	return out
}

type vc03ProbeSet struct {
	fields []string
	cells  [][]vc03Cell
}

// vc03Probes builds, for every field of the query, one value in every region cut out by the
// constants that the query and the SQL text(s) mention: numbers - below the smallest, each
// constant, a point strictly between neighbours, above the largest; strings - each constant,
// its immediate successor in byte order (c+"\x01"), the empty string, case variants, and for
// patterns a set of matching strings and near misses.
func vc03Probes(root *vc03Node, sqlNums []*big.Rat, sqlStrs []string) vc03ProbeSet {
	type fld struct {
		num  bool
		nums []*big.Rat
		strs []string
	}
	flds := map[string]*fld{}
	var order []string
	for _, l := range vc03LeavesOf(root, nil) {
		f := flds[l.field]
		if f == nil {
			f = &fld{num: l.num}
			flds[l.field] = f
			order = append(order, l.field)
		}
		for _, v := range l.vals {
			switch v.kind {
			case vc03KInt, vc03KDec:
				f.nums = append(f.nums, v.rat)
			case vc03KStr:
				f.strs = append(f.strs, v.text)
			case vc03KPat:
				f.strs = append(f.strs, vc03PatProbes(v.pat)...)
			case vc03KRe:
				f.strs = append(f.strs, v.text, "/"+v.text+"/", "z"+v.text+"z", "z/"+v.text+"/z")
			}
		}
	}
	sort.Strings(order)
	ps := vc03ProbeSet{fields: order}
	for _, name := range order {
		f := flds[name]
		var cells []vc03Cell
		if f.num {
			all := append(append([]*big.Rat{}, f.nums...), sqlNums...)
			sort.Slice(all, func(i, j int) bool { return all[i].Cmp(all[j]) < 0 })
			var uniq []*big.Rat
			for _, r := range all {
				if len(uniq) == 0 || uniq[len(uniq)-1].Cmp(r) != 0 {
					uniq = append(uniq, r)
				}
			}
			if len(uniq) == 0 {
				uniq = []*big.Rat{new(big.Rat)}
			}
			one := big.NewRat(1, 1)
			half := big.NewRat(1, 2)
			cells = append(cells, vc03Cell{num: true, n: vc03MkNum(new(big.Rat).Sub(uniq[0], one))})
			for i, r := range uniq {
				cells = append(cells, vc03Cell{num: true, n: vc03MkNum(r)})
				if i+1 < len(uniq) {
					mid := new(big.Rat).Add(r, uniq[i+1])
					mid.Mul(mid, half)
					cells = append(cells, vc03Cell{num: true, n: vc03MkNum(mid)})
				}
			}
			cells = append(cells, vc03Cell{num: true, n: vc03MkNum(new(big.Rat).Add(uniq[len(uniq)-1], one))})
		} else {
			seen := map[string]bool{}
			add := func(s string) {
				if !seen[s] && utf8.ValidString(s) && !strings.ContainsRune(s, 0) {
					seen[s] = true
					cells = append(cells, vc03Cell{s: s})
				}
			}
			add("")
			for _, s := range append(append([]string{}, f.strs...), sqlStrs...) {
				add(s)
				add(s + "\x01")
				add(strings.ToUpper(s))
				add(strings.ToLower(s))
			}
			sort.Slice(cells, func(i, j int) bool { return cells[i].s < cells[j].s })
		}
		ps.cells = append(ps.cells, cells)
	}
	return ps
}

// vc03ForRows enumerates the product of the per-field probes (a deterministic subset of
// maxRows of them when the product is larger) until fn returns false.
func vc03ForRows(ps vc03ProbeSet, maxRows int, fn func(vc03Row) bool) int {
	total := 1
	for _, c := range ps.cells {
		total *= len(c)
	}
	n := total
	if n > maxRows {
		n = maxRows
	}
	row := vc03Row{}
	for i := 0; i < n; i++ {
		idx := i
		if total > maxRows {
			idx = int((int64(i) * 1000003) % int64(total))
		}
		for f, c := range ps.cells {
			row[ps.fields[f]] = c[idx%len(c)]
			idx /= len(c)
		}
		if !fn(row) {
			return i + 1
		}
	}
	return n
}

func vc03ShowRow(row vc03Row) string {
	var names []string
	for k := range row {
		names = append(names, k)
	}
	sort.Strings(names)
	var parts []string
	for _, k := range names {
		c := row[k]
		if c.num {
			parts = append(parts, k+"="+c.n.r.FloatString(6))
		} else {
			parts = append(parts, k+"="+strconv.Quote(c.s))
		}
	}
	return "{" + strings.Join(parts, ", ") + "}"
}

// ---- alphabets and enumerators ------------------------------------------------------------

type vc03Alphabet struct {
	nums []vc03Val
	strs []vc03Val
	pats []vc03Val
}

func vc03NumVals(thorough bool) []vc03Val {
	ints := []string{"0", "1", "5", "-5", "010", "9223372036854775807", "-9223372036854775808"}
	decs := []string{"1.5", "-1.5", "2.25", "0.001", "0.002", "2.125", "100.5", "16777217.5"}
	if thorough {
		ints = append(ints, "2", "10", "-1", "42", "9007199254740993", "-9223372036854775807", "1000000")
		decs = append(decs, "0.5", "-0.25", "0.1", "2.675", "1.005", "123456789.25", "-0.004", "3.14159", "0.000001")
	}
	var out []vc03Val
	for _, s := range ints {
		out = append(out, vc03Int(s))
	}
	for _, s := range decs {
		out = append(out, vc03Dec(s))
	}
	return out
}

func vc03StrVals(thorough bool) []vc03Val {
	q, b, e := vc03StyleQuoted, vc03StyleBare, vc03StyleEscaped
	out := []vc03Val{
		vc03Str("b", b), vc03Str("b", q), vc03Str("d", b), vc03Str("d", q), vc03Str("B", b),
		vc03Str("b c", q), vc03Str("b c", e),
		vc03Str("b,c", q), vc03Str("b,c", e),
		vc03Str("it's", q), vc03Str("it's", e),
		vc03Str(`b"c`, q), vc03Str(`b"c`, e),
		vc03Str(`b\c`, q), vc03Str(`b\c`, e),
		vc03Str("é", b),
		vc03Str("b*", q), vc03Str("b*", e),
		vc03Str("*", q),
		vc03Str("1", q),
		vc03Str("NaN", b), vc03Str("NaN", q),
		vc03Str("AND", q),
		vc03Str("%", q),
		vc03Str("b_", b),
		vc03Str("0x1F", b),
		vc03Str("x'; DROP TABLE t;--", q),
		vc03Str(" b", q),
		vc03Str("", q),
	}
	if thorough {
		out = append(out,
			vc03Str("Inf", b), vc03Str("infinity", b), vc03Str("nan", b),
			vc03Str("日本", b), vc03Str("é ü", q), vc03Str("D", b), vc03Str("c", b), vc03Str("bb", b),
			vc03Str("b-c", b), vc03Str("b.c", b), vc03Str("a/*b*/", q), vc03Str("a--b", q),
			vc03Str("''", q), vc03Str("'", e), vc03Str(`\`, q), vc03Str(`\\`, q),
			vc03Str("b?", q), vc03Str("b?", e), vc03Str("?", q), vc03Str("TO", q), vc03Str("or", q), vc03Str("AND", e),
			vc03Str("1.5", q), vc03Str("-1", q), vc03Str("b\tc", q), vc03Str("b\nc", q), vc03Str("(b)", q), vc03Str("(b)", e),
			vc03Str("[b TO d]", q), vc03Str("b:c", q), vc03Str("b:c", e), vc03Str("_", b), vc03Str("b%", q), vc03Str("/b/", q),
			vc03Str("b, c", q), vc03Str("$1", q), vc03Str("?", e),
		)
	}
	return out
}

func vc03PatVals(thorough bool) []vc03Val {
	runes := []string{"b", "c", "*", "?", "_"}
	maxLen := 3
	if thorough {
		runes = []string{"b", "c", "*", "?", "_", ".", "-", "é"}
		maxLen = 4
	}
	var specs []string
	var rec func(prefix string, n int)
	rec = func(prefix string, n int) {
		if n > 0 && strings.ContainsAny(prefix, "*?") {
			specs = append(specs, prefix)
		}
		if n == maxLen {
			return
		}
		for _, r := range runes {
			if n == 0 && (r == "." || r == "-") {
				continue
			}
			rec(prefix+r, n+1)
		}
	}
	rec("", 0)
	// patterns with backslash-escaped literal specials
	specs = append(specs, `b\**`, `b\?*`, `\**`, `b\ c*`, `it\'s*`, `b\\*`, `b\%*`, `b\+*`, `b\,c?`, `\?b?`)
	var out []vc03Val
	for _, s := range specs {
		out = append(out, vc03Pat(s))
	}
	return out
}

func vc03Leaf(op int, field string, num bool, vals ...vc03Val) *vc03Node {
	return &vc03Node{op: op, field: field, num: num, vals: vals, loIncl: true, hiIncl: true}
}

func vc03Range(field string, num bool, lo, hi vc03Val, loIncl, hiIncl bool) *vc03Node {
	return &vc03Node{op: vc03OpRange, field: field, num: num, vals: []vc03Val{lo, hi}, loIncl: loIncl, hiIncl: hiIncl}
}

// vc03AllLeaves: every leaf form over the value alphabets: equality, the four comparisons,
// ranges (each bound a value or *, all four bracket combinations), value lists of two and
// three values, wildcard patterns.
func vc03AllLeaves(thorough bool) []*vc03Node {
	var out []*vc03Node
	gen := func(field string, num bool, vals []vc03Val) {
		for _, v := range vals {
			out = append(out, vc03Leaf(vc03OpEq, field, num, v))
			for _, op := range []int{vc03OpLt, vc03OpLe, vc03OpGt, vc03OpGe} {
				out = append(out, vc03Leaf(op, field, num, v))
			}
		}
		bounds := append([]vc03Val{vc03Open()}, vals...)
		for _, lo := range bounds {
			for _, hi := range bounds {
				for _, li := range []bool{true, false} {
					for _, hi2 := range []bool{true, false} {
						out = append(out, vc03Range(field, num, lo, hi, li, hi2))
					}
				}
			}
		}
		for _, a := range vals {
			for _, b := range vals {
				out = append(out, vc03Leaf(vc03OpIn, field, num, a, b))
			}
		}
		k := 4
		if len(vals) < k {
			k = len(vals)
		}
		step := len(vals) / k
		var sub []vc03Val
		for i := 0; i < k; i++ {
			sub = append(sub, vals[i*step])
		}
		for _, a := range sub {
			for _, b := range sub {
				for _, c := range sub {
					out = append(out, vc03Leaf(vc03OpIn, field, num, a, b, c))
				}
			}
		}
	}
	gen("n", true, vc03NumVals(thorough))
	gen("s", false, vc03StrVals(thorough))
	for _, p := range vc03PatVals(thorough) {
		out = append(out, vc03Leaf(vc03OpLike, "s", false, p))
	}
	return out
}

func vc03Un(op int, k *vc03Node) *vc03Node     { return &vc03Node{op: op, kids: []*vc03Node{k}} }
func vc03Bin(op int, a, b *vc03Node) *vc03Node { return &vc03Node{op: op, kids: []*vc03Node{a, b}} }

// vc03Contexts puts a leaf into every depth-1 context (alone, under NOT / - / +, and on either
// side of AND / OR with a fixed neighbour on another field).
func vc03Contexts(l *vc03Node) []*vc03Node {
	k := vc03Leaf(vc03OpEq, "k", true, vc03Int("7"))
	return []*vc03Node{
		l,
		vc03Un(vc03OpNot, l), vc03Un(vc03OpMustNot, l), vc03Un(vc03OpMust, l),
		vc03Bin(vc03OpAnd, l, k), vc03Bin(vc03OpAnd, k, l), vc03Bin(vc03OpOr, l, k), vc03Bin(vc03OpOr, k, l),
	}
}

// vc03StructLeaves: one representative leaf per SQL rendering shape, used for the exhaustive
// enumeration of tree structures.
func vc03StructLeaves(thorough bool) []*vc03Node {
	b, q := vc03StyleBare, vc03StyleQuoted
	out := []*vc03Node{
		vc03Leaf(vc03OpEq, "n", true, vc03Int("1")),
		vc03Leaf(vc03OpGt, "n", true, vc03Dec("1.5")),
		vc03Range("n", true, vc03Int("1"), vc03Int("5"), true, true),
		vc03Range("n", true, vc03Int("0"), vc03Open(), false, false),
		vc03Leaf(vc03OpEq, "s", false, vc03Str("b", b)),
		vc03Range("s", false, vc03Str("b", b), vc03Str("d", b), true, true),
		vc03Leaf(vc03OpIn, "t", false, vc03Str("b", b), vc03Str("c d", q)),
		vc03Leaf(vc03OpLike, "t", false, vc03Pat("b*")),
	}
	if thorough {
		out = append(out,
			vc03Leaf(vc03OpIn, "m", true, vc03Int("1"), vc03Int("2")),
			vc03Leaf(vc03OpLe, "m", true, vc03Int("2")),
			vc03Range("m", true, vc03Dec("0.5"), vc03Dec("2.25"), true, true),
			vc03Leaf(vc03OpGe, "s", false, vc03Str("it's", q)),
		)
	}
	return out
}

// vc03Structures enumerates every tree of depth <= 2 over the given leaves with NOT, +, -,
// AND, OR (and the juxtaposition of +/- prefixed leaves, meaning their conjunction).
func vc03Structures(leaves []*vc03Node, juxtLeaves []*vc03Node) []*vc03Node {
	unary := []int{vc03OpNot, vc03OpMustNot, vc03OpMust}
	binary := []int{vc03OpAnd, vc03OpOr}
	d0 := leaves
	var d1 []*vc03Node
	for _, l := range d0 {
		for _, u := range unary {
			d1 = append(d1, vc03Un(u, l))
		}
	}
	for _, a := range d0 {
		for _, b := range d0 {
			for _, op := range binary {
				d1 = append(d1, vc03Bin(op, a, b))
			}
		}
	}
	var juxt []*vc03Node
	var pre []*vc03Node
	for _, l := range juxtLeaves {
		pre = append(pre, vc03Un(vc03OpMust, l), vc03Un(vc03OpMustNot, l))
	}
	for _, a := range pre {
		for _, b := range pre {
			juxt = append(juxt, vc03Bin(vc03OpJuxt, a, b))
		}
	}
	out := append(append([]*vc03Node{}, d0...), d1...)
	out = append(out, juxt...)
	upto1 := append(append([]*vc03Node{}, d0...), d1...)
	for _, x := range d1 {
		for _, u := range unary {
			out = append(out, vc03Un(u, x))
		}
	}
	for _, x := range juxt {
		for _, u := range unary {
			out = append(out, vc03Un(u, x))
		}
		out = append(out, vc03Bin(vc03OpAnd, x, d0[0]), vc03Bin(vc03OpOr, d0[0], x), vc03Bin(vc03OpJuxt, pre[0], x))
	}
	for _, a := range upto1 {
		for _, b := range upto1 {
			if vc03IsLeaf(a) && vc03IsLeaf(b) {
				continue
			}
			for _, op := range binary {
				out = append(out, vc03Bin(op, a, b))
			}
		}
	}
	return out
}

// ---- seeded random sampling beyond the bound --------------------------------------------------

func vc03RandStr(r *rand.Rand) vc03Val {
	pool := []rune("abcZ09_ ,'\"\\é日%;-.*?():/")
	n := 1 + r.Intn(6)
	rs := make([]rune, n)
	for i := range rs {
		rs[i] = pool[r.Intn(len(pool))]
	}
	s := string(rs)
	style := vc03StyleQuoted
	switch r.Intn(3) {
	case 0:
		ok := unicode.IsLetter(rs[0])
		for _, c := range rs {
			if !vc03WordRune(c) {
				ok = false
			}
		}
		up := strings.ToUpper(s)
		if up == "AND" || up == "OR" || up == "NOT" || up == "TO" || up == "NAN" || up == "INF" || up == "INFINITY" {
			ok = false
		}
		if ok {
			style = vc03StyleBare
		}
	case 1:
		style = vc03StyleEscaped
		up := strings.ToUpper(s)
		if _, err := strconv.ParseFloat(s, 64); err == nil || up == "AND" || up == "OR" || up == "NOT" || up == "TO" {
			style = vc03StyleQuoted
		}
	}
	return vc03Str(s, style)
}

func vc03RandNum(r *rand.Rand) vc03Val {
	switch r.Intn(4) {
	case 0:
		return vc03Int(strconv.FormatInt(int64(r.Intn(41)-20), 10))
	case 1:
		return vc03Int(strconv.FormatInt(int64(r.Uint64()), 10))
	}
	for {
		ip := r.Intn(2001) - 1000
		digits := 1 + r.Intn(6)
		frac := r.Intn(int(math.Pow10(digits)))
		s := fmt.Sprintf("%d.%0*d", ip, digits, frac)
		if strings.HasSuffix(s, "0") {
			continue
		}
		f, err := strconv.ParseFloat(s, 64)
		if err != nil || strconv.FormatFloat(f, 'f', -1, 64) != s {
			continue
		}
		return vc03Dec(s)
	}
}

func vc03RandPat(r *rand.Rand) vc03Val {
	pool := []string{"a", "b", "é", "_", ".", "-", "*", "?", "*", "?"}
	for {
		n := 1 + r.Intn(5)
		s := ""
		for i := 0; i < n; i++ {
			s += pool[r.Intn(len(pool))]
		}
		if !strings.ContainsAny(s, "*?") || s[0] == '.' || s[0] == '-' {
			continue
		}
		return vc03Pat(s)
	}
}

func vc03RandLeaf(r *rand.Rand) *vc03Node {
	num := r.Intn(2) == 0
	field := []string{"s", "t", "u"}[r.Intn(3)]
	val := func() vc03Val { return vc03RandStr(r) }
	if num {
		field = []string{"n", "m", "k"}[r.Intn(3)]
		val = func() vc03Val { return vc03RandNum(r) }
	}
	switch r.Intn(9) {
	case 0, 1:
		return vc03Leaf(vc03OpEq, field, num, val())
	case 2:
		return vc03Leaf([]int{vc03OpLt, vc03OpLe, vc03OpGt, vc03OpGe}[r.Intn(4)], field, num, val())
	case 3, 4, 5:
		lo, hi := val(), val()
		if r.Intn(5) == 0 {
			lo = vc03Open()
		}
		if r.Intn(5) == 0 {
			hi = vc03Open()
		}
		return vc03Range(field, num, lo, hi, r.Intn(2) == 0, r.Intn(2) == 0)
	case 6, 7:
		n := 2 + r.Intn(3)
		vals := make([]vc03Val, n)
		for i := range vals {
			vals[i] = val()
		}
		return vc03Leaf(vc03OpIn, field, num, vals...)
	}
	if num {
		return vc03Leaf(vc03OpEq, field, num, val())
	}
	return vc03Leaf(vc03OpLike, field, false, vc03RandPat(r))
}

func vc03RandTree(r *rand.Rand, depth int) *vc03Node {
	if depth == 0 || r.Intn(4) == 0 {
		return vc03RandLeaf(r)
	}
	switch r.Intn(7) {
	case 0:
		return vc03Un(vc03OpNot, vc03RandTree(r, depth-1))
	case 1:
		return vc03Un(vc03OpMustNot, vc03RandTree(r, depth-1))
	case 2:
		return vc03Un(vc03OpMust, vc03RandTree(r, depth-1))
	case 3, 4:
		return vc03Bin(vc03OpAnd, vc03RandTree(r, depth-1), vc03RandTree(r, depth-1))
	}
	return vc03Bin(vc03OpOr, vc03RandTree(r, depth-1), vc03RandTree(r, depth-1))
}

// ---- report ---------------------------------------------------------------------------------

type vc03Failure struct {
	cat   string
	input string
	msg   string
	rank  [3]int // suspect features, tree size, text length
}

type vc03Report struct {
	Property           string         `json:"property"`
	Tier               string         `json:"tier"`
	Seed               int64          `json:"seed"`
	Evaluations        int            `json:"evaluations"`
	DistinctNontrivial int            `json:"distinct_nontrivial"`
	Bound              string         `json:"bound"`
	FailureCount       int            `json:"failure_count"`
	ByCategory         map[string]int `json:"by_category"`
	Failures           []string       `json:"failures"`
	Samples            []string       `json:"samples"`
}

func vc03Env() (tier string, seed int64) {
	tier = os.Getenv("VERIF_TIER")
	if tier != "thorough" {
		tier = "quick"
	}
	seed = 1
	if s := os.Getenv("VERIF_SEED"); s != "" {
		if v, err := strconv.ParseInt(s, 10, 64); err == nil {
			seed = v
		}
	}
	return
}

// vc03Finish sorts the failures (smallest first inside each category), keeps at most three
// messages per category and 25 overall, writes the report and raises the test errors.
func vc03Finish(t *testing.T, rep *vc03Report, fails []vc03Failure) {
	sort.Slice(fails, func(i, j int) bool {
		a, b := fails[i], fails[j]
		if a.cat != b.cat {
			return a.cat < b.cat
		}
		if a.rank != b.rank {
			for k := 0; k < 3; k++ {
				if a.rank[k] != b.rank[k] {
					return a.rank[k] < b.rank[k]
				}
			}
		}
		return a.input < b.input
	})
	rep.ByCategory = map[string]int{}
	rep.Failures = []string{}
	perCat := map[string][]string{}
	var catOrder []string
	show := os.Getenv("VERIF_SHOW") // debugging aid: log up to 40 inputs of this category
	for _, f := range fails {
		rep.ByCategory[f.cat]++
		if rep.ByCategory[f.cat] == 1 {
			catOrder = append(catOrder, f.cat)
		}
		m := fmt.Sprintf("[%s] %s : %s", f.cat, strconv.Quote(f.input), f.msg)
		if rep.ByCategory[f.cat] <= 3 {
			perCat[f.cat] = append(perCat[f.cat], m)
		}
		if show == f.cat && rep.ByCategory[f.cat] <= 40 {
			t.Logf("SHOW %s", m)
		}
	}
	// at most 3 messages per category and 25 overall; every category gets its smallest
	// input first (round-robin) so that no category is crowded out of the report
	quota := map[string]int{}
	total := 0
	for round := 0; round < 3; round++ {
		for _, c := range catOrder {
			if round < len(perCat[c]) && total < 25 {
				quota[c]++
				total++
			}
		}
	}
	for _, c := range catOrder {
		rep.Failures = append(rep.Failures, perCat[c][:quota[c]]...)
	}
	rep.FailureCount = len(fails)
	if path := os.Getenv("VERIF_REPORT"); path != "" {
		data, err := json.MarshalIndent(rep, "", " ")
		if err == nil {
			err = os.WriteFile(path, data, 0o644)
		}
		if err != nil {
			t.Logf("cannot write report: %v", err)
		}
	}
	t.Logf("%s %s seed=%d: %d evaluations, %d distinct non-trivial, %d failures in %d categories",
		rep.Property, rep.Tier, rep.Seed, rep.Evaluations, rep.DistinctNontrivial, rep.FailureCount, len(rep.ByCategory))
	cats := make([]string, 0, len(rep.ByCategory))
	for c := range rep.ByCategory {
		cats = append(cats, c)
	}
	sort.Strings(cats)
	for _, c := range cats {
		t.Logf("  [%s] x %d", c, rep.ByCategory[c])
	}
	for _, m := range rep.Failures {
		t.Errorf("%s", m)
	}
}

// vc03Parallel runs fn(i) for i in [0,n) on all cores.
func vc03Parallel(n int, fn func(i int)) {
	workers := runtime.NumCPU()
	if workers > 16 {
		workers = 16
	}
	var wg sync.WaitGroup
	var next int64
	const chunk = 64
	for w := 0; w < workers; w++ {
		wg.Add(1)
		go func() {
			defer wg.Done()
			for {
				start := int(atomic.AddInt64(&next, chunk)) - chunk
				if start >= n {
					return
				}
				end := start + chunk
				if end > n {
					end = n
				}
				for i := start; i < end; i++ {
					fn(i)
				}
			}
		}()
	}
	wg.Wait()
}

// ---- suspect features of a leaf (only used to name categories and to rank inputs) ---------

func vc03DecNeedsMoreThan2(v vc03Val) bool {
	if v.kind != vc03KDec {
		return false
	}
	x := new(big.Rat).Mul(v.rat, big.NewRat(100, 1))
	return !x.IsInt()
}

func vc03BigInt(v vc03Val) bool {
	if v.kind != vc03KInt {
		return false
	}
	lim := big.NewRat(1<<53, 1)
	return new(big.Rat).Abs(v.rat).Cmp(lim) > 0
}

// vc03Live: the features whose canonical single-feature witness currently fails the check.
// A feature whose witness passes (e.g. because the defect has been fixed) is not used to
// name a category any more.  nil = every feature counts.
var vc03Live map[string]bool

// vc03Witnesses: for every feature the smallest leaf that has this feature and no other.
func vc03Witnesses() map[string]*vc03Node {
	b, q, e := vc03StyleBare, vc03StyleQuoted, vc03StyleEscaped
	sb, sd := vc03Str("b", b), vc03Str("d", b)
	return map[string]*vc03Node{
		"nan-inf-word-read-as-number":            vc03Leaf(vc03OpEq, "s", false, vc03Str("NaN", b)),
		"phrase-escapes-unprocessed":             vc03Leaf(vc03OpEq, "s", false, vc03Str(`b\c`, q)),
		"escaped-wildcard-char-read-as-wildcard": vc03Leaf(vc03OpEq, "s", false, vc03Str("b*", e)),
		"escaped-backslash-dropped":              vc03Leaf(vc03OpEq, "s", false, vc03Str(`b\c`, e)),
		"pattern-escaped-wildcard-char":          vc03Leaf(vc03OpLike, "s", false, vc03Pat(`b\**`)),
		"pattern-literal-underscore-percent":     vc03Leaf(vc03OpLike, "s", false, vc03Pat("b_*")),
		"quoted-star-bounds-read-as-open":        vc03Range("s", false, vc03Str("*", q), vc03Str("*", q), true, true),
		"string-range-bound-with-comma":          vc03Range("s", false, vc03Str("b,c", q), sd, true, true),
		"range-both-ends-open":                   vc03Range("n", true, vc03Open(), vc03Open(), true, true),
		"string-range-open-end-as-between":       vc03Range("s", false, sb, vc03Open(), true, true),
		"string-range-exclusive-as-between":      vc03Range("s", false, sb, sd, false, false),
		"decimal-range-open-end-as-between":      vc03Range("n", true, vc03Open(), vc03Dec("1.5"), true, true),
		"range-mixed-brackets":                   vc03Range("n", true, vc03Int("1"), vc03Int("5"), true, false),
		"decimal-range-bound-rounded":            vc03Range("n", true, vc03Dec("0.001"), vc03Dec("0.002"), true, true),
		"int-range-bound-through-float64":        vc03Range("n", true, vc03Dec("1.5"), vc03Int("9223372036854775807"), true, true),
		"short-regexp-similar-to-vs-tilde":       vc03Leaf(vc03OpRegex, "s", false, vc03Re("b")),
	}
}

// vc03FindLive runs the check on every witness.
func vc03FindLive(fails func(*vc03Node) bool) map[string]bool {
	live := map[string]bool{}
	for f, w := range vc03Witnesses() {
		if fails(w) {
			live[f] = true
		}
	}
	return live
}

func vc03LeafFeatures(l *vc03Node) []string {
	var fs []string
	add := func(f string) {
		if vc03Live != nil && !vc03Live[f] {
			return
		}
		for _, x := range fs {
			if x == f {
				return
			}
		}
		fs = append(fs, f)
	}
	for _, v := range l.vals {
		if v.kind == vc03KRe && len(v.text) < 2 {
			add("short-regexp-similar-to-vs-tilde")
		}
	}
	for _, v := range l.vals {
		if v.kind == vc03KStr {
			up := strings.ToUpper(v.text)
			if v.style == vc03StyleBare && (up == "NAN" || up == "INF" || up == "INFINITY") {
				add("nan-inf-word-read-as-number")
			}
			if v.style == vc03StyleQuoted && strings.ContainsAny(v.text, "\\\"") {
				add("phrase-escapes-unprocessed")
			}
			if v.style == vc03StyleEscaped && strings.ContainsAny(v.text, "*?") {
				add("escaped-wildcard-char-read-as-wildcard")
			}
			if v.style == vc03StyleEscaped && strings.Contains(v.text, `\`) {
				add("escaped-backslash-dropped")
			}
		}
		if v.kind == vc03KPat {
			for _, t := range v.pat {
				if t.k == 0 && (t.r == '*' || t.r == '?') {
					add("pattern-escaped-wildcard-char")
				}
				if t.k == 0 && (t.r == '_' || t.r == '%') {
					add("pattern-literal-underscore-percent")
				}
			}
		}
	}
	if l.op == vc03OpRange {
		lo, hi := l.vals[0], l.vals[1]
		oneOpen := (lo.kind == vc03KOpen) != (hi.kind == vc03KOpen)
		if !l.num {
			starOrOpen := func(v vc03Val) bool { return v.kind == vc03KOpen || (v.kind == vc03KStr && v.text == "*") }
			if starOrOpen(lo) && starOrOpen(hi) && (lo.kind == vc03KStr || hi.kind == vc03KStr) {
				add("quoted-star-bounds-read-as-open")
			}
			// string ranges are always rendered as BETWEEN: the brackets are never consulted
			for _, v := range l.vals {
				if v.kind == vc03KStr && strings.Contains(v.text, ",") {
					add("string-range-bound-with-comma")
				}
			}
			if lo.kind == vc03KOpen && hi.kind == vc03KOpen {
				add("range-both-ends-open")
			} else if oneOpen {
				add("string-range-open-end-as-between")
			} else if !(l.loIncl && l.hiIncl) {
				add("string-range-exclusive-as-between")
			}
		} else {
			if lo.kind == vc03KOpen && hi.kind == vc03KOpen {
				add("range-both-ends-open")
			}
			if oneOpen && (lo.kind == vc03KDec || hi.kind == vc03KDec) {
				add("decimal-range-open-end-as-between")
			}
			if l.loIncl != l.hiIncl {
				add("range-mixed-brackets")
			}
			if vc03DecNeedsMoreThan2(lo) || vc03DecNeedsMoreThan2(hi) {
				add("decimal-range-bound-rounded")
			}
			if (lo.kind == vc03KDec || hi.kind == vc03KDec) && (vc03BigInt(lo) || vc03BigInt(hi)) {
				add("int-range-bound-through-float64")
			}
		}
	}
	return fs
}

// =====================================================================================
// C03: the check
// =====================================================================================

type vc03Query struct {
	root *vc03Node
	text string
	src  string // which part of the domain produced it
}

type vc03Outcome struct {
	kind       string // "", "panic", "rejected", "sql-unreadable", "sql-error", "wrong-rows"
	msg        string
	nontrivial bool
	rows       int
}

func vc03CallToPostgres(q string) (sql string, err error, pan any) {
	defer func() {
		if r := recover(); r != nil {
			pan = r
		}
	}()
	sql, err = ToPostgres(q)
	return
}

func vc03CheckOne(root *vc03Node, text string, maxRows int) vc03Outcome {
	sql, err, pan := vc03CallToPostgres(text)
	if pan != nil {
		return vc03Outcome{kind: "panic", msg: fmt.Sprintf("ToPostgres panicked: %v", pan)}
	}
	if err != nil {
		return vc03Outcome{kind: "rejected", msg: fmt.Sprintf("ToPostgres must succeed on this query of the filterable fragment, got error %q", err.Error())}
	}
	ast, perr := vc03ParseSQL(sql)
	if perr != nil {
		return vc03Outcome{kind: "sql-unreadable", msg: fmt.Sprintf("SQL %s is not a predicate of the emitted subset: %v", strconv.Quote(sql), perr)}
	}
	var nums []*big.Rat
	var strs []string
	vc03SQLConsts(ast, &nums, &strs)
	ps := vc03Probes(root, nums, strs)
	out := vc03Outcome{}
	sawT, sawF := false, false
	out.rows = vc03ForRows(ps, maxRows, func(row vc03Row) bool {
		want := vc03Meaning(root, row)
		if want {
			sawT = true
		} else {
			sawF = true
		}
		got, e := vc03EvalSQL(ast, row, nil)
		if e != nil {
			out.kind = "sql-error"
			out.msg = fmt.Sprintf("SQL %s fails on row %s: %v", strconv.Quote(sql), vc03ShowRow(row), e)
			return false
		}
		if got.t != 0 {
			out.kind = "sql-error"
			out.msg = fmt.Sprintf("SQL %s is not boolean (type %s)", strconv.Quote(sql), vc03TypeName(got))
			return false
		}
		if got.b != want {
			out.kind = "wrong-rows"
			out.msg = fmt.Sprintf("on row %s the query is %v but SQL %s (read as %s) is %v", vc03ShowRow(row), want, strconv.Quote(sql), vc03ShowSQL(ast), got.b)
			return false
		}
		return true
	})
	out.nontrivial = sawT && sawF
	return out
}

// vc03Category names the root cause.  A compound query that contains a leaf which already
// fails on its own inherits that leaf's category; otherwise the category is structural.
func vc03Category(root *vc03Node, out vc03Outcome, leafMemo *sync.Map, maxRows int) (cat string, nfeat int) {
	if out.kind == "panic" {
		return "panic", 0
	}
	if vc03IsLeaf(root) {
		fs := vc03LeafFeatures(root)
		if len(fs) > 0 {
			return fs[0], len(fs)
		}
		return "unclassified-leaf-" + out.kind, 0
	}
	for _, l := range vc03LeavesOf(root, nil) {
		text := vc03PrintLeaf(l)
		var c string
		if v, ok := leafMemo.Load(text); ok {
			c = v.(string)
		} else {
			lo := vc03CheckOne(l, text, maxRows)
			if lo.kind != "" {
				c, _ = vc03Category(l, lo, leafMemo, maxRows)
			}
			leafMemo.Store(text, c)
		}
		if c != "" {
			return c, 1 + len(vc03LeafFeatures(l))
		}
	}
	hasJuxt := false
	var walk func(n *vc03Node)
	walk = func(n *vc03Node) {
		if n.op == vc03OpJuxt {
			hasJuxt = true
		}
		for _, k := range n.kids {
			walk(k)
		}
	}
	walk(root)
	if hasJuxt && out.kind == "rejected" {
		return "juxtaposed-prefixed-clauses-rejected", 0
	}
	return "compound-" + out.kind, 0
}

func TestVerifStandin_C03(t *testing.T) {
	tier, seed := vc03Env()
	thorough := tier == "thorough"
	maxRows := 700
	if thorough {
		maxRows = 3000
	}

	// ---- the domain ------------------------------------------------------------------
	var queries []vc03Query
	seen := map[string]bool{}
	add := func(n *vc03Node, full bool, src string) {
		text := vc03Print(n, full)
		if seen[text] {
			return
		}
		seen[text] = true
		queries = append(queries, vc03Query{root: n, text: text, src: src})
	}
	leaves := vc03AllLeaves(thorough)
	for _, l := range leaves {
		for _, c := range vc03Contexts(l) {
			add(c, false, "leaf")
		}
	}
	nLeafPart := len(queries)
	sl := vc03StructLeaves(thorough)
	structs := vc03Structures(sl, []*vc03Node{sl[0], sl[2], sl[4]})
	for _, s := range structs {
		add(s, false, "structure")
		add(s, true, "structure")
	}
	nStructPart := len(queries) - nLeafPart
	nRandom := 6000
	randDepth := 3
	if thorough {
		nRandom = 150000
		randDepth = 4
	}
	rng := rand.New(rand.NewSource(seed))
	for i := 0; i < nRandom; i++ {
		d := 1 + rng.Intn(randDepth)
		add(vc03RandTree(rng, d), rng.Intn(2) == 0, "random")
	}
	nRandPart := len(queries) - nLeafPart - nStructPart

	// ---- which known root causes are still present? (only used to name categories) ----
	vc03Live = nil
	vc03Live = vc03FindLive(func(w *vc03Node) bool { return vc03CheckOne(w, vc03PrintLeaf(w), maxRows).kind != "" })

	// ---- run -------------------------------------------------------------------------
	var mu sync.Mutex
	var fails []vc03Failure
	var nontrivial, rowEvals int64
	var leafMemo sync.Map
	vc03Parallel(len(queries), func(i int) {
		q := queries[i]
		var out vc03Outcome
		func() {
			defer func() {
				if r := recover(); r != nil {
					out = vc03Outcome{kind: "panic", msg: fmt.Sprintf("panic while checking: %v", r)}
				}
			}()
			out = vc03CheckOne(q.root, q.text, maxRows)
		}()
		atomic.AddInt64(&rowEvals, int64(out.rows))
		if out.nontrivial || out.kind != "" {
			atomic.AddInt64(&nontrivial, 1)
		}
		if out.kind == "" {
			return
		}
		cat, nfeat := vc03Category(q.root, out, &leafMemo, maxRows)
		f := vc03Failure{cat: cat, input: q.text, msg: out.msg, rank: [3]int{nfeat, vc03Size(q.root), len(q.text)}}
		mu.Lock()
		fails = append(fails, f)
		mu.Unlock()
	})

	rep := &vc03Report{Property: "C03", Tier: tier, Seed: seed}
	rep.Evaluations = len(queries)
	rep.DistinctNontrivial = int(nontrivial)
	rep.Bound = fmt.Sprintf("distinct query texts printed from own syntax trees; non-trivial = meaning not constant on the probe rows (or failing). "+
		"(1) %d texts: every leaf form (equality, < <= > >=, ranges with each bound a value or * and all 4 bracket combinations, lists of 2 and 3 values, wildcard patterns of length <= %d) "+
		"over %d numbers (int64 extremes, decimals such as 0.001, 2.125) and %d string spellings (bare / \"phrase\" / backslash-escaped; quotes, commas, spaces, backslash, NaN, keywords, empty) "+
		"on a numeric field n and a string field s, each alone and under NOT, -, +, and on both sides of AND / OR; "+
		"(2) %d texts: every tree of depth <= 2 over %d representative leaves (one per SQL shape) with NOT, +, -, AND, OR and juxtaposed +/- clauses, printed with minimal and with full parentheses; "+
		"(3) %d seeded random trees of depth <= %d with random int64 / exactly representable decimals / strings over a hostile rune pool / patterns. "+
		"Rows: per field one value in every region cut out by the constants of the query and of the SQL text (product over the fields, at most %d rows per query; %d row evaluations in total).",
		nLeafPart, map[bool]int{false: 3, true: 4}[thorough], len(vc03NumVals(thorough)), len(vc03StrVals(thorough)),
		nStructPart, len(sl), nRandPart, randDepth, maxRows, rowEvals)
	for i := 0; i < len(queries) && len(rep.Samples) < 12; i += 1 + len(queries)/12 {
		rep.Samples = append(rep.Samples, strconv.Quote(queries[i].text))
	}
	vc03Finish(t, rep, fails)
}
