//go:build verif

package lucene

// Witness inputs for defects the obligations point at.  When a check finds an
// undischarged obligation it runs the witnesses registered for that obligation:
// a witness that still fails on the real code is the failing input attached to
// the VIOLATION line; once the defect is fixed the witness passes (and stays as a
// regression canary).  Injected with `go test -overlay`; never written to /repo.

import (
	"encoding/json"
	"fmt"
	"os"
	"reflect"
	"strings"
	"testing"

	"github.com/grindlemire/go-lucene/pkg/lucene/expr"
)

type witness struct {
	ID         string // matches obligation names (substring)
	Property   string
	Input      string
	Check      func() string // "" = behaves as the property demands
}

func noPanic(f func() string) (msg string) {
	defer func() {
		if r := recover(); r != nil {
			msg = fmt.Sprintf("panic: %v", r)
		}
	}()
	return f()
}

func sameTree(a, b string, opts ...opt) string {
	ea, erra := Parse(a, opts...)
	eb, errb := Parse(b, opts...)
	if (erra == nil) != (errb == nil) {
		return fmt.Sprintf("Parse(%q) err=%v but Parse(%q) err=%v", a, erra, b, errb)
	}
	if erra == nil && !reflect.DeepEqual(ea, eb) {
		return fmt.Sprintf("Parse(%q)=%#v differs from Parse(%q)=%#v", a, ea, b, eb)
	}
	return ""
}

var witnesses = []witness{
	{"literalToExpr/safety/index", "C13", `json.Unmarshal("\"\"")`, func() string {
		var e expr.Expression
		_ = json.Unmarshal([]byte(`""`), &e)
		return ""
	}},
	{"literalToExpr/safety/index", "C01", `Parse("\"\"", WithDefaultField("f"))`, func() string {
		_, _ = Parse(`""`, WithDefaultField("f"))
		return ""
	}},
	{"RenderParam/safety/index@rparams[0]", "C01", `ToParameterizedPostgres("a:*")`, func() string {
		_, _, _ = ToParameterizedPostgres("a:*")
		return ""
	}},
	{"serializeParams/post/string-is-param", "C04", `ToParameterizedPostgres("a:\"*\"")`, func() string {
		s, p, err := ToParameterizedPostgres(`a:"*"`)
		if err != nil || len(p) != 1 || p[0] != "*" || strings.Contains(s, "'*'") {
			return fmt.Sprintf("quoted \"*\" value rendered as %q with params %v (must travel as a parameter)", s, p)
		}
		return ""
	}},
	{"sub/post/pattern", "C06", `Parse("(() NOT a)")`, func() string {
		if e, err := Parse("(() NOT a)"); err == nil {
			return fmt.Sprintf("text that is not a query was accepted as %v", e)
		}
		return ""
	}},
	{"validateRange/post/bounds-are-terms", "C10", `Parse("a:[b:c TO 5]")`, func() string {
		if e, err := Parse("a:[b:c TO 5]"); err == nil {
			return fmt.Sprintf("range bound that is not a single term was accepted: %#v", e)
		}
		return ""
	}},
	{"parse/assert/implicit-and-shiftable", "C07", `NOT a:b c:d  vs  NOT a:b AND c:d`, func() string {
		if m := sameTree("NOT a:b c:d", "NOT a:b AND c:d"); m != "" {
			return m
		}
		return sameTree("a:b c:d e:f", "a:b AND c:d AND e:f")
	}},
	{"renderList/fmt/%s", "C01", `Parse("a:(1 OR 2)").String()`, func() string {
		e, err := Parse("a:(1 OR 2)")
		if err != nil {
			return ""
		}
		if s := e.String(); strings.Contains(s, "%!") {
			return "String() = " + s
		}
		return ""
	}},
}

func TestVerifWitness(t *testing.T) {
	want := os.Getenv("VERIF_WITNESS") // substring of the obligation name; empty = all
	type res struct {
		ID, Property, Input, Result string
	}
	var out []res
	for _, w := range witnesses {
		if want != "" && !strings.Contains(want, w.ID) && !strings.Contains(w.ID, want) {
			continue
		}
		msg := noPanic(w.Check)
		out = append(out, res{w.ID, w.Property, w.Input, msg})
		if msg != "" {
			t.Errorf("witness %s [%s]: %s", w.ID, w.Input, msg)
		}
	}
	if p := os.Getenv("VERIF_REPORT"); p != "" {
		b, _ := json.Marshal(out)
		os.WriteFile(p, b, 0o644)
	}
}
