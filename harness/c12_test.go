//go:build verif

package lucene

// Bounded stand-in / counterexample search for property C12
// (JSON encoding of expressions round-trips).
//
// Injected into the root package of /repo with `go test -overlay`; never written to /repo.
//
// The oracle is the text of the property:
//   for every expression Parse returns (valid UTF-8 query)
//     json.Marshal succeeds, json.Unmarshal of those bytes succeeds, the decoded expression
//     passes expr.Validate, re-encodes to the identical bytes, prints identically (String),
//     renders identical inline and parameterised SQL, and is reflect.DeepEqual to the original
//     unless the query quotes a string containing * or ?, quotes a /slash-delimited/ string or
//     writes an integer-valued float such as 5.0 (decided on the query's leaf tokens by
//     vc12LeafExempt, never by looking at what the decoder did).

import (
	"encoding/json"
	"fmt"
	"math"
	"math/rand"
	"os"
	"reflect"
	"regexp"
	"runtime"
	"sort"
	"strconv"
	"strings"
	"sync"
	"testing"
	"time"
	"unicode/utf8"

	"github.com/grindlemire/go-lucene/pkg/driver"
	"github.com/grindlemire/go-lucene/pkg/lucene/expr"
)

// ---------------------------------------------------------------------------------------------
// report plumbing

type vc12Report struct {
	Property    string         `json:"property"`
	Tier        string         `json:"tier"`
	Seed        int64          `json:"seed"`
	Evaluations int            `json:"evaluations"`
	Distinct    int            `json:"distinct_nontrivial"`
	Bound       string         `json:"bound"`
	FailCount   int            `json:"failure_count"`
	ByCategory  map[string]int `json:"by_category"`
	Failures    []string       `json:"failures"`
	Samples     []string       `json:"samples"`
}

type vc12Fail struct {
	cat   string
	input string
	msg   string
}

// vc12Agg keeps, per category, the number of failures and the three smallest inputs.
type vc12Agg struct {
	count map[string]int
	best  map[string][]vc12Fail
}

func vc12NewAgg() *vc12Agg {
	return &vc12Agg{count: map[string]int{}, best: map[string][]vc12Fail{}}
}

func vc12Less(a, b vc12Fail) bool {
	if len(a.input) != len(b.input) {
		return len(a.input) < len(b.input)
	}
	if a.input != b.input {
		return a.input < b.input
	}
	return a.msg < b.msg
}

func (g *vc12Agg) add(f vc12Fail) {
	g.count[f.cat]++
	g.insert(f)
}

func (g *vc12Agg) insert(f vc12Fail) {
	l := g.best[f.cat]
	for _, x := range l {
		if x.input == f.input && x.msg == f.msg {
			return
		}
	}
	l = append(l, f)
	sort.Slice(l, func(i, j int) bool { return vc12Less(l[i], l[j]) })
	if len(l) > 3 {
		l = l[:3]
	}
	g.best[f.cat] = l
}

func (g *vc12Agg) merge(o *vc12Agg) {
	for c, n := range o.count {
		g.count[c] += n
	}
	for _, l := range o.best {
		for _, f := range l {
			g.insert(f)
		}
	}
}

func (g *vc12Agg) messages() (msgs []string, total int) {
	cats := []string{}
	for c, n := range g.count {
		cats = append(cats, c)
		total += n
	}
	sort.Strings(cats)
	for _, c := range cats {
		for _, f := range g.best[c] {
			if len(msgs) < 25 {
				msgs = append(msgs, fmt.Sprintf("[%s] %s : %s", c, strconv.Quote(f.input), f.msg))
			}
		}
	}
	return msgs, total
}

func vc12Env() (tier string, seed int64) {
	tier = os.Getenv("VERIF_TIER")
	if tier != "thorough" {
		tier = "quick"
	}
	seed = 1
	if v := os.Getenv("VERIF_SEED"); v != "" {
		if n, err := strconv.ParseInt(v, 10, 64); err == nil {
			seed = n
		}
	}
	return tier, seed
}

// ---------------------------------------------------------------------------------------------
// oracle helpers (derived from the statement only)

var vc12PlainInt = regexp.MustCompile(`^-?[0-9]+$`)

// vc12LeafExempt decides from the TEXT of one leaf token of the query whether the statement
// exempts it from deep equality: a quoted string containing * or ?, a quoted /slash-delimited/
// string, or a number written as a float whose value is integral (5.0, 1e3, 2.).
func vc12LeafExempt(tok string) bool {
	if len(tok) >= 2 && (tok[0] == '"' || tok[0] == '\'') && tok[len(tok)-1] == tok[0] {
		c := tok[1 : len(tok)-1]
		if strings.ContainsAny(c, "*?") {
			return true
		}
		if len(c) > 0 && c[0] == '/' && c[len(c)-1] == '/' {
			return true
		}
		return false
	}
	if vc12PlainInt.MatchString(tok) {
		return false
	}
	f, err := strconv.ParseFloat(tok, 64)
	if err == nil && !math.IsNaN(f) && !math.IsInf(f, 0) && f == math.Trunc(f) {
		return true
	}
	return false
}

type vc12Term struct {
	q      string
	exempt bool
}

func vc12Leaf(tok string) vc12Term { return vc12Term{q: tok, exempt: vc12LeafExempt(tok)} }

// ---------------------------------------------------------------------------------------------
// the enumerated grammar

// value leaves
var vc12Values = []string{
	// words and numbers
	`b`, `foo_1`, `a-b`, `a.b`, `2024-01-02`, `true`, `null`,
	`7`, `0`, `-3`, `1.5`, `-0.25`, `5.0`, `1e3`, `2.`, `-0.0`, `1e6`,
	`9007199254740993`, `9223372036854775807`, `99999999999999999999`,
	`NaN`, `Inf`,
	// quoted
	`"x y"`, `""`, `"b"`, `"7"`, `"a*"`, `"w?"`, `"/r/"`, `"x/y"`, `"a:b"`, `"it's"`, `'s q'`, `'s*'`,
	// wildcards and regular expressions
	`w*`, `?x`, `*`, `/re+/`, `/a b/`, `//`,
	// non-ASCII
	`héé`, `日本`, `"日本 語"`, `"é*"`, `ü*`,
	// escapes
	`a\:b`, `a\ b`, `\/p\/`, `\/`, `a\*b`,
	// control characters and runes that JSON must escape or pass through (inside quotes)
	`"C:\t\*"`, `"/\d+/"`, "\"x\x7fy\"", "\"a\vb\"", "\"t\tab\"", "\"<&>\"", "\"\U000e0001\"", "\"\u2028\"",
}

var vc12Fields = []string{`a`, `f_1`, `héé`, `"a b"`, `7`, `a.b`, `w*`, `""`}
var vc12FieldsSmall = []string{`a`, `héé`}

// range bounds
var vc12Bounds = []string{
	`*`, `1`, `5`, `-3`, `1.5`, `5.0`, `1e3`, `1e6`, `-0.0`, `b`, `"x y"`, `""`, `"a*"`, `"/r/"`, `/r/`, `w*`, `héé`,
	`2024-01-02`, `\/p\/`, `9007199254740993`, `9223372036854775807`, `NaN`,
}

// list members
var vc12ListVals = []string{`b`, `7`, `-3`, `1.5`, `5.0`, `"x y"`, `""`, `"a*"`, `"/r/"`, `w*`, `héé`, `"日本 語"`, `\/p\/`, `9007199254740993`, `a\:b`}
var vc12ListVals3 = []string{`b`, `7`, `1.5`, `"x y"`, `""`, `héé`}

var vc12Unary = []string{`NOT %s`, `+%s`, `-%s`, `%s~`, `%s~0`, `%s~2`, `%s^`, `%s^1.5`, `%s^2`, `%s^Inf`, `(%s)`, `a:(%s)`}
var vc12Binary = []string{`%s AND %s`, `%s OR %s`, `%s %s`}

func vc12Un(form string, t vc12Term) vc12Term {
	return vc12Term{q: fmt.Sprintf(form, t.q), exempt: t.exempt}
}

func vc12Bin(form string, a, b vc12Term) vc12Term {
	return vc12Term{q: fmt.Sprintf(form, a.q, b.q), exempt: a.exempt || b.exempt}
}

// vc12Atoms enumerates every depth-0 term over the full leaf alphabets.
func vc12Atoms() (out []vc12Term) {
	for _, v := range vc12Values {
		out = append(out, vc12Leaf(v))
	}
	for _, f := range vc12Fields {
		for _, v := range vc12Values {
			out = append(out, vc12Term{q: f + ":" + v, exempt: vc12LeafExempt(f) || vc12LeafExempt(v)})
		}
	}
	for _, f := range vc12FieldsSmall {
		for _, op := range []string{`>`, `>=`, `<`, `<=`, `=`} {
			for _, v := range vc12Values {
				sep := ":" + op
				if op == "=" {
					sep = "="
				}
				out = append(out, vc12Term{q: f + sep + v, exempt: vc12LeafExempt(v)})
			}
		}
	}
	for fi, f := range []string{`a`, `héé`, `"a b"`} {
		for _, br := range [][2]string{{"[", "]"}, {"{", "}"}, {"[", "}"}, {"{", "]"}} {
			for i, lo := range vc12Bounds {
				for j, hi := range vc12Bounds {
					if fi > 0 && (i+j)%5 != 0 {
						continue // the other fields only see a fifth of the bound pairs
					}
					out = append(out, vc12Term{
						q:      fmt.Sprintf("%s:%s%s TO %s%s", f, br[0], lo, hi, br[1]),
						exempt: vc12LeafExempt(lo) || vc12LeafExempt(hi),
					})
				}
			}
		}
	}
	for _, v1 := range vc12ListVals {
		out = append(out, vc12Term{q: fmt.Sprintf("a:(%s)", v1), exempt: vc12LeafExempt(v1)})
		for _, v2 := range vc12ListVals {
			out = append(out, vc12Term{q: fmt.Sprintf("a:(%s OR %s)", v1, v2), exempt: vc12LeafExempt(v1) || vc12LeafExempt(v2)})
		}
	}
	for _, v1 := range vc12ListVals3 {
		for _, v2 := range vc12ListVals3 {
			for _, v3 := range vc12ListVals3 {
				out = append(out, vc12Term{q: fmt.Sprintf("héé:(%s OR %s OR %s)", v1, v2, v3)})
			}
		}
	}
	return out
}

// representative atoms used for the binary products at depth 1
var vc12Repr = []string{
	`b`, `7`, `-3`, `1.5`, `5.0`, `"x y"`, `""`, `"a*"`, `"/r/"`, `w*`, `/re+/`, `héé`, `\/p\/`, `a\:b`,
	`a:b`, `a:7`, `a:1.5`, `a:5.0`, `a:"x y"`, `a:""`, `a:"a*"`, `a:w*`, `a:/re+/`, `héé:"日本 語"`, `"a b":b`, `7:b`,
	`a:>7`, `a:>=1.5`, `a:<b`, `a:<="x y"`, `a=b`,
	`a:[1 TO 5]`, `a:{1 TO 5}`, `a:[* TO 5]`, `a:{1.5 TO *}`, `a:[b TO "x y"]`, `a:["" TO héé]`, `a:[5.0 TO *]`, `a:[9007199254740993 TO *]`,
	`a:(b OR 7)`, `a:(b OR "x y" OR 1.5)`, `a:("" OR héé)`, `a:(w* OR b)`,
	`a:NaN`,
}

// core alphabet for the exhaustive depth-2 closure
var vc12CoreQuick = []string{`b`, `a:7`, `a:"x y"`, `a:w*`, `a:[1 TO *]`, `a:(b OR 7)`, `héé:""`}
var vc12CoreThorough = []string{`b`, `a:7`, `a:"x y"`, `a:w*`, `a:[1 TO *]`, `a:(b OR 7)`, `a:>=1.5`, `héé:""`,
	`a:/r/`, `a:{b TO "x y"}`, `"q*"`, `a:5.0`, `-3`, `a:<\/p\/`}

// vc12AtomTerm computes the exemption of a hand-written atom from its leaf tokens.
func vc12AtomTerm(q string) vc12Term {
	return vc12Term{q: q, exempt: vc12QueryExempt(q)}
}

// vc12QueryExempt splits a query of the enumerated grammar into its leaf tokens (quoted strings,
// /regexps/, and maximal runs of non-space non-structural characters) and asks vc12LeafExempt.
// It is only applied to queries written by this file.
func vc12QueryExempt(q string) bool {
	i := 0
	for i < len(q) {
		c := q[i]
		switch {
		case c == '"' || c == '\'':
			j := strings.IndexByte(q[i+1:], c)
			if j < 0 {
				return false
			}
			if vc12LeafExempt(q[i : i+j+2]) {
				return true
			}
			i += j + 2
		case c == '/':
			j := strings.IndexByte(q[i+1:], '/')
			if j < 0 {
				return false
			}
			i += j + 2
		case strings.ContainsRune(" ()[]{}:<>=~^+", rune(c)):
			// a number directly after ~ or ^ is a distance / power, not a leaf
			if c == '~' || c == '^' {
				i++
				for i < len(q) && (q[i] == '.' || (q[i] >= '0' && q[i] <= '9')) {
					i++
				}
				continue
			}
			i++
		default:
			j := i
			for j < len(q) && !strings.ContainsRune(" ()[]{}:<>=~^+\"'/", rune(q[j])) {
				if q[j] == '\\' {
					j++
				}
				j++
			}
			if j > len(q) {
				j = len(q)
			}
			if vc12LeafExempt(q[i:j]) {
				return true
			}
			i = j
		}
	}
	return false
}

// vc12Random derives one random term of the grammar of at most the given depth.
func vc12Random(r *rand.Rand, atoms []vc12Term, depth int) vc12Term {
	if depth == 0 || r.Intn(5) == 0 {
		return atoms[r.Intn(len(atoms))]
	}
	if r.Intn(2) == 0 {
		return vc12Un(vc12Unary[r.Intn(len(vc12Unary))], vc12Random(r, atoms, depth-1))
	}
	return vc12Bin(vc12Binary[r.Intn(len(vc12Binary))], vc12Random(r, atoms, depth-1), vc12Random(r, atoms, depth-1))
}

// ---------------------------------------------------------------------------------------------
// the check of the statement on one query

type vc12Stats struct {
	accepted   int
	rejected   int
	nontrivial []uint64 // hashes of accepted queries whose tree has an operator node
	exempt     int
	ops        [32]int
}

func vc12Hash(s string, variant bool) uint64 {
	h := uint64(14695981039346656037) // FNV-1a
	for i := 0; i < len(s); i++ {
		h ^= uint64(s[i])
		h *= 1099511628211
	}
	if variant {
		h *= 1099511628211
	}
	return h
}

var vc12PG = driver.NewPostgresDriver()

func vc12Guard(stage string, f func()) (panicked string) {
	defer func() {
		if r := recover(); r != nil {
			panicked = fmt.Sprintf("%s panicked: %v", stage, r)
		}
	}()
	f()
	return ""
}

func vc12ErrStr(err error) string {
	if err == nil {
		return "<nil>"
	}
	return err.Error()
}

func vc12CountOps(in any, ops *[32]int) (operators int) {
	switch v := in.(type) {
	case *expr.Expression:
		if v == nil {
			return 0
		}
		if int(v.Op) >= 0 && int(v.Op) < len(ops) {
			ops[int(v.Op)]++
		}
		n := 0
		if v.Op != expr.Literal && v.Op != expr.Wild && v.Op != expr.Regexp {
			n = 1
		}
		return n + vc12CountOps(v.Left, ops) + vc12CountOps(v.Right, ops)
	case []*expr.Expression:
		n := 0
		for _, e := range v {
			n += vc12CountOps(e, ops)
		}
		return n
	case *expr.RangeBoundary:
		if v == nil {
			return 0
		}
		return vc12CountOps(v.Min, ops) + vc12CountOps(v.Max, ops)
	}
	return 0
}

func vc12IsLeafOp(o expr.Operator) bool {
	return o == expr.Literal || o == expr.Wild || o == expr.Regexp
}

func vc12IsNum(v any) bool {
	switch v.(type) {
	case int, float64:
		return true
	}
	return false
}

// vc12Slug makes a category name of lower-case words and dashes.
func vc12Slug(in string) string {
	var b strings.Builder
	dash := false
	for _, r := range strings.ToLower(in) {
		if (r >= 'a' && r <= 'z') || (r >= '0' && r <= '9') {
			b.WriteRune(r)
			dash = false
		} else if !dash && b.Len() > 0 {
			b.WriteByte('-')
			dash = true
		}
	}
	return strings.Trim(b.String(), "-")
}

// vc12KindInferred: the one change of leaf kind the statement concedes - a LITERAL string that
// contains * or ? comes back as WILD, a /slash-delimited/ one as REGEXP (same text).
func vc12KindInferred(x, y *expr.Expression) bool {
	s, ok := x.Left.(string)
	if !ok || x.Op != expr.Literal {
		return false
	}
	if y.Op == expr.Regexp {
		return len(s) > 0 && s[0] == '/' && s[len(s)-1] == '/'
	}
	if y.Op == expr.Wild {
		return strings.ContainsAny(s, "*?")
	}
	return false
}

// vc12Diff locates the first difference between the original and the decoded tree and names
// its kind; "" if it finds none.
func vc12Diff(a, b any, path string, inRange, lenient bool) (tag, detail string) {
	switch x := a.(type) {
	case *expr.Expression:
		y, ok := b.(*expr.Expression)
		if !ok {
			return "structure-differs", fmt.Sprintf("%s: %T became %T", path, a, b)
		}
		if x == nil || y == nil {
			if x == nil && y == nil {
				return "", ""
			}
			return "structure-differs", fmt.Sprintf("%s: nil-ness differs", path)
		}
		if x.Op != y.Op && !(lenient && vc12KindInferred(x, y)) {
			if vc12IsLeafOp(x.Op) && vc12IsLeafOp(y.Op) {
				return vc12Slug("leaf-kind-" + x.Op.String() + "-to-" + y.Op.String()),
					fmt.Sprintf("%s: %#v became %#v", path, x, y)
			}
			return "operator-changed", fmt.Sprintf("%s: %v became %v", path, x.Op, y.Op)
		}
		if t, d := vc12Diff(x.Left, y.Left, path+".Left", inRange, lenient); t != "" {
			return t, d
		}
		if t, d := vc12Diff(x.Right, y.Right, path+".Right", inRange, lenient); t != "" {
			return t, d
		}
		xv, yv := reflect.ValueOf(*x), reflect.ValueOf(*y)
		if p, q := xv.FieldByName("boostPower").Float(), yv.FieldByName("boostPower").Float(); p != q {
			return "boost-power-changed", fmt.Sprintf("%s: power %v became %v", path, p, q)
		}
		if p, q := xv.FieldByName("fuzzyDistance").Int(), yv.FieldByName("fuzzyDistance").Int(); p != q {
			return "fuzzy-distance-changed", fmt.Sprintf("%s: distance %v became %v", path, p, q)
		}
		return "", ""
	case []*expr.Expression:
		y, ok := b.([]*expr.Expression)
		if !ok || len(x) != len(y) {
			return "structure-differs", fmt.Sprintf("%s: list %v became %v", path, a, b)
		}
		for i := range x {
			if t, d := vc12Diff(x[i], y[i], fmt.Sprintf("%s[%d]", path, i), inRange, lenient); t != "" {
				return t, d
			}
		}
		return "", ""
	case *expr.RangeBoundary:
		y, ok := b.(*expr.RangeBoundary)
		if !ok || x == nil || y == nil {
			return "structure-differs", fmt.Sprintf("%s: boundary %T became %T", path, a, b)
		}
		if t, d := vc12Diff(x.Min, y.Min, path+".Min", true, lenient); t != "" {
			return t, d
		}
		if t, d := vc12Diff(x.Max, y.Max, path+".Max", true, lenient); t != "" {
			return t, d
		}
		if x.Inclusive != y.Inclusive {
			return "range-inclusive-changed", fmt.Sprintf("%s: inclusive %v became %v", path, x.Inclusive, y.Inclusive)
		}
		return "", ""
	}
	if reflect.DeepEqual(a, b) {
		return "", ""
	}
	if lenient {
		// an integer-valued float may come back as the int of the same value
		if f, isF := a.(float64); isF {
			if i, isI := b.(int); isI && f == math.Trunc(f) && float64(i) == f {
				// conceded, as long as the change of type is invisible in the encoding and in print
				ja, _ := json.Marshal(a)
				jb, _ := json.Marshal(b)
				if string(ja) != string(jb) {
					return "integral-float-reencodes-differently-as-int", fmt.Sprintf("%s: float64 %v (JSON %s) became int %v (JSON %s)", path, a, ja, b, jb)
				}
				if fmt.Sprint(a) != fmt.Sprint(b) {
					return "integral-float-prints-differently-as-int", fmt.Sprintf("%s: float64 %v became int %v", path, a, b)
				}
				return "", ""
			}
		}
	}
	if inRange && vc12IsNum(a) && vc12IsNum(b) {
		return "range-bound-number-changed", fmt.Sprintf("%s: %T %v became %T %v", path, a, a, b, b)
	}
	if reflect.TypeOf(a) != reflect.TypeOf(b) {
		return vc12Slug(fmt.Sprintf("leaf-type-%T-to-%T", a, b)), fmt.Sprintf("%s: %T %v became %T %v", path, a, a, b, b)
	}
	return "leaf-value-changed", fmt.Sprintf("%s: %#v became %#v", path, a, b)
}

func vc12Check(t vc12Term, withDefault bool, st *vc12Stats, agg *vc12Agg) {
	label := t.q
	if withDefault {
		label = t.q + "   (WithDefaultField(\"df\"))"
	}
	fail := func(cat, msg string) { agg.add(vc12Fail{cat: cat, input: label, msg: msg}) }

	if !utf8.ValidString(t.q) {
		return
	}
	var e *expr.Expression
	var err error
	if p := vc12Guard("Parse", func() {
		if withDefault {
			e, err = Parse(t.q, WithDefaultField("df"))
		} else {
			e, err = Parse(t.q)
		}
	}); p != "" {
		fail("panic-parse", p)
		return
	}
	if err != nil || e == nil {
		st.rejected++
		return
	}
	st.accepted++
	if vc12CountOps(e, &st.ops) > 0 {
		st.nontrivial = append(st.nontrivial, vc12Hash(t.q, withDefault))
	}
	if t.exempt {
		st.exempt++
	}

	// 1. encoding succeeds
	var enc []byte
	if p := vc12Guard("json.Marshal", func() { enc, err = json.Marshal(e) }); p != "" {
		fail("panic-encode", p)
		return
	}
	if err != nil {
		if strings.Contains(err.Error(), "unsupported value") {
			fail("nonfinite-number-not-encodable", fmt.Sprintf("Parse accepted the query as %#v; expected json.Marshal to succeed, got error: %v", e, err))
		} else {
			fail("encode-error", fmt.Sprintf("expected json.Marshal of %#v to succeed, got error: %v", e, err))
		}
		return
	}

	// 2. decoding succeeds
	var d expr.Expression
	if p := vc12Guard("json.Unmarshal", func() { err = json.Unmarshal(enc, &d) }); p != "" {
		fail("panic-decode", fmt.Sprintf("decoding %s: %s", enc, p))
		return
	}
	if err != nil {
		fail("decode-error", fmt.Sprintf("expected json.Unmarshal of %s to succeed, got error: %v", enc, err))
		return
	}
	dec := &d

	deepEqual := reflect.DeepEqual(e, dec)
	tag, detail := "", ""
	if !deepEqual {
		tag, detail = vc12Diff(e, dec, "root", false, false)
		if tag == "" {
			tag, detail = "deep-equal-other", fmt.Sprintf("%#v vs %#v", e, dec)
		}
	}
	// for a query with an exempt leaf: is there a difference beyond the conceded kind inference?
	residTag, residDetail := "", ""
	if !deepEqual && t.exempt {
		residTag, residDetail = vc12Diff(e, dec, "root", false, true)
	}

	// 3..7: the identities that hold for every accepted query
	also := []string{}
	var verr error
	if p := vc12Guard("Validate", func() { verr = expr.Validate(dec) }); p != "" {
		also = append(also, "decoded-invalid: "+p)
	} else if verr != nil {
		also = append(also, "decoded-invalid: Validate(decoded) = "+verr.Error())
	}
	var enc2 []byte
	if p := vc12Guard("json.Marshal(decoded)", func() { enc2, err = json.Marshal(dec) }); p != "" {
		also = append(also, "reencode-differs: "+p)
	} else if err != nil || string(enc2) != string(enc) {
		also = append(also, fmt.Sprintf("reencode-differs: %s re-encodes to %s (err %v)", enc, enc2, err))
	}
	var s1, s2 string
	if p := vc12Guard("String", func() { s1, s2 = e.String(), dec.String() }); p != "" {
		also = append(also, "string-differs: "+p)
	} else if s1 != s2 {
		also = append(also, fmt.Sprintf("string-differs: String() %q became %q", s1, s2))
	}
	var r1, r2 string
	var e1, e2 error
	if p := vc12Guard("Render", func() { r1, e1 = vc12PG.Render(e); r2, e2 = vc12PG.Render(dec) }); p != "" {
		also = append(also, "render-differs: "+p)
	} else if r1 != r2 || vc12ErrStr(e1) != vc12ErrStr(e2) {
		also = append(also, fmt.Sprintf("render-differs: Render %q/%s became %q/%s", r1, vc12ErrStr(e1), r2, vc12ErrStr(e2)))
	}
	var p1, p2 []any
	if p := vc12Guard("RenderParam", func() { r1, p1, e1 = vc12PG.RenderParam(e); r2, p2, e2 = vc12PG.RenderParam(dec) }); p != "" {
		also = append(also, "renderparam-differs: "+p)
	} else if r1 != r2 || vc12ErrStr(e1) != vc12ErrStr(e2) || fmt.Sprint(p1) != fmt.Sprint(p2) || (!t.exempt && !reflect.DeepEqual(p1, p2)) {
		also = append(also, fmt.Sprintf("renderparam-differs: RenderParam %q %#v/%s became %q %#v/%s", r1, p1, vc12ErrStr(e1), r2, p2, vc12ErrStr(e2)))
	}

	if !t.exempt && !deepEqual {
		// one root cause, one message: the kind of the first differing node names the category,
		// the consequences for the other identities are listed behind it.
		msg := fmt.Sprintf("no leaf of the query is exempt, expected the decoded expression to be deep-equal; %s (encoded as %s)", detail, enc)
		if len(also) > 0 {
			msg += "; consequences: " + strings.Join(also, "; ")
		}
		fail(tag, msg)
		return
	}
	if !t.exempt && deepEqual {
		// %#v shows the leaf kinds; it can only be compared where kinds are promised to agree
		var g1, g2 string
		if p := vc12Guard("GoString", func() { g1, g2 = fmt.Sprintf("%#v", e), fmt.Sprintf("%#v", dec) }); p != "" {
			also = append(also, "gostring-differs: "+p)
		} else if g1 != g2 {
			also = append(also, fmt.Sprintf("gostring-differs: %%#v %q became %q", g1, g2))
		}
	}
	if len(also) == 0 {
		return
	}
	if residTag != "" {
		// exempt query, but an identity that holds for EVERY query broke because a node other
		// than the exempt leaf changed: same root cause (and tag) as in the non-exempt case.
		fail(residTag, fmt.Sprintf("%s (encoded as %s); consequences: %s", residDetail, enc, strings.Join(also, "; ")))
		return
	}
	// the identities broke although the trees agree (up to the conceded leaf kinds): the category
	// is the first broken identity plus, for an exempt query, the kind of leaf that was re-inferred.
	first := also[0]
	i := strings.Index(first, ": ")
	cat := first[:i]
	if strings.Contains(first, "panicked") {
		cat = "panic-" + strings.TrimSuffix(cat, "-differs")
	}
	msg := strings.Join(also, "; ")
	if tag != "" {
		msg += fmt.Sprintf(" (exempt leaf: %s)", detail)
	}
	fail(cat, msg)
}

// ---------------------------------------------------------------------------------------------

type vc12Job struct {
	t   vc12Term
	def bool
}

func TestVerifStandin_C12(t *testing.T) {
	tier, seed := vc12Env()
	rep := vc12Report{Property: "C12", Tier: tier, Seed: seed, ByCategory: map[string]int{}, Failures: []string{}, Samples: []string{}}

	tStart := time.Now()
	// ---- build the corpus (deterministic order) ----
	atoms := vc12Atoms()
	jobs := make([]vc12Job, 0, 1<<20)
	seen := map[uint64]struct{}{}
	add := func(tm vc12Term, def bool) {
		h := vc12Hash(tm.q, def)
		if _, dup := seen[h]; dup {
			return
		}
		seen[h] = struct{}{}
		jobs = append(jobs, vc12Job{tm, def})
	}
	phase := map[string]int{}
	mark := func(name string, from int) { phase[name] = len(jobs) - from }

	// phase A: every atom, with and without a default field
	n0 := len(jobs)
	for _, a := range atoms {
		add(a, false)
		add(a, true)
	}
	mark("atoms", n0)

	// phase B: depth 1 - every unary form over every atom; every binary form over the
	// representative atoms
	n0 = len(jobs)
	for _, a := range atoms {
		for _, u := range vc12Unary {
			add(vc12Un(u, a), false)
		}
	}
	reprs := []vc12Term{}
	for _, q := range vc12Repr {
		reprs = append(reprs, vc12AtomTerm(q))
	}
	for _, a := range reprs {
		for _, b := range reprs {
			for _, f := range vc12Binary {
				add(vc12Bin(f, a, b), false)
				add(vc12Bin(f, a, b), true)
			}
		}
	}
	mark("depth1", n0)

	// phase C: the complete depth-2 closure of the grammar over the core alphabet
	n0 = len(jobs)
	coreQ := vc12CoreQuick
	if tier == "thorough" {
		coreQ = vc12CoreThorough
	}
	t0 := []vc12Term{}
	for _, q := range coreQ {
		t0 = append(t0, vc12AtomTerm(q))
	}
	t1 := []vc12Term{}
	for _, a := range t0 {
		for _, u := range vc12Unary {
			t1 = append(t1, vc12Un(u, a))
		}
	}
	for _, a := range t0 {
		for _, b := range t0 {
			for _, f := range vc12Binary {
				t1 = append(t1, vc12Bin(f, a, b))
			}
		}
	}
	le1 := append(append([]vc12Term{}, t0...), t1...)
	for _, a := range le1 {
		add(a, false)
	}
	for _, a := range t1 {
		for _, u := range vc12Unary {
			add(vc12Un(u, a), false)
		}
	}
	for i, a := range le1 {
		for j, b := range le1 {
			if i < len(t0) && j < len(t0) {
				continue // depth 1, already there
			}
			for _, f := range vc12Binary {
				add(vc12Bin(f, a, b), false)
			}
		}
	}
	mark("depth2", n0)

	// phase D: seeded random derivations of depth 3..5 over all atoms
	n0 = len(jobs)
	nRandom := 80000
	if tier == "thorough" {
		nRandom = 2000000
	}
	rng := rand.New(rand.NewSource(seed))
	for i := 0; i < nRandom; i++ {
		tm := vc12Random(rng, atoms, 3+rng.Intn(3))
		if len(tm.q) > 400 {
			continue
		}
		add(tm, rng.Intn(4) == 0)
	}
	mark("random", n0)
	seen = nil

	tBuild := time.Since(tStart)
	// ---- evaluate in parallel; aggregation is order independent ----
	workers := runtime.NumCPU()
	if workers > 16 {
		workers = 16
	}
	aggs := make([]*vc12Agg, workers)
	stats := make([]*vc12Stats, workers)
	var wg sync.WaitGroup
	for w := 0; w < workers; w++ {
		aggs[w], stats[w] = vc12NewAgg(), &vc12Stats{}
		wg.Add(1)
		go func(w int) {
			defer wg.Done()
			for i := w; i < len(jobs); i += workers {
				vc12Check(jobs[i].t, jobs[i].def, stats[w], aggs[w])
			}
		}(w)
	}
	wg.Wait()

	agg := vc12NewAgg()
	total := vc12Stats{}
	distinct := map[uint64]struct{}{}
	for w := 0; w < workers; w++ {
		agg.merge(aggs[w])
		total.accepted += stats[w].accepted
		total.rejected += stats[w].rejected
		total.exempt += stats[w].exempt
		for i := range total.ops {
			total.ops[i] += stats[w].ops[i]
		}
		for _, h := range stats[w].nontrivial {
			distinct[h] = struct{}{}
		}
	}

	// harness self-check: the corpus must reach every operator of the AST
	allOps := []expr.Operator{expr.And, expr.Or, expr.Equals, expr.Like, expr.Not, expr.Range, expr.Must, expr.MustNot,
		expr.Boost, expr.Fuzzy, expr.Literal, expr.Wild, expr.Regexp, expr.Greater, expr.Less, expr.GreaterEq, expr.LessEq, expr.In, expr.List}
	cover := []string{}
	for _, op := range allOps {
		cover = append(cover, fmt.Sprintf("%s=%d", op, total.ops[int(op)]))
		if total.ops[int(op)] == 0 {
			agg.add(vc12Fail{cat: "harness-coverage", input: op.String(), msg: "no accepted query of the corpus produced this operator"})
		}
	}

	rep.Evaluations = len(jobs)
	rep.Distinct = len(distinct)
	rep.Bound = fmt.Sprintf("queries of the grammar t ::= atom | NOT t | +t | -t | t~ | t~0 | t~2 | t^ | t^1.5 | t^2 | (t) | a:(t) | t AND t | t OR t | t t; "+
		"atoms = %d (bare value, field:value, field=value, :> :>= :< :<=, [..]/{..}/mixed ranges incl. open bounds, 1-3 element lists) over %d values / %d fields / %d range bounds "+
		"(words, ints, floats, 5.0/1e3, >2^53 ints, NaN/Inf, quoted incl. empty, wildcards, regexps, escapes, non-ASCII); "+
		"phase A all atoms with and without WithDefaultField (%d); phase B all 11 unary forms over all atoms + 3 binary forms over %d^2 representative atoms (%d); "+
		"phase C complete depth-2 closure over a %d-atom core alphabet (%d); phase D %d seeded random derivations of depth 3-5 (%d distinct). "+
		"Parse accepted %d, rejected %d (rejected inputs are outside the quantifier); %d accepted queries carry an exempt leaf. "+
		"distinct_nontrivial = distinct accepted queries whose AST has at least one non-leaf operator. Operator node counts: %s",
		len(atoms), len(vc12Values), len(vc12Fields), len(vc12Bounds),
		phase["atoms"], len(vc12Repr), phase["depth1"], len(coreQ), phase["depth2"], nRandom, phase["random"],
		total.accepted, total.rejected, total.exempt, strings.Join(cover, " "))

	for i := 0; i < len(jobs) && len(rep.Samples) < 8; i += len(jobs)/8 + 1 {
		rep.Samples = append(rep.Samples, strconv.Quote(jobs[i].t.q))
	}

	rep.Failures, rep.FailCount = agg.messages()
	if rep.Failures == nil {
		rep.Failures = []string{}
	}
	rep.ByCategory = agg.count

	if out := os.Getenv("VERIF_REPORT"); out != "" {
		b, _ := json.MarshalIndent(rep, "", " ")
		if err := os.WriteFile(out, b, 0o644); err != nil {
			t.Errorf("cannot write report: %v", err)
		}
	}
	for _, f := range rep.Failures {
		t.Errorf("C12 violated: %s", f)
	}
	t.Logf("corpus built in %v, whole run %v", tBuild, time.Since(tStart))
	t.Logf("C12 %s: %d evaluations, %d accepted, %d distinct non-trivial, %d failures in %d categories",
		tier, rep.Evaluations, total.accepted, rep.Distinct, rep.FailCount, len(rep.ByCategory))
}
