//go:build verif

package lucene

// Audit of the one trusted contract of the driver layer (properties C15, C10):
//
//	NewPostgresDriver() builds PostgresTable: every function is one of the repository's own,
//	the range template is registered for ranges only, the list template renders value lists,
//	and nothing is registered for Fuzzy and Boost
//
// and of the `assumes` clauses of ToPostgres / ToParameterizedPostgres about the package-level
// driver.  NewPostgresDriver takes no argument and reads only the init-only table
// driver.Shared, so evaluating the contract's own predicate (driver.PostgresTable, the
// executable spec function of the contract file) on its result decides the contract; it is
// repeated to cover the randomised iteration order of the map it ranges over.
//
// Injected into the root package with `go test -overlay`; never written to /repo.

import (
	"encoding/json"
	"fmt"
	"os"
	"testing"

	"github.com/grindlemire/go-lucene/pkg/driver"
	"github.com/grindlemire/go-lucene/pkg/lucene/expr"
)

func TestVerifStandin_C15T(t *testing.T) {
	type report struct {
		Property    string         `json:"property"`
		Tier        string         `json:"tier"`
		Seed        int            `json:"seed"`
		Evaluations int            `json:"evaluations"`
		Distinct    int            `json:"distinct_nontrivial"`
		Bound       string         `json:"bound"`
		FailCount   int            `json:"failure_count"`
		ByCategory  map[string]int `json:"by_category"`
		Failures    []string       `json:"failures"`
		Samples     []string       `json:"samples"`
	}
	rep := report{Property: "C15", Tier: os.Getenv("VERIF_TIER"), Seed: 1, ByCategory: map[string]int{}, Failures: []string{}, Samples: []string{}}
	fail := func(cat, msg string) {
		rep.ByCategory[cat]++
		rep.FailCount++
		if rep.ByCategory[cat] <= 3 {
			rep.Failures = append(rep.Failures, "["+cat+"] "+msg)
			t.Errorf("[%s] %s", cat, msg)
		}
	}
	describe := func(b driver.Base) string {
		s := ""
		for op := expr.Operator(0); op < 25; op++ {
			if _, ok := b.RenderFNs[op]; ok {
				s += fmt.Sprintf("%v ", op)
			}
		}
		return s
	}
	const rounds = 200
	for i := 0; i < rounds; i++ {
		func() {
			defer func() {
				if r := recover(); r != nil {
					fail("panic", fmt.Sprintf("NewPostgresDriver() or the table predicate panicked: %v", r))
				}
			}()
			d := driver.NewPostgresDriver()
			rep.Evaluations++
			if !driver.PostgresTable(d.Base) {
				fail("postgres-table-contract", fmt.Sprintf("NewPostgresDriver(): the table does not satisfy driver.PostgresTable (builtin=%v rang-only-at-range=%v list-at-list=%v leaf-functions-agree=%v fuzzy=%v boost=%v); registered: %s",
					driver.Builtin(d.Base), driver.RangAt(d.Base), driver.ListAt(d.Base), driver.LeafFnsAgree(d.Base), driver.Registered(d.Base, expr.Fuzzy), driver.Registered(d.Base, expr.Boost), describe(d.Base)))
			}
			// a fresh driver must not share its table with the package-level one
			d.RenderFNs[expr.Fuzzy] = func(l, r string) (string, error) { return l, nil }
			if driver.Registered(postgres.Base, expr.Fuzzy) {
				fail("postgres-table-shared", "registering a function on a fresh driver changed the package-level driver used by ToPostgres")
			}
			delete(d.RenderFNs, expr.Fuzzy)
		}()
	}
	rep.Evaluations++
	if !driver.PostgresTable(postgres.Base) {
		fail("package-driver-assumption", fmt.Sprintf("the package-level driver of ToPostgres/ToParameterizedPostgres does not satisfy driver.PostgresTable; registered: %s", describe(postgres.Base)))
	}
	rep.Distinct = rep.Evaluations
	rep.Bound = fmt.Sprintf("the contract predicate driver.PostgresTable evaluated on %d results of NewPostgresDriver() (a function without arguments; repetitions cover map iteration order) and on the package-level driver", rounds)
	rep.Samples = []string{"registered: " + describe(postgres.Base)}
	if out := os.Getenv("VERIF_REPORT"); out != "" {
		b, _ := json.MarshalIndent(rep, "", " ")
		_ = os.WriteFile(out, b, 0o644)
	}
}
