//go:build verif

package lucene

// Bounded stand-in / counterexample search for property C10:
//
//	"Results are all-or-nothing and accepted trees are well-formed."
//
// Injected into the repository root with `go test -overlay`; never written to /repo.
//
// For every input of the enumerated domain and for both configurations (without /
// with a default field) the statement is checked literally on the real functions:
//
//   - Parse returns exactly one of (non-nil tree, non-nil error);
//   - every returned tree passes the package's own expr.Validate and an independent
//     shape check written from the statement (field positions hold a single term,
//     range bounds are single terms, value lists hold at least two plain values,
//     unary operators have exactly one operand, pattern matches have a pattern on
//     the right; and, so that "well-formed" is total: binary nodes have two operand
//     expressions, leaves hold one plain value, no operator outside the vocabulary);
//   - ToPostgres returns (non-empty, nil) or ("", error);
//   - ToParameterizedPostgres returns "" whenever it returns an error.
//
// The inputs are token sequences (every token type, every literal kind) and raw
// character strings (so that lexical errors - unterminated quotes, stray bytes,
// invalid UTF-8 - are part of the domain: the statement quantifies over all strings).
//
// Interface: /verif/harness/README.md (VERIF_TIER, VERIF_SEED, VERIF_REPORT).  Extra knobs,
// not needed for normal runs: VERIF_INPUT=<input, Go-quoted or verbatim> replays the check
// on that single input; VERIF_C10_LEN / VERIF_C10_RLEN / VERIF_C10_XLEN / VERIF_C10_CLEN / VERIF_C10_RCLEN / VERIF_C10_RANDOM override the bounds.
// The test also runs a self-test of its own oracle on hand-built trees first.

import (
	"encoding/json"
	"fmt"
	"hash/fnv"
	"math/rand"
	"os"
	"runtime"
	"runtime/debug"
	"sort"
	"strconv"
	"strings"
	"sync"
	"testing"

	"github.com/grindlemire/go-lucene/internal/lex"
	"github.com/grindlemire/go-lucene/pkg/lucene/expr"
)

// ---- the alphabets ---------------------------------------------------------------------------

type vc10Sym struct {
	text string
	typ  lex.TokType
}

// vc10Main: every token type and every literal kind, one or two representatives each.
var vc10Main = []vc10Sym{
	{"a", lex.TLiteral}, {"b", lex.TLiteral}, {`"q r"`, lex.TQuoted}, {"7", lex.TLiteral},
	{"1.5", lex.TLiteral}, {"-3", lex.TLiteral}, {"w*", lex.TLiteral}, {"/r/", lex.TRegexp},
	{"AND", lex.TAnd}, {"OR", lex.TOr}, {"NOT", lex.TNot}, {"TO", lex.TTO},
	{"(", lex.TLParen}, {")", lex.TRParen}, {"[", lex.TLSquare}, {"]", lex.TRSquare},
	{"{", lex.TLCurly}, {"}", lex.TRCurly}, {":", lex.TColon}, {"=", lex.TEqual},
	{">", lex.TGreater}, {"<", lex.TLess}, {"+", lex.TPlus}, {"-", lex.TMinus},
	{"~", lex.TTilde}, {"^", lex.TCarrot},
}

// vc10Reduced: one representative per syntactic role (second word, float, negative
// number, curly brackets and '<' left out); enumerated one symbol longer than vc10Main.
var vc10Reduced = []vc10Sym{
	{"a", lex.TLiteral}, {`"q r"`, lex.TQuoted}, {"7", lex.TLiteral}, {"w*", lex.TLiteral}, {"/r/", lex.TRegexp},
	{"AND", lex.TAnd}, {"OR", lex.TOr}, {"NOT", lex.TNot}, {"TO", lex.TTO},
	{"(", lex.TLParen}, {")", lex.TRParen}, {"[", lex.TLSquare}, {"]", lex.TRSquare},
	{":", lex.TColon}, {"=", lex.TEqual}, {">", lex.TGreater}, {"+", lex.TPlus}, {"-", lex.TMinus},
	{"~", lex.TTilde}, {"^", lex.TCarrot},
}

// vc10Small: a still smaller sub-alphabet for the longest layer of the thorough tier.
var vc10Small = []vc10Sym{
	{"a", lex.TLiteral}, {"7", lex.TLiteral}, {"w*", lex.TLiteral},
	{"AND", lex.TAnd}, {"OR", lex.TOr}, {"NOT", lex.TNot}, {"TO", lex.TTO},
	{"(", lex.TLParen}, {")", lex.TRParen}, {"[", lex.TLSquare}, {"]", lex.TRSquare},
	{":", lex.TColon}, {"=", lex.TEqual}, {">", lex.TGreater}, {"+", lex.TPlus}, {"-", lex.TMinus},
	{"~", lex.TTilde}, {"^", lex.TCarrot},
}

// vc10Extra: further lexemes of the term classes (they behave like the terms above
// syntactically, so they are enumerated to a smaller length bound).
var vc10Extra = []vc10Sym{
	{"*", lex.TLiteral}, {`"q*"`, lex.TQuoted}, {`"/x/"`, lex.TQuoted}, {`'s t'`, lex.TQuoted},
	{`e\*`, lex.TLiteral}, {`x\:y`, lex.TLiteral}, {`p\\q`, lex.TLiteral}, {"inf", lex.TLiteral},
	{"nan", lex.TLiteral}, {"1e3", lex.TLiteral}, {`"7"`, lex.TQuoted}, {"-7.5", lex.TLiteral},
	{"été", lex.TLiteral},
}

// vc10Chars: one or two characters per lexical class, for the raw-string part of the
// domain (concatenated without separator; the keyword TO and the operators are reachable,
// as are unterminated quotes / regexps, stray and invalid bytes).
var vc10Chars = []vc10Sym{
	{"a", 0}, {"7", 0}, {" ", 0}, {"\t", 0}, {`"`, 0}, {"'", 0}, {"/", 0}, {`\`, 0}, {"(", 0}, {")", 0}, {"[", 0}, {"]", 0},
	{":", 0}, {"*", 0}, {"~", 0}, {"^", 0}, {"-", 0}, {"+", 0}, {".", 0}, {">", 0}, {"=", 0}, {";", 0}, {"\xff", 0}, {"T", 0}, {"O", 0},
}

// vc10FewChars: the sub-alphabet for one character more (thorough tier).
var vc10FewChars = []vc10Sym{
	{"a", 0}, {"7", 0}, {" ", 0}, {`"`, 0}, {"'", 0}, {"/", 0}, {`\`, 0}, {"(", 0}, {")", 0}, {"[", 0},
	{":", 0}, {"*", 0}, {"~", 0}, {"-", 0}, {";", 0}, {"\xff", 0}, {"T", 0}, {"O", 0},
}

const vc10Field = "d" // default field of the second configuration; occurs in no enumerated input

// ---- the independent shape check (from the statement) ---------------------------------------------

// vc10Plain: what a single term may hold.
func vc10Plain(v any) bool {
	switch v.(type) {
	case string, expr.Column, bool, int, int32, int64, uint, uint8, uint16, uint32, uint64, float32, float64:
		return true
	}
	return false
}

// vc10Term: a single term - a leaf expression holding one plain value and nothing else.
func vc10Term(x any) bool {
	e, ok := x.(*expr.Expression)
	return ok && e != nil && (e.Op == expr.Literal || e.Op == expr.Wild || e.Op == expr.Regexp) && e.Right == nil && vc10Plain(e.Left)
}

func vc10IsExpr(x any) bool {
	e, ok := x.(*expr.Expression)
	return ok && e != nil
}

// vc10Shape walks the tree and reports every rule of the statement that a node breaks
// (category -> description of the first offending node).
func vc10Shape(x any, asOperand bool, out map[string]string) {
	note := func(cat, what string) {
		if _, have := out[cat]; !have {
			out[cat] = what
		}
	}
	e, ok := x.(*expr.Expression)
	if !ok || e == nil {
		note("shape-operand-not-an-expression", fmt.Sprintf("an operand is %T(%v), not an expression", x, x))
		return
	}
	switch e.Op {
	case expr.Literal, expr.Wild, expr.Regexp:
		if e.Right != nil || !vc10Plain(e.Left) {
			note("shape-leaf-not-a-plain-value", fmt.Sprintf("leaf %s holds %T / right %T", e.Op, e.Left, e.Right))
		}
		if e.Op != expr.Literal {
			if _, isStr := e.Left.(string); !isStr {
				note("shape-pattern-leaf-not-text", fmt.Sprintf("pattern leaf %s holds %T", e.Op, e.Left))
			}
		}
	case expr.And, expr.Or:
		if !vc10IsExpr(e.Left) || !vc10IsExpr(e.Right) {
			note("shape-binary-operand-missing", fmt.Sprintf("%s has operands %T and %T", e.Op, e.Left, e.Right))
			return
		}
		vc10Shape(e.Left, true, out)
		vc10Shape(e.Right, true, out)
	case expr.Not, expr.Must, expr.MustNot, expr.Boost, expr.Fuzzy:
		if !vc10IsExpr(e.Left) || e.Right != nil {
			note("shape-unary-operand-count", fmt.Sprintf("%s has operand %T and a second operand %T", e.Op, e.Left, e.Right))
			return
		}
		vc10Shape(e.Left, true, out)
	case expr.Equals, expr.Greater, expr.Less, expr.GreaterEq, expr.LessEq:
		if !vc10Term(e.Left) {
			note("shape-field-not-a-single-term", fmt.Sprintf("%s has %s in field position", e.Op, vc10Show(e.Left)))
		}
		if !vc10IsExpr(e.Right) {
			note("shape-binary-operand-missing", fmt.Sprintf("%s has value %T", e.Op, e.Right))
			return
		}
		if r := e.Right.(*expr.Expression); r.Op == expr.List {
			note("shape-list-outside-value-list-node", fmt.Sprintf("%s has a LIST as value", e.Op))
			return
		}
		vc10Shape(e.Right, false, out)
	case expr.Like:
		if !vc10Term(e.Left) {
			note("shape-field-not-a-single-term", fmt.Sprintf("LIKE has %s in field position", vc10Show(e.Left)))
		}
		r, isE := e.Right.(*expr.Expression)
		if !isE || r == nil || (r.Op != expr.Wild && r.Op != expr.Regexp) || !vc10Term(r) {
			note("shape-pattern-match-without-pattern", fmt.Sprintf("LIKE has %s on the right", vc10Show(e.Right)))
		}
	case expr.Range:
		if !vc10Term(e.Left) {
			note("shape-field-not-a-single-term", fmt.Sprintf("RANGE has %s in field position", vc10Show(e.Left)))
		}
		b, isB := e.Right.(*expr.RangeBoundary)
		if !isB || b == nil || !vc10Term(b.Min) || !vc10Term(b.Max) {
			note("shape-range-bound-not-a-single-term", fmt.Sprintf("RANGE has bounds %s", vc10Show(e.Right)))
		}
	case expr.In:
		if !vc10Term(e.Left) {
			note("shape-field-not-a-single-term", fmt.Sprintf("IN has %s in field position", vc10Show(e.Left)))
		}
		r, isE := e.Right.(*expr.Expression)
		if !isE || r == nil || r.Op != expr.List || r.Right != nil {
			note("shape-value-list-missing", fmt.Sprintf("IN has %s on the right", vc10Show(e.Right)))
			return
		}
		items, isL := r.Left.([]*expr.Expression)
		if !isL || len(items) < 2 {
			note("shape-value-list-shorter-than-two", fmt.Sprintf("the value list is %s", vc10Show(r.Left)))
		}
		for _, it := range items {
			isCol := false
			if it != nil {
				_, isCol = it.Left.(expr.Column)
			}
			if !vc10Term(it) || it.Op != expr.Literal || isCol {
				note("shape-value-list-item-not-a-plain-value", fmt.Sprintf("the value list holds %s", vc10Show(it)))
			}
		}
	case expr.List:
		note("shape-list-outside-value-list-node", "a LIST node outside the right side of IN")
	default:
		note("shape-unknown-operator", fmt.Sprintf("operator %d", int(e.Op)))
	}
}

// vc10Show prints any tree part without trusting the printers.
func vc10Show(x any) (s string) {
	defer func() {
		if r := recover(); r != nil {
			s = fmt.Sprintf("<unprintable %T: %v>", x, r)
		}
	}()
	switch v := x.(type) {
	case *expr.RangeBoundary:
		if v == nil {
			return "<nil boundary>"
		}
		return fmt.Sprintf("[%s TO %s]", vc10Show(v.Min), vc10Show(v.Max))
	case []*expr.Expression:
		parts := []string{}
		for _, it := range v {
			parts = append(parts, vc10Show(it))
		}
		return "LIST(" + strings.Join(parts, ", ") + ")"
	case *expr.Expression:
		if v == nil {
			return "<nil expression>"
		}
	}
	return fmt.Sprintf("%#v", x)
}

// ---- running the library safely ------------------------------------------------------------------

func vc10Opts(df string) []opt {
	if df == "" {
		return nil
	}
	return []opt{WithDefaultField(df)}
}

func vc10Parse(in, df string) (e *expr.Expression, err error, pan string) {
	defer func() {
		if r := recover(); r != nil {
			pan = fmt.Sprint(r)
		}
	}()
	e, err = Parse(in, vc10Opts(df)...)
	return
}

func vc10Validate(e *expr.Expression) (err error, pan string) {
	defer func() {
		if r := recover(); r != nil {
			pan = fmt.Sprint(r)
		}
	}()
	return expr.Validate(e), ""
}

func vc10ToPostgres(in, df string) (s string, err error, pan string) {
	defer func() {
		if r := recover(); r != nil {
			pan = fmt.Sprint(r)
		}
	}()
	s, err = ToPostgres(in, vc10Opts(df)...)
	return
}

func vc10ToParam(in, df string) (s string, params []any, err error, pan string) {
	defer func() {
		if r := recover(); r != nil {
			pan = fmt.Sprint(r)
		}
	}()
	s, params, err = ToParameterizedPostgres(in, vc10Opts(df)...)
	return
}

// vc10NTok: number of tokens the lexer finds in the input (size of a witness).
func vc10NTok(in string) (n int) {
	defer func() {
		if r := recover(); r != nil {
			n = len(in)
		}
	}()
	l := lex.Lex(in)
	for n <= len(in) {
		if t := l.Next(); t.Typ == lex.TEOF || t.Typ == lex.TErr {
			break
		}
		n++
	}
	return n
}

// ---- statistics -----------------------------------------------------------------------------------

type vc10Fail struct {
	ncat  int // number of deviations the input shows at once (single-cause witnesses first)
	ntok  int
	rnd   bool // found by random sampling (canonical enumerated inputs are preferred as witnesses)
	input string
	msg   string
}

func (a vc10Fail) less(b vc10Fail) bool {
	if a.ncat != b.ncat {
		return a.ncat < b.ncat
	}
	if a.ntok != b.ntok {
		return a.ntok < b.ntok
	}
	if a.rnd != b.rnd {
		return !a.rnd
	}
	if oa, ob := vc10Odd(a.input), vc10Odd(b.input); oa != ob {
		return oa < ob
	}
	if len(a.input) != len(b.input) {
		return len(a.input) < len(b.input)
	}
	if a.input != b.input {
		return a.input < b.input
	}
	return a.msg < b.msg
}

// vc10Odd counts the characters that make a witness harder to read (anything but the
// words a, b, the digit 7, keywords, blanks and operator characters).
func vc10Odd(in string) int {
	n := 0
	for _, r := range in {
		if !strings.ContainsRune("ab7 :()[]{}+-~^=<>", r) && !(r >= 'A' && r <= 'Z') {
			n++
		}
	}
	return n
}

type vc10Stats struct {
	evals, accepted int64
	rnd             bool
	byCat           map[string]int64
	best            map[string][]vc10Fail
}

func vc10NewStats() *vc10Stats {
	return &vc10Stats{byCat: map[string]int64{}, best: map[string][]vc10Fail{}}
}

// keep records f as a witness of cat if it is among the three smallest; the message is
// only built then (mk == nil: f.msg is already there).
func (s *vc10Stats) keep(cat string, f vc10Fail, mk func() string) {
	l := s.best[cat]
	for _, g := range l {
		if g.input == f.input { // one message per input and category
			return
		}
	}
	if len(l) == 3 && !f.less(l[2]) {
		return
	}
	if mk != nil {
		f.msg = mk()
	}
	l = append(l, f)
	sort.Slice(l, func(a, b int) bool { return l[a].less(l[b]) })
	if len(l) > 3 {
		l = l[:3]
	}
	s.best[cat] = l
}

func (s *vc10Stats) fail(cat string, ntok int, input string, mk func() string) {
	s.failN(cat, 1, ntok, input, mk)
}

func (s *vc10Stats) failN(cat string, ncat, ntok int, input string, mk func() string) {
	s.byCat[cat]++
	s.keep(cat, vc10Fail{ncat: ncat, ntok: ntok, rnd: s.rnd, input: input}, mk)
}

func (s *vc10Stats) merge(o *vc10Stats) {
	s.evals += o.evals
	s.accepted += o.accepted
	for c, n := range o.byCat {
		s.byCat[c] += n
	}
	for c, l := range o.best {
		for _, f := range l {
			s.keep(c, f, nil)
		}
	}
}

// vc10Check runs the statement of C10 on one input in both configurations.
// want (may be nil) is the symbol sequence the input was rendered from (size only).
func vc10Check(st *vc10Stats, in string, want []vc10Sym) {
	q := strconv.Quote(in)
	size := len(want)
	if want == nil {
		size = vc10NTok(in)
	}
	accepted := false
	for _, df := range []string{"", vc10Field} {
		st.evals++
		cfg := "no default field"
		if df != "" {
			cfg = "default field " + strconv.Quote(df)
		}
		// (1) Parse: exactly one of tree / error
		e, err, pan := vc10Parse(in, df)
		switch {
		case pan != "":
			st.fail("panic", size, in, func() string { return fmt.Sprintf("[panic] %s : Parse (%s) panicked: %s", q, cfg, pan) })
		case e == nil && err == nil:
			st.fail("parse-returns-neither-tree-nor-error", size, in,
				func() string {
					return fmt.Sprintf("[parse-returns-neither-tree-nor-error] %s : expected a tree or an error, Parse (%s) returned (nil, nil)", q, cfg)
				})
		case e != nil && err != nil:
			st.fail("parse-returns-tree-and-error", size, in,
				func() string {
					return fmt.Sprintf("[parse-returns-tree-and-error] %s : expected a nil tree with the error %q, Parse (%s) also returned %s", q, err, cfg, vc10Show(e))
				})
		}
		// (2) every returned tree is valid and well-shaped
		if pan == "" && e != nil {
			accepted = true
			if verr, vpan := vc10Validate(e); vpan != "" {
				st.fail("panic", size, in, func() string {
					return fmt.Sprintf("[panic] %s : Validate of the tree returned by Parse (%s) panicked: %s", q, cfg, vpan)
				})
			} else if verr != nil {
				st.fail("returned-tree-fails-validate", size, in,
					func() string {
						return fmt.Sprintf("[returned-tree-fails-validate] %s : expected Validate to accept what Parse (%s) returned, got %q for %s", q, cfg, verr, vc10Show(e))
					})
			}
			bad := map[string]string{}
			vc10Shape(e, true, bad)
			for cat, what := range bad {
				st.failN(cat, len(bad), size, in,
					func() string {
						return fmt.Sprintf("[%s] %s : expected a well-formed tree, Parse (%s) returned %s in which %s", cat, q, cfg, vc10Show(e), what)
					})
			}
		}
		// (3) ToPostgres: (non-empty, nil) or ("", error)
		s, perr, ppan := vc10ToPostgres(in, df)
		switch {
		case ppan != "":
			st.fail("panic", size, in, func() string { return fmt.Sprintf("[panic] %s : ToPostgres (%s) panicked: %s", q, cfg, ppan) })
		case perr != nil && s != "":
			st.fail("topostgres-sql-together-with-error", size, in,
				func() string {
					return fmt.Sprintf("[topostgres-sql-together-with-error] %s : expected \"\" with the error %q, ToPostgres (%s) also returned %q", q, perr, cfg, s)
				})
		case perr == nil && s == "":
			st.fail("topostgres-empty-sql-without-error", size, in,
				func() string {
					return fmt.Sprintf("[topostgres-empty-sql-without-error] %s : expected a non-empty filter or an error, ToPostgres (%s) returned (\"\", nil)", q, cfg)
				})
		}
		// (4) ToParameterizedPostgres: error implies empty SQL
		ps, _, paerr, papan := vc10ToParam(in, df)
		switch {
		case papan != "":
			st.fail("panic", size, in, func() string {
				return fmt.Sprintf("[panic] %s : ToParameterizedPostgres (%s) panicked: %s", q, cfg, papan)
			})
		case paerr != nil && ps != "":
			st.fail("toparameterized-sql-together-with-error", size, in,
				func() string {
					return fmt.Sprintf("[toparameterized-sql-together-with-error] %s : expected \"\" with the error %q, ToParameterizedPostgres (%s) also returned %q", q, paerr, cfg, ps)
				})
		}
	}
	if accepted {
		st.accepted++
	}
}

// ---- enumeration ------------------------------------------------------------------------------------

func vc10Render(seq []vc10Sym) string {
	parts := make([]string, len(seq))
	for i, s := range seq {
		parts[i] = s.text
	}
	return strings.Join(parts, " ")
}

// vc10Enumerate checks every sequence of minLen..maxLen symbols over alpha; when
// needFrom >= 0 only sequences containing a symbol with index >= needFrom.
// It returns the number of inputs checked.
func vc10Enumerate(alpha []vc10Sym, sep string, minLen, maxLen, needFrom int, skip func(string) bool, total *vc10Stats) int64 {
	if maxLen < 1 || maxLen < minLen {
		return 0
	}
	type task struct{ first, second int } // second < 0: the one-symbol sequence itself
	tasks := make(chan task, 64)
	var mu sync.Mutex
	var wg sync.WaitGroup
	var inputs int64
	for w := 0; w < runtime.NumCPU(); w++ {
		wg.Add(1)
		go func() {
			defer wg.Done()
			st := vc10NewStats()
			var n int64
			seq := make([]vc10Sym, 0, maxLen)
			extra := func(k int) bool { return needFrom >= 0 && k >= needFrom }
			visit := func(hasExtra bool) {
				if len(seq) >= minLen && (needFrom < 0 || hasExtra) {
					in := strings.Join(vc10Texts(seq), sep)
					if skip != nil && skip(in) {
						return
					}
					n++
					vc10Check(st, in, seq)
				}
			}
			var rec func(hasExtra bool)
			rec = func(hasExtra bool) {
				visit(hasExtra)
				if len(seq) == maxLen {
					return
				}
				for k, s := range alpha {
					seq = append(seq, s)
					rec(hasExtra || extra(k))
					seq = seq[:len(seq)-1]
				}
			}
			for t := range tasks {
				if t.second < 0 {
					seq = append(seq[:0], alpha[t.first])
					visit(extra(t.first))
					continue
				}
				seq = append(seq[:0], alpha[t.first], alpha[t.second])
				rec(extra(t.first) || extra(t.second))
			}
			mu.Lock()
			total.merge(st)
			inputs += n
			mu.Unlock()
		}()
	}
	for a := range alpha {
		tasks <- task{a, -1}
		for b := range alpha {
			if maxLen >= 2 {
				tasks <- task{a, b}
			}
		}
	}
	close(tasks)
	wg.Wait()
	return inputs
}

// vc10Templates: sentences longer than the exhaustive bound (ranges, value lists, the
// examples quoted in the property text); every token sequence within two symbol
// substitutions, or one deletion, or one insertion of one of them is checked.
var vc10Templates = [][]string{
	{"a", ":", "[", "7", "TO", "b", "]"},
	{"a", ":", "{", "7", "TO", "b", "}"},
	{"a", ":", "(", "b", "OR", "7", ")"},
	{"a", ":", ">", "(", "b", "7", ")"},
	{"a", ":", ">", "b", ":", "7"},
	{"(", "(", ")", "NOT", "a", ")"},
	{"a", ":", "[", "b", ":", "7", "TO", "7", "]"},
	{"NOT", "a", ":", "b", "~", "7", "^", "7"},
}

// vc10Bounds: the exhaustive token layers (alphabet, longest sequence); a canonical
// rendering that belongs to one of them is skipped by the other parts of the domain, so
// that every input is counted once.
type vc10Layer struct {
	alpha  []vc10Sym
	maxLen int
}

type vc10Bounds []vc10Layer

func (b vc10Bounds) covered(parts []string) bool {
	for _, l := range b {
		if len(parts) > l.maxLen {
			continue
		}
		in := true
		for _, p := range parts {
			in = in && vc10In(l.alpha, p)
		}
		if in {
			return true
		}
	}
	return false
}

func vc10In(a []vc10Sym, text string) bool {
	for _, s := range a {
		if s.text == text {
			return true
		}
	}
	return false
}

func vc10Neighbourhood(all []vc10Sym, bounds vc10Bounds, total *vc10Stats) int64 {
	bySym := map[string]vc10Sym{}
	for _, s := range all {
		bySym[s.text] = s
	}
	var jobs [][]vc10Sym
	seen := map[string]bool{}
	add := func(seq []vc10Sym) {
		k := vc10Render(seq)
		if !seen[k] && !bounds.covered(vc10Texts(seq)) {
			seen[k] = true
			jobs = append(jobs, append([]vc10Sym(nil), seq...))
		}
	}
	for _, tpl := range vc10Templates {
		base := make([]vc10Sym, len(tpl))
		for i, t := range tpl {
			base[i] = bySym[t]
		}
		add(base)
		cur := append([]vc10Sym(nil), base...)
		for i := range base {
			for _, x := range all {
				cur[i] = x
				add(cur)
				for j := i + 1; j < len(base); j++ {
					for _, y := range all {
						cur[j] = y
						add(cur)
					}
					cur[j] = base[j]
				}
			}
			cur[i] = base[i]
		}
		for i := range base { // one deletion
			add(append(append([]vc10Sym(nil), base[:i]...), base[i+1:]...))
		}
		for i := 0; i <= len(base); i++ { // one insertion
			for _, x := range all {
				add(append(append(append([]vc10Sym(nil), base[:i]...), x), base[i:]...))
			}
		}
	}
	var wg sync.WaitGroup
	var mu sync.Mutex
	workers := runtime.NumCPU()
	for w := 0; w < workers; w++ {
		wg.Add(1)
		go func(w int) {
			defer wg.Done()
			st := vc10NewStats()
			for k := w; k < len(jobs); k += workers {
				vc10Check(st, vc10Render(jobs[k]), jobs[k])
			}
			mu.Lock()
			total.merge(st)
			mu.Unlock()
		}(w)
	}
	wg.Wait()
	return int64(len(jobs))
}

// ---- random sampling beyond the bound ---------------------------------------------------------------

type vc10Gen struct{ r *rand.Rand }

func (g *vc10Gen) term() string {
	terms := []string{"a", "b", "c", `"q r"`, "7", "1.5", "-3", "w*", "/r/", "*", "x?", `"q*"`, "42", "foo", `'s'`, "0"}
	return terms[g.r.Intn(len(terms))]
}

// expr generates the tokens of a query of the documented grammar.
func (g *vc10Gen) expr(depth int) []string {
	if depth <= 0 {
		return []string{g.term()}
	}
	switch g.r.Intn(14) {
	case 0, 1:
		return []string{g.term()}
	case 2:
		return append([]string{g.term(), ":"}, g.expr(depth-1)...)
	case 3:
		ops := [][]string{{">"}, {"<"}, {">", "="}, {"<", "="}}
		return append(append([]string{g.term(), ":"}, ops[g.r.Intn(4)]...), g.term())
	case 4:
		if g.r.Intn(2) == 0 {
			return []string{g.term(), ":", "[", g.term(), "TO", g.term(), "]"}
		}
		return []string{g.term(), ":", "{", g.term(), "TO", g.term(), "}"}
	case 5:
		return append(append([]string{"("}, g.expr(depth-1)...), ")")
	case 6:
		return append([]string{"+"}, g.expr(depth-1)...)
	case 7:
		return append([]string{"-"}, g.expr(depth-1)...)
	case 8:
		return append([]string{"NOT"}, g.expr(depth-1)...)
	case 9:
		out := append(g.expr(depth-1), "~")
		if g.r.Intn(2) == 0 {
			out = append(out, strconv.Itoa(g.r.Intn(4)))
		}
		return out
	case 10:
		out := append(g.expr(depth-1), "^")
		if g.r.Intn(2) == 0 {
			out = append(out, []string{"2", "0.5", "3", "1.5"}[g.r.Intn(4)])
		}
		return out
	case 11:
		return append(append(g.expr(depth-1), "AND"), g.expr(depth-1)...)
	case 12:
		return append(append(g.expr(depth-1), "OR"), g.expr(depth-1)...)
	default:
		return append(g.expr(depth-1), g.expr(depth-1)...)
	}
}

func (g *vc10Gen) input(all []vc10Sym) string {
	var toks []string
	switch g.r.Intn(4) {
	case 0: // arbitrary token sequence longer than the enumerated bound
		n := 6 + g.r.Intn(7)
		for k := 0; k < n; k++ {
			toks = append(toks, all[g.r.Intn(len(all))].text)
		}
	default: // a grammatical query, possibly damaged
		toks = g.expr(1 + g.r.Intn(3))
		for m := g.r.Intn(3); m > 0 && len(toks) > 0; m-- {
			p := g.r.Intn(len(toks))
			s := all[g.r.Intn(len(all))].text
			switch g.r.Intn(3) {
			case 0:
				toks[p] = s
			case 1:
				toks = append(toks[:p], toks[p+1:]...)
			default:
				toks = append(toks[:p], append([]string{s}, toks[p:]...)...)
			}
		}
	}
	// layout: mostly single spaces, sometimes none or several (the lexer's token list is the reference)
	var b strings.Builder
	for k, t := range toks {
		if k > 0 {
			switch g.r.Intn(8) {
			case 0:
			case 1:
				b.WriteString("  ")
			default:
				b.WriteByte(' ')
			}
		}
		b.WriteString(t)
	}
	return b.String()
}

func vc10Random(seed int64, count int, bounds vc10Bounds, total *vc10Stats, samples *[]string) (distinct int) {
	all := append(append([]vc10Sym{}, vc10Main...), vc10Extra...)
	// a fixed number of independent streams, so that the sample does not depend on the
	// number of CPUs; the streams are distributed over the available cores
	const workers = 64
	per := count / workers
	sets := make([]map[uint64]string, workers)
	stats := make([]*vc10Stats, workers)
	var wg sync.WaitGroup
	slots := make(chan struct{}, runtime.NumCPU())
	for w := 0; w < workers; w++ {
		wg.Add(1)
		go func(w int) {
			defer wg.Done()
			slots <- struct{}{}
			defer func() { <-slots }()
			g := &vc10Gen{rand.New(rand.NewSource(seed*1000003 + int64(w)))}
			st := vc10NewStats()
			st.rnd = true
			seen := map[uint64]string{}
			for k := 0; k < per; k++ {
				in := g.input(all)
				if in == "" || bounds.covered(strings.Split(in, " ")) {
					continue
				}
				h := fnv.New64a()
				h.Write([]byte(in))
				if _, dup := seen[h.Sum64()]; dup {
					continue
				}
				if k < 2 {
					seen[h.Sum64()] = in
				} else {
					seen[h.Sum64()] = ""
				}
				vc10Check(st, in, nil)
			}
			sets[w], stats[w] = seen, st
		}(w)
	}
	wg.Wait()
	union := map[uint64]bool{}
	for w := 0; w < workers; w++ {
		total.merge(stats[w])
		for h := range sets[w] {
			union[h] = true
		}
	}
	var smp []string
	for w := 0; w < workers && w < 2; w++ {
		for _, s := range sets[w] {
			if s != "" {
				smp = append(smp, strconv.Quote(s))
			}
		}
	}
	sort.Strings(smp)
	*samples = append(*samples, smp...)
	return len(union)
}

// ---- entry point ------------------------------------------------------------------------------------

type vc10Report struct {
	Property    string           `json:"property"`
	Tier        string           `json:"tier"`
	Seed        int64            `json:"seed"`
	Evaluations int64            `json:"evaluations"`
	Distinct    int64            `json:"distinct_nontrivial"`
	Bound       string           `json:"bound"`
	FailCount   int64            `json:"failure_count"`
	ByCategory  map[string]int64 `json:"by_category"`
	Failures    []string         `json:"failures"`
	Samples     []string         `json:"samples"`
}

func vc10EnvInt(name string, def int) int {
	if v := os.Getenv(name); v != "" {
		if n, err := strconv.Atoi(v); err == nil {
			return n
		}
	}
	return def
}

// vc10SelfTest feeds the shape check hand-built trees: well-formed ones must pass,
// every malformed one must be flagged with the category of the rule it breaks.
func vc10SelfTest() (bad []string) {
	lit := func(v any) *expr.Expression { return expr.Lit(v) }
	raw := func(l any, op expr.Operator, r any) *expr.Expression {
		return &expr.Expression{Left: l, Op: op, Right: r}
	}
	list := func(items ...*expr.Expression) *expr.Expression { return raw(items, expr.List, nil) }
	col := func(n string) *expr.Expression { return lit(expr.Column(n)) }
	cases := []struct {
		tree *expr.Expression
		want string
	}{
		{expr.AND(expr.Eq(lit("a"), lit("b")), expr.NOT(lit("c"))), ""},
		{expr.Rang(lit("a"), lit(1), expr.WILD("*"), true), ""},
		{expr.IN(lit("a"), expr.LIST([]*expr.Expression{lit("b"), lit(7)})), ""},
		{expr.Eq(lit("a"), expr.WILD("w*")), ""},
		{expr.MUST(expr.FUZZY(expr.BOOST(lit("a"), 2), 2)), ""},
		{expr.LESSEQ(lit("a"), lit(1.5)), ""},
		{raw(expr.AND(lit("a"), lit("b")), expr.Equals, lit("c")), "shape-field-not-a-single-term"},
		{raw(col("a"), expr.Greater, nil), "shape-binary-operand-missing"},
		{raw(col("a"), expr.Range, &expr.RangeBoundary{Min: expr.Eq(lit("b"), lit("c")), Max: lit(5), Inclusive: true}), "shape-range-bound-not-a-single-term"},
		{raw(col("a"), expr.Range, lit(5)), "shape-range-bound-not-a-single-term"},
		{raw(col("a"), expr.In, list(lit("b"))), "shape-value-list-shorter-than-two"},
		{raw(col("a"), expr.In, list(lit("b"), expr.WILD("w*"))), "shape-value-list-item-not-a-plain-value"},
		{raw(col("a"), expr.In, list(lit("b"), expr.NOT(lit("c")))), "shape-value-list-item-not-a-plain-value"},
		{raw(col("a"), expr.In, lit("b")), "shape-value-list-missing"},
		{raw(lit("a"), expr.Not, lit("b")), "shape-unary-operand-count"},
		{raw(nil, expr.Must, nil), "shape-unary-operand-count"},
		{raw(col("a"), expr.Like, lit("b")), "shape-pattern-match-without-pattern"},
		{raw(lit("a"), expr.And, nil), "shape-binary-operand-missing"},
		{raw(lit("a"), expr.Or, "b"), "shape-binary-operand-missing"},
		{raw([]int{1}, expr.Literal, nil), "shape-leaf-not-a-plain-value"},
		{raw("a", expr.Literal, lit("b")), "shape-leaf-not-a-plain-value"},
		{raw(7, expr.Wild, nil), "shape-pattern-leaf-not-text"},
		{expr.AND(lit("a"), list(lit("b"), lit("c"))), "shape-list-outside-value-list-node"},
		{raw(lit("a"), expr.Operator(99), nil), "shape-unknown-operator"},
		{raw(lit("a"), expr.Undefined, nil), "shape-unknown-operator"},
		{expr.NOT(raw(col("a"), expr.Range, nil)), "shape-range-bound-not-a-single-term"},
	}
	for _, c := range cases {
		got := map[string]string{}
		vc10Shape(c.tree, true, got)
		keys := []string{}
		for k := range got {
			keys = append(keys, k)
		}
		sort.Strings(keys)
		if strings.Join(keys, "+") != c.want {
			bad = append(bad, fmt.Sprintf("tree %s: shape check says %q, expected %q", vc10Show(c.tree), strings.Join(keys, "+"), c.want))
		}
	}
	return bad
}

func TestVerifStandin_C10(t *testing.T) {
	defer debug.SetGCPercent(debug.SetGCPercent(400)) // allocation-heavy: collect less often
	tier := os.Getenv("VERIF_TIER")
	if tier != "thorough" {
		tier = "quick"
	}
	seed := int64(vc10EnvInt("VERIF_SEED", 1))
	// quick: token alphabet to 4, characters to 4; thorough adds the 20-symbol sub-alphabet
	// at 5 and an 18-character sub-alphabet at 5
	mainLen, topLen, extraLen, charLen, topCharLen, randomN := 4, 0, 3, 4, 0, 200000
	if tier == "thorough" {
		mainLen, topLen, extraLen, charLen, topCharLen, randomN = 4, 5, 4, 4, 5, 2000000
	}
	mainLen = vc10EnvInt("VERIF_C10_LEN", mainLen)
	topLen = vc10EnvInt("VERIF_C10_RLEN", topLen)
	extraLen = vc10EnvInt("VERIF_C10_XLEN", extraLen)
	charLen = vc10EnvInt("VERIF_C10_CLEN", charLen)
	topCharLen = vc10EnvInt("VERIF_C10_RCLEN", topCharLen)
	randomN = vc10EnvInt("VERIF_C10_RANDOM", randomN)

	for _, b := range vc10SelfTest() {
		t.Errorf("C10 harness self-test: %s", b)
	}
	total := vc10NewStats()
	var samples []string
	var bound string
	if raw := os.Getenv("VERIF_INPUT"); raw != "" {
		// replay of a single input (Go-quoted or verbatim)
		in := raw
		if u, err := strconv.Unquote(raw); err == nil {
			in = u
		}
		vc10Check(total, in, nil)
		samples = append(samples, strconv.Quote(in))
		bound = "replay of the single input given in VERIF_INPUT, without and with default field"
	} else {
		all := append(append([]vc10Sym{}, vc10Main...), vc10Extra...)
		bounds := vc10Bounds{{vc10Main, mainLen}, {vc10Reduced, topLen}, {all, extraLen}}
		skip := func(in string) bool { return bounds.covered(strings.Split(in, " ")) }
		vc10Check(total, "", []vc10Sym{})
		n1 := 1 + vc10Enumerate(vc10Main, " ", 1, mainLen, -1, nil, total)
		n1 += vc10Enumerate(vc10Reduced, " ", mainLen+1, topLen, -1, nil, total)
		n2 := vc10Enumerate(all, " ", 1, extraLen, len(vc10Main), nil, total)
		n3 := vc10Enumerate(vc10Chars, "", 1, charLen, -1, skip, total)
		n3 += vc10Enumerate(vc10FewChars, "", charLen+1, topCharLen, -1, skip, total)
		n4 := vc10Neighbourhood(all, bounds, total)
		n5 := vc10Random(seed, randomN, bounds, total, &samples)
		samples = append([]string{`""`, `"a"`, `"a : b"`, `"NOT a AND b"`, `"a : [ 7 TO b ]"`, `"\"a"`, `"a\xff"`, `"a:(7"`}, samples...)
		bound = fmt.Sprintf("all inputs x {no default field, default field %q}; per pair: Parse, Validate + shape check of the tree, ToPostgres, ToParameterizedPostgres. "+
			"Inputs: (1) every sequence of 0..%d symbols over the %d-symbol token alphabet %v rendered with single spaces, and every sequence of %d..%d symbols over its %d-symbol sub-alphabet %v (%d inputs); "+
			"(2) every sequence of 1..%d symbols over alphabet (1) plus %d further term lexemes %v that contains one of the latter (%d inputs); "+
			"(3) every string of 1..%d characters over the %d characters %q and every string of %d..%d characters over the %d characters %q, no separator (%d inputs not already in (1)/(2)); "+
			"(4) every sequence within two substitutions, one deletion or one insertion (over the %d symbols of (2)) of %d longer sentences %v (%d inputs); "+
			"(5) %d distinct seeded random inputs: grammar-generated queries with up to 2 token mutations and arbitrary sequences of 6..12 tokens, random layout. "+
			"Non-trivial = Parse returned a tree in at least one configuration, so that Validate and the shape check ran.",
			vc10Field, mainLen, len(vc10Main), vc10Texts(vc10Main), mainLen+1, topLen, len(vc10Reduced), vc10Texts(vc10Reduced), n1,
			extraLen, len(vc10Extra), vc10Texts(vc10Extra), n2,
			charLen, len(vc10Chars), vc10Texts(vc10Chars), charLen+1, topCharLen, len(vc10FewChars), vc10Texts(vc10FewChars), n3,
			len(all), len(vc10Templates), vc10Templates, n4, n5)
	}

	rep := vc10Report{Property: "C10", Tier: tier, Seed: seed, Evaluations: total.evals, Distinct: total.accepted,
		Bound: bound, ByCategory: total.byCat, Failures: []string{}, Samples: samples}
	cats := make([]string, 0, len(total.best))
	for c := range total.best {
		cats = append(cats, c)
	}
	sort.Strings(cats)
	for _, c := range cats {
		rep.FailCount += total.byCat[c]
	}
	// at most 25 messages: first the smallest of every category, then the second smallest, ...
	for round := 0; round < 3; round++ {
		for _, c := range cats {
			if l := total.best[c]; round < len(l) && len(rep.Failures) < 25 {
				rep.Failures = append(rep.Failures, l[round].msg)
			}
		}
	}
	if out := os.Getenv("VERIF_REPORT"); out != "" {
		b, _ := json.MarshalIndent(rep, "", " ")
		if err := os.WriteFile(out, b, 0o644); err != nil {
			t.Errorf("cannot write report: %v", err)
		}
	}
	t.Logf("C10 %s: %d evaluations, %d inputs with a tree, %d failures in %d categories", tier, rep.Evaluations, rep.Distinct, rep.FailCount, len(cats))
	for _, c := range cats {
		t.Logf("  %-45s %d", c, total.byCat[c])
	}
	for _, f := range rep.Failures {
		t.Errorf("C10 violated: %s", f)
	}
}

func vc10Texts(a []vc10Sym) []string {
	out := make([]string, len(a))
	for i, s := range a {
		out[i] = s.text
	}
	return out
}
