//go:build verif

package lucene

// Bounded stand-in / counterexample search for the parser-side clause of property C16:
//
//	"any input containing a character that cannot start a token, an unterminated quote
//	 or an unterminated regexp makes Parse fail."
//
// (The lexer-side clauses - lossless segmentation, sticky end of input, pure Peek - are
// checked by the stand-in injected into internal/lex.)
//
// The oracle does not consult the lexer.  Every input is BUILT as
//
//	<complete tokens> <offending piece> <rest>
//
// from a vocabulary of complete, well-formed token texts, so that by the lexical grammar
// (whitespace = space/tab/CR/LF; a word = letters, digits, '_', '*', '?', escapes, and
// '.'/'-' after its first character; one-character operator symbols; "…" / '…' phrases
// without escapes; /…/ regexps in which a backslash protects the next character) the
// offending piece stands where a token has to start:
//   - a character that starts no token (punctuation, control characters, invalid UTF-8,
//     non-letter/non-digit Unicode such as NBSP, BOM, a combining mark, '€'; and '.' when it
//     is not glued to a preceding word),
//   - an opening quote with no matching quote in the rest of the input,
//   - an opening '/' with no unescaped '/' in the rest of the input.
// The expected result is always: Parse returns an error (with and without a default field).
//
// Injected into the root package with `go test -overlay`; never written to /repo.

import (
	"bytes"
	"encoding/json"
	"fmt"
	"math/rand"
	"os"
	"regexp"
	"runtime"
	"sort"
	"strconv"
	"strings"
	"sync"
	"sync/atomic"
	"testing"
	"time"

	"github.com/grindlemire/go-lucene/pkg/lucene/expr"
)

type vc16pReport struct {
	Property    string           `json:"property"`
	Tier        string           `json:"tier"`
	Seed        int64            `json:"seed"`
	Evaluations int64            `json:"evaluations"`
	Distinct    int64            `json:"distinct_nontrivial"`
	Bound       string           `json:"bound"`
	FailCount   int              `json:"failure_count"`
	ByCategory  map[string]int   `json:"by_category"`
	Failures    []string         `json:"failures"`
	Samples     []string         `json:"samples"`
	Domains     map[string]int64 `json:"domains,omitempty"`
	Notes       []string         `json:"notes,omitempty"`
}

func vc16pWriteReport(rep *vc16pReport) {
	out := os.Getenv("VERIF_REPORT")
	if out == "" {
		return
	}
	if rep.ByCategory == nil {
		rep.ByCategory = map[string]int{}
	}
	if rep.Failures == nil {
		rep.Failures = []string{}
	}
	if rep.Samples == nil {
		rep.Samples = []string{}
	}
	var buf bytes.Buffer
	enc := json.NewEncoder(&buf)
	enc.SetEscapeHTML(false)
	enc.SetIndent("", " ")
	err := enc.Encode(rep)
	b := buf.Bytes()
	if err != nil {
		b = []byte(fmt.Sprintf(`{"property":"C16P","failure_count":1,"by_category":{"harness-error":1},"failures":[%q]}`, "[harness-error] cannot encode report: "+err.Error()))
	}
	_ = os.WriteFile(out, b, 0o644)
}

type vc16pFail struct{ in, msg string }

type vc16pAgg struct {
	count map[string]int
	best  map[string][]vc16pFail
}

func vc16pNewAgg() *vc16pAgg {
	return &vc16pAgg{count: map[string]int{}, best: map[string][]vc16pFail{}}
}

func (a *vc16pAgg) add(cat, in, msg string, n int) {
	a.count[cat] += n
	b := a.best[cat]
	for _, f := range b {
		if f.in == in {
			return
		}
	}
	b = append(b, vc16pFail{in, msg})
	sort.Slice(b, func(i, j int) bool {
		if len(b[i].in) != len(b[j].in) {
			return len(b[i].in) < len(b[j].in)
		}
		return b[i].in < b[j].in
	})
	if len(b) > 3 {
		b = b[:3]
	}
	a.best[cat] = b
}

func (a *vc16pAgg) merge(o *vc16pAgg) {
	for c, n := range o.count {
		a.count[c] += n
	}
	for c, fs := range o.best {
		for _, f := range fs {
			a.add(c, f.in, f.msg, 0)
		}
	}
}

// ---------------------------------------------------------------------------------------------
// vocabulary

const (
	vc16pWord = iota // literal or keyword: '.' glued to it would be part of the word
	vc16pOther
)

type vc16pTok struct {
	text string
	kind int
}

var vc16pVocab = []vc16pTok{
	{"a", vc16pWord}, {"b1", vc16pWord}, {"1", vc16pWord}, {"-1.5", vc16pWord}, {"w*", vc16pWord}, {"\u00e9", vc16pWord}, {`x\ y`, vc16pWord},
	{"AND", vc16pWord}, {"OR", vc16pWord}, {"NOT", vc16pWord}, {"TO", vc16pWord},
	{`"q r"`, vc16pOther}, {`'s'`, vc16pOther}, {"/re/", vc16pOther},
	{"(", vc16pOther}, {")", vc16pOther}, {"[", vc16pOther}, {"]", vc16pOther}, {"{", vc16pOther}, {"}", vc16pOther},
	{":", vc16pOther}, {"+", vc16pOther}, {"-", vc16pOther}, {"=", vc16pOther}, {">", vc16pOther}, {"<", vc16pOther}, {"~", vc16pOther}, {"^", vc16pOther},
}

// reduced vocabulary for one more token of length
var vc16pVocabTiny = []vc16pTok{
	{"a", vc16pWord}, {"1", vc16pWord}, {"AND", vc16pWord}, {"TO", vc16pWord},
	{`"q r"`, vc16pOther}, {"(", vc16pOther}, {")", vc16pOther}, {"[", vc16pOther}, {"]", vc16pOther}, {":", vc16pOther},
}

func vc16pW(s ...string) []vc16pTok {
	out := make([]vc16pTok, len(s))
	for i, x := range s {
		k := vc16pOther
		if r := x[0]; r != '"' && r != '\'' && r != '/' && !(len(x) == 1 && strings.ContainsRune("()[]{}:+-=><~^", rune(r))) {
			k = vc16pWord
		}
		out[i] = vc16pTok{x, k}
	}
	return out
}

// curated queries that parse (token by token), so that the offending piece is the only defect
var vc16pCurated = [][]vc16pTok{
	vc16pW("a"),
	vc16pW("a", ":", "b"),
	vc16pW("a", ":", `"q r"`),
	vc16pW("a", ":", "/re/"),
	vc16pW("a", ":", "w*"),
	vc16pW("a", ":", "1"),
	vc16pW("a", ":", "b", "AND", "c", ":", "d"),
	vc16pW("a", ":", "b", "OR", "c", ":", "d"),
	vc16pW("a", ":", "b", "c", ":", "d"),
	vc16pW("NOT", "a", ":", "b"),
	vc16pW("a", ":", "b", "AND", "NOT", "c", ":", "d"),
	vc16pW("(", "a", ":", "b", ")"),
	vc16pW("(", "a", ":", "b", "OR", "c", ":", "d", ")", "AND", "e", ":", "f"),
	vc16pW("a", ":", "(", "b", "OR", "c", ")"),
	vc16pW("a", ":", "(", "1", "OR", "2", "OR", "3", ")"),
	vc16pW("a", ":", "[", "1", "TO", "5", "]"),
	vc16pW("a", ":", "{", "1", "TO", "5", "}"),
	vc16pW("a", ":", "[", "*", "TO", "5", "]"),
	vc16pW("a", ":", "[", `"x"`, "TO", `"y"`, "]"),
	vc16pW("a", ":", ">", "1"),
	vc16pW("a", ":", ">", "=", "1"),
	vc16pW("a", ":", "<", "=", "1.5"),
	vc16pW("+", "a", ":", "b"),
	vc16pW("-", "a", ":", "b"),
	vc16pW("+", "a", ":", "b", "-", "c", ":", "d"),
	vc16pW("a", "~"),
	vc16pW("a", "~", "2"),
	vc16pW("a", "^", "2"),
	vc16pW("a", ":", "b", "^", "2"),
	vc16pW(`"q r"`, "~", "3"),
	vc16pW("a", "=", "b"),
	vc16pW(`"q r"`),
	vc16pW("/re/"),
	vc16pW("b", "AND", "c"),
	vc16pW("b", "OR", "c"),
	vc16pW("b", "c"),
	vc16pW("a", ":", "b", "AND", "(", "c", ":", "d", "OR", "NOT", "e", ":", "[", "1", "TO", "2", "]", ")"),
	vc16pW("\u00e9", ":", "\u00e8"),
	vc16pW(`x\ y`, ":", `z\:w`),
}

type vc16pBad struct {
	text  string
	class string
}

var vc16pBadChars = []vc16pBad{
	{";", "ascii-punct"}, {"!", "ascii-punct"}, {",", "ascii-punct"}, {"&", "ascii-punct"}, {"|", "ascii-punct"}, {"@", "ascii-punct"}, {"#", "ascii-punct"}, {"$", "ascii-punct"}, {"%", "ascii-punct"}, {"`", "ascii-punct"},
	{".", "dot"},
	{"\x00", "control"}, {"\x01", "control"}, {"\x0b", "control"}, {"\x0c", "control"}, {"\x7f", "control"},
	{"\xff", "invalid-utf8"}, {"\xc3", "invalid-utf8"}, {"\x80", "invalid-utf8"}, {"\xed\xa0\x80", "invalid-utf8"}, {"\xc0\xaf", "invalid-utf8"}, {"\xf4\x90\x80\x80", "invalid-utf8"},
	{"\u20ac", "unicode-nonletter"}, {"\u2014", "unicode-nonletter"}, {"\u3002", "unicode-nonletter"}, {"\U0001F600", "unicode-nonletter"},
	{"\u00a0", "unicode-nonletter"}, {"\u2003", "unicode-nonletter"}, {"\u200b", "unicode-nonletter"}, {"\ufeff", "unicode-nonletter"},
	{"\u0301", "unicode-nonletter"}, {"\u00b2", "unicode-nonletter"}, {"\u00bd", "unicode-nonletter"}, {"\ufffd", "unicode-nonletter"},
}

func vc16pJoin(toks []vc16pTok) string {
	var sb strings.Builder
	for i, t := range toks {
		if i > 0 {
			sb.WriteByte(' ')
		}
		sb.WriteString(t.text)
	}
	return sb.String()
}

type vc16pBase struct {
	toks []vc16pTok
	gaps []int // nil = every gap
}

type vc16pCase struct {
	in    string
	kind  string // bad-char-<class> | unterminated-quote | unterminated-regexp
	piece string // what shows up in a value of the tree if the piece was swallowed as text
	left  string // the input before the offending piece (diagnosis only)
	right string // the input after it ("" for quotes and regexps: the piece extends to the end)
}

// vc16pCases builds every offending variant of one base token sequence.
func vc16pCases(base []vc16pTok, gaps []int, emit func(vc16pCase)) {
	seps := [][2]string{{"", ""}, {" ", " "}, {"", " "}, {" ", ""}}
	if gaps == nil {
		for gap := 0; gap <= len(base); gap++ {
			gaps = append(gaps, gap)
		}
	}
	for _, gap := range gaps {
		left := vc16pJoin(base[:gap])
		right := vc16pJoin(base[gap:])
		for _, sp := range seps {
			if gap == 0 && sp[0] != "" || gap == len(base) && sp[1] != "" {
				continue // leading/trailing space variants are the same as the others
			}
			// characters that cannot start a token
			for _, b := range vc16pBadChars {
				if b.class == "dot" && gap > 0 && sp[0] == "" && base[gap-1].kind == vc16pWord {
					continue // a dot glued to a word is part of the word
				}
				emit(vc16pCase{left + sp[0] + b.text + sp[1] + right, "bad-char-" + b.class, b.text, left, right})
			}
			// unterminated quotes: no matching quote in the rest
			for _, q := range []string{`"`, `'`} {
				tail := strings.ReplaceAll(sp[1]+right, q, "")
				emit(vc16pCase{left + sp[0] + q + tail, "unterminated-quote", strings.TrimSpace(tail), left, ""})
			}
			// unterminated regexps: no unescaped slash in the rest
			tail := sp[1] + right
			noSlash := strings.ReplaceAll(tail, "/", "")
			emit(vc16pCase{left + sp[0] + "/" + noSlash, "unterminated-regexp", strings.TrimSpace(noSlash), left, ""})
			if strings.Contains(tail, "/") {
				// every slash protected by a backslash (an existing backslash before a slash would
				// unprotect it, so backslashes are dropped first)
				esc := strings.ReplaceAll(strings.ReplaceAll(tail, `\`, ""), "/", `\/`)
				emit(vc16pCase{left + sp[0] + "/" + esc, "unterminated-regexp", "", left, ""})
			}
			if !strings.HasSuffix(noSlash, `\`) {
				// the would-be closing slash is escaped
				emit(vc16pCase{left + sp[0] + "/" + strings.ReplaceAll(noSlash, `\`, "") + `\/`, "unterminated-regexp", "", left, ""})
				// a lone backslash at the end of the input
				emit(vc16pCase{left + sp[0] + "/" + strings.ReplaceAll(noSlash, `\`, "") + `\`, "unterminated-regexp", "", left, ""})
			}
		}
	}
}

var vc16pCfgs = []struct {
	name string
	opts []opt
}{
	{"no default field", nil},
	{`WithDefaultField("f")`, []opt{WithDefaultField("f")}},
}

var vc16pSanRe = regexp.MustCompile(`[^a-z0-9]+`)

func vc16pPanicSite(r any) string {
	pcs := make([]uintptr, 64)
	n := runtime.Callers(3, pcs)
	frames := runtime.CallersFrames(pcs[:n])
	site := "unknown"
	for {
		fr, more := frames.Next()
		fn := fr.Function
		if strings.HasPrefix(fn, "github.com/grindlemire/go-lucene") && !strings.Contains(fn, ".vc16p") && !strings.Contains(fn, ".TestVerif") {
			fn = strings.TrimPrefix(fn, "github.com/grindlemire/go-lucene")
			for _, p := range []string{"/pkg/lucene/", "/pkg/", "/internal/", "."} {
				fn = strings.TrimPrefix(fn, p)
			}
			site = strings.Trim(vc16pSanRe.ReplaceAllString(strings.ToLower(fn), "-"), "-")
			break
		}
		if !more {
			break
		}
	}
	msg := fmt.Sprint(r)
	kind := "other"
	switch {
	case strings.Contains(msg, "index out of range"):
		kind = "index"
	case strings.Contains(msg, "slice bounds out of range"):
		kind = "slice-bounds"
	case strings.Contains(msg, "interface conversion"):
		kind = "type-assertion"
	case strings.Contains(msg, "nil pointer dereference"):
		kind = "nil-deref"
	}
	return site + "-" + kind
}

func vc16pParse(in string, opts []opt) (e *expr.Expression, err error, pan any, site string) {
	defer func() {
		if p := recover(); p != nil {
			pan = p
			site = vc16pPanicSite(p)
		}
	}()
	e, err = Parse(in, opts...)
	return
}

// vc16pLeaves concatenates the string leaves (values and column names) of a tree.
func vc16pLeaves(x any, sb *strings.Builder, depth int) {
	if depth > 10000 {
		return
	}
	switch v := x.(type) {
	case *expr.Expression:
		if v != nil {
			vc16pLeaves(v.Left, sb, depth+1)
			vc16pLeaves(v.Right, sb, depth+1)
		}
	case []*expr.Expression:
		for _, e := range v {
			vc16pLeaves(e, sb, depth+1)
		}
	case *expr.RangeBoundary:
		if v != nil {
			vc16pLeaves(v.Min, sb, depth+1)
			vc16pLeaves(v.Max, sb, depth+1)
		}
	case string:
		sb.WriteString(v)
		sb.WriteByte(0x1f)
	case expr.Column:
		sb.WriteString(string(v))
		sb.WriteByte(0x1f)
	}
}

func vc16pString(e *expr.Expression) (s string) {
	defer func() {
		if recover() != nil {
			s = ""
		}
	}()
	return e.String()
}

type vc16pFinding struct{ cat, msg string }

// vc16pCheck: Parse must fail on the case's input under every option.
// When Parse wrongly succeeds the tag says what became of the offending text (a diagnosis that
// separates root causes, not part of the oracle): "absorbed" into a value of the tree, "skipped"
// like whitespace, "input-truncated" (the rest of the input was ignored), "ignored-at-end"
// (nothing follows, so the last two cannot be told apart) or just "dropped".
func vc16pCheck(c vc16pCase) (out []vc16pFinding) {
	for _, cfg := range vc16pCfgs {
		e, err, pan, site := vc16pParse(c.in, cfg.opts)
		if pan != nil {
			out = append(out, vc16pFinding{"panic-" + site, fmt.Sprintf("%s : Parse with %s must return an error (%s), it panicked: %v", strconv.Quote(c.in), cfg.name, c.kind, pan)})
			continue
		}
		if err != nil {
			continue
		}
		// wrongly accepted: was the offending text swallowed into a value or silently dropped?
		how := "dropped"
		tree := "<nil>"
		if e != nil {
			tree = vc16pString(e)
			var leaves strings.Builder
			vc16pLeaves(e, &leaves, 0)
			same := func(other string) bool {
				o, oerr, opan, _ := vc16pParse(other, cfg.opts)
				return opan == nil && oerr == nil && o != nil && vc16pString(o) == tree
			}
			switch {
			case c.piece != "" && strings.Count(leaves.String(), c.piece) > strings.Count(c.left+c.right, c.piece):
				how = "absorbed" // the offending text became (part of) a value
			case strings.TrimSpace(c.right) == "":
				how = "ignored-at-end"
			case same(c.left + " " + c.right):
				how = "skipped" // treated like whitespace
			case same(c.left):
				how = "input-truncated" // everything from the offending piece on was ignored
			}
		}
		what := map[string]string{
			"unterminated-quote":  "an unterminated quote",
			"unterminated-regexp": "an unterminated regexp",
		}[c.kind]
		if what == "" {
			what = fmt.Sprintf("the character %s, which cannot start a token,", strconv.QuoteToASCII(c.piece))
		}
		out = append(out, vc16pFinding{c.kind + "-" + how, fmt.Sprintf("%s : the input contains %s so Parse with %s must fail; it returned the tree %s", strconv.Quote(c.in), what, cfg.name, strconv.Quote(tree))})
	}
	return out
}

func vc16pEnumerate(vocab []vc16pTok, minLen, maxLen int, emit func([]vc16pTok)) {
	cur := make([]vc16pTok, 0, maxLen)
	var rec func()
	rec = func() {
		if len(cur) >= minLen {
			emit(append([]vc16pTok(nil), cur...))
		}
		if len(cur) == maxLen {
			return
		}
		for _, t := range vocab {
			cur = append(cur, t)
			rec()
			cur = cur[:len(cur)-1]
		}
	}
	rec()
}

// ---------------------------------------------------------------------------------------------
// watchdog: a library call that does not come back would otherwise hang the whole test binary.
// The stuck goroutine cannot be stopped, so the watchdog writes a report of its own, prints the
// failure and ends the process with a non-zero status.

type vc16pWatch struct {
	cur   []atomic.Pointer[string]
	since []atomic.Int64
	stop  chan struct{}
}

func vc16pStartWatch(n int, rep *vc16pReport) *vc16pWatch {
	w := &vc16pWatch{cur: make([]atomic.Pointer[string], n), since: make([]atomic.Int64, n), stop: make(chan struct{})}
	const limit = 60 * time.Second
	go func() {
		tk := time.NewTicker(250 * time.Millisecond)
		defer tk.Stop()
		for {
			select {
			case <-w.stop:
				return
			case <-tk.C:
				now := time.Now().UnixNano()
				for i := range w.cur {
					p := w.cur[i].Load()
					if p == nil || now-w.since[i].Load() < int64(limit) {
						continue
					}
					msg := fmt.Sprintf("[hang] %s : the library must return on every input, a call on this one is still running after %v", strconv.Quote(*p), limit)
					vc16pWriteReport(&vc16pReport{Property: rep.Property, Tier: rep.Tier, Seed: rep.Seed, Bound: "aborted by the watchdog: a library call did not return",
						FailCount: 1, ByCategory: map[string]int{"hang": 1}, Failures: []string{msg}})
					fmt.Printf("--- FAIL: TestVerifStandin_C16P\n    C16P violated: %s\nFAIL\n", msg)
					os.Exit(1)
				}
			}
		}
	}()
	return w
}

func (w *vc16pWatch) enter(i int, in *string) {
	w.cur[i].Store(in)
	w.since[i].Store(time.Now().UnixNano())
}

func (w *vc16pWatch) leave(i int) { w.cur[i].Store(nil) }

func TestVerifStandin_C16P(t *testing.T) {
	tier := os.Getenv("VERIF_TIER")
	if tier != "thorough" {
		tier = "quick"
	}
	seed := int64(1)
	if v := os.Getenv("VERIF_SEED"); v != "" {
		if s, err := strconv.ParseInt(v, 10, 64); err == nil {
			seed = s
		}
	}
	rep := &vc16pReport{Property: "C16P", Tier: tier, Seed: seed, ByCategory: map[string]int{}, Domains: map[string]int64{}}
	rep.FailCount = 1
	rep.ByCategory["harness-incomplete"] = 1
	rep.Failures = []string{"[harness-incomplete] \"\" : the stand-in did not run to completion (fatal runtime error or killed)"}
	vc16pWriteReport(rep)
	rep.FailCount = 0
	rep.ByCategory = map[string]int{}
	rep.Failures = nil

	fullLen, nRandom := 2, 600
	next := vc16pVocabTiny
	if tier == "thorough" {
		fullLen, nRandom = 3, 10000
	}

	workers := runtime.NumCPU()
	if workers < 2 {
		workers = 2
	}
	type res struct {
		agg        *vc16pAgg
		evals      int64
		nontrivial int64
	}
	results := make([]res, workers)
	bases := make(chan []vc16pBase, 4*workers)
	watch := vc16pStartWatch(workers, rep)
	var wg sync.WaitGroup
	for w := 0; w < workers; w++ {
		results[w].agg = vc16pNewAgg()
		wg.Add(1)
		go func(w int) {
			defer wg.Done()
			r := &results[w]
			for batch := range bases {
				for _, bb := range batch {
					base := bb.toks
					// diagnostic only (not the oracle): does the base parse without the offending piece?
					baseOK := false
					bs := vc16pJoin(base)
					watch.enter(w, &bs)
					for _, cfg := range vc16pCfgs {
						if e, err, pan, _ := vc16pParse(bs, cfg.opts); pan == nil && err == nil && e != nil {
							baseOK = true
						}
					}
					vc16pCases(base, bb.gaps, func(c vc16pCase) {
						r.evals++
						if baseOK {
							r.nontrivial++
						}
						watch.enter(w, &c.in)
						fs := vc16pCheck(c)
						watch.leave(w)
						if len(fs) == 0 {
							return
						}
						seen := map[string]bool{}
						for _, f := range fs {
							n := 1
							if seen[f.cat] {
								n = 0
							}
							seen[f.cat] = true
							r.agg.add(f.cat, c.in, "["+f.cat+"] "+f.msg, n)
						}
					})
				}
			}
		}(w)
	}

	var batch []vc16pBase
	var domainCount int64
	var gaps []int
	var pushed int
	push := func(b []vc16pTok) {
		domainCount++
		pushed++
		if pushed%211 == 3 && len(rep.Samples) < 12 {
			k, want := 0, pushed*37%97
			vc16pCases(b, gaps, func(c vc16pCase) {
				if k == want {
					rep.Samples = append(rep.Samples, strconv.Quote(c.in))
				}
				k++
			})
		}
		batch = append(batch, vc16pBase{b, gaps})
		if len(batch) == 16 {
			bases <- batch
			batch = nil
		}
	}
	endDomain := func(name string) {
		rep.Domains[name] = domainCount
		domainCount = 0
	}
	push(nil) // the offending piece alone
	endDomain("empty-base")
	vc16pEnumerate(vc16pVocab, 1, fullLen, push)
	endDomain(fmt.Sprintf("base-token-sequences<=%d-over-%d-tokens", fullLen, len(vc16pVocab)))
	vc16pEnumerate(next, fullLen+1, fullLen+1, push)
	endDomain(fmt.Sprintf("base-token-sequences=%d-over-%d-tokens", fullLen+1, len(next)))
	for _, c := range vc16pCurated {
		push(c)
	}
	endDomain("curated-valid-queries")
	// seeded sampling beyond the bound: conjunctions / disjunctions of the curated queries
	rng := rand.New(rand.NewSource(seed))
	conn := [][]vc16pTok{vc16pW("AND"), vc16pW("OR"), nil, vc16pW("AND", "NOT")}
	for i := 0; i < nRandom; i++ {
		var b []vc16pTok
		k := 2 + rng.Intn(4)
		for j := 0; j < k; j++ {
			if j > 0 {
				b = append(b, conn[rng.Intn(len(conn))]...)
			}
			q := vc16pCurated[rng.Intn(len(vc16pCurated))]
			if rng.Intn(3) == 0 {
				b = append(b, vc16pTok{"(", vc16pOther})
				b = append(b, q...)
				b = append(b, vc16pTok{")", vc16pOther})
			} else {
				b = append(b, q...)
			}
		}
		gaps = []int{0, len(b), rng.Intn(len(b) + 1), rng.Intn(len(b) + 1), rng.Intn(len(b) + 1)}
		push(b)
	}
	endDomain("random-compound-queries")
	if len(batch) > 0 {
		bases <- batch
	}
	close(bases)
	wg.Wait()
	close(watch.stop)

	total := vc16pNewAgg()
	for w := range results {
		total.merge(results[w].agg)
		rep.Evaluations += results[w].evals
		rep.Distinct += results[w].nontrivial
	}
	cats := make([]string, 0, len(total.count))
	for c := range total.count {
		cats = append(cats, c)
	}
	sort.Strings(cats)
	for _, c := range cats {
		rep.ByCategory[c] = total.count[c]
		rep.FailCount += total.count[c]
	}
	// at most 3 messages per category and 25 in total; every category gets its first message
	// before any category gets a second one
	for round := 0; round < 3; round++ {
		for _, c := range cats {
			if fs := total.best[c]; round < len(fs) && len(rep.Failures) < 25 {
				rep.Failures = append(rep.Failures, fs[round].msg)
			}
		}
	}
	rep.Bound = fmt.Sprintf("inputs built as <complete tokens><offending piece><rest>: base = every sequence of <=%d tokens over %d token texts (words, numbers, wildcard, escaped word, non-ASCII word, keywords, both phrase kinds, regexp, all 14 operator symbols), every sequence of %d tokens over %d token texts, %d curated valid queries and %d seeded random compound queries (2..5 curated queries joined by AND/OR/implicit AND/AND NOT, optionally parenthesised); "+
		"offending piece inserted at EVERY token gap (start, between any two tokens, end; for the random compound queries: start, end and 3 random gaps) with {none, both, left, right} spaces around it: %d characters that start no token (10 ASCII punctuation, '.', 5 control incl. NUL/VT/FF, 6 invalid UTF-8 sequences, 12 non-letter/non-digit Unicode incl. NBSP, BOM, ZWSP, combining mark, superscript digit, U+FFFD), an opening \" or ' with no matching quote in the rest, an opening / with the rest free of slashes / with all slashes escaped / with the closing slash escaped / ending in a lone backslash; each x {no default field, default field \"f\"}; expected: Parse returns an error. "+
		"distinct_nontrivial = inputs whose base (the same text without the offending piece) parses successfully, i.e. the offending piece is the only reason to fail",
		fullLen, len(vc16pVocab), fullLen+1, len(next), len(vc16pCurated), nRandom, len(vc16pBadChars))
	vc16pWriteReport(rep)
	for _, f := range rep.Failures {
		t.Errorf("C16 (parser clause) violated: %s", f)
	}
	if rep.FailCount > len(rep.Failures) {
		t.Errorf("C16 (parser clause) violated: %d failures in total in %d categories (see report)", rep.FailCount, len(cats))
	}
	t.Logf("C16P %s: %d inputs (%d with a valid base), %d failures in %d categories", tier, rep.Evaluations, rep.Distinct, rep.FailCount, len(cats))
}
