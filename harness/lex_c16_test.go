//go:build verif

package lex

// Bounded stand-in / counterexample search for C16 (lossless segmentation).
// Injected into internal/lex with `go test -overlay`; never written to /repo.

import (
	"encoding/json"
	"fmt"
	"os"
	"strconv"
	"testing"
)

type c16Report struct {
	Evaluations int      `json:"evaluations"`
	Distinct    int      `json:"distinct_nontrivial"`
	Bound       string   `json:"bound"`
	Failures    []string `json:"failures"`
	Samples     []string `json:"samples"`
}

// c16Check runs the whole statement of C16 on one input; "" means it holds.
func c16Check(in string) string {
	l := Lex(in)
	pos := 0
	n := 0
	for {
		// Peek returns what Next returns and does not disturb the stream
		before := *l
		pk := l.Peek()
		if *l != before {
			return fmt.Sprintf("Peek changed the lexer on %q at byte %d", in, pos)
		}
		tok := l.Next()
		if pk.Typ != tok.Typ || pk.Val != tok.Val {
			return fmt.Sprintf("Peek %v/%q differs from Next %v/%q on %q at byte %d", pk.Typ, pk.Val, tok.Typ, tok.Val, in, pos)
		}
		n++
		if n > len(in)+2 {
			return fmt.Sprintf("more tokens than bytes on %q", in)
		}
		if tok.Typ == TEOF || tok.Typ == TErr {
			// skipped rest must be whitespace only for EOF
			if tok.Typ == TEOF {
				for i := pos; i < len(in); i++ {
					if !IsWS(in[i]) {
						return fmt.Sprintf("EOF reported on %q with unread non-space byte at %d", in, i)
					}
				}
			}
			// end-of-input forever
			for k := 0; k < 3; k++ {
				if p := l.Peek(); p.Typ != TEOF {
					return fmt.Sprintf("Peek after end/error returns %v on %q", p.Typ, in)
				}
				if t := l.Next(); t.Typ != TEOF {
					return fmt.Sprintf("Next after end/error returns %v on %q", t.Typ, in)
				}
			}
			return ""
		}
		// token: find it after whitespace only
		s := pos
		for s < len(in) && IsWS(in[s]) {
			s++
		}
		if tok.Val == "" {
			return fmt.Sprintf("empty token text on %q at byte %d", in, pos)
		}
		if s+len(tok.Val) > len(in) || in[s:s+len(tok.Val)] != tok.Val {
			return fmt.Sprintf("token %q is not the input text at byte %d of %q", tok.Val, s, in)
		}
		pos = s + len(tok.Val)
	}
}

func TestVerifC16Standin(t *testing.T) {
	bound := 4
	if v := os.Getenv("VERIF_C16_LEN"); v != "" {
		bound, _ = strconv.Atoi(v)
	}
	alphabet := []string{"a", "7", " ", "\t", "-", "\"", "'", "/", "\\", "(", ":", "*", "[", "~", ".", "\xc3\xa9", "\xff", "\x80", "\n", ";", "T", "O"}
	rep := c16Report{Bound: fmt.Sprintf("all strings of up to %d symbols over a %d-symbol alphabet (ASCII classes, 2-byte rune, invalid UTF-8 bytes)", bound, len(alphabet))}
	var rec func(prefix string, depth int)
	rec = func(prefix string, depth int) {
		rep.Evaluations++
		if msg := c16Check(prefix); msg != "" {
			if len(rep.Failures) < 5 {
				rep.Failures = append(rep.Failures, msg)
			}
		}
		if len(prefix) > 0 {
			rep.Distinct++
		}
		if rep.Evaluations%100003 == 1 && len(rep.Samples) < 6 {
			rep.Samples = append(rep.Samples, strconv.Quote(prefix))
		}
		if depth == bound {
			return
		}
		for _, a := range alphabet {
			rec(prefix+a, depth+1)
		}
	}
	rec("", 0)
	if out := os.Getenv("VERIF_REPORT"); out != "" {
		b, _ := json.Marshal(rep)
		os.WriteFile(out, b, 0o644)
	}
	for _, f := range rep.Failures {
		t.Errorf("C16 violated: %s", f)
	}
}

// TestVerifC16Replay re-checks one input given in VERIF_INPUT (Go-quoted).
func TestVerifC16Replay(t *testing.T) {
	q := os.Getenv("VERIF_INPUT")
	if q == "" {
		t.Skip("no input")
	}
	in, err := strconv.Unquote(q)
	if err != nil {
		t.Fatal(err)
	}
	if msg := c16Check(in); msg != "" {
		t.Errorf("C16 violated: %s", msg)
	}
}
