//go:build verif

package lucene

// Bounded stand-in / counterexample search for property C08:
//
//	"Quoting and escaping deliver values verbatim."
//
// Quoting clause: for every text w without a double quote (valid UTF-8, no NUL), "w" is one
// string value equal to w byte for byte - in the tree, in the inline SQL constant as
// PostgreSQL decodes it (standard_conforming_strings: '' is one quote, nothing else is
// special) and in the parameter list.  Checked in three positions: f:"w", "w" under
// WithDefaultField("f"), and "w" alone.
//
// Escaping clause: for every non-empty w that does not look like a number, w written as a
// bare word with a backslash before each special character (= every character that is not a
// letter, a digit or '_') denotes exactly w as a plain, non-pattern value.  Checked as f:<esc>
// and as <esc> under WithDefaultField("f").
//
// The oracle is the value we started from (w) and an independent decoder for PostgreSQL
// string constants; nothing is computed with the lexer or the parser.
//
// Injected into the root package with `go test -overlay`; never written to /repo.

import (
	"bytes"
	"encoding/json"
	"fmt"
	"math/rand"
	"os"
	"regexp"
	"runtime"
	"sort"
	"strconv"
	"strings"
	"sync"
	"sync/atomic"
	"testing"
	"time"
	"unicode"
	"unicode/utf8"

	"github.com/grindlemire/go-lucene/pkg/lucene/expr"
)

type vc08Report struct {
	Property    string           `json:"property"`
	Tier        string           `json:"tier"`
	Seed        int64            `json:"seed"`
	Evaluations int64            `json:"evaluations"`
	Distinct    int64            `json:"distinct_nontrivial"`
	Bound       string           `json:"bound"`
	FailCount   int              `json:"failure_count"`
	ByCategory  map[string]int   `json:"by_category"`
	Failures    []string         `json:"failures"`
	Samples     []string         `json:"samples"`
	Domains     map[string]int64 `json:"domains,omitempty"`
	Notes       []string         `json:"notes,omitempty"`
}

func vc08WriteReport(rep *vc08Report) {
	out := os.Getenv("VERIF_REPORT")
	if out == "" {
		return
	}
	if rep.ByCategory == nil {
		rep.ByCategory = map[string]int{}
	}
	if rep.Failures == nil {
		rep.Failures = []string{}
	}
	if rep.Samples == nil {
		rep.Samples = []string{}
	}
	var buf bytes.Buffer
	enc := json.NewEncoder(&buf)
	enc.SetEscapeHTML(false)
	enc.SetIndent("", " ")
	err := enc.Encode(rep)
	b := buf.Bytes()
	if err != nil {
		b = []byte(fmt.Sprintf(`{"property":"C08","failure_count":1,"by_category":{"harness-error":1},"failures":[%q]}`, "[harness-error] cannot encode report: "+err.Error()))
	}
	_ = os.WriteFile(out, b, 0o644)
}

type vc08Fail struct{ in, msg string }

type vc08Agg struct {
	count map[string]int
	best  map[string][]vc08Fail
}

func vc08NewAgg() *vc08Agg {
	return &vc08Agg{count: map[string]int{}, best: map[string][]vc08Fail{}}
}

func (a *vc08Agg) add(cat, in string, msg func() string, n int) {
	a.count[cat] += n
	b := a.best[cat]
	for _, f := range b {
		if f.in == in {
			return
		}
	}
	if len(b) == 3 {
		if w := b[2]; len(in) > len(w.in) || (len(in) == len(w.in) && in >= w.in) {
			return // not among the three smallest: do not even build the message
		}
	}
	b = append(b, vc08Fail{in, msg()})
	sort.Slice(b, func(i, j int) bool {
		if len(b[i].in) != len(b[j].in) {
			return len(b[i].in) < len(b[j].in)
		}
		return b[i].in < b[j].in
	})
	if len(b) > 3 {
		b = b[:3]
	}
	a.best[cat] = b
}

func (a *vc08Agg) merge(o *vc08Agg) {
	for c, n := range o.count {
		a.count[c] += n
	}
	for c, fs := range o.best {
		for _, f := range fs {
			msg := f.msg
			a.add(c, f.in, func() string { return msg }, 0)
		}
	}
}

// ---------------------------------------------------------------------------------------------
// oracle helpers (independent of the library)

// vc08Special: a character that has to be escaped in a bare word.
func vc08Special(r rune) bool {
	return !(r == '_' || unicode.IsLetter(r) || unicode.IsDigit(r))
}

// vc08Escape writes w as a bare word with a backslash before each special character.
func vc08Escape(w string) string {
	var sb strings.Builder
	for _, r := range w {
		if vc08Special(r) {
			sb.WriteByte('\\')
		}
		sb.WriteRune(r)
	}
	return sb.String()
}

var vc08NumberRe = regexp.MustCompile(`^[+-]?(` +
	`(?i:inf|infinity|nan)` +
	`|0[xX][0-9a-fA-F_]*\.?[0-9a-fA-F_]*([pP][+-]?[0-9_]*)?` +
	`|0[bBoO][0-9_]+` +
	`|([0-9][0-9_]*\.?[0-9_]*|\.[0-9][0-9_]*)([eE][+-]?[0-9_]*)?` +
	`)$`)

// vc08LooksNumeric: generous notion of "looks like a number" (such w are outside the escaping clause).
func vc08LooksNumeric(w string) bool {
	return vc08NumberRe.MatchString(w)
}

func vc08Keyword(w string) bool {
	switch strings.ToUpper(w) {
	case "AND", "OR", "NOT", "TO":
		return true
	}
	return false
}

// vc08DecodePG decodes ONE PostgreSQL string constant '...' under standard_conforming_strings=on.
// ok is false when s is not exactly one well-formed constant (an undoubled quote inside it,
// text after the closing quote, no closing quote).
func vc08DecodePG(s string) (val string, ok bool) {
	if len(s) < 2 || s[0] != '\'' {
		return "", false
	}
	var sb strings.Builder
	for i := 1; i < len(s); {
		if s[i] == '\'' {
			if i+1 < len(s) && s[i+1] == '\'' {
				sb.WriteByte('\'')
				i += 2
				continue
			}
			return sb.String(), i == len(s)-1
		}
		sb.WriteByte(s[i])
		i++
	}
	return "", false
}

// vc08Diff names the way got differs from want (a root-cause hint for the category tag).
func vc08Diff(want, got string) string {
	switch {
	case got == strings.ReplaceAll(want, `\`, ""):
		return "backslash-dropped"
	case got == strings.TrimSpace(want) || got == strings.Join(strings.Fields(want), " "):
		return "whitespace-changed"
	case got == `"`+want+`"` || got == `'`+want+`'`:
		return "quotes-kept"
	case got == strings.ReplaceAll(want, "'", ""):
		return "apostrophe-dropped"
	case strings.EqualFold(want, got):
		return "case-changed"
	case strings.HasPrefix(want, got):
		return "truncated"
	case got == vc08Escape(want) || strings.Count(got, `\`) > strings.Count(want, `\`):
		return "backslash-kept"
	case !utf8.ValidString(got):
		return "utf8-broken"
	}
	return "altered"
}

// ---------------------------------------------------------------------------------------------
// the check

var vc08SanRe = regexp.MustCompile(`[^a-z0-9]+`)

func vc08PanicSite(r any) string {
	pcs := make([]uintptr, 64)
	n := runtime.Callers(3, pcs)
	frames := runtime.CallersFrames(pcs[:n])
	site := "unknown"
	for {
		fr, more := frames.Next()
		fn := fr.Function
		if strings.HasPrefix(fn, "github.com/grindlemire/go-lucene") && !strings.Contains(fn, ".vc08") && !strings.Contains(fn, ".TestVerif") {
			fn = strings.TrimPrefix(fn, "github.com/grindlemire/go-lucene")
			for _, p := range []string{"/pkg/lucene/", "/pkg/", "/internal/", "."} {
				fn = strings.TrimPrefix(fn, p)
			}
			site = strings.Trim(vc08SanRe.ReplaceAllString(strings.ToLower(fn), "-"), "-")
			break
		}
		if !more {
			break
		}
	}
	msg := fmt.Sprint(r)
	kind := "other"
	switch {
	case strings.Contains(msg, "index out of range"):
		kind = "index"
	case strings.Contains(msg, "slice bounds out of range"):
		kind = "slice-bounds"
	case strings.Contains(msg, "interface conversion"):
		kind = "type-assertion"
	case strings.Contains(msg, "nil pointer dereference"):
		kind = "nil-deref"
	}
	return site + "-" + kind
}

type vc08Out struct {
	tree   *expr.Expression
	perr   error
	sql    string
	serr   error
	psql   string
	params []any
	pperr  error
}

func vc08Run(in string, opts []opt) (o vc08Out, pan any, site, where string) {
	defer func() {
		if p := recover(); p != nil {
			pan = p
			site = vc08PanicSite(p)
		}
	}()
	where = "Parse"
	o.tree, o.perr = Parse(in, opts...)
	where = "ToPostgres"
	o.sql, o.serr = ToPostgres(in, opts...)
	where = "ToParameterizedPostgres"
	o.psql, o.params, o.pperr = ToParameterizedPostgres(in, opts...)
	return
}

type vc08Finding struct {
	cat string
	msg func() string // built only when the message is going to be reported
}

var vc08EqRe = regexp.MustCompile(`(?s)^"f"\s*=\s*(.*)$`)

// vc08Value extracts the value node from the tree of the given position.
// withField: tree must be  f = <value>;  otherwise the tree is the value itself.
func vc08Value(e *expr.Expression, withField bool) (val *expr.Expression, like bool, problem string) {
	if e == nil {
		return nil, false, "no tree"
	}
	if !withField {
		return e, false, ""
	}
	if e.Op == expr.Wild || e.Op == expr.Regexp {
		return e, true, "" // an unwrapped pattern: reported as a pattern, not as a shape problem
	}
	if e.Op != expr.Equals && e.Op != expr.Like {
		return nil, false, fmt.Sprintf("top operator is %v, not EQUALS", e.Op)
	}
	l, ok := e.Left.(*expr.Expression)
	if !ok || l == nil || l.Op != expr.Literal {
		return nil, false, fmt.Sprintf("left side is %#v, not the column f", e.Left)
	}
	switch c := l.Left.(type) {
	case expr.Column:
		if string(c) != "f" {
			return nil, false, fmt.Sprintf("column is %q, not f", string(c))
		}
	case string:
		if c != "f" {
			return nil, false, fmt.Sprintf("column is %q, not f", c)
		}
	default:
		return nil, false, fmt.Sprintf("left side is %#v, not the column f", l.Left)
	}
	r, ok := e.Right.(*expr.Expression)
	if !ok || r == nil {
		return nil, false, fmt.Sprintf("right side is %#v, not a value", e.Right)
	}
	return r, e.Op == expr.Like, ""
}

// vc08CheckOne checks one way of writing w.  clause is "quoted" or "escaped".
func vc08CheckOne(clause, w, in string, opts []opt, optName string, withField bool) (out []vc08Finding) {
	// all message texts are built lazily: on the current code a large part of the domain fails
	desc := func() string {
		return fmt.Sprintf("%s : w=%s written as %s with %s", strconv.Quote(in), strconv.Quote(w), clause, optName)
	}
	one := func(cat string, msg func() string) []vc08Finding { return []vc08Finding{{cat, msg}} }
	o, pan, site, where := vc08Run(in, opts)
	if pan != nil {
		return one("panic-"+site, func() string {
			return fmt.Sprintf("%s must give the string value w; %s panicked: %v", desc(), where, pan)
		})
	}
	hasWild := strings.ContainsAny(w, "*?")

	// ---- the tree -------------------------------------------------------------------------
	if o.perr != nil {
		cat := clause + "-parse-error"
		if clause == "escaped" && vc08Keyword(w) {
			cat = "bare-keyword-is-operator"
		}
		return one(cat, func() string {
			return fmt.Sprintf("%s must parse to the string value w; Parse failed: %v", desc(), o.perr)
		})
	}
	val, like, problem := vc08Value(o.tree, withField)
	if problem != "" {
		return one(clause+"-wrong-shape", func() string {
			return fmt.Sprintf("%s must parse to f = <string w>; %s (tree %s)", desc(), problem, vc08GoString(o.tree))
		})
	}
	if like || val.Op == expr.Wild || val.Op == expr.Regexp {
		cat := clause + "-became-like"
		switch {
		case val.Op == expr.Regexp:
			cat = clause + "-became-regexp"
		case val.Op == expr.Wild && hasWild:
			cat = clause + "-wildcard-stays-pattern"
		case val.Op == expr.Wild:
			cat = clause + "-became-wildcard"
		}
		return one(cat, func() string {
			return fmt.Sprintf("%s must be the plain string value w; the tree holds a pattern: %s", desc(), vc08GoString(o.tree))
		})
	}
	if val.Op != expr.Literal {
		return one(clause+"-wrong-shape", func() string {
			return fmt.Sprintf("%s must be a literal value; the value node is %v (tree %s)", desc(), val.Op, vc08GoString(o.tree))
		})
	}
	got, isStr := val.Left.(string)
	if !isStr {
		typ := strings.Trim(vc08SanRe.ReplaceAllString(strings.ToLower(fmt.Sprintf("%T", val.Left)), "-"), "-")
		return one(clause+"-became-"+typ, func() string {
			return fmt.Sprintf("%s must be the STRING value w; the tree holds %#v of type %T", desc(), val.Left, val.Left)
		})
	}
	if got != w {
		return one(clause+"-value-"+vc08Diff(w, got), func() string {
			return fmt.Sprintf("%s must be the string value w byte for byte; the tree holds %s", desc(), strconv.Quote(got))
		})
	}

	// ---- the inline SQL constant ------------------------------------------------------------
	// (from here on the tree is right, so how w was written no longer matters: no clause in the tag)
	add := func(cat, format string, args ...any) {
		out = append(out, vc08Finding{cat, func() string { return desc() + fmt.Sprintf(format, args...) }})
	}
	if o.serr != nil {
		add("sql-error", " must render the constant w; ToPostgres failed: %v", o.serr)
	} else {
		constant := o.sql
		okShape := true
		if withField {
			m := vc08EqRe.FindStringSubmatch(o.sql)
			if m == nil {
				okShape = false
				add("sql-not-equality", " must render as \"f\" = '<w>'; ToPostgres gave %s", strconv.Quote(o.sql))
			} else {
				constant = m[1]
			}
		}
		if okShape {
			dec, ok := vc08DecodePG(constant)
			noApos := func(x string) string { return strings.ReplaceAll(x, "'", "") }
			const malformed = " must render as exactly one string constant that PostgreSQL decodes to w; ToPostgres gave %s, whose right side %s is not one well-formed constant"
			const differs = ": PostgreSQL decodes the constant in %s to %s, not to w"
			switch {
			case !ok && strings.Contains(w, "'"):
				add("sql-apostrophe-mishandled", malformed, strconv.Quote(o.sql), strconv.Quote(constant))
			case !ok:
				add("sql-constant-malformed", malformed, strconv.Quote(o.sql), strconv.Quote(constant))
			case dec != w && noApos(dec) == noApos(w):
				add("sql-apostrophe-mishandled", differs, strconv.Quote(o.sql), strconv.Quote(dec))
			case dec != w:
				add("sql-constant-"+vc08Diff(w, dec), differs, strconv.Quote(o.sql), strconv.Quote(dec))
			}
		}
	}

	// ---- the parameter list -----------------------------------------------------------------
	if o.pperr != nil {
		add("param-error", " must travel as the parameter w; ToParameterizedPostgres failed: %v", o.pperr)
		return out
	}
	wantSQL := "?"
	if withField {
		wantSQL = `"f" = ?`
	}
	if strings.Join(strings.Fields(o.psql), " ") != wantSQL {
		add("param-sql-shape", ": the parameterized SQL must be %s, got %s (params %#v)", wantSQL, strconv.Quote(o.psql), o.params)
		return out
	}
	if len(o.params) != 1 {
		add("param-count", ": the parameter list must be [w], got %#v", o.params)
		return out
	}
	ps, isStr := o.params[0].(string)
	if !isStr {
		add("param-not-string", ": the parameter list must be [w] (a string), got %#v", o.params)
	} else if ps != w {
		add("param-"+vc08Diff(w, ps), ": the parameter list must be [w], got [%s]", strconv.Quote(ps))
	}
	return out
}

func vc08GoString(e *expr.Expression) (s string) {
	defer func() {
		if r := recover(); r != nil {
			s = fmt.Sprintf("<%%#v panicked: %v>", r)
		}
	}()
	return fmt.Sprintf("%#v", e)
}

var vc08DefaultF = []opt{WithDefaultField("f")}

type vc08Stats struct {
	quotedW, escapedW, nontrivial, checks int64
}

// vc08Check checks both clauses on one text w.
func vc08Check(w string, st *vc08Stats) (out []vc08Finding) {
	if !utf8.ValidString(w) || strings.ContainsRune(w, 0) {
		return nil
	}
	counted := false
	// The position f:<x> is the reference; the same failure in another position has the same
	// root cause and is not repeated, a failure that only shows in another position gets its own tag.
	others := func(ref []vc08Finding, fs []vc08Finding, suffix string) {
	next:
		for _, f := range fs {
			for _, r := range ref {
				if r.cat == f.cat {
					continue next
				}
			}
			out = append(out, vc08Finding{f.cat + suffix, f.msg})
		}
	}
	if !strings.Contains(w, `"`) {
		q := `"` + w + `"`
		ref := vc08CheckOne("quoted", w, "f:"+q, nil, "no default field", true)
		out = append(out, ref...)
		others(ref, vc08CheckOne("quoted", w, q, vc08DefaultF, `WithDefaultField("f")`, true), "-default-field-only")
		others(ref, vc08CheckOne("quoted", w, q, nil, "no default field (bare value)", false), "-bare-value-only")
		if st != nil {
			st.quotedW++
			st.checks += 3
			counted = true
		}
	}
	if w != "" && !vc08LooksNumeric(w) {
		e := vc08Escape(w)
		ref := vc08CheckOne("escaped", w, "f:"+e, nil, "no default field", true)
		out = append(out, ref...)
		others(ref, vc08CheckOne("escaped", w, e, vc08DefaultF, `WithDefaultField("f")`, true), "-default-field-only")
		if st != nil {
			st.escapedW++
			st.checks += 2
			counted = true
		}
	}
	if counted && st != nil {
		for _, r := range w {
			if vc08Special(r) {
				st.nontrivial++
				break
			}
		}
		if vc08Keyword(w) {
			st.nontrivial++
		}
	}
	return out
}

// ---------------------------------------------------------------------------------------------
// domain

// operators, keywords, digits, wildcards, slashes, backslash, whitespace, quotes other than the
// double quote, LIKE metacharacters, non-ASCII.  (The double quote itself is added for the
// escaping clause only, see vc08AlphabetEsc.)
var vc08Alphabet = []string{
	"a", "e", "Z", "AND", "OR", "NOT", "TO", "and",
	"1", "0", ".", "-", "+",
	":", "(", ")", "[", "]", "{", "}", "~", "^", "=", "<", ">", "!", "&", "|",
	"*", "?", "/", "\\",
	" ", "\t", "\n",
	"'", "`", "%", "_", ",", ";",
	"\u00e9", "\u20ac", "\u65e5", "\U0001F600", "\u00a0",
}

var vc08AlphabetMedium = []string{
	"a", "e", "AND", "OR", "TO", "1", ".", "-", "+", ":", "(", ")", "[", "]", "{", "~", "^", "=", "<", "!",
	"*", "?", "/", "\\", " ", "\n", "'", "%", ",", "\u00e9",
}

var vc08AlphabetSmall = []string{
	"a", "AND", "1", ".", "-", ":", "(", "*", "?", "/", "\\", " ", "'", "%", "\u00e9", "\n",
}

var vc08AlphabetTiny = []string{
	"a", "1", "-", ":", "*", "/", "\\", " ", "'", "\u20ac",
}

func vc08Enumerate(alphabet []string, minLen, maxLen int, emit func(string)) {
	var rec func(prefix string, depth int)
	rec = func(prefix string, depth int) {
		if depth >= minLen {
			emit(prefix)
		}
		if depth == maxLen {
			return
		}
		for _, a := range alphabet {
			rec(prefix+a, depth+1)
		}
	}
	rec("", 0)
}

func vc08RandomRune(rng *rand.Rand) rune {
	for {
		var r rune
		switch rng.Intn(6) {
		case 0:
			r = rune(1 + rng.Intn(127))
		case 1:
			r = rune(0x80 + rng.Intn(0x780))
		case 2:
			r = rune(0x800 + rng.Intn(0xF800))
		case 3:
			r = rune(0x10000 + rng.Intn(0x100000))
		default:
			r = rune(32 + rng.Intn(95))
		}
		if r != 0 && utf8.ValidRune(r) {
			return r
		}
	}
}

// ---------------------------------------------------------------------------------------------
// watchdog: a library call that does not come back would otherwise hang the whole test binary.
// The stuck goroutine cannot be stopped, so the watchdog writes a report of its own, prints the
// failure and ends the process with a non-zero status.

type vc08Watch struct {
	cur   []atomic.Pointer[string]
	since []atomic.Int64
	stop  chan struct{}
}

func vc08StartWatch(n int, rep *vc08Report) *vc08Watch {
	w := &vc08Watch{cur: make([]atomic.Pointer[string], n), since: make([]atomic.Int64, n), stop: make(chan struct{})}
	const limit = 60 * time.Second
	go func() {
		tk := time.NewTicker(250 * time.Millisecond)
		defer tk.Stop()
		for {
			select {
			case <-w.stop:
				return
			case <-tk.C:
				now := time.Now().UnixNano()
				for i := range w.cur {
					p := w.cur[i].Load()
					if p == nil || now-w.since[i].Load() < int64(limit) {
						continue
					}
					msg := fmt.Sprintf("[hang] %s : the library must return on every input, a call on this one is still running after %v", strconv.Quote(*p), limit)
					vc08WriteReport(&vc08Report{Property: rep.Property, Tier: rep.Tier, Seed: rep.Seed, Bound: "aborted by the watchdog: a library call did not return",
						FailCount: 1, ByCategory: map[string]int{"hang": 1}, Failures: []string{msg}})
					fmt.Printf("--- FAIL: TestVerifStandin_C08\n    C08 violated: %s\nFAIL\n", msg)
					os.Exit(1)
				}
			}
		}
	}()
	return w
}

func (w *vc08Watch) enter(i int, in *string) {
	w.cur[i].Store(in)
	w.since[i].Store(time.Now().UnixNano())
}

func (w *vc08Watch) leave(i int) { w.cur[i].Store(nil) }

func TestVerifStandin_C08(t *testing.T) {
	tier := os.Getenv("VERIF_TIER")
	if tier != "thorough" {
		tier = "quick"
	}
	seed := int64(1)
	if v := os.Getenv("VERIF_SEED"); v != "" {
		if s, err := strconv.ParseInt(v, 10, 64); err == nil {
			seed = s
		}
	}
	rep := &vc08Report{Property: "C08", Tier: tier, Seed: seed, ByCategory: map[string]int{}, Domains: map[string]int64{}}
	rep.FailCount = 1
	rep.ByCategory["harness-incomplete"] = 1
	rep.Failures = []string{"[harness-incomplete] \"\" : the stand-in did not run to completion (fatal runtime error or killed)"}
	vc08WriteReport(rep)
	rep.FailCount = 0
	rep.ByCategory = map[string]int{}
	rep.Failures = nil

	// all w of <= 3 symbols over the full alphabet, then one sub-alphabet per additional symbol
	const fullLen = 3
	mediumLen, smallLen, tinyLen, nRandom := 0, 4, 5, 40000
	if tier == "thorough" {
		mediumLen, smallLen, tinyLen, nRandom = 4, 5, 6, 1000000
	}

	workers := runtime.NumCPU()
	if workers < 2 {
		workers = 2
	}
	aggs := make([]*vc08Agg, workers)
	stats := make([]vc08Stats, workers)
	batches := make(chan []string, 4*workers)
	watch := vc08StartWatch(workers, rep)
	var wg sync.WaitGroup
	for i := 0; i < workers; i++ {
		aggs[i] = vc08NewAgg()
		wg.Add(1)
		go func(i int) {
			defer wg.Done()
			for b := range batches {
				for k := range b {
					w := b[k]
					watch.enter(i, &b[k])
					fs := vc08Check(w, &stats[i])
					watch.leave(i)
					if len(fs) == 0 {
						continue
					}
					seen := map[string]bool{}
					for _, f := range fs {
						n := 1
						if seen[f.cat] {
							n = 0
						}
						seen[f.cat] = true
						cat, msg := f.cat, f.msg
						aggs[i].add(cat, w, func() string { return "[" + cat + "] " + msg() }, n)
					}
				}
			}
		}(i)
	}

	cur := make([]string, 0, 512)
	var domainCount, produced int64
	emit := func(w string) {
		domainCount++
		produced++
		if produced%7919 == 11 && len(rep.Samples) < 12 {
			rep.Samples = append(rep.Samples, strconv.Quote(w))
		}
		cur = append(cur, w)
		if len(cur) == cap(cur) {
			batches <- cur
			cur = make([]string, 0, 512)
		}
	}
	endDomain := func(name string) {
		rep.Domains[name] = domainCount
		domainCount = 0
	}

	vc08Enumerate(vc08Alphabet, 0, fullLen, emit)
	endDomain(fmt.Sprintf("all-w<=%d-symbols-over-%d", fullLen, len(vc08Alphabet)))
	if mediumLen > 0 {
		vc08Enumerate(vc08AlphabetMedium, mediumLen, mediumLen, emit)
		endDomain(fmt.Sprintf("all-w-of-%d-symbols-over-%d", mediumLen, len(vc08AlphabetMedium)))
	}
	vc08Enumerate(vc08AlphabetSmall, smallLen, smallLen, emit)
	endDomain(fmt.Sprintf("all-w-of-%d-symbols-over-%d", smallLen, len(vc08AlphabetSmall)))
	vc08Enumerate(vc08AlphabetTiny, tinyLen, tinyLen, emit)
	endDomain(fmt.Sprintf("all-w-of-%d-symbols-over-%d", tinyLen, len(vc08AlphabetTiny)))
	// the double quote inside an escaped bare word (outside the quoting clause by definition)
	withDQ := append(append([]string{}, vc08AlphabetTiny...), `"`)
	vc08Enumerate(withDQ, 1, 4, func(w string) {
		if strings.Contains(w, `"`) {
			emit(w)
		}
	})
	endDomain("all-w<=4-symbols-with-a-double-quote-over-11 (escaping clause only)")
	// hand-picked texts: things that look like query syntax
	for _, w := range []string{
		"AND", "or", "Not", "to", "TO", "a AND b", "NOT a", "[1 TO 5]", "{a TO b}", "a:b", "(a OR b)", "a:[1 TO *]",
		"/re/", "/a b/", "//", "/", "*", "?", "**", "a*", "?a", "%", "_", "a%b_", "\\", "\\\\", "a\\", "\\a", "\\*", "\\\\*", "a\\\\b", "b\\*",
		"'", "''", "'a'", "it's", "'; DROP TABLE x; --", "a' OR 'a'='a", "\\'", "\\''", "$$", "$a$x$a$", "E'\\n'", "U&'\\0041'",
		" ", "  ", " a", "a ", " a ", "\t", "\n", "\r\n", "a\nb", "-", "--", "-a", "+a", "~", "^2", "a~2", "a^2",
		"1a", "a1", "1.2.3", "1-2", "1e", "e1", "0x", "x0", "1 2", "1,2", "- 1", "+", "é", "日本語", "😀", "a\u0301", "\u00a0", "\ufeff", "\u200b",
		"true", "null", "NULL", "false",
	} {
		emit(w)
	}
	endDomain("hand-picked")
	// seeded sampling beyond the bounds
	rng := rand.New(rand.NewSource(seed))
	for i := 0; i < nRandom; i++ {
		n := 3 + rng.Intn(38)
		var sb strings.Builder
		for j := 0; j < n; j++ {
			if i%4 == 3 {
				sb.WriteRune(vc08RandomRune(rng))
			} else {
				sb.WriteString(vc08Alphabet[rng.Intn(len(vc08Alphabet))])
			}
		}
		w := sb.String()
		if i%8 == 1 { // some with double quotes, for the escaping clause
			k := rng.Intn(len(w) + 1)
			for k < len(w) && !utf8.RuneStart(w[k]) {
				k++
			}
			w = w[:k] + `"` + w[k:]
		}
		emit(w)
	}
	endDomain("random-w-3..40-symbols")
	if len(cur) > 0 {
		batches <- cur
	}
	close(batches)
	wg.Wait()
	close(watch.stop)

	total := vc08NewAgg()
	var st vc08Stats
	for i := range aggs {
		total.merge(aggs[i])
		st.quotedW += stats[i].quotedW
		st.escapedW += stats[i].escapedW
		st.nontrivial += stats[i].nontrivial
		st.checks += stats[i].checks
	}
	rep.Evaluations = produced
	rep.Distinct = st.nontrivial
	cats := make([]string, 0, len(total.count))
	for c := range total.count {
		cats = append(cats, c)
	}
	sort.Strings(cats)
	for _, c := range cats {
		rep.ByCategory[c] = total.count[c]
		rep.FailCount += total.count[c]
	}
	// at most 3 messages per category and 25 in total; every category gets its first message
	// before any category gets a second one
	for round := 0; round < 3; round++ {
		for _, c := range cats {
			if fs := total.best[c]; round < len(fs) && len(rep.Failures) < 25 {
				rep.Failures = append(rep.Failures, fs[round].msg)
			}
		}
	}
	medium := ""
	if mediumLen > 0 {
		medium = fmt.Sprintf("all w of %d symbols over a %d-symbol sub-alphabet, ", mediumLen, len(vc08AlphabetMedium))
	}
	rep.Bound = fmt.Sprintf("texts w (valid UTF-8, no NUL): all w of <=%d symbols over a %d-symbol alphabet (letters, the keywords AND/OR/NOT/TO/and as symbols, digits, . - +, every operator character, * ?, /, backslash, space/tab/newline, apostrophe, backquote, %% _ , ;, 2/3/4-byte non-ASCII, NBSP), %sall w of %d symbols over a %d-symbol sub-alphabet, all w of %d symbols over a %d-symbol sub-alphabet, all w of <=4 symbols over 11 symbols that contain a double quote (escaping clause only), hand-picked syntax look-alikes, and %d seeded random w of 3..40 symbols (3/4 from the alphabet, 1/4 arbitrary Unicode scalar values; 1/8 with a double quote inserted). "+
		"Each w without '\"' is checked as f:\"w\", as \"w\" with default field f and as \"w\" alone (tree value == w; inline constant decoded by an independent PostgreSQL standard_conforming_strings decoder == w; parameter list == [w]); each non-empty w that does not look like a number (decimal/hex/exponent/underscore forms, inf, nan) is checked as f:<w with a backslash before every character that is not a letter, digit or '_'> and as that bare word with default field f (tree value is the plain string w, not a wildcard/regexp; SQL and parameters as above). "+
		"evaluations = texts w (%d quoted-clause w, %d escaping-clause w, %d individual query checks x 3 library calls); distinct_nontrivial = w containing at least one character that is not a letter/digit/underscore, or that is a keyword; failure counts are numbers of texts w",
		fullLen, len(vc08Alphabet), medium, smallLen, len(vc08AlphabetSmall), tinyLen, len(vc08AlphabetTiny), nRandom, st.quotedW, st.escapedW, st.checks)
	vc08WriteReport(rep)
	for _, f := range rep.Failures {
		t.Errorf("C08 violated: %s", f)
	}
	if rep.FailCount > len(rep.Failures) {
		t.Errorf("C08 violated: %d failing texts in total in %d categories (see report)", rep.FailCount, len(cats))
	}
	t.Logf("C08 %s: %d texts (%d non-trivial), %d failures in %d categories", tier, rep.Evaluations, rep.Distinct, rep.FailCount, len(cats))
}
