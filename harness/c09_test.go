//go:build verif

package lucene

// Bounded stand-in / counterexample search for property C09.
// Layout (whitespace, keyword case, redundant parentheses) does not change meaning.
// Injected into the repository root with `go test -overlay`; never written to /repo.
// Interface: /verif/harness/README.md (VERIF_TIER, VERIF_SEED, VERIF_REPORT).
//
// The oracle is the property statement: trees are built with the public
// constructors of pkg/lucene/expr, printed by a printer that knows only the
// documented precedence table (OR < AND < NOT < ^ < ~ < - < +, binary operators
// left-associative, field:value binds tightest), and compared with what Parse
// returns; relations between two Parse runs are used where the statement is one.
// Every failure is classified: it is attributed to a failing operand if there is
// one, otherwise minimised, and the tag names the minimal shape.  Failures of the
// current code are findings and are reported, never filtered.
// The common core at the end of the file is shared (as a copy with another
// identifier prefix) with the other parser stand-ins.

import (
	"encoding/json"
	"fmt"
	"hash/fnv"
	"math/rand"
	"os"
	"reflect"
	"runtime"
	"runtime/debug"
	"sort"
	"strconv"
	"strings"
	"sync"
	"sync/atomic"
	"testing"
	"time"

	"github.com/grindlemire/go-lucene/pkg/lucene/expr"
)

// ---------------------------------------------------------------------------
// C09: layout does not change meaning.
//   part A  token sequences (exhaustive to a length bound): whitespace fillings
//           and keyword case; the variant must have the same outcome as the
//           single-spaced upper-case original (same tree, or both rejected)
//   part B  expression trees: redundant parentheses around the whole query, an
//           operand of an explicit operator, a field's value; if the original
//           parses the variant must parse to the identical tree
//   part C  the token sequences of printed trees (long, parsable) and mutations
//           of them (near misses), treated as in part A
// ---------------------------------------------------------------------------

var vc09Alphabet = []vc09tok{
	vc09tw("a"), vc09tw("5"), vc09tw("-3"), vc09tq(`"q"`), vc09tq("/r/"), vc09tw("w*"),
	vc09ts(":"), vc09ts("("), vc09ts(")"), vc09ts("["), vc09ts("]"), vc09ts("{"), vc09ts("}"),
	vc09tk("TO"), vc09tk("AND"), vc09tk("OR"), vc09tk("NOT"),
	vc09ts("+"), vc09ts("-"), vc09ts("~"), vc09ts("^"), vc09ts(">"), vc09ts("<"), vc09ts("="),
}

var vc09SymName = map[string]string{":": "colon", "(": "lparen", ")": "rparen", "[": "lsquare", "]": "rsquare", "{": "lcurly", "}": "rcurly",
	"+": "plus", "-": "minus", "~": "tilde", "^": "caret", ">": "greater", "<": "less", "=": "equal"}

func vc09TokClass(t vc09tok) string {
	switch t.k {
	case 'k':
		return "keyword"
	case 'q':
		if strings.HasPrefix(t.s, "/") {
			return "regexp"
		}
		return "quoted"
	case 's', 'm':
		return vc09SymName[t.s]
	}
	switch {
	case t.s != "" && (t.s[0] == '-' || (t.s[0] >= '0' && t.s[0] <= '9')):
		return "number"
	case strings.ContainsAny(t.s, "*?"):
		return "wildcard"
	}
	return "word"
}

func vc09WsKind(s string) string {
	switch s {
	case "":
		return "none"
	case " ":
		return "space"
	case "\t":
		return "tab"
	case "\n":
		return "newline"
	case "\r":
		return "cr"
	case "\r\n":
		return "crlf"
	}
	if strings.Trim(s, " ") == "" {
		return "multiple-spaces"
	}
	return "mixed"
}

// single-spaced layout of a token sequence: the "original" of part A and C
func vc09SpaceFill(n int) []string {
	f := make([]string, n+1)
	for i := 1; i < n; i++ {
		f[i] = " "
	}
	return f
}

type vc09Seq struct {
	toks []vc09tok
	df   bool
	text string
	base vc09res
}

func vc09Describe(q *vc09Seq, variant string, got vc09res) string {
	opt := ""
	if q.df {
		opt = " (both parsed with a default field)"
	}
	return fmt.Sprintf("original %s gives %s, the variant gives %s%s", strconv.Quote(q.text), q.base.String(), got.String(), opt)
}

// vc09WsFail classifies a failing whitespace filling: the changes are undone one
// by one as long as the outcome still differs; what remains names the category.
func vc09WsFail(q *vc09Seq, f []string, got vc09res, a *vc09agg) {
	n := len(q.toks)
	canon := vc09SpaceFill(n)
	text := vc09fill(q.toks, f)
	if got.panic != "" {
		a.fail("panic", text, vc09Describe(q, text, got))
		return
	}
	f = append([]string{}, f...)
	differs := func(g []string) (string, vc09res, bool) {
		t := vc09fill(q.toks, g)
		r := vc09parse(t, q.df)
		return t, r, !vc09sameOutcome(q.base, r)
	}
	for p := 0; p <= n; p++ {
		if f[p] == canon[p] {
			continue
		}
		old := f[p]
		f[p] = canon[p]
		if _, _, d := differs(f); d {
			continue
		}
		f[p] = old
		// a mixed filling: is one of its characters enough?
		if vc09WsKind(old) == "mixed" {
			for _, c := range old {
				f[p] = string(c)
				if _, _, d := differs(f); d {
					break
				}
				f[p] = old
			}
		}
	}
	kinds := map[string]bool{}
	last := -1
	count := 0
	for p := 0; p <= n; p++ {
		if f[p] != canon[p] {
			kinds[vc09WsKind(f[p])] = true
			last = p
			count++
		}
	}
	text, got, _ = differs(f)
	cat := "whitespace-combination"
	if len(kinds) == 1 {
		for k := range kinds {
			cat = "whitespace-" + k
		}
		if count == 1 {
			switch last {
			case 0:
				cat = "leading-" + cat
			case n:
				cat = "trailing-" + cat
			default:
				if f[last] == "" {
					cat += "-between-" + vc09TokClass(q.toks[last-1]) + "-and-" + vc09TokClass(q.toks[last])
				}
			}
		}
	}
	a.fail(cat, text, vc09Describe(q, text, got))
}

// vc09CaseFail classifies a failing keyword-case variant in the same way.
func vc09CaseFail(q *vc09Seq, variant []vc09tok, got vc09res, a *vc09agg) {
	canon := vc09SpaceFill(len(q.toks))
	text := vc09fill(variant, canon)
	if got.panic != "" {
		a.fail("panic", text, vc09Describe(q, text, got))
		return
	}
	v := append([]vc09tok{}, variant...)
	differs := func() (string, vc09res, bool) {
		t := vc09fill(v, canon)
		r := vc09parse(t, q.df)
		return t, r, !vc09sameOutcome(q.base, r)
	}
	for i := range v {
		if v[i].s == q.toks[i].s {
			continue
		}
		old := v[i].s
		v[i].s = q.toks[i].s
		if _, _, d := differs(); !d {
			v[i].s = old
		}
	}
	kinds := map[string]bool{}
	for i := range v {
		if v[i].s != q.toks[i].s {
			kinds[strings.ToLower(q.toks[i].s)] = true
		}
	}
	text, got, _ = differs()
	cat := "keyword-case-combination"
	if len(kinds) == 1 {
		for k := range kinds {
			cat = "keyword-case-" + k
		}
	}
	a.fail(cat, text, vc09Describe(q, text, got))
}

var vc09RandomWs = []string{" ", "\t", "\n", "\r", "  ", " \t", "\n\n", "\r\n", "\t ", " \n "}
var vc09ExhaustiveWs = []string{"", " ", "\t", "\n", "\r"}

func vc09CaseVariants(s string) []string {
	out := []string{}
	for m := 1; m < 1<<uint(len(s)); m++ {
		b := []byte(s)
		for i := range b {
			if m&(1<<uint(i)) != 0 {
				b[i] = b[i] - 'A' + 'a'
			}
		}
		out = append(out, string(b))
	}
	return out
}

// vc09CheckSeq runs the whitespace and keyword-case variants of one token sequence.
func vc09CheckSeq(toks []vc09tok, df bool, rng *rand.Rand, allFillings, allCasings bool, a *vc09agg) (parsable bool) {
	n := len(toks)
	canon := vc09SpaceFill(n)
	q := &vc09Seq{toks: toks, df: df, text: vc09fill(toks, canon)}
	q.base = vc09parse(q.text, df)
	if q.base.panic != "" {
		a.evals++
		a.fail("panic", q.text, "the original panics: "+q.base.panic)
		return false
	}
	seen := map[string]bool{q.text: true}
	try := func(f []string) {
		text := vc09fill(toks, f)
		if seen[text] {
			return
		}
		seen[text] = true
		a.evals++
		if n >= 2 {
			a.distinct++
		}
		got := vc09parse(text, df)
		if !vc09sameOutcome(q.base, got) {
			vc09WsFail(q, f, got, a)
		}
	}
	uniform := func(gap, lead, trail string) []string {
		f := make([]string, n+1)
		for i := 1; i < n; i++ {
			f[i] = gap
		}
		f[0], f[n] = lead, trail
		return f
	}
	try(uniform("\t", "", ""))
	try(uniform("\n", "", ""))
	try(uniform("\r\n", "", ""))
	try(uniform("  ", "", ""))
	tight := uniform("", "", "")
	for i := 1; i < n; i++ {
		if vc09needSpace(toks[i-1], toks[i]) {
			tight[i] = " "
		}
	}
	try(tight)
	try(uniform(" ", " ", ""))
	try(uniform(" ", "", " "))
	try(uniform(" ", "\n\t", "\t\n"))
	for k := 0; k < 2; k++ {
		f := make([]string, n+1)
		for i := range f {
			f[i] = vc09RandomWs[rng.Intn(len(vc09RandomWs))]
			if (i == 0 || i == n) && rng.Intn(2) == 0 {
				f[i] = ""
			}
			if i > 0 && i < n && !vc09needSpace(toks[i-1], toks[i]) && rng.Intn(4) == 0 {
				f[i] = ""
			}
		}
		try(f)
	}
	if allFillings {
		f := make([]string, n+1)
		var rec func(p int)
		rec = func(p int) {
			if p > n {
				try(append([]string{}, f...))
				return
			}
			for _, w := range vc09ExhaustiveWs {
				if w == "" && p > 0 && p < n && vc09needSpace(toks[p-1], toks[p]) {
					continue
				}
				f[p] = w
				rec(p + 1)
			}
		}
		rec(0)
	}
	// keyword case
	kw := []int{}
	for i, t := range toks {
		if t.k == 'k' {
			kw = append(kw, i)
		}
	}
	if len(kw) > 0 {
		tryCase := func(v []vc09tok) {
			text := vc09fill(v, canon)
			if seen[text] {
				return
			}
			seen[text] = true
			a.evals++
			a.distinct++
			got := vc09parse(text, df)
			if !vc09sameOutcome(q.base, got) {
				vc09CaseFail(q, v, got, a)
			}
		}
		with := func(f func(i int, s string) string) []vc09tok {
			v := append([]vc09tok{}, toks...)
			for _, i := range kw {
				v[i].s = f(i, v[i].s)
			}
			return v
		}
		tryCase(with(func(_ int, s string) string { return strings.ToLower(s) }))
		tryCase(with(func(_ int, s string) string { return s[:1] + strings.ToLower(s[1:]) }))
		tryCase(with(func(_ int, s string) string { return strings.ToLower(s[:1]) + s[1:] }))
		for _, kind := range []string{"AND", "OR", "NOT", "TO"} {
			tryCase(with(func(_ int, s string) string {
				if s == kind {
					return strings.ToLower(s)
				}
				return s
			}))
		}
		tryCase(with(func(_ int, s string) string { c := vc09CaseVariants(s); return c[rng.Intn(len(c))] }))
		if allCasings && len(kw) <= 2 {
			v := append([]vc09tok{}, toks...)
			var rec func(j int)
			rec = func(j int) {
				if j == len(kw) {
					tryCase(append([]vc09tok{}, v...))
					return
				}
				for _, c := range append([]string{toks[kw[j]].s}, vc09CaseVariants(toks[kw[j]].s)...) {
					v[kw[j]].s = c
					rec(j + 1)
				}
			}
			rec(0)
		}
	}
	return q.base.ok()
}

// ---- part B: redundant parentheses --------------------------------------------

type vc09Slot struct {
	idx  int
	flag uint8 // vc09dParen1 or vc09dValue
	name string
}

func vc09Slots(n *vc09node) []vc09Slot {
	var out []vc09Slot
	vc09walk(n, func(idx int, x, parent *vc09node, side int) {
		switch {
		case parent == nil:
			out = append(out, vc09Slot{idx, vc09dParen1, "whole-query"})
		case parent.r == nil:
			out = append(out, vc09Slot{idx, vc09dParen1, "operand-of-" + vc09kindName[parent.kind]})
		case side == 1:
			out = append(out, vc09Slot{idx, vc09dParen1, "left-operand-of-" + vc09kindName[parent.kind]})
		default:
			out = append(out, vc09Slot{idx, vc09dParen1, "right-operand-of-" + vc09kindName[parent.kind]})
		}
		if x.kind == vc09Leaf && x.vs >= 0 {
			out = append(out, vc09Slot{idx, vc09dValue, "value-of-" + x.form})
		}
		if x.kind == vc09Leaf && x.form == "list" {
			out = append(out, vc09Slot{idx, vc09dElems, "operands-of-or-in-value-list"})
		}
	})
	return out
}

func vc09CheckParens(n *vc09node, rng *rand.Rand, allSubsets bool, nRandom int, a *vc09agg, wantSample bool) {
	orig := vc09join(vc09print(n, 0, nil), 0)
	var base [2]vc09res
	base[0], base[1] = vc09parse(orig, false), vc09parse(orig, true)
	if base[0].panic != "" {
		a.evals++
		a.fail("panic", orig, "the original panics: "+base[0].panic)
		return
	}
	slots := vc09Slots(n)
	k := len(slots)
	decor := make([]uint8, n.nodes)
	single := map[int]bool{} // slots failing on their own
	eval := func(set []int, double bool, d int) (string, vc09res, bool) {
		for i := range decor {
			decor[i] = 0
		}
		for _, s := range set {
			f := slots[s].flag
			if double && f == vc09dParen1 {
				f = vc09dParen2
			}
			decor[slots[s].idx] |= f
		}
		text := vc09join(vc09print(n, 0, decor), 0)
		a.evals++
		a.distinct++
		got := vc09parse(text, d == 1)
		return text, got, got.ok() && vc09equal(got.e, base[d].e)
	}
	describe := func(got vc09res, d int) string {
		opt := ""
		if d == 1 {
			opt = " (both parsed with a default field)"
		}
		return fmt.Sprintf("original %s gives %s, with the redundant parentheses: %s%s", strconv.Quote(orig), base[d].String(), got.String(), opt)
	}
	for d := 0; d < 2; d++ {
		if !base[d].ok() {
			continue // the statement only speaks about originals that parse
		}
		for s := 0; s < k; s++ {
			text, got, ok := eval([]int{s}, false, d)
			if wantSample && d == 0 && s == k-1 {
				a.sample(text)
			}
			if !ok {
				cat := "redundant-parens-" + slots[s].name
				if got.panic != "" {
					cat = "panic"
				}
				if d == 1 && !single[s] && base[0].ok() {
					cat += "-with-default-field"
				}
				single[s] = true
				a.fail(cat, text, describe(got, d))
				continue
			}
			if slots[s].flag == vc09dParen1 {
				if text, got, ok := eval([]int{s}, true, d); !ok {
					cat := "redundant-parens-double-" + slots[s].name
					if got.panic != "" {
						cat = "panic"
					}
					a.fail(cat, text, describe(got, d))
				}
			}
		}
		if d == 1 {
			continue // combinations without default field only
		}
		combo := func(set []int) {
			if len(set) < 2 {
				return
			}
			text, got, ok := eval(set, false, d)
			if ok {
				return
			}
			for _, s := range set {
				if single[s] {
					a.fail("redundant-parens-"+slots[s].name, "", "")
					return
				}
			}
			cat := "redundant-parens-combination"
			if got.panic != "" {
				cat = "panic"
			}
			a.fail(cat, text, describe(got, d))
		}
		if allSubsets && k <= 8 {
			for m := 1; m < 1<<uint(k); m++ {
				set := []int{}
				for s := 0; s < k; s++ {
					if m&(1<<uint(s)) != 0 {
						set = append(set, s)
					}
				}
				combo(set)
			}
		} else {
			all := make([]int, k)
			for s := range all {
				all[s] = s
			}
			combo(all)
			for r := 0; r < nRandom; r++ {
				set := []int{}
				for s := 0; s < k; s++ {
					if rng.Intn(3) == 0 {
						set = append(set, s)
					}
				}
				combo(set)
			}
		}
	}
}

func TestVerifStandin_C09(t *testing.T) {
	env := vc09getenv()
	total := vc09newAgg()
	leaves := vc09leaves()
	seqLen, fillLen, core, nSample, sampleDepth := 4, 2, 6, 20000, 2
	if env.thorough {
		seqLen, fillLen, core, nSample, sampleDepth = 5, 3, 14, 300000, 3
	}
	if s := os.Getenv("VERIF_C09_SEQLEN"); s != "" {
		seqLen, _ = strconv.Atoi(s)
	}
	A := len(vc09Alphabet)

	// part A: all token sequences up to seqLen; one work unit per (length, first two tokens)
	var seqs, parsable int64
	for n := 1; n <= seqLen; n++ {
		nn := n
		units, rest := 1, 1
		for i := 0; i < nn; i++ {
			if i < 2 {
				units *= A
			} else {
				rest *= A
			}
		}
		vc09parallel(env, total, units, func(u int, a *vc09agg) {
			rng := rand.New(rand.NewSource(env.seed*7919 + int64(nn)*1000003 + int64(u)))
			toks := make([]vc09tok, nn)
			var cnt, ok int64
			for r := 0; r < rest; r++ {
				x := u
				for i := 0; i < nn && i < 2; i++ {
					toks[i] = vc09Alphabet[x%A]
					x /= A
				}
				y := r
				for i := 2; i < nn; i++ {
					toks[i] = vc09Alphabet[y%A]
					y /= A
				}
				cnt++
				df := (u+r)%3 == 0
				if vc09CheckSeq(toks, df, rng, nn <= fillLen, nn <= fillLen+1, a) {
					ok++
					if ok == 1 && u%97 == 5 {
						a.sample(vc09fill(toks, vc09SpaceFill(nn)))
					}
				}
			}
			atomic.AddInt64(&seqs, cnt)
			atomic.AddInt64(&parsable, ok)
		})
	}

	// part B: redundant parentheses on trees
	t1 := vc09nextLevel(leaves, leaves)
	var ptrees int64
	vc09parallel(env, total, len(t1), func(u int, a *vc09agg) {
		rng := rand.New(rand.NewSource(env.seed*104729 + int64(u)))
		vc09CheckParens(t1[u], rng, true, 0, a, u%499 == 0)
		atomic.AddInt64(&ptrees, 1)
	})
	t1core := vc09nextLevel(leaves[:core], leaves[:core])
	vc09parallel(env, total, len(t1core), func(u int, a *vc09agg) {
		rng := rand.New(rand.NewSource(env.seed*1299709 + int64(u)))
		x := t1core[u]
		cnt := int64(0)
		if x.depth == 1 {
			for _, op := range vc09unops {
				vc09CheckParens(vc09un(op.kind, op.arg, x), rng, true, 0, a, false)
				cnt++
			}
		}
		for yi, y := range t1core {
			if x.depth == 0 && y.depth == 0 {
				continue
			}
			for _, k := range []int{vc09And, vc09Or} {
				vc09CheckParens(vc09bin(k, x, y), rng, false, 8, a, u%17 == 3 && yi == (u*7)%len(t1core))
				cnt++
			}
		}
		atomic.AddInt64(&ptrees, cnt)
	})

	// part C: token sequences of printed trees and mutations of them
	var cseqs, cparsable int64
	vc09parallel(env, total, len(t1), func(u int, a *vc09agg) {
		rng := rand.New(rand.NewSource(env.seed*15485863 + int64(u)))
		toks := vc09print(t1[u], u%3, nil)
		if vc09CheckSeq(toks, u%2 == 0, rng, false, true, a) {
			atomic.AddInt64(&cparsable, 1)
		}
		atomic.AddInt64(&cseqs, 1)
	})
	const chunk = 500
	vc09parallel(env, total, (nSample+chunk-1)/chunk, func(u int, a *vc09agg) {
		rng := rand.New(rand.NewSource(env.seed*32452843 + int64(u)))
		var cnt, ok int64
		for i := 0; i < chunk && u*chunk+i < nSample; i++ {
			var n *vc09node
			for try := 0; try < 20; try++ {
				n = vc09randTree(rng, 1+rng.Intn(sampleDepth), t1)
				if n.depth >= 2 && n.nodes <= 40 {
					break
				}
			}
			toks := vc09print(n, rng.Intn(3), nil)
			switch rng.Intn(4) { // half of them mutated into (mostly) non-queries
			case 0:
				p := rng.Intn(len(toks))
				toks = append(append([]vc09tok{}, toks[:p]...), toks[p+1:]...)
			case 1:
				p := rng.Intn(len(toks) + 1)
				ins := vc09Alphabet[rng.Intn(A)]
				toks = append(append(append([]vc09tok{}, toks[:p]...), ins), toks[p:]...)
			}
			if len(toks) == 0 {
				continue
			}
			cnt++
			if vc09CheckSeq(toks, rng.Intn(2) == 0, rng, false, false, a) {
				ok++
			}
			if i == 0 && u%9 == 0 {
				a.sample(vc09fill(toks, vc09SpaceFill(len(toks))))
			}
			if i%10 == 0 && n.nodes <= 25 {
				vc09CheckParens(n, rng, false, 6, a, false)
				atomic.AddInt64(&ptrees, 1)
			}
		}
		atomic.AddInt64(&cseqs, cnt)
		atomic.AddInt64(&cparsable, ok)
	})

	bound := fmt.Sprintf("part A: all %d token sequences of length <= %d over a %d-token alphabet with every token type (%d of them parse), original = single-spaced upper-case text, one third also with a default field; "+
		"variants: every gap tab / newline / CRLF / two spaces, no whitespace wherever a one-character symbol keeps the tokens apart, leading and trailing whitespace, 2 seeded random mixed fillings, "+
		"all fillings over {none, space, tab, newline, CR} for length <= %d; keywords lower-case, Title-case, lOWER-first, one kind at a time, random, and every casing of every occurrence for length <= %d (<= 2 keywords); same outcome required (same tree or both rejected). "+
		"part B: %d expression trees (all of depth <= 1 over the %d-leaf alphabet of C05, all of depth 2 over its first %d leaves, every 10th sampled tree), printed with explicit operators and minimal parentheses; redundant pairs around the whole query, "+
		"around each operand of AND/OR/NOT/+/-/~/^ (also the elements of a value list), around each field's value: every placement alone (one pair, two pairs; without and with a default field), all subsets for depth <= 1 and unary roots, else all together + seeded random subsets; if the original parses the variant must give the identical tree. "+
		"part C: the token sequences of the %d depth<=1 trees and of %d seeded random trees of depth 2..%d (half of them with one token deleted or inserted; %d parse), whitespace and case variants as in part A. "+
		"distinct_nontrivial counts variant texts (distinct per original by construction) of originals with at least two tokens.",
		seqs, seqLen, A, parsable, fillLen, fillLen+1, ptrees, len(leaves), core, len(t1), nSample, sampleDepth+1, cparsable)
	_ = cseqs
	vc09finish(t, env, "C09", bound, total)
}

// ---------------------------------------------------------------------------
// Common core.  Every stand-in file is self-contained (it can be injected on its
// own) and carries its own copy of this section under its own identifier prefix,
// so that several stand-ins can also be compiled into one package.
// ---------------------------------------------------------------------------

// vc09DefaultField is a field name used nowhere else in the generated queries.
const vc09DefaultField = "dflt"

// ---- tokens and layout ----------------------------------------------------

// vc09tok is one token of query text as the printer emits it.
type vc09tok struct {
	s  string
	k  byte // 'w' word/number/wildcard, 'k' keyword, 'q' quoted string or regexp, 's' one-character symbol, 'm' the minus operator
	sp bool // canonical layout puts a space before this token (juxtaposition gap)
}

func vc09tw(s string) vc09tok { return vc09tok{s: s, k: 'w'} }
func vc09tk(s string) vc09tok { return vc09tok{s: s, k: 'k'} }
func vc09tq(s string) vc09tok { return vc09tok{s: s, k: 'q'} }
func vc09ts(s string) vc09tok {
	if s == "-" {
		return vc09tok{s: s, k: 'm'}
	}
	return vc09tok{s: s, k: 's'}
}

// vc09needSpace says whether whitespace between a and b is mandatory to keep them
// two tokens (conservative: only a gap with a one-character symbol on one side is
// ever written without whitespace; '-' glues to a preceding word and to a
// following digit).
func vc09needSpace(a, b vc09tok) bool {
	wordish := func(t vc09tok) bool { return t.k == 'w' || t.k == 'k' || t.k == 'q' }
	if wordish(a) && (wordish(b) || b.k == 'm') {
		return true
	}
	if a.k == 'm' && wordish(b) && b.s != "" && b.s[0] >= '0' && b.s[0] <= '9' {
		return true
	}
	return false
}

// vc09canonFill is the canonical layout: single spaces around keywords and in
// juxtaposition gaps, nothing around symbols, no leading/trailing whitespace.
// fill[i] is the text before token i, fill[len(toks)] the trailing text.
func vc09canonFill(toks []vc09tok) []string {
	fill := make([]string, len(toks)+1)
	for i := 1; i < len(toks); i++ {
		a, b := toks[i-1], toks[i]
		if a.k == 'k' || b.k == 'k' || b.sp || vc09needSpace(a, b) {
			fill[i] = " "
		}
	}
	return fill
}

// vc09tightFill has whitespace only where it is mandatory.
func vc09tightFill(toks []vc09tok) []string {
	fill := make([]string, len(toks)+1)
	for i := 1; i < len(toks); i++ {
		if vc09needSpace(toks[i-1], toks[i]) {
			fill[i] = " "
		}
	}
	return fill
}

var vc09looseCycle = []string{"  ", "\t", "\n", " \t ", "\r\n", " "}

// vc09looseFill puts (varying) whitespace into every gap, and before and after.
func vc09looseFill(toks []vc09tok) []string {
	fill := make([]string, len(toks)+1)
	for i := range fill {
		fill[i] = vc09looseCycle[i%len(vc09looseCycle)]
	}
	return fill
}

func vc09fill(toks []vc09tok, fill []string) string {
	var sb strings.Builder
	for i, t := range toks {
		sb.WriteString(fill[i])
		sb.WriteString(t.s)
	}
	sb.WriteString(fill[len(toks)])
	return sb.String()
}

// vc09join lays the tokens out: mode 0 canonical, 1 tight, 2 loose.
func vc09join(toks []vc09tok, mode int) string {
	switch mode {
	case 1:
		return vc09fill(toks, vc09tightFill(toks))
	case 2:
		return vc09fill(toks, vc09looseFill(toks))
	}
	return vc09fill(toks, vc09canonFill(toks))
}

// ---- expression trees of the property ---------------------------------------

const (
	vc09Leaf = iota
	vc09Or
	vc09And
	vc09Not
	vc09Boost
	vc09Fuzzy
	vc09MustNot
	vc09Must
)

// The documented table: OR < AND < NOT < ^ < ~ < - < + (< field:value and atoms).
var vc09precOf = [...]int{vc09Leaf: 9, vc09Or: 1, vc09And: 2, vc09Not: 3, vc09Boost: 4, vc09Fuzzy: 5, vc09MustNot: 6, vc09Must: 7}

var vc09kindName = [...]string{vc09Leaf: "term", vc09Or: "or", vc09And: "and", vc09Not: "not", vc09Boost: "boost", vc09Fuzzy: "fuzzy", vc09MustNot: "mustnot", vc09Must: "must"}

type vc09node struct {
	kind int
	l, r *vc09node
	arg  string // boost power / fuzzy distance as written; "" = left implicit
	// leaves
	name   string // unique, e.g. "eq-wild"
	form   string // bare, eq, cmp, range, list
	toks   []vc09tok
	vs, ve int // token span [vs,ve) of the field's value, vs<0: none
	mk     func() *expr.Expression
	// bookkeeping
	depth  int
	nodes  int
	status []string // per check variant, filled for shared (materialised) nodes: "" = holds, else failure category
}

func vc09un(kind int, arg string, x *vc09node) *vc09node {
	return &vc09node{kind: kind, arg: arg, l: x, depth: x.depth + 1, nodes: x.nodes + 1}
}

func vc09bin(kind int, a, b *vc09node) *vc09node {
	d := a.depth
	if b.depth > d {
		d = b.depth
	}
	return &vc09node{kind: kind, l: a, r: b, depth: d + 1, nodes: a.nodes + b.nodes + 1}
}

// vc09opName is the operator name used in category tags.
func vc09opName(n *vc09node) string {
	s := vc09kindName[n.kind]
	if n.kind == vc09Leaf {
		return n.name
	}
	if (n.kind == vc09Boost || n.kind == vc09Fuzzy) && n.arg == "" {
		s += "-default"
	} else if (n.kind == vc09Boost || n.kind == vc09Fuzzy) && n.arg != "2" {
		s += "-fractional"
	}
	return s
}

// vc09build is the oracle: the tree the text denotes, built with the public
// constructors only.
func vc09build(n *vc09node) *expr.Expression {
	switch n.kind {
	case vc09Leaf:
		return n.mk()
	case vc09Or:
		return expr.OR(vc09build(n.l), vc09build(n.r))
	case vc09And:
		return expr.AND(vc09build(n.l), vc09build(n.r))
	case vc09Not:
		return expr.NOT(vc09build(n.l))
	case vc09Must:
		return expr.MUST(vc09build(n.l))
	case vc09MustNot:
		return expr.MUSTNOT(vc09build(n.l))
	case vc09Boost:
		p := 1.0
		if n.arg != "" {
			p, _ = strconv.ParseFloat(n.arg, 64)
		}
		return expr.BOOST(vc09build(n.l), p)
	case vc09Fuzzy:
		d := 1
		if n.arg != "" {
			d, _ = strconv.Atoi(n.arg)
		}
		return expr.FUZZY(vc09build(n.l), d)
	}
	return nil
}

// decorations of a node, addressed by its preorder index in the tree
const (
	vc09dJuxt   = 1  // AND node: write no operator, only whitespace
	vc09dParen1 = 2  // one redundant pair of parentheses around the node
	vc09dParen2 = 4  // two more redundant pairs
	vc09dValue  = 8  // leaf: redundant parentheses around the field's value
	vc09dElems  = 16 // value-list leaf: redundant parentheses around every element (the operands of its ORs)
)

type vc09printer struct {
	pm       int     // 0 parentheses exactly where the table requires them, 1 also around every compound operand, 2 around every operand and the whole query
	decor    []uint8 // by preorder index, may be nil
	idx      int
	out      []vc09tok
	juxtNext bool
}

func (p *vc09printer) emit(t vc09tok) {
	if p.juxtNext {
		t.sp = true
		p.juxtNext = false
	}
	p.out = append(p.out, t)
}

// node prints n where an operand of at least precedence minPrec is required.
// Binary operators are left-associative: the right operand of an operator of
// precedence p must have precedence > p, the left one >= p.  A prefix or postfix
// operator of precedence p takes an operand of precedence >= p.
func (p *vc09printer) node(n *vc09node, minPrec int, operand bool) {
	var d uint8
	if p.decor != nil && p.idx < len(p.decor) {
		d = p.decor[p.idx]
	}
	p.idx++
	pairs := 0
	if vc09precOf[n.kind] < minPrec {
		pairs = 1
	}
	if pairs == 0 {
		if operand && (p.pm == 2 || (p.pm == 1 && n.kind != vc09Leaf)) {
			pairs = 1
		}
		if !operand && p.pm == 2 {
			pairs = 1
		}
	}
	if d&vc09dParen1 != 0 {
		pairs++
	}
	if d&vc09dParen2 != 0 {
		pairs += 2
	}
	for i := 0; i < pairs; i++ {
		p.emit(vc09ts("("))
	}
	pr := vc09precOf[n.kind]
	switch n.kind {
	case vc09Leaf:
		for i, t := range n.toks {
			if d&vc09dValue != 0 && i == n.vs {
				p.emit(vc09ts("("))
			}
			if elem := d&vc09dElems != 0 && n.form == "list" && i > 2 && i < len(n.toks)-1 && t.k != 'k'; elem {
				p.emit(vc09ts("("))
				p.emit(t)
				p.emit(vc09ts(")"))
			} else {
				p.emit(t)
			}
			if d&vc09dValue != 0 && i == n.ve-1 {
				p.emit(vc09ts(")"))
			}
		}
	case vc09Or, vc09And:
		p.node(n.l, pr, true)
		if n.kind == vc09And && d&vc09dJuxt != 0 {
			p.juxtNext = true
		} else if n.kind == vc09And {
			p.emit(vc09tk("AND"))
		} else {
			p.emit(vc09tk("OR"))
		}
		p.node(n.r, pr+1, true)
	case vc09Not:
		p.emit(vc09tk("NOT"))
		p.node(n.l, pr, true)
	case vc09Must:
		p.emit(vc09ts("+"))
		p.node(n.l, pr, true)
	case vc09MustNot:
		p.emit(vc09ts("-"))
		p.node(n.l, pr, true)
	case vc09Boost, vc09Fuzzy:
		p.node(n.l, pr, true)
		if n.kind == vc09Boost {
			p.emit(vc09ts("^"))
		} else {
			p.emit(vc09ts("~"))
		}
		if n.arg != "" {
			p.emit(vc09tw(n.arg))
		}
	}
	for i := 0; i < pairs; i++ {
		p.emit(vc09ts(")"))
	}
}

func vc09print(n *vc09node, pm int, decor []uint8) []vc09tok {
	p := vc09printer{pm: pm, decor: decor, out: make([]vc09tok, 0, 4*n.nodes+8)}
	p.node(n, 0, false)
	return p.out
}

// vc09walk visits the nodes in the printer's preorder; side: 0 root, 1 left/only operand, 2 right operand.
func vc09walk(n *vc09node, f func(idx int, n, parent *vc09node, side int)) {
	idx := 0
	var rec func(n, parent *vc09node, side int)
	rec = func(n, parent *vc09node, side int) {
		f(idx, n, parent, side)
		idx++
		if n.l != nil {
			rec(n.l, n, 1)
		}
		if n.r != nil {
			rec(n.r, n, 2)
		}
	}
	rec(n, nil, 0)
}

// ---- leaf alphabet ----------------------------------------------------------

func vc09leafBare(name string, t vc09tok, mk func() *expr.Expression) *vc09node {
	return &vc09node{kind: vc09Leaf, name: "bare-" + name, form: "bare", toks: []vc09tok{t}, vs: -1, ve: -1, mk: mk, nodes: 1}
}

func vc09leafEq(name string, field, val vc09tok, mk func() *expr.Expression) *vc09node {
	return &vc09node{kind: vc09Leaf, name: "eq-" + name, form: "eq", toks: []vc09tok{field, vc09ts(":"), val}, vs: 2, ve: 3, mk: mk, nodes: 1}
}

func vc09leafCmp(name string, op string, val vc09tok, mk func() *expr.Expression) *vc09node {
	toks := []vc09tok{vc09tw("a"), vc09ts(":")}
	for _, c := range op {
		toks = append(toks, vc09ts(string(c)))
	}
	toks = append(toks, val)
	return &vc09node{kind: vc09Leaf, name: "cmp-" + name, form: "cmp", toks: toks, vs: len(toks) - 1, ve: len(toks), mk: mk, nodes: 1}
}

func vc09leafRange(name string, open string, lo, hi vc09tok, mk func() *expr.Expression) *vc09node {
	cl := "]"
	if open == "{" {
		cl = "}"
	}
	toks := []vc09tok{vc09tw("a"), vc09ts(":"), vc09ts(open), lo, vc09tk("TO"), hi, vc09ts(cl)}
	return &vc09node{kind: vc09Leaf, name: "range-" + name, form: "range", toks: toks, vs: 2, ve: 7, mk: mk, nodes: 1}
}

func vc09leafList(name string, vals []vc09tok, mk func() *expr.Expression) *vc09node {
	toks := []vc09tok{vc09tw("a"), vc09ts(":"), vc09ts("(")}
	for i, v := range vals {
		if i > 0 {
			toks = append(toks, vc09tk("OR"))
		}
		toks = append(toks, v)
	}
	toks = append(toks, vc09ts(")"))
	return &vc09node{kind: vc09Leaf, name: "list-" + name, form: "list", toks: toks, vs: 2, ve: len(toks), mk: mk, nodes: 1}
}

// vc09leaves returns the leaf alphabet: every leaf form (bare term, field:value,
// comparison, range, value list) and every value kind (word, quoted string, int,
// float, negative number, wildcard, regexp, escaped word).  The first `core`
// leaves of the result (ordered so that every form comes early) make up the
// reduced alphabets.
func vc09leaves() []*vc09node {
	L, W, R := expr.Lit, expr.WILD, expr.REGEXP
	col := func(s string) *expr.Expression { return expr.Lit(s) } // the constructors turn a string on the left of a field operator into a column
	ls := []*vc09node{
		// one of each form first
		vc09leafEq("word", vc09tw("a"), vc09tw("b"), func() *expr.Expression { return expr.Eq(col("a"), L("b")) }),
		vc09leafBare("word", vc09tw("foo"), func() *expr.Expression { return L("foo") }),
		vc09leafRange("incl-int", "[", vc09tw("1"), vc09tw("5"), func() *expr.Expression { return expr.Rang(col("a"), L(1), L(5), true) }),
		vc09leafCmp("ge-int", ">=", vc09tw("5"), func() *expr.Expression { return expr.GREATEREQ(col("a"), L(5)) }),
		vc09leafList("words", []vc09tok{vc09tw("foo"), vc09tw("bar")}, func() *expr.Expression { return expr.IN(col("a"), expr.LIST(L("foo"), L("bar"))) }),
		vc09leafBare("int", vc09tw("7"), func() *expr.Expression { return L(7) }),
		vc09leafEq("wild", vc09tw("a"), vc09tw("w*"), func() *expr.Expression { return expr.Eq(col("a"), W("w*")) }),
		vc09leafBare("quoted", vc09tq(`"q r"`), func() *expr.Expression { return L("q r") }),
		// 8 so far
		vc09leafRange("excl-open", "{", vc09tw("2"), vc09tw("*"), func() *expr.Expression { return expr.Rang(col("a"), L(2), W("*"), false) }),
		vc09leafBare("neg", vc09tw("-3"), func() *expr.Expression { return L(-3) }),
		vc09leafEq("quoted", vc09tw("c"), vc09tq(`"q r"`), func() *expr.Expression { return expr.Eq(col("c"), L("q r")) }),
		vc09leafCmp("lt-float", "<", vc09tw("1.5"), func() *expr.Expression { return expr.LESS(col("a"), L(1.5)) }),
		vc09leafBare("wild", vc09tw("w*"), func() *expr.Expression { return W("w*") }),
		vc09leafEq("regexp", vc09tw("a"), vc09tq(`/r.x/`), func() *expr.Expression { return expr.Eq(col("a"), R("/r.x/")) }),
		vc09leafList("ints3", []vc09tok{vc09tw("1"), vc09tw("2"), vc09tw("3")}, func() *expr.Expression { return expr.IN(col("a"), expr.LIST(L(1), L(2), L(3))) }),
		vc09leafBare("float", vc09tw("1.5"), func() *expr.Expression { return L(1.5) }),
		// 16 so far
		vc09leafEq("int", vc09tw("n"), vc09tw("7"), func() *expr.Expression { return expr.Eq(col("n"), L(7)) }),
		vc09leafCmp("gt-word", ">", vc09tw("foo"), func() *expr.Expression { return expr.GREATER(col("a"), L("foo")) }),
		vc09leafRange("incl-words", "[", vc09tw("foo"), vc09tw("zed"), func() *expr.Expression { return expr.Rang(col("a"), L("foo"), L("zed"), true) }),
		vc09leafBare("regexp", vc09tq(`/r.x/`), func() *expr.Expression { return R("/r.x/") }),
		vc09leafEq("quoted-field", vc09tq(`"x y"`), vc09tw("b"), func() *expr.Expression { return expr.Eq(col("x y"), L("b")) }),
		vc09leafCmp("le-neg", "<=", vc09tw("-3"), func() *expr.Expression { return expr.LESSEQ(col("a"), L(-3)) }),
		vc09leafBare("keywordish", vc09tw("andy"), func() *expr.Expression { return L("andy") }),
		vc09leafRange("excl-quoted", "{", vc09tq(`"ab"`), vc09tq(`"az"`), func() *expr.Expression { return expr.Rang(col("a"), L("ab"), L("az"), false) }),
		// 24 so far
		vc09leafEq("neg", vc09tw("a"), vc09tw("-3"), func() *expr.Expression { return expr.Eq(col("a"), L(-3)) }),
		vc09leafEq("float", vc09tw("a"), vc09tw("1.5"), func() *expr.Expression { return expr.Eq(col("a"), L(1.5)) }),
		vc09leafEq("keywordish", vc09tw("nota"), vc09tw("ORB"), func() *expr.Expression { return expr.Eq(col("nota"), L("ORB")) }),
		vc09leafEq("wild-q", vc09tw("f_1"), vc09tw("?x"), func() *expr.Expression { return expr.Eq(col("f_1"), W("?x")) }),
		vc09leafBare("escaped", vc09tw(`b\:c`), func() *expr.Expression { return L("b:c") }),
		vc09leafBare("quoted-ops", vc09tq(`"x OR (y"`), func() *expr.Expression { return L("x OR (y") }),
		vc09leafBare("wild-q", vc09tw("?x"), func() *expr.Expression { return W("?x") }),
		vc09leafCmp("gt-int", ">", vc09tw("5"), func() *expr.Expression { return expr.GREATER(col("a"), L(5)) }),
		vc09leafCmp("lt-int", "<", vc09tw("5"), func() *expr.Expression { return expr.LESS(col("a"), L(5)) }),
		vc09leafCmp("le-int", "<=", vc09tw("5"), func() *expr.Expression { return expr.LESSEQ(col("a"), L(5)) }),
		vc09leafCmp("ge-quoted", ">=", vc09tq(`"q r"`), func() *expr.Expression { return expr.GREATEREQ(col("a"), L("q r")) }),
		vc09leafRange("excl-int", "{", vc09tw("1"), vc09tw("5"), func() *expr.Expression { return expr.Rang(col("a"), L(1), L(5), false) }),
		vc09leafRange("incl-open-lo", "[", vc09tw("*"), vc09tw("5"), func() *expr.Expression { return expr.Rang(col("a"), W("*"), L(5), true) }),
		vc09leafRange("incl-float", "[", vc09tw("1.5"), vc09tw("2.5"), func() *expr.Expression { return expr.Rang(col("a"), L(1.5), L(2.5), true) }),
		vc09leafRange("incl-neg", "[", vc09tw("-5"), vc09tw("-1"), func() *expr.Expression { return expr.Rang(col("a"), L(-5), L(-1), true) }),
		vc09leafList("mixed", []vc09tok{vc09tq(`"q r"`), vc09tw("x"), vc09tw("1.5")}, func() *expr.Expression { return expr.IN(col("a"), expr.LIST(L("q r"), L("x"), L(1.5))) }),
	}
	return ls
}

// generic field:value leaves used to test whether a failure depends on the leaves at all
func vc09genericLeaves() []*vc09node {
	mk := func(f, v string) *vc09node {
		return vc09leafEq("generic", vc09tw(f), vc09tw(v), func() *expr.Expression { return expr.Eq(expr.Lit(f), expr.Lit(v)) })
	}
	return []*vc09node{mk("a", "b"), mk("c", "d"), mk("e", "f"), mk("g", "h"), mk("i", "j"), mk("k", "l"), mk("m", "n"), mk("o", "p")}
}

// vc09generic replaces the leaves of n by generic ones (cyclically).
func vc09generic(n *vc09node) *vc09node {
	g := vc09genericLeaves()
	i := 0
	var rec func(n *vc09node) *vc09node
	rec = func(n *vc09node) *vc09node {
		if n.kind == vc09Leaf {
			x := g[i%len(g)]
			i++
			return x
		}
		c := *n
		c.status = nil
		c.l = rec(n.l)
		if n.r != nil {
			c.r = rec(n.r)
		}
		return &c
	}
	return rec(n)
}

func vc09isGeneric(n *vc09node) bool { return n.kind == vc09Leaf && n.name == "eq-generic" }

// vc09replaceAt returns a copy of n in which the subtree at preorder index p is r.
func vc09replaceAt(n *vc09node, p int, r *vc09node) *vc09node {
	idx := 0
	var rec func(x *vc09node) *vc09node
	rec = func(x *vc09node) *vc09node {
		i := idx
		idx++
		if i == p {
			idx += x.nodes - 1
			return r
		}
		if x.kind == vc09Leaf {
			return x
		}
		c := *x
		c.status = nil
		c.l = rec(x.l)
		c.depth, c.nodes = c.l.depth+1, c.l.nodes+1
		if x.r != nil {
			c.r = rec(x.r)
			c.nodes += c.r.nodes
			if c.r.depth+1 > c.depth {
				c.depth = c.r.depth + 1
			}
		}
		return &c
	}
	return rec(n)
}

// vc09shrink reduces a failing tree to a locally minimal failing one: subtrees are
// replaced by plain field:value terms or by one of their own operands, boost
// powers and fuzzy distances are normalised to 2, as long as fails() stays true.
func vc09shrink(n *vc09node, fails func(*vc09node) bool) *vc09node {
	g := vc09genericLeaves()
	for step := 0; step < 300; step++ {
		type pos struct {
			idx int
			x   *vc09node
		}
		var list []pos
		vc09walk(n, func(idx int, x, _ *vc09node, _ int) { list = append(list, pos{idx, x}) })
		progressed := false
	search:
		for _, p := range list {
			var cands []*vc09node
			if p.x.kind != vc09Leaf {
				cands = append(cands, p.x.l)
				if p.x.r != nil {
					cands = append(cands, p.x.r)
				}
			}
			if !vc09isGeneric(p.x) {
				cands = append(cands, g[p.idx%len(g)])
			}
			if (p.x.kind == vc09Boost || p.x.kind == vc09Fuzzy) && p.x.arg != "2" {
				c := *p.x
				c.arg, c.status = "2", nil
				cands = append(cands, &c)
			}
			for _, c := range cands {
				if t := vc09replaceAt(n, p.idx, c); fails(t) {
					n, progressed = t, true
					break search
				}
			}
		}
		if !progressed {
			break
		}
	}
	return n
}

// vc09treeName renders a (small) tree as a category tag: leaves that were
// replaceable by a plain term are "term", operators are named, operands follow "of".
func vc09treeName(n *vc09node) string {
	switch {
	case n.kind == vc09Leaf:
		if vc09isGeneric(n) {
			return "term"
		}
		return n.name
	case n.r == nil:
		return vc09opName(n) + "-of-" + vc09treeName(n.l)
	}
	return vc09opName(n) + "-of-" + vc09treeName(n.l) + "-and-" + vc09treeName(n.r)
}

// vc09shape is the two-level operator skeleton with leaf forms (cache key for classifications).
func vc09shape(n *vc09node) string {
	one := func(c *vc09node) string {
		if c == nil {
			return ""
		}
		if c.kind == vc09Leaf {
			return c.form
		}
		return vc09opName(c)
	}
	if n.kind == vc09Leaf {
		return n.name
	}
	return vc09opName(n) + "(" + one(n.l) + "," + one(n.r) + ")"
}

type vc09unop struct {
	kind int
	arg  string
}

var vc09unops = []vc09unop{{vc09Not, ""}, {vc09Must, ""}, {vc09MustNot, ""}, {vc09Boost, ""}, {vc09Boost, "2"}, {vc09Boost, "1.5"}, {vc09Fuzzy, ""}, {vc09Fuzzy, "2"}}

// vc09nextLevel materialises leaves ∪ unary(prev) ∪ binary(prev × prev).
func vc09nextLevel(leaves, prev []*vc09node) []*vc09node {
	out := append([]*vc09node{}, leaves...)
	for _, u := range vc09unops {
		for _, x := range prev {
			out = append(out, vc09un(u.kind, u.arg, x))
		}
	}
	for _, k := range []int{vc09And, vc09Or} {
		for _, a := range prev {
			for _, b := range prev {
				out = append(out, vc09bin(k, a, b))
			}
		}
	}
	return out
}

// vc09randTree draws a tree of depth <= depth; leaves and (shared) small subtrees come from pool.
func vc09randTree(rng *rand.Rand, depth int, pool []*vc09node) *vc09node {
	if depth <= 0 || rng.Intn(8) == 0 {
		return pool[rng.Intn(len(pool))]
	}
	switch r := rng.Intn(10); {
	case r < 5:
		k := vc09And
		if rng.Intn(5) < 2 {
			k = vc09Or
		}
		return vc09bin(k, vc09randTree(rng, depth-1, pool), vc09randTree(rng, depth-1, pool))
	default:
		u := vc09unops[rng.Intn(len(vc09unops))]
		return vc09un(u.kind, u.arg, vc09randTree(rng, depth-1, pool))
	}
}

// ---- running the parser -------------------------------------------------------

type vc09res struct {
	e     *expr.Expression
	err   error
	panic string
}

func vc09parse(q string, df bool) (r vc09res) {
	defer func() {
		if p := recover(); p != nil {
			r = vc09res{panic: fmt.Sprint(p)}
		}
	}()
	if df {
		r.e, r.err = Parse(q, WithDefaultField(vc09DefaultField))
	} else {
		r.e, r.err = Parse(q)
	}
	if r.err == nil && r.e == nil {
		r.err = fmt.Errorf("nil expression with nil error")
	}
	return r
}

func (r vc09res) ok() bool { return r.panic == "" && r.err == nil }

// vc09sameOutcome: both rejected, or both accepted with deep-equal trees.
func vc09sameOutcome(a, b vc09res) bool {
	if a.panic != "" || b.panic != "" {
		return false
	}
	if (a.err == nil) != (b.err == nil) {
		return false
	}
	return a.err != nil || vc09equal(a.e, b.e)
}

// vc09equal is reflect.DeepEqual specialised to expression trees (DeepEqual's
// bookkeeping dominates the run time otherwise); whenever it says "different"
// the callers confirm with reflect.DeepEqual, which remains the definition.
func vc09equalFast(a, b any) bool {
	switch x := a.(type) {
	case nil:
		return b == nil
	case *expr.Expression:
		y, ok := b.(*expr.Expression)
		if !ok {
			return false
		}
		if x == nil || y == nil {
			return x == y
		}
		cx, cy := *x, *y
		cx.Left, cx.Right, cy.Left, cy.Right = nil, nil, nil, nil
		if cx != cy { // operator, boost power, fuzzy distance
			return false
		}
		return vc09equalFast(x.Left, y.Left) && vc09equalFast(x.Right, y.Right)
	case []*expr.Expression:
		y, ok := b.([]*expr.Expression)
		if !ok || (x == nil) != (y == nil) || len(x) != len(y) {
			return false
		}
		for i := range x {
			if !vc09equalFast(x[i], y[i]) {
				return false
			}
		}
		return true
	case *expr.RangeBoundary:
		y, ok := b.(*expr.RangeBoundary)
		if !ok {
			return false
		}
		if x == nil || y == nil {
			return x == y
		}
		return x.Inclusive == y.Inclusive && vc09equalFast(x.Min, y.Min) && vc09equalFast(x.Max, y.Max)
	case string, int, float64, bool, expr.Column:
		return a == b
	}
	return reflect.DeepEqual(a, b)
}

func vc09equal(a, b *expr.Expression) bool {
	return vc09equalFast(a, b) || reflect.DeepEqual(a, b)
}

func (r vc09res) String() string {
	switch {
	case r.panic != "":
		return "PANIC " + r.panic
	case r.err != nil:
		return "error: " + r.err.Error()
	}
	return vc09show(r.e)
}

// vc09show prints a tree unambiguously without relying on the library's printers.
func vc09show(x any) (s string) {
	defer func() {
		if p := recover(); p != nil {
			s = fmt.Sprintf("<unprintable: %v>", p)
		}
	}()
	switch v := x.(type) {
	case nil:
		return "nil"
	case *expr.Expression:
		if v == nil {
			return "nil-expr"
		}
		op := v.Op.String()
		if op == "" {
			op = fmt.Sprintf("OP%d", int(v.Op))
		}
		extra := ""
		rv := reflect.ValueOf(v).Elem()
		if v.Op == expr.Boost {
			extra = fmt.Sprintf("^%v", rv.FieldByName("boostPower").Float())
		}
		if v.Op == expr.Fuzzy {
			extra = fmt.Sprintf("~%v", rv.FieldByName("fuzzyDistance").Int())
		}
		if v.Right == nil {
			return op + extra + "(" + vc09show(v.Left) + ")"
		}
		return op + extra + "(" + vc09show(v.Left) + ", " + vc09show(v.Right) + ")"
	case []*expr.Expression:
		parts := make([]string, len(v))
		for i, e := range v {
			parts[i] = vc09show(e)
		}
		return "[" + strings.Join(parts, ", ") + "]"
	case *expr.RangeBoundary:
		if v == nil {
			return "nil-boundary"
		}
		return fmt.Sprintf("{min %s, max %s, inclusive %v}", vc09show(v.Min), vc09show(v.Max), v.Inclusive)
	case expr.Column:
		return "col:" + strconv.Quote(string(v))
	case string:
		return strconv.Quote(v)
	}
	return fmt.Sprintf("%T:%v", x, x)
}

// vc09erase removes every `dflt:` scoping from a tree (copying, never mutating).
func vc09erase(x any) any {
	switch v := x.(type) {
	case *expr.Expression:
		if v == nil {
			return v
		}
		if v.Op == expr.Equals || v.Op == expr.Like {
			if l, ok := v.Left.(*expr.Expression); ok && l != nil && l.Op == expr.Literal {
				if c, ok := l.Left.(expr.Column); ok && string(c) == vc09DefaultField {
					return vc09erase(v.Right)
				}
			}
		}
		c := *v
		c.Left = vc09erase(v.Left)
		c.Right = vc09erase(v.Right)
		return &c
	case []*expr.Expression:
		out := make([]*expr.Expression, len(v))
		for i, e := range v {
			out[i], _ = vc09erase(e).(*expr.Expression)
		}
		return out
	case *expr.RangeBoundary:
		if v == nil {
			return v
		}
		c := *v
		c.Min = vc09erase(v.Min)
		c.Max = vc09erase(v.Max)
		return &c
	}
	return x
}

func vc09eraseRes(r vc09res) vc09res {
	if r.ok() {
		defer func() { recover() }()
		if e, ok := vc09erase(r.e).(*expr.Expression); ok {
			r.e = e
		}
	}
	return r
}

func vc09hash(s string) uint64 {
	h := fnv.New64a()
	h.Write([]byte(s))
	return h.Sum64()
}

// ---- aggregation, report ------------------------------------------------------

type vc09msg struct {
	input string
	text  string
}

type vc09cat struct {
	n    int64
	best []vc09msg // the (at most 3) smallest inputs
}

type vc09agg struct {
	evals    int64
	distinct int64
	skipped  int64
	cats     map[string]*vc09cat
	samples  []string
}

func vc09newAgg() *vc09agg { return &vc09agg{cats: map[string]*vc09cat{}} }

func vc09msgLess(a, b vc09msg) bool {
	if len(a.input) != len(b.input) {
		return len(a.input) < len(b.input)
	}
	if a.input != b.input {
		return a.input < b.input
	}
	return a.text < b.text
}

func (c *vc09cat) add(m vc09msg) {
	for i, o := range c.best {
		if o.input == m.input { // one message per input, the shorter one
			if len(m.text) < len(o.text) || (len(m.text) == len(o.text) && m.text < o.text) {
				c.best[i] = m
			}
			return
		}
	}
	c.best = append(c.best, m)
	sort.Slice(c.best, func(i, j int) bool { return vc09msgLess(c.best[i], c.best[j]) })
	if len(c.best) > 3 {
		c.best = c.best[:3]
	}
}

// fail counts one failing evaluation under cat; input/detail are recorded as a
// candidate message unless input is empty (failure attributed to a smaller input).
func (a *vc09agg) fail(cat, input, detail string) {
	c := a.cats[cat]
	if c == nil {
		c = &vc09cat{}
		a.cats[cat] = c
	}
	c.n++
	if input != "" || detail != "" {
		if len(detail) > 420 {
			detail = detail[:420] + "..."
		}
		c.add(vc09msg{input: input, text: fmt.Sprintf("[%s] %s : %s", cat, strconv.Quote(input), detail)})
	}
}

func (a *vc09agg) sample(s string) {
	if len(a.samples) < 4 {
		a.samples = append(a.samples, strconv.Quote(s))
	}
}

func (a *vc09agg) merge(b *vc09agg) {
	a.evals += b.evals
	a.distinct += b.distinct
	a.skipped += b.skipped
	for k, c := range b.cats {
		d := a.cats[k]
		if d == nil {
			d = &vc09cat{}
			a.cats[k] = d
		}
		d.n += c.n
		for _, m := range c.best {
			d.add(m)
		}
	}
	a.samples = append(a.samples, b.samples...)
}

type vc09report struct {
	Property   string           `json:"property"`
	Tier       string           `json:"tier"`
	Seed       int64            `json:"seed"`
	Evals      int64            `json:"evaluations"`
	Distinct   int64            `json:"distinct_nontrivial"`
	Bound      string           `json:"bound"`
	FailCount  int64            `json:"failure_count"`
	ByCategory map[string]int64 `json:"by_category"`
	Failures   []string         `json:"failures"`
	Samples    []string         `json:"samples"`
}

type vc09env struct {
	tier     string
	thorough bool
	seed     int64
	report   string
	deadline time.Time
	expired  int32
	oldGC    int
	oldLimit int64
}

func vc09getenv() *vc09env {
	e := &vc09env{tier: "quick", seed: 1, report: os.Getenv("VERIF_REPORT")}
	if os.Getenv("VERIF_TIER") == "thorough" {
		e.tier, e.thorough = "thorough", true
	}
	if s, err := strconv.ParseInt(os.Getenv("VERIF_SEED"), 10, 64); err == nil {
		e.seed = s
	}
	// the parser allocates heavily and the live heap is tiny: without this the
	// collector runs continuously and the 16 workers mostly wait for it
	e.oldGC = debug.SetGCPercent(-1)
	e.oldLimit = debug.SetMemoryLimit(3 << 30)
	// safety net only (go test itself gives up after 10 minutes): the domains are sized
	// for about 60 CPU-seconds (quick) and 25 CPU-minutes (thorough)
	if e.thorough {
		e.deadline = time.Now().Add(8 * time.Minute)
	} else {
		e.deadline = time.Now().Add(90 * time.Second)
	}
	return e
}

func (e *vc09env) timeUp() bool {
	if atomic.LoadInt32(&e.expired) != 0 {
		return true
	}
	if time.Now().After(e.deadline) {
		atomic.StoreInt32(&e.expired, 1)
		return true
	}
	return false
}

// vc09parallel runs fn(unit) for unit in [0,n) on all cores; every unit gets its
// own aggregate and the aggregates are merged in unit order (deterministic).
func vc09parallel(env *vc09env, total *vc09agg, n int, fn func(unit int, a *vc09agg)) {
	if n <= 0 {
		return
	}
	workers := runtime.NumCPU()
	if workers > n {
		workers = n
	}
	aggs := make([]*vc09agg, workers)
	var next int64 = -1
	var wg sync.WaitGroup
	for w := 0; w < workers; w++ {
		aggs[w] = vc09newAgg()
		wg.Add(1)
		go func(a *vc09agg) {
			defer wg.Done()
			for {
				u := int(atomic.AddInt64(&next, 1))
				if u >= n {
					return
				}
				if env.timeUp() {
					a.skipped++
					continue
				}
				func() {
					defer func() {
						if p := recover(); p != nil {
							a.fail("harness-panic", fmt.Sprintf("unit %d", u), fmt.Sprint(p))
						}
					}()
					fn(u, a)
				}()
			}
		}(aggs[w])
	}
	wg.Wait()
	for _, a := range aggs {
		// samples: keep deterministic order irrespective of scheduling
		sort.Strings(a.samples)
		total.merge(a)
	}
	sort.Strings(total.samples)
}

func vc09finish(t *testing.T, env *vc09env, property, bound string, total *vc09agg) {
	debug.SetGCPercent(env.oldGC)
	debug.SetMemoryLimit(env.oldLimit)
	rep := vc09report{Property: property, Tier: env.tier, Seed: env.seed, Evals: total.evals, Distinct: total.distinct,
		Bound: bound, ByCategory: map[string]int64{}, Failures: []string{}, Samples: []string{}}
	if total.skipped > 0 {
		rep.Bound += fmt.Sprintf(" -- TRUNCATED: %d work units skipped because the time budget ran out", total.skipped)
	}
	names := []string{}
	for k, c := range total.cats {
		rep.ByCategory[k] = c.n
		rep.FailCount += c.n
		names = append(names, k)
	}
	sort.Strings(names)
	for round := 0; round < 3; round++ {
		for _, k := range names {
			if b := total.cats[k].best; round < len(b) && len(rep.Failures) < 25 {
				rep.Failures = append(rep.Failures, b[round].text)
			}
		}
	}
	sort.Strings(rep.Failures)
	if len(total.samples) > 8 {
		step := len(total.samples) / 8
		s := []string{}
		for i := 0; i < len(total.samples) && len(s) < 8; i += step {
			s = append(s, total.samples[i])
		}
		total.samples = s
	}
	rep.Samples = append(rep.Samples, total.samples...)
	if env.report != "" {
		b, _ := json.MarshalIndent(rep, "", " ")
		if err := os.WriteFile(env.report, b, 0o644); err != nil {
			t.Errorf("cannot write report: %v", err)
		}
	}
	t.Logf("%s %s: %d evaluations, %d distinct non-trivial, %d failing in %d categories", property, env.tier, rep.Evals, rep.Distinct, rep.FailCount, len(names))
	for _, k := range names {
		t.Logf("  %-60s %d", "["+k+"]", total.cats[k].n)
	}
	for _, f := range rep.Failures {
		t.Errorf("%s violated: %s", property, f)
	}
	if rep.FailCount > 0 && len(rep.Failures) == 0 {
		t.Errorf("%s violated %d times (no message recorded)", property, rep.FailCount)
	}
}
