//go:build verif

package lucene

// Bounded stand-in / counterexample search for property C13
// (decoding untrusted JSON is safe, and validation guards rendering).
//
// Injected into the root package of /repo with `go test -overlay`; never written to /repo.
//
// Oracle = the text of the property:
//   (a) decoding ANY byte sequence into an expr.Expression returns a value or an error, never panics;
//   (b) if the decoded expression passes expr.Validate then String(), %#v, json.Marshal,
//       PostgresDriver.Render and .RenderParam all return normally (a result or an error).
// "Returns normally" is observed with recover; a panic that fmt swallowed inside a nested
// String/GoString call ("%!s(PANIC=") counts as a panic too.

import (
	"encoding/json"
	"fmt"
	"hash/fnv"
	"math/rand"
	"os"
	"runtime"
	"sort"
	"strconv"
	"strings"
	"sync"
	"testing"

	"github.com/grindlemire/go-lucene/pkg/driver"
	"github.com/grindlemire/go-lucene/pkg/lucene/expr"
)

// ---------------------------------------------------------------------------------------------
// report plumbing

type vc13Report struct {
	Property    string         `json:"property"`
	Tier        string         `json:"tier"`
	Seed        int64          `json:"seed"`
	Evaluations int            `json:"evaluations"`
	Distinct    int            `json:"distinct_nontrivial"`
	Bound       string         `json:"bound"`
	FailCount   int            `json:"failure_count"`
	ByCategory  map[string]int `json:"by_category"`
	Failures    []string       `json:"failures"`
	Samples     []string       `json:"samples"`
}

type vc13Fail struct {
	cat   string
	input string
	msg   string
}

type vc13Agg struct {
	count map[string]int
	best  map[string][]vc13Fail
}

func vc13NewAgg() *vc13Agg {
	return &vc13Agg{count: map[string]int{}, best: map[string][]vc13Fail{}}
}

func vc13Less(a, b vc13Fail) bool {
	if len(a.input) != len(b.input) {
		return len(a.input) < len(b.input)
	}
	if a.input != b.input {
		return a.input < b.input
	}
	return a.msg < b.msg
}

func (g *vc13Agg) add(f vc13Fail) {
	g.count[f.cat]++
	g.insert(f)
}

func (g *vc13Agg) insert(f vc13Fail) {
	l := g.best[f.cat]
	for _, x := range l {
		if x.input == f.input && x.msg == f.msg {
			return
		}
	}
	l = append(l, f)
	sort.Slice(l, func(i, j int) bool { return vc13Less(l[i], l[j]) })
	if len(l) > 3 {
		l = l[:3]
	}
	g.best[f.cat] = l
}

func (g *vc13Agg) merge(o *vc13Agg) {
	for c, n := range o.count {
		g.count[c] += n
	}
	for _, l := range o.best {
		for _, f := range l {
			g.insert(f)
		}
	}
}

func (g *vc13Agg) messages() (msgs []string, total int) {
	cats := []string{}
	for c, n := range g.count {
		cats = append(cats, c)
		total += n
	}
	sort.Strings(cats)
	for _, c := range cats {
		for _, f := range g.best[c] {
			if len(msgs) < 25 {
				msgs = append(msgs, fmt.Sprintf("[%s] %s : %s", c, strconv.Quote(f.input), f.msg))
			}
		}
	}
	return msgs, total
}

func vc13Env() (tier string, seed int64) {
	tier = os.Getenv("VERIF_TIER")
	if tier != "thorough" {
		tier = "quick"
	}
	seed = 1
	if v := os.Getenv("VERIF_SEED"); v != "" {
		if n, err := strconv.ParseInt(v, 10, 64); err == nil {
			seed = n
		}
	}
	return tier, seed
}

// ---------------------------------------------------------------------------------------------
// observing "returns normally"

// vc13Site names the innermost go-lucene function on the stack of a panic (called from the
// deferred recover handler), so that two different panic sites never share a category.
func vc13Site() string {
	pcs := make([]uintptr, 64)
	n := runtime.Callers(3, pcs)
	frames := runtime.CallersFrames(pcs[:n])
	for {
		fr, more := frames.Next()
		fn := fr.Function
		if strings.Contains(fn, "go-lucene") && !strings.Contains(fn, "vc13") && !strings.Contains(fn, "TestVerif") {
			if i := strings.LastIndex(fn, "/"); i >= 0 {
				fn = fn[i+1:]
			}
			var b strings.Builder
			dash := false
			for _, r := range strings.ToLower(fn) {
				if (r >= 'a' && r <= 'z') || (r >= '0' && r <= '9') {
					b.WriteRune(r)
					dash = false
				} else if !dash && b.Len() > 0 {
					b.WriteByte('-')
					dash = true
				}
			}
			return strings.Trim(b.String(), "-")
		}
		if !more {
			return "unknown-site"
		}
	}
}

// vc13Guard runs f; if it panics it returns the category suffix "in-<site>" and the panic text.
func vc13Guard(f func()) (site, text string) {
	defer func() {
		if r := recover(); r != nil {
			site = "in-" + vc13Site()
			text = fmt.Sprint(r)
		}
	}()
	f()
	return "", ""
}

// vc13Swallowed finds a panic that package fmt recovered inside a nested String/GoString call.
func vc13Swallowed(s string) (class string, found bool) {
	i := strings.Index(s, "(PANIC=")
	if i < 0 {
		return "", false
	}
	rest := s[i:]
	switch {
	case strings.Contains(rest, "index out of range"):
		return "index-out-of-range", true
	case strings.Contains(rest, "slice bounds out of range"):
		return "slice-bounds", true
	case strings.Contains(rest, "interface conversion"):
		return "interface-conversion", true
	case strings.Contains(rest, "nil pointer"):
		return "nil-pointer", true
	}
	return "other", true
}

// vc13NestedSite: fmt swallowed a panic of a nested String/GoString call; call the printers of
// the sub-expressions directly to learn the panic site (so it gets the same category as a
// direct panic at that site).
func vc13NestedSite(in any, verbose bool, depth int) string {
	if depth > 64 {
		return ""
	}
	var kids []any
	switch v := in.(type) {
	case *expr.Expression:
		if v == nil {
			return ""
		}
		kids = []any{v.Left, v.Right}
	case []*expr.Expression:
		for _, k := range v {
			kids = append(kids, k)
		}
	case *expr.RangeBoundary:
		if v == nil {
			return ""
		}
		kids = []any{v.Min, v.Max}
	default:
		return ""
	}
	for _, k := range kids {
		if site := vc13NestedSite(k, verbose, depth+1); site != "" {
			return site
		}
	}
	if e, ok := in.(*expr.Expression); ok {
		site, _ := vc13Guard(func() {
			if verbose {
				_ = e.GoString()
			} else {
				_ = e.String()
			}
		})
		return site
	}
	return ""
}

var vc13PG = driver.NewPostgresDriver()

type vc13Stats struct {
	inputs    int
	validJSON []uint64
	decoded   int
	validated int
}

func vc13Hash(b []byte) uint64 {
	h := fnv.New64a()
	h.Write(b)
	return h.Sum64()
}

// vc13After checks part (b) on a successfully decoded expression.
func vc13After(how string, data []byte, e *expr.Expression, st *vc13Stats, fail func(cat, msg string)) {
	var verr error
	if site, txt := vc13Guard(func() { verr = expr.Validate(e) }); site != "" {
		fail("panic-validate-"+site, fmt.Sprintf("%s decoded it without error, expected expr.Validate to return; it panicked: %s", how, txt))
		return
	}
	if verr != nil {
		return
	}
	st.validated++
	pre := fmt.Sprintf("%s decoded it and expr.Validate accepted it, expected ", how)

	// every stage is run; one message per input: the first stage that does not return normally
	// names the category, the later ones are listed as further consequences of the same value.
	type bad struct{ cat, msg string }
	bads := []bad{}
	var s string
	direct := false
	if site, txt := vc13Guard(func() { s = e.String() }); site != "" {
		bads = append(bads, bad{"panic-print-" + site, "String() to return; it panicked: " + txt})
		direct = true
	} else if cl, swallowed := vc13Swallowed(s); swallowed {
		if site := vc13NestedSite(e, false, 0); site != "" {
			cl = site
		} else {
			cl = "nested-" + cl
		}
		bads = append(bads, bad{"panic-print-" + cl, "String() to return normally; a nested call panicked: " + s})
		direct = true
	}
	if site, txt := vc13Guard(func() { s = e.GoString() }); site != "" {
		bads = append(bads, bad{"panic-print-" + site, "%#v to return; it panicked: " + txt})
		direct = true
	} else if cl, swallowed := vc13Swallowed(s); swallowed {
		if site := vc13NestedSite(e, true, 0); site != "" {
			cl = site
		} else {
			cl = "nested-" + cl
		}
		bads = append(bads, bad{"panic-print-" + cl, "%#v to return normally; a nested call panicked: " + s})
		direct = true
	}
	if site, txt := vc13Guard(func() { s = fmt.Sprintf("%#v|%v|%s", e, e, *e) }); site != "" {
		bads = append(bads, bad{"panic-print-" + site, "fmt formatting to return; it panicked: " + txt})
	} else if cl, swallowed := vc13Swallowed(s); swallowed && !direct {
		bads = append(bads, bad{"panic-print-nested-" + cl, "fmt %#v/%v/%s to return normally; a nested call panicked: " + s})
	}
	if site, txt := vc13Guard(func() { _, _ = json.Marshal(e) }); site != "" {
		bads = append(bads, bad{"panic-encode-" + site, "json.Marshal to return; it panicked: " + txt})
	}
	if site, txt := vc13Guard(func() { _, _ = vc13PG.Render(e) }); site != "" {
		bads = append(bads, bad{"panic-render-" + site, "Render to return a result or an error; it panicked: " + txt})
	}
	if site, txt := vc13Guard(func() { _, _, _ = vc13PG.RenderParam(e) }); site != "" {
		bads = append(bads, bad{"panic-renderparam-" + site, "RenderParam to return a result or an error; it panicked: " + txt})
	}
	if len(bads) == 0 {
		return
	}
	msg := pre + bads[0].msg
	for _, b := range bads[1:] {
		msg += "; also expected " + b.msg
	}
	fail(bads[0].cat, msg)
}

// vc13Check checks the whole statement on one byte sequence.
func vc13Check(data []byte, st *vc13Stats, agg *vc13Agg) {
	fail := func(cat, msg string) { agg.add(vc13Fail{cat: cat, input: string(data), msg: msg}) }
	st.inputs++
	if json.Valid(data) {
		st.validJSON = append(st.validJSON, vc13Hash(data))
	}

	// entry 1: json.Unmarshal into an Expression value
	var e1 expr.Expression
	var err1 error
	if site, txt := vc13Guard(func() { err1 = json.Unmarshal(data, &e1) }); site != "" {
		fail("panic-decode-"+site, "expected json.Unmarshal into expr.Expression to return a value or an error; it panicked: "+txt)
		return // the other entries would hit the same site
	}
	if err1 == nil {
		st.decoded++
		vc13After("json.Unmarshal", data, &e1, st, fail)
	}

	// entry 2: json.Unmarshal into a *Expression (JSON null leaves it nil)
	var p *expr.Expression
	var err2 error
	if site, txt := vc13Guard(func() { err2 = json.Unmarshal(data, &p) }); site != "" {
		fail("panic-decode-into-pointer-"+site, "expected json.Unmarshal into *expr.Expression to return a value or an error; it panicked: "+txt)
	} else if err2 == nil && p != nil && err1 != nil {
		vc13After("json.Unmarshal(*Expression)", data, p, st, fail)
	}

	// entry 3: the decoder itself on the raw bytes (they need not be JSON at all)
	var e3 expr.Expression
	var err3 error
	if site, txt := vc13Guard(func() { err3 = (&e3).UnmarshalJSON(data) }); site != "" {
		fail("panic-unmarshaljson-direct-"+site, "expected (*Expression).UnmarshalJSON on the raw bytes to return a value or an error; it panicked: "+txt)
	} else if err3 == nil && err1 != nil {
		vc13After("UnmarshalJSON", data, &e3, st, fail)
	}
}

// ---------------------------------------------------------------------------------------------
// the enumerated domain

var vc13Scalars = []string{
	`null`, `true`, `false`, `0`, `7`, `-1`, `1.5`, `5.0`, `1e3`, `-0`, `1E400`, `9223372036854775808`,
	`""`, `"a"`, `"a b"`, `"*"`, `"?"`, `"a*"`, `"/"`, `"//"`, `"/a/"`, `"/a*/"`, `"é"`, `"\u0000"`, `"a'b"`, `"a\"b"`, `"a,b"`, `"%"`,
	`"\"min\":\"max\":"`,
}

var vc13OpNames = []string{"AND", "OR", "EQUALS", "LIKE", "NOT", "RANGE", "MUST", "MUST_NOT", "BOOST", "FUZZY", "LITERAL", "WILD", "REGEXP",
	"GREATER", "LESS", "GREATER_EQ", "LESS_EQ", "IN", "LIST"}

// vc13OpMembers: the "operator" member in all its shapes ("" = member missing)
func vc13OpMembers() []string {
	out := []string{}
	for _, n := range vc13OpNames {
		out = append(out, `"operator":"`+n+`"`)
	}
	return append(out, `"operator":""`, `"operator":"FOO"`, `"operator":"and"`, `"operator":"UNDEFINED"`,
		``, `"operator":null`, `"operator":5`, `"operator":[]`, `"operator":{}`)
}

var vc13Arrays = []string{`[]`, `[1]`, `["a","b"]`, `[1,"a",1.5]`, `[null]`, `[[1]]`, `[{}]`, `[true]`, `["a*","/r/"]`, `[""]`, `[{"left":"a","operator":"NOT"}]`}

var vc13BoundVals = []string{``, `null`, `1`, `5.5`, `"a"`, `"*"`, `""`, `"a,b"`, `"a*"`, `"/r/"`, `"?"`, `true`, `[1]`, `{}`, `{"x":1}`, `-0`}
var vc13Inclusive = []string{``, `true`, `false`, `null`, `"x"`, `1`}

func vc13Obj(members ...string) string {
	ms := []string{}
	for _, m := range members {
		if m != "" {
			ms = append(ms, m)
		}
	}
	return "{" + strings.Join(ms, ",") + "}"
}

func vc13Member(name, val string) string {
	if val == "" {
		return ""
	}
	return `"` + name + `":` + val
}

func vc13Boundaries() []string {
	out := []string{}
	for _, lo := range vc13BoundVals {
		for _, hi := range vc13BoundVals {
			for _, inc := range vc13Inclusive {
				out = append(out, vc13Obj(vc13Member("min", lo), vc13Member("max", hi), vc13Member("inclusive", inc)))
			}
		}
	}
	// spelling variants of a boundary, and objects that merely mention its keys
	out = append(out,
		`{ "min" : 1 , "max" : 2 , "inclusive" : true }`,
		`{"max":2,"min":1}`,
		`{"min":1,"max":2,"inclusive":true,"x":{"y":[1]}}`,
		`{"a":{"min":1,"max":2}}`,
		`{"min":1,"max":2,"min":"a"}`,
		`{"operator":"AND","right":{"min":1,"max":2}}`,
		`{"min":{"left":"a","operator":"NOT"},"max":2}`,
		`["min":1,"max":2]`,
	)
	return out
}

// vc13Repr: one well-formed document per operator plus typical malformed ones, used as
// sub-documents at depth 2.
var vc13Repr = []string{
	`{"left":"a","operator":"AND","right":"b"}`,
	`{"left":"a","operator":"OR","right":7}`,
	`{"left":"a","operator":"EQUALS","right":"b"}`,
	`{"left":"a","operator":"EQUALS","right":""}`,
	`{"left":"","operator":"EQUALS","right":1.5}`,
	`{"left":"a","operator":"LIKE","right":"b*"}`,
	`{"left":"a","operator":"LIKE","right":"*"}`,
	`{"left":"a","operator":"LIKE","right":"/r/"}`,
	`{"left":"a","operator":"LIKE","right":"//"}`,
	`{"left":"a","operator":"NOT"}`,
	`{"left":"a","operator":"RANGE","right":{"min":1,"max":5,"inclusive":true}}`,
	`{"left":"a","operator":"RANGE","right":{"min":"*","max":"b","inclusive":false}}`,
	`{"left":"a","operator":"RANGE","right":{"min":"","max":"a,b"}}`,
	`{"left":"a","operator":"MUST"}`,
	`{"left":"a","operator":"MUST_NOT"}`,
	`{"left":"a","operator":"BOOST","power":2.5}`,
	`{"left":"a","operator":"FUZZY","distance":2}`,
	`{"left":"a","operator":"FUZZY"}`,
	`{"left":"a","operator":"LITERAL"}`,
	`{"left":"a*","operator":"WILD"}`,
	`{"left":"/a/","operator":"REGEXP"}`,
	`{"left":"a","operator":"GREATER","right":7}`,
	`{"left":"a","operator":"LESS","right":"b"}`,
	`{"left":"a","operator":"GREATER_EQ","right":1.5}`,
	`{"left":"a","operator":"LESS_EQ","right":""}`,
	`{"left":"a","operator":"IN","right":{"left":["b",7],"operator":"LIST"}}`,
	`{"left":"a","operator":"IN","right":{"left":[],"operator":"LIST"}}`,
	`{"left":["a","b*"],"operator":"LIST"}`,
	`{"left":[],"operator":"LIST"}`,
	// malformed
	`{"left":"a","operator":"RANGE","right":"b"}`,
	`{"left":"a","operator":"RANGE"}`,
	`{"left":"a","operator":"EQUALS","right":{"min":1,"max":2}}`,
	`{"left":["a"],"operator":"AND","right":"b"}`,
	`{"left":["a"],"operator":"NOT"}`,
	`{"left":"a","operator":"IN","right":"b"}`,
	`{"left":"a","operator":"LIKE","right":"b"}`,
	`{"left":"a","operator":"LIKE","right":5}`,
	`{"left":"a","operator":"LIST"}`,
	`{"left":"a","operator":"NOT","right":"b"}`,
	`{"left":"a","right":"b"}`,
	`{"left":"a","operator":"FOO","right":"b"}`,
	`{"operator":"AND","right":"b"}`,
	`{"left":null,"operator":"AND","right":null}`,
	`{}`,
}

// vc13Emit enumerates the structured documents; thorough widens the depth-2 product.
func vc13Emit(tier string, emit func(string)) (phases map[string]int) {
	phases = map[string]int{}
	count := 0
	mark := func(name string) { phases[name] = count; count = 0 }
	out := func(s string) { count++; emit(s) }

	ops := vc13OpMembers()
	bounds := vc13Boundaries()

	// depth 0: scalars, arrays, boundaries as top-level documents
	for _, s := range vc13Scalars {
		out(s)
		out(" " + s + "\n")
	}
	for _, s := range vc13Arrays {
		out(s)
	}
	for _, s := range bounds {
		out(s)
	}
	mark("depth0")

	// depth 1, G1: operator x left x right over all scalars / arrays
	lefts := append(append([]string{``, `{}`}, vc13Scalars...), vc13Arrays...)
	rights := append(append([]string{``, `{}`}, vc13Scalars...), `[]`, `[1]`, `["a","b"]`, `[null]`)
	for _, op := range ops {
		for _, l := range lefts {
			for _, r := range rights {
				out(vc13Obj(vc13Member("left", l), op, vc13Member("right", r)))
			}
		}
	}
	mark("depth1-scalars")

	// depth 1, G2: operator x small left x every boundary object as right
	leftSmall := []string{``, `"a"`, `7`, `""`, `["a"]`, `null`}
	for _, op := range ops {
		for _, l := range leftSmall {
			for _, b := range bounds {
				out(vc13Obj(vc13Member("left", l), op, vc13Member("right", b)))
			}
		}
	}
	mark("depth1-boundaries")

	// depth 1, G3: distance / power / boundaries / unknown members, member order, whitespace
	rightSmall := []string{``, `"b"`, `"b*"`, `7`, `{"min":1,"max":2,"inclusive":true}`}
	dists := []string{``, `0`, `2`, `-1`, `null`, `1.5`, `"x"`}
	powers := []string{``, `2.5`, `0`, `-1`, `null`, `"x"`, `1E400`}
	extras := []string{``, `"x":1`, `"boundaries":{"min":1,"max":2,"inclusive":true}`, `"boundaries":5`, `"left":"z"`}
	for _, op := range ops {
		for _, l := range leftSmall {
			for _, r := range rightSmall {
				for _, d := range dists {
					for _, p := range powers {
						if d == "" && p == "" {
							for _, x := range extras {
								out(vc13Obj(vc13Member("left", l), op, vc13Member("right", r), x))
							}
							// other member order, and whitespace everywhere
							out(vc13Obj(vc13Member("right", r), op, vc13Member("left", l)))
							out(strings.ReplaceAll(strings.ReplaceAll(vc13Obj(vc13Member("left", l), op, vc13Member("right", r)), ",", " ,\n "), ":", " :\t"))
							continue
						}
						out(vc13Obj(vc13Member("left", l), op, vc13Member("right", r), vc13Member("distance", d), vc13Member("power", p)))
					}
				}
			}
		}
	}
	mark("depth1-members")

	// depth 2: operator x (representative sub-document | a few scalars) on both sides
	subs := append([]string{}, vc13Repr...)
	if tier == "thorough" {
		// add, for every operator, the sub-documents with an array / an empty string / a boundary
		for _, n := range vc13OpNames {
			subs = append(subs,
				`{"left":[1,"a"],"operator":"`+n+`","right":""}`,
				`{"left":"","operator":"`+n+`","right":{"min":null,"max":"*"}}`,
				`{"left":{"left":"a","operator":"NOT"},"operator":"`+n+`","right":{"left":[],"operator":"LIST"}}`,
			)
		}
	}
	subsL := append(append([]string{}, subs...), ``, `"a"`, `""`, `7`, `["a",1]`, `null`)
	subsR := append(append([]string{}, subs...), ``, `"b"`, `"b*"`, `""`, `1.5`, `{"min":1,"max":"*","inclusive":true}`, `null`)
	for _, op := range ops {
		for _, l := range subsL {
			for _, r := range subsR {
				out(vc13Obj(vc13Member("left", l), op, vc13Member("right", r)))
			}
		}
	}
	// sub-documents inside lists and boundaries
	for _, s := range subs {
		out(`{"left":[` + s + `],"operator":"LIST"}`)
		out(`{"left":"a","operator":"IN","right":{"left":[` + s + `,1],"operator":"LIST"}}`)
		out(`{"left":"a","operator":"RANGE","right":{"min":` + s + `,"max":1}}`)
		out(`{"left":"a","operator":"RANGE","right":{"max":` + s + `,"min":"*","inclusive":false}}`)
		out(`{"left":"a","operator":"FUZZY","distance":` + s + `}`)
	}
	mark("depth2")
	return phases
}

// vc13RandomDoc derives a random document over the same schema, depth <= d.
func vc13RandomDoc(r *rand.Rand, ops, bounds []string, d int) string {
	pick := func(l []string) string { return l[r.Intn(len(l))] }
	if d == 0 || r.Intn(4) == 0 {
		switch r.Intn(8) {
		case 0:
			return pick(vc13Arrays)
		case 1:
			return pick(bounds)
		default:
			return pick(vc13Scalars)
		}
	}
	if r.Intn(10) == 0 {
		n := r.Intn(4)
		el := []string{}
		for i := 0; i < n; i++ {
			el = append(el, vc13RandomDoc(r, ops, bounds, d-1))
		}
		return "[" + strings.Join(el, ",") + "]"
	}
	ms := []string{}
	if r.Intn(12) != 0 {
		ms = append(ms, `"left":`+vc13RandomDoc(r, ops, bounds, d-1))
	}
	ms = append(ms, pick(ops))
	switch r.Intn(6) {
	case 0:
	case 1:
		ms = append(ms, `"right":`+pick(bounds))
	default:
		ms = append(ms, `"right":`+vc13RandomDoc(r, ops, bounds, d-1))
	}
	if r.Intn(6) == 0 {
		ms = append(ms, `"distance":`+pick([]string{`0`, `2`, `-1`, `null`, `1.5`, `"x"`, `{}`}))
	}
	if r.Intn(6) == 0 {
		ms = append(ms, `"power":`+pick([]string{`2.5`, `0`, `-1`, `null`, `"x"`, `[]`}))
	}
	r.Shuffle(len(ms), func(i, j int) { ms[i], ms[j] = ms[j], ms[i] })
	return vc13Obj(ms...)
}

// vc13Mutate damages a document at the byte level.
func vc13Mutate(r *rand.Rand, doc string) string {
	b := []byte(doc)
	for k := 1 + r.Intn(3); k > 0 && len(b) > 0; k-- {
		i := r.Intn(len(b))
		switch r.Intn(5) {
		case 0:
			b = append(b[:i:i], b[i+1:]...)
		case 1:
			b[i] = byte(r.Intn(256))
		case 2:
			b = b[:i]
		case 3:
			ins := []byte(`{}[]":,\/*?0-. ntf`)
			b = append(b[:i:i], append([]byte{ins[r.Intn(len(ins))]}, b[i:]...)...)
		case 4:
			j := r.Intn(len(b))
			b[i], b[j] = b[j], b[i]
		}
	}
	return string(b)
}

// ---------------------------------------------------------------------------------------------

func TestVerifStandin_C13(t *testing.T) {
	tier, seed := vc13Env()
	rep := vc13Report{Property: "C13", Tier: tier, Seed: seed, ByCategory: map[string]int{}, Failures: []string{}, Samples: []string{}}

	workers := runtime.NumCPU()
	if workers > 16 {
		workers = 16
	}
	ch := make(chan []string, 4*workers)
	aggs := make([]*vc13Agg, workers)
	stats := make([]*vc13Stats, workers)
	var wg sync.WaitGroup
	for w := 0; w < workers; w++ {
		aggs[w], stats[w] = vc13NewAgg(), &vc13Stats{}
		wg.Add(1)
		go func(w int) {
			defer wg.Done()
			for batch := range ch {
				for _, d := range batch {
					vc13Check([]byte(d), stats[w], aggs[w])
				}
			}
		}(w)
	}

	// five independent producers (one per part of the domain) feed the workers; counts and
	// samples are merged in a fixed order, so the report does not depend on scheduling.
	type producer struct {
		n       int
		samples []string
		batch   []string
	}
	newEmit := func(p *producer, every int) func(string) {
		p.batch = make([]string, 0, 4096)
		return func(s string) {
			if p.n%every == 0 && len(p.samples) < 2 {
				p.samples = append(p.samples, strconv.Quote(s))
			}
			p.n++
			p.batch = append(p.batch, s)
			if len(p.batch) == cap(p.batch) {
				ch <- p.batch
				p.batch = make([]string, 0, 4096)
			}
		}
	}
	flush := func(p *producer) {
		if len(p.batch) > 0 {
			ch <- p.batch
		}
	}
	var pBytes, pChars, pToks, pDocs, pRand producer
	var pwg sync.WaitGroup

	// ---- (1) all byte strings of length <= 2 ----
	pwg.Add(1)
	go func() {
		defer pwg.Done()
		emit := newEmit(&pBytes, 30011)
		emit("")
		for a := 0; a < 256; a++ {
			emit(string([]byte{byte(a)}))
			for b := 0; b < 256; b++ {
				emit(string([]byte{byte(a), byte(b)}))
			}
		}
		flush(&pBytes)
	}()

	// ---- (2) all strings over a JSON character alphabet up to length L ----
	chars := []string{`{`, `}`, `[`, `]`, `"`, `:`, `,`, `0`, `1`, `-`, `.`, `e`, `/`, `*`, ` `, `\`}
	maxChars := 5
	if tier == "thorough" {
		maxChars = 6
	}
	pwg.Add(1)
	go func() {
		defer pwg.Done()
		emit := newEmit(&pChars, 500009)
		var recC func(prefix string, n int)
		recC = func(prefix string, n int) {
			if n > 0 {
				emit(prefix)
			}
			if n == maxChars {
				return
			}
			for _, c := range chars {
				recC(prefix+c, n+1)
			}
		}
		recC("", 0)
		flush(&pChars)
	}()

	// ---- (3) all token sequences over a JSON token alphabet up to length K ----
	toks := []string{`{`, `}`, `[`, `]`, `:`, `,`, `null`, `true`, `1`, `-1.5e1`, `""`, `"a"`, `"*"`, `"/"`, `"left"`, `"right"`, `"operator"`,
		`"AND"`, `"RANGE"`, `"LIST"`, `"min"`, `"max"`, `"inclusive"`, `"distance"`}
	maxToks := 4
	if tier == "thorough" {
		maxToks = 5
	}
	pwg.Add(1)
	go func() {
		defer pwg.Done()
		emit := newEmit(&pToks, 200003)
		var recT func(prefix string, n int)
		recT = func(prefix string, n int) {
			if n > 1 {
				emit(prefix)
			}
			if n == maxToks {
				return
			}
			for _, c := range toks {
				recT(prefix+c, n+1)
			}
		}
		recT("", 0)
		flush(&pToks)
	}()

	// ---- (4) structured documents over the expression schema ----
	var phases map[string]int
	pwg.Add(1)
	go func() {
		defer pwg.Done()
		phases = vc13Emit(tier, newEmit(&pDocs, 200003))
		flush(&pDocs)
	}()

	// ---- (5) seeded: random documents of depth <= 4 and byte-level mutations ----
	nRandom, nMut := 300000, 300000
	if tier == "thorough" {
		nRandom, nMut = 3000000, 3000000
	}
	pwg.Add(1)
	go func() {
		defer pwg.Done()
		emit := newEmit(&pRand, 170003)
		rng := rand.New(rand.NewSource(seed))
		ops, bounds := vc13OpMembers(), vc13Boundaries()
		for i := 0; i < nRandom; i++ {
			emit(vc13RandomDoc(rng, ops, bounds, 2+rng.Intn(3)))
		}
		for i := 0; i < nMut; i++ {
			var base string
			if i%2 == 0 {
				base = vc13Repr[rng.Intn(len(vc13Repr))]
			} else {
				base = vc13RandomDoc(rng, ops, bounds, 1+rng.Intn(3))
			}
			emit(vc13Mutate(rng, base))
		}
		flush(&pRand)
	}()

	pwg.Wait()
	close(ch)
	wg.Wait()
	nBytes, nChars, nToks, nDocs := pBytes.n, pChars.n, pToks.n, pDocs.n
	for _, p := range []*producer{&pBytes, &pChars, &pToks, &pDocs, &pRand} {
		rep.Samples = append(rep.Samples, p.samples...)
	}

	agg := vc13NewAgg()
	total := vc13Stats{}
	hashes := []uint64{}
	for w := 0; w < workers; w++ {
		agg.merge(aggs[w])
		total.inputs += stats[w].inputs
		total.decoded += stats[w].decoded
		total.validated += stats[w].validated
		hashes = append(hashes, stats[w].validJSON...)
	}
	sort.Slice(hashes, func(i, j int) bool { return hashes[i] < hashes[j] })
	distinct := 0
	for i, h := range hashes {
		if i == 0 || h != hashes[i-1] {
			distinct++
		}
	}

	rep.Evaluations = total.inputs
	rep.Distinct = distinct
	rep.Bound = fmt.Sprintf("each input is decoded three ways (json.Unmarshal into Expression, into *Expression, and (*Expression).UnmarshalJSON on the raw bytes) and, "+
		"when decoding succeeds and expr.Validate accepts, String/GoString/fmt/json.Marshal/Render/RenderParam are run. Inputs: (1) all %d byte strings of length <= 2; "+
		"(2) all %d strings of length 1..%d over the %d characters %s; (3) all %d sequences of 2..%d tokens over %d JSON tokens; "+
		"(4) %d documents over the expression schema: depth 0 (%d scalars/arrays/boundary objects), depth 1 = %d operator members (19 names, unknown, lower-case, empty, missing, null, number, array, object) "+
		"x left x right over %d scalars, %d arrays, {} and missing (%d), x %d boundary objects (min/max over %d shapes incl. missing/null/bool/array/object, inclusive over %d) (%d), "+
		"x distance/power/boundaries/unknown/duplicate members, member order, whitespace (%d); depth 2 = operator x sub-documents (well-formed one per operator + malformed) on both sides, inside lists, boundaries and distance (%d); "+
		"(5) seed-derived: %d random documents of depth 2-4 and %d byte-level mutations. "+
		"%d decodes (entry 1) succeeded, %d decoded expressions passed Validate and went through part (b). distinct_nontrivial = distinct inputs that are syntactically valid JSON (they reach the custom decoder through json.Unmarshal).",
		nBytes, nChars, maxChars, len(chars), strings.Join(chars, ""), nToks, maxToks, len(toks),
		nDocs, phases["depth0"], len(vc13OpMembers()), len(vc13Scalars), len(vc13Arrays), phases["depth1-scalars"],
		len(vc13Boundaries()), len(vc13BoundVals), len(vc13Inclusive), phases["depth1-boundaries"], phases["depth1-members"], phases["depth2"],
		nRandom, nMut, total.decoded, total.validated)

	rep.Failures, rep.FailCount = agg.messages()
	if rep.Failures == nil {
		rep.Failures = []string{}
	}
	rep.ByCategory = agg.count

	if out := os.Getenv("VERIF_REPORT"); out != "" {
		b, _ := json.MarshalIndent(rep, "", " ")
		if err := os.WriteFile(out, b, 0o644); err != nil {
			t.Errorf("cannot write report: %v", err)
		}
	}
	for _, f := range rep.Failures {
		t.Errorf("C13 violated: %s", f)
	}
	t.Logf("C13 %s: %d inputs, %d valid JSON (distinct), %d decoded, %d validated, %d failures in %d categories",
		tier, rep.Evaluations, rep.Distinct, total.decoded, total.validated, rep.FailCount, len(rep.ByCategory))
}
