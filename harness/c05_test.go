//go:build verif

package lucene

// Bounded stand-in / counterexample search for property C05.
// Operator precedence, associativity and grouping follow the documented table.
// Injected into the repository root with `go test -overlay`; never written to /repo.
// Interface: /verif/harness/README.md (VERIF_TIER, VERIF_SEED, VERIF_REPORT).
//
// The oracle is the property statement: trees are built with the public
// constructors of pkg/lucene/expr, printed by a printer that knows only the
// documented precedence table (OR < AND < NOT < ^ < ~ < - < +, binary operators
// left-associative, field:value binds tightest), and compared with what Parse
// returns; relations between two Parse runs are used where the statement is one.
// Every failure is classified: it is attributed to a failing operand if there is
// one, otherwise minimised, and the tag names the minimal shape.  Failures of the
// current code are findings and are reported, never filtered.
// The common core at the end of the file is shared (as a copy with another
// identifier prefix) with the other parser stand-ins.

import (
	"encoding/json"
	"fmt"
	"hash/fnv"
	"math/rand"
	"os"
	"reflect"
	"runtime"
	"runtime/debug"
	"sort"
	"strconv"
	"strings"
	"sync"
	"sync/atomic"
	"testing"
	"time"

	"github.com/grindlemire/go-lucene/pkg/lucene/expr"
)

// ---------------------------------------------------------------------------
// C05: print the tree with parentheses exactly where the table requires them
// (and redundantly), parse, compare with the tree built by the constructors.
// ---------------------------------------------------------------------------

type vc05Variant struct {
	pm int  // parenthesisation: 0 minimal, 1 every compound operand, 2 every operand and the whole query
	sp int  // layout: 0 canonical, 1 tight, 2 loose
	df bool // parse with a default field and erase the default-field scoping from the result
}

var vc05Variants = []vc05Variant{
	{0, 0, false}, {0, 1, false}, {0, 2, false},
	{1, 0, false}, {1, 1, false},
	{2, 0, false}, {2, 2, false},
	{0, 0, true}, {1, 2, true}, {2, 1, true},
}

func vc05VariantSuffix(v vc05Variant) string {
	s := ""
	switch v.pm {
	case 1:
		s += "-compound-operands-parenthesised"
	case 2:
		s += "-every-operand-parenthesised"
	}
	switch v.sp {
	case 1:
		s += "-tight-layout"
	case 2:
		s += "-loose-layout"
	}
	if v.df {
		s += "-with-default-field"
	}
	return s
}

func vc05Text(n *vc05node, v vc05Variant) string {
	return vc05join(vc05print(n, v.pm, nil), v.sp)
}

func vc05Run(text string, v vc05Variant) vc05res {
	r := vc05parse(text, v.df)
	if v.df {
		r = vc05eraseRes(r)
	}
	return r
}

// vc05Holds evaluates the statement on one tree and one variant.
func vc05Holds(n *vc05node, v vc05Variant) (bool, string, vc05res) {
	text := vc05Text(n, v)
	got := vc05Run(text, v)
	return got.ok() && vc05equal(got.e, vc05build(n)), text, got
}

func vc05Describe(n *vc05node, v vc05Variant, got vc05res) string {
	opt := ""
	if v.df {
		opt = " (parsed with default field, scoping erased)"
	}
	return fmt.Sprintf("want %s, got %s%s", vc05show(vc05build(n)), got.String(), opt)
}

func vc05IsPrefix(k int) bool { return k == vc05Not || k == vc05Must || k == vc05MustNot }

// vc05Budget bounds the minimisations of one work unit (deterministically) and
// caches their results by operator skeleton, leaf forms and variant.
type vc05Budget struct {
	left  int
	cache map[string]string
}

func vc05NewBudget(n int) *vc05Budget { return &vc05Budget{left: n, cache: map[string]string{}} }

// vc05Status: "" if the statement holds on (n, variant vi), else the category.
func vc05Status(n *vc05node, vi int, budget *vc05Budget) string {
	if n.status != nil {
		return n.status[vi]
	}
	ok, _, got := vc05Holds(n, vc05Variants[vi])
	if ok {
		return ""
	}
	cat, _, _ := vc05Classify(n, vi, got, budget)
	return cat
}

// vc05Classify names the root cause class of a failing evaluation.  A failure is
// attributed to a failing operand if there is one (then input == ""); otherwise
// the variant is minimised (does the plain variant fail too?), the tree is shrunk
// to a locally minimal failing tree and the tag is the shape of that tree.
func vc05Classify(n *vc05node, vi int, got vc05res, budget *vc05Budget) (cat, input, detail string) {
	v := vc05Variants[vi]
	if got.panic != "" {
		return "panic", vc05Text(n, v), vc05Describe(n, v, got)
	}
	for _, c := range []*vc05node{n.l, n.r} {
		if c != nil {
			if cat := vc05Status(c, vi, budget); cat != "" {
				return cat, "", ""
			}
		}
	}
	key := strconv.Itoa(vi) + vc05shape(n)
	if cat, ok := budget.cache[key]; ok {
		return cat, "", ""
	}
	if budget.left <= 0 {
		return "unminimised-" + vc05kindName[n.kind], vc05Text(n, v), vc05Describe(n, v, got)
	}
	budget.left--
	fails := func(t *vc05node, v vc05Variant) bool { ok, _, _ := vc05Holds(t, v); return !ok }
	mv := v
	base := vc05Variant{}
	if v != base && fails(n, base) {
		mv = base
	} else {
		if mv.df {
			if t := (vc05Variant{mv.pm, mv.sp, false}); fails(n, t) {
				mv = t
			}
		}
		if mv.pm != 0 {
			if t := (vc05Variant{0, mv.sp, mv.df}); fails(n, t) {
				mv = t
			}
		}
		if mv.sp != 0 {
			if t := (vc05Variant{mv.pm, 0, mv.df}); fails(n, t) {
				mv = t
			}
		}
	}
	m := vc05shrink(n, func(t *vc05node) bool { return fails(t, mv) })
	name := vc05treeName(m)
	switch {
	case mv.pm == 0 && vc05IsPrefix(m.kind) && m.l.kind == m.kind && vc05isGeneric(m.l.l):
		// the same prefix operator applied twice: `NOT NOT a`, `--a`, `++a`
		name = "nested-prefix-operators"
	case m.kind == vc05Leaf && m.form == "list" && mv.df && mv.pm == 0:
		name = "default-field-breaks-value-list"
		mv.df = false // keep the tag short; the message says how it was parsed
		_, text, g := vc05Holds(m, vc05Variant{mv.pm, mv.sp, true})
		cat = name + vc05VariantSuffix(mv)
		budget.cache[key] = cat
		return cat, text, vc05Describe(m, vc05Variant{df: true}, g)
	case m.kind == vc05Leaf:
		name = "leaf-" + name
	}
	_, text, g := vc05Holds(m, mv)
	cat = name + vc05VariantSuffix(mv)
	budget.cache[key] = cat
	return cat, text, vc05Describe(m, mv, g)
}

var vc05Seen sync.Map // hashes of sampled trees (for the distinct count only)

// vc05CheckTree evaluates every variant on n.  With store, the per-variant status
// is remembered in the node (only for materialised nodes, single writer).
func vc05CheckTree(n *vc05node, a *vc05agg, budget *vc05Budget, store bool, countDistinct bool) {
	var texts [16]string
	want := vc05build(n)
	if store {
		n.status = make([]string, len(vc05Variants))
	}
	status := make([]string, len(vc05Variants))
variants:
	for vi, v := range vc05Variants {
		text := vc05Text(n, v)
		texts[vi] = text
		for vj := 0; vj < vi; vj++ {
			if texts[vj] == text && vc05Variants[vj].df == v.df {
				status[vi] = status[vj]
				continue variants
			}
		}
		a.evals++
		if n.depth > 0 && countDistinct {
			a.distinct++
		}
		got := vc05Run(text, v)
		if got.ok() && vc05equal(got.e, want) {
			continue
		}
		cat, input, detail := vc05Classify(n, vi, got, budget)
		status[vi] = cat
		a.fail(cat, input, detail)
	}
	if store {
		copy(n.status, status)
	}
}

func TestVerifStandin_C05(t *testing.T) {
	env := vc05getenv()
	total := vc05newAgg()
	leaves := vc05leaves()
	core, nSample, sampleDepth := 10, 100000, 2
	if env.thorough {
		core, nSample, sampleDepth = 28, 1000000, 3
	}
	if s := os.Getenv("VERIF_C05_CORE"); s != "" {
		core, _ = strconv.Atoi(s)
	}
	if core > len(leaves) {
		core = len(leaves)
	}
	leafIdx := map[*vc05node]int{}
	for i, l := range leaves {
		leafIdx[l] = i
	}

	// phase A: depth <= 1 over the full alphabet (materialised, statuses remembered)
	for _, l := range leaves {
		vc05CheckTree(l, total, vc05NewBudget(1000), true, true)
	}
	t1 := vc05nextLevel(leaves, leaves)
	vc05parallel(env, total, len(t1)-len(leaves), func(u int, a *vc05agg) {
		n := t1[len(leaves)+u]
		vc05CheckTree(n, a, vc05NewBudget(1000), true, true)
		if u%997 == 0 {
			a.sample(vc05Text(n, vc05Variants[u%len(vc05Variants)]))
		}
	})

	// phase B: depth 2 exhaustively over the first `core` leaves
	inCore := func(n *vc05node) bool {
		ok := true
		vc05walk(n, func(_ int, x, _ *vc05node, _ int) {
			if x.kind == vc05Leaf && leafIdx[x] >= core {
				ok = false
			}
		})
		return ok
	}
	t1core := []*vc05node{}
	for _, n := range t1 {
		if inCore(n) {
			t1core = append(t1core, n)
		}
	}
	var d2trees int64
	vc05parallel(env, total, len(t1core), func(u int, a *vc05agg) {
		b := vc05NewBudget(150) // minimisations per unit; beyond that failures get an "unminimised-" tag
		x := t1core[u]
		cnt := int64(0)
		if x.depth == 1 {
			for _, op := range vc05unops {
				vc05CheckTree(vc05un(op.kind, op.arg, x), a, b, false, true)
				cnt++
			}
		}
		for _, y := range t1core {
			if x.depth == 0 && y.depth == 0 {
				continue
			}
			for _, k := range []int{vc05And, vc05Or} {
				n := vc05bin(k, x, y)
				vc05CheckTree(n, a, b, false, true)
				cnt++
				if u%53 == 7 && y == t1core[(u*31)%len(t1core)] {
					a.sample(vc05Text(n, vc05Variants[(u/53)%len(vc05Variants)]))
				}
			}
		}
		atomic.AddInt64(&d2trees, cnt)
	})

	// phase C: seeded random trees of depth 2..sampleDepth+1 over the full alphabet
	const chunk = 2000
	var sampled int64
	vc05parallel(env, total, (nSample+chunk-1)/chunk, func(u int, a *vc05agg) {
		rng := rand.New(rand.NewSource(env.seed*1000003 + int64(u)))
		b := vc05NewBudget(150)
		for i := 0; i < chunk && u*chunk+i < nSample; i++ {
			d := 1 + rng.Intn(sampleDepth)
			var n *vc05node
			for try := 0; try < 20; try++ {
				n = vc05randTree(rng, d, t1)
				if n.depth >= 2 && n.nodes <= 40 {
					break
				}
			}
			_, dup := vc05Seen.LoadOrStore(vc05hash(vc05Text(n, vc05Variants[0])), true)
			vc05CheckTree(n, a, b, false, !dup)
			if i == 0 && u%7 == 0 {
				a.sample(vc05Text(n, vc05Variants[u%len(vc05Variants)]))
			}
		}
		atomic.AddInt64(&sampled, int64(chunk))
	})

	bound := fmt.Sprintf("expression trees over OR, AND, NOT, ^ (implicit power, 2, 1.5), ~ (implicit distance, 2), -, + : "+
		"all %d trees of depth <= 1 over a %d-leaf alphabet (bare terms, field:value, comparisons, ranges, value lists x word, quoted, int, float, negative, wildcard, regexp, escaped); "+
		"all %d trees of depth 2 over the first %d leaves (every leaf form); %d seeded random trees of depth 2..%d over the full alphabet; "+
		"each printed in %d variants (parentheses exactly where the table requires them / around every compound operand / around every operand and the whole query; canonical, tight and loose whitespace; "+
		"without default field and, erasing the scoping, with one), identical texts of one tree counted once. "+
		"distinct_nontrivial counts (text, option) pairs of trees with at least one operator: distinct by construction in the exhaustive part, sampled trees de-duplicated by hash.",
		len(t1), len(leaves), d2trees, core, nSample, sampleDepth+1, len(vc05Variants))
	vc05finish(t, env, "C05", bound, total)
}

// ---------------------------------------------------------------------------
// Common core.  Every stand-in file is self-contained (it can be injected on its
// own) and carries its own copy of this section under its own identifier prefix,
// so that several stand-ins can also be compiled into one package.
// ---------------------------------------------------------------------------

// vc05DefaultField is a field name used nowhere else in the generated queries.
const vc05DefaultField = "dflt"

// ---- tokens and layout ----------------------------------------------------

// vc05tok is one token of query text as the printer emits it.
type vc05tok struct {
	s  string
	k  byte // 'w' word/number/wildcard, 'k' keyword, 'q' quoted string or regexp, 's' one-character symbol, 'm' the minus operator
	sp bool // canonical layout puts a space before this token (juxtaposition gap)
}

func vc05tw(s string) vc05tok { return vc05tok{s: s, k: 'w'} }
func vc05tk(s string) vc05tok { return vc05tok{s: s, k: 'k'} }
func vc05tq(s string) vc05tok { return vc05tok{s: s, k: 'q'} }
func vc05ts(s string) vc05tok {
	if s == "-" {
		return vc05tok{s: s, k: 'm'}
	}
	return vc05tok{s: s, k: 's'}
}

// vc05needSpace says whether whitespace between a and b is mandatory to keep them
// two tokens (conservative: only a gap with a one-character symbol on one side is
// ever written without whitespace; '-' glues to a preceding word and to a
// following digit).
func vc05needSpace(a, b vc05tok) bool {
	wordish := func(t vc05tok) bool { return t.k == 'w' || t.k == 'k' || t.k == 'q' }
	if wordish(a) && (wordish(b) || b.k == 'm') {
		return true
	}
	if a.k == 'm' && wordish(b) && b.s != "" && b.s[0] >= '0' && b.s[0] <= '9' {
		return true
	}
	return false
}

// vc05canonFill is the canonical layout: single spaces around keywords and in
// juxtaposition gaps, nothing around symbols, no leading/trailing whitespace.
// fill[i] is the text before token i, fill[len(toks)] the trailing text.
func vc05canonFill(toks []vc05tok) []string {
	fill := make([]string, len(toks)+1)
	for i := 1; i < len(toks); i++ {
		a, b := toks[i-1], toks[i]
		if a.k == 'k' || b.k == 'k' || b.sp || vc05needSpace(a, b) {
			fill[i] = " "
		}
	}
	return fill
}

// vc05tightFill has whitespace only where it is mandatory.
func vc05tightFill(toks []vc05tok) []string {
	fill := make([]string, len(toks)+1)
	for i := 1; i < len(toks); i++ {
		if vc05needSpace(toks[i-1], toks[i]) {
			fill[i] = " "
		}
	}
	return fill
}

var vc05looseCycle = []string{"  ", "\t", "\n", " \t ", "\r\n", " "}

// vc05looseFill puts (varying) whitespace into every gap, and before and after.
func vc05looseFill(toks []vc05tok) []string {
	fill := make([]string, len(toks)+1)
	for i := range fill {
		fill[i] = vc05looseCycle[i%len(vc05looseCycle)]
	}
	return fill
}

func vc05fill(toks []vc05tok, fill []string) string {
	var sb strings.Builder
	for i, t := range toks {
		sb.WriteString(fill[i])
		sb.WriteString(t.s)
	}
	sb.WriteString(fill[len(toks)])
	return sb.String()
}

// vc05join lays the tokens out: mode 0 canonical, 1 tight, 2 loose.
func vc05join(toks []vc05tok, mode int) string {
	switch mode {
	case 1:
		return vc05fill(toks, vc05tightFill(toks))
	case 2:
		return vc05fill(toks, vc05looseFill(toks))
	}
	return vc05fill(toks, vc05canonFill(toks))
}

// ---- expression trees of the property ---------------------------------------

const (
	vc05Leaf = iota
	vc05Or
	vc05And
	vc05Not
	vc05Boost
	vc05Fuzzy
	vc05MustNot
	vc05Must
)

// The documented table: OR < AND < NOT < ^ < ~ < - < + (< field:value and atoms).
var vc05precOf = [...]int{vc05Leaf: 9, vc05Or: 1, vc05And: 2, vc05Not: 3, vc05Boost: 4, vc05Fuzzy: 5, vc05MustNot: 6, vc05Must: 7}

var vc05kindName = [...]string{vc05Leaf: "term", vc05Or: "or", vc05And: "and", vc05Not: "not", vc05Boost: "boost", vc05Fuzzy: "fuzzy", vc05MustNot: "mustnot", vc05Must: "must"}

type vc05node struct {
	kind int
	l, r *vc05node
	arg  string // boost power / fuzzy distance as written; "" = left implicit
	// leaves
	name   string // unique, e.g. "eq-wild"
	form   string // bare, eq, cmp, range, list
	toks   []vc05tok
	vs, ve int // token span [vs,ve) of the field's value, vs<0: none
	mk     func() *expr.Expression
	// bookkeeping
	depth  int
	nodes  int
	status []string // per check variant, filled for shared (materialised) nodes: "" = holds, else failure category
}

func vc05un(kind int, arg string, x *vc05node) *vc05node {
	return &vc05node{kind: kind, arg: arg, l: x, depth: x.depth + 1, nodes: x.nodes + 1}
}

func vc05bin(kind int, a, b *vc05node) *vc05node {
	d := a.depth
	if b.depth > d {
		d = b.depth
	}
	return &vc05node{kind: kind, l: a, r: b, depth: d + 1, nodes: a.nodes + b.nodes + 1}
}

// vc05opName is the operator name used in category tags.
func vc05opName(n *vc05node) string {
	s := vc05kindName[n.kind]
	if n.kind == vc05Leaf {
		return n.name
	}
	if (n.kind == vc05Boost || n.kind == vc05Fuzzy) && n.arg == "" {
		s += "-default"
	} else if (n.kind == vc05Boost || n.kind == vc05Fuzzy) && n.arg != "2" {
		s += "-fractional"
	}
	return s
}

// vc05build is the oracle: the tree the text denotes, built with the public
// constructors only.
func vc05build(n *vc05node) *expr.Expression {
	switch n.kind {
	case vc05Leaf:
		return n.mk()
	case vc05Or:
		return expr.OR(vc05build(n.l), vc05build(n.r))
	case vc05And:
		return expr.AND(vc05build(n.l), vc05build(n.r))
	case vc05Not:
		return expr.NOT(vc05build(n.l))
	case vc05Must:
		return expr.MUST(vc05build(n.l))
	case vc05MustNot:
		return expr.MUSTNOT(vc05build(n.l))
	case vc05Boost:
		p := 1.0
		if n.arg != "" {
			p, _ = strconv.ParseFloat(n.arg, 64)
		}
		return expr.BOOST(vc05build(n.l), p)
	case vc05Fuzzy:
		d := 1
		if n.arg != "" {
			d, _ = strconv.Atoi(n.arg)
		}
		return expr.FUZZY(vc05build(n.l), d)
	}
	return nil
}

// decorations of a node, addressed by its preorder index in the tree
const (
	vc05dJuxt   = 1  // AND node: write no operator, only whitespace
	vc05dParen1 = 2  // one redundant pair of parentheses around the node
	vc05dParen2 = 4  // two more redundant pairs
	vc05dValue  = 8  // leaf: redundant parentheses around the field's value
	vc05dElems  = 16 // value-list leaf: redundant parentheses around every element (the operands of its ORs)
)

type vc05printer struct {
	pm       int     // 0 parentheses exactly where the table requires them, 1 also around every compound operand, 2 around every operand and the whole query
	decor    []uint8 // by preorder index, may be nil
	idx      int
	out      []vc05tok
	juxtNext bool
}

func (p *vc05printer) emit(t vc05tok) {
	if p.juxtNext {
		t.sp = true
		p.juxtNext = false
	}
	p.out = append(p.out, t)
}

// node prints n where an operand of at least precedence minPrec is required.
// Binary operators are left-associative: the right operand of an operator of
// precedence p must have precedence > p, the left one >= p.  A prefix or postfix
// operator of precedence p takes an operand of precedence >= p.
func (p *vc05printer) node(n *vc05node, minPrec int, operand bool) {
	var d uint8
	if p.decor != nil && p.idx < len(p.decor) {
		d = p.decor[p.idx]
	}
	p.idx++
	pairs := 0
	if vc05precOf[n.kind] < minPrec {
		pairs = 1
	}
	if pairs == 0 {
		if operand && (p.pm == 2 || (p.pm == 1 && n.kind != vc05Leaf)) {
			pairs = 1
		}
		if !operand && p.pm == 2 {
			pairs = 1
		}
	}
	if d&vc05dParen1 != 0 {
		pairs++
	}
	if d&vc05dParen2 != 0 {
		pairs += 2
	}
	for i := 0; i < pairs; i++ {
		p.emit(vc05ts("("))
	}
	pr := vc05precOf[n.kind]
	switch n.kind {
	case vc05Leaf:
		for i, t := range n.toks {
			if d&vc05dValue != 0 && i == n.vs {
				p.emit(vc05ts("("))
			}
			if elem := d&vc05dElems != 0 && n.form == "list" && i > 2 && i < len(n.toks)-1 && t.k != 'k'; elem {
				p.emit(vc05ts("("))
				p.emit(t)
				p.emit(vc05ts(")"))
			} else {
				p.emit(t)
			}
			if d&vc05dValue != 0 && i == n.ve-1 {
				p.emit(vc05ts(")"))
			}
		}
	case vc05Or, vc05And:
		p.node(n.l, pr, true)
		if n.kind == vc05And && d&vc05dJuxt != 0 {
			p.juxtNext = true
		} else if n.kind == vc05And {
			p.emit(vc05tk("AND"))
		} else {
			p.emit(vc05tk("OR"))
		}
		p.node(n.r, pr+1, true)
	case vc05Not:
		p.emit(vc05tk("NOT"))
		p.node(n.l, pr, true)
	case vc05Must:
		p.emit(vc05ts("+"))
		p.node(n.l, pr, true)
	case vc05MustNot:
		p.emit(vc05ts("-"))
		p.node(n.l, pr, true)
	case vc05Boost, vc05Fuzzy:
		p.node(n.l, pr, true)
		if n.kind == vc05Boost {
			p.emit(vc05ts("^"))
		} else {
			p.emit(vc05ts("~"))
		}
		if n.arg != "" {
			p.emit(vc05tw(n.arg))
		}
	}
	for i := 0; i < pairs; i++ {
		p.emit(vc05ts(")"))
	}
}

func vc05print(n *vc05node, pm int, decor []uint8) []vc05tok {
	p := vc05printer{pm: pm, decor: decor, out: make([]vc05tok, 0, 4*n.nodes+8)}
	p.node(n, 0, false)
	return p.out
}

// vc05walk visits the nodes in the printer's preorder; side: 0 root, 1 left/only operand, 2 right operand.
func vc05walk(n *vc05node, f func(idx int, n, parent *vc05node, side int)) {
	idx := 0
	var rec func(n, parent *vc05node, side int)
	rec = func(n, parent *vc05node, side int) {
		f(idx, n, parent, side)
		idx++
		if n.l != nil {
			rec(n.l, n, 1)
		}
		if n.r != nil {
			rec(n.r, n, 2)
		}
	}
	rec(n, nil, 0)
}

// ---- leaf alphabet ----------------------------------------------------------

func vc05leafBare(name string, t vc05tok, mk func() *expr.Expression) *vc05node {
	return &vc05node{kind: vc05Leaf, name: "bare-" + name, form: "bare", toks: []vc05tok{t}, vs: -1, ve: -1, mk: mk, nodes: 1}
}

func vc05leafEq(name string, field, val vc05tok, mk func() *expr.Expression) *vc05node {
	return &vc05node{kind: vc05Leaf, name: "eq-" + name, form: "eq", toks: []vc05tok{field, vc05ts(":"), val}, vs: 2, ve: 3, mk: mk, nodes: 1}
}

func vc05leafCmp(name string, op string, val vc05tok, mk func() *expr.Expression) *vc05node {
	toks := []vc05tok{vc05tw("a"), vc05ts(":")}
	for _, c := range op {
		toks = append(toks, vc05ts(string(c)))
	}
	toks = append(toks, val)
	return &vc05node{kind: vc05Leaf, name: "cmp-" + name, form: "cmp", toks: toks, vs: len(toks) - 1, ve: len(toks), mk: mk, nodes: 1}
}

func vc05leafRange(name string, open string, lo, hi vc05tok, mk func() *expr.Expression) *vc05node {
	cl := "]"
	if open == "{" {
		cl = "}"
	}
	toks := []vc05tok{vc05tw("a"), vc05ts(":"), vc05ts(open), lo, vc05tk("TO"), hi, vc05ts(cl)}
	return &vc05node{kind: vc05Leaf, name: "range-" + name, form: "range", toks: toks, vs: 2, ve: 7, mk: mk, nodes: 1}
}

func vc05leafList(name string, vals []vc05tok, mk func() *expr.Expression) *vc05node {
	toks := []vc05tok{vc05tw("a"), vc05ts(":"), vc05ts("(")}
	for i, v := range vals {
		if i > 0 {
			toks = append(toks, vc05tk("OR"))
		}
		toks = append(toks, v)
	}
	toks = append(toks, vc05ts(")"))
	return &vc05node{kind: vc05Leaf, name: "list-" + name, form: "list", toks: toks, vs: 2, ve: len(toks), mk: mk, nodes: 1}
}

// vc05leaves returns the leaf alphabet: every leaf form (bare term, field:value,
// comparison, range, value list) and every value kind (word, quoted string, int,
// float, negative number, wildcard, regexp, escaped word).  The first `core`
// leaves of the result (ordered so that every form comes early) make up the
// reduced alphabets.
func vc05leaves() []*vc05node {
	L, W, R := expr.Lit, expr.WILD, expr.REGEXP
	col := func(s string) *expr.Expression { return expr.Lit(s) } // the constructors turn a string on the left of a field operator into a column
	ls := []*vc05node{
		// one of each form first
		vc05leafEq("word", vc05tw("a"), vc05tw("b"), func() *expr.Expression { return expr.Eq(col("a"), L("b")) }),
		vc05leafBare("word", vc05tw("foo"), func() *expr.Expression { return L("foo") }),
		vc05leafRange("incl-int", "[", vc05tw("1"), vc05tw("5"), func() *expr.Expression { return expr.Rang(col("a"), L(1), L(5), true) }),
		vc05leafCmp("ge-int", ">=", vc05tw("5"), func() *expr.Expression { return expr.GREATEREQ(col("a"), L(5)) }),
		vc05leafList("words", []vc05tok{vc05tw("foo"), vc05tw("bar")}, func() *expr.Expression { return expr.IN(col("a"), expr.LIST(L("foo"), L("bar"))) }),
		vc05leafBare("int", vc05tw("7"), func() *expr.Expression { return L(7) }),
		vc05leafEq("wild", vc05tw("a"), vc05tw("w*"), func() *expr.Expression { return expr.Eq(col("a"), W("w*")) }),
		vc05leafBare("quoted", vc05tq(`"q r"`), func() *expr.Expression { return L("q r") }),
		// 8 so far
		vc05leafRange("excl-open", "{", vc05tw("2"), vc05tw("*"), func() *expr.Expression { return expr.Rang(col("a"), L(2), W("*"), false) }),
		vc05leafBare("neg", vc05tw("-3"), func() *expr.Expression { return L(-3) }),
		vc05leafEq("quoted", vc05tw("c"), vc05tq(`"q r"`), func() *expr.Expression { return expr.Eq(col("c"), L("q r")) }),
		vc05leafCmp("lt-float", "<", vc05tw("1.5"), func() *expr.Expression { return expr.LESS(col("a"), L(1.5)) }),
		vc05leafBare("wild", vc05tw("w*"), func() *expr.Expression { return W("w*") }),
		vc05leafEq("regexp", vc05tw("a"), vc05tq(`/r.x/`), func() *expr.Expression { return expr.Eq(col("a"), R("/r.x/")) }),
		vc05leafList("ints3", []vc05tok{vc05tw("1"), vc05tw("2"), vc05tw("3")}, func() *expr.Expression { return expr.IN(col("a"), expr.LIST(L(1), L(2), L(3))) }),
		vc05leafBare("float", vc05tw("1.5"), func() *expr.Expression { return L(1.5) }),
		// 16 so far
		vc05leafEq("int", vc05tw("n"), vc05tw("7"), func() *expr.Expression { return expr.Eq(col("n"), L(7)) }),
		vc05leafCmp("gt-word", ">", vc05tw("foo"), func() *expr.Expression { return expr.GREATER(col("a"), L("foo")) }),
		vc05leafRange("incl-words", "[", vc05tw("foo"), vc05tw("zed"), func() *expr.Expression { return expr.Rang(col("a"), L("foo"), L("zed"), true) }),
		vc05leafBare("regexp", vc05tq(`/r.x/`), func() *expr.Expression { return R("/r.x/") }),
		vc05leafEq("quoted-field", vc05tq(`"x y"`), vc05tw("b"), func() *expr.Expression { return expr.Eq(col("x y"), L("b")) }),
		vc05leafCmp("le-neg", "<=", vc05tw("-3"), func() *expr.Expression { return expr.LESSEQ(col("a"), L(-3)) }),
		vc05leafBare("keywordish", vc05tw("andy"), func() *expr.Expression { return L("andy") }),
		vc05leafRange("excl-quoted", "{", vc05tq(`"ab"`), vc05tq(`"az"`), func() *expr.Expression { return expr.Rang(col("a"), L("ab"), L("az"), false) }),
		// 24 so far
		vc05leafEq("neg", vc05tw("a"), vc05tw("-3"), func() *expr.Expression { return expr.Eq(col("a"), L(-3)) }),
		vc05leafEq("float", vc05tw("a"), vc05tw("1.5"), func() *expr.Expression { return expr.Eq(col("a"), L(1.5)) }),
		vc05leafEq("keywordish", vc05tw("nota"), vc05tw("ORB"), func() *expr.Expression { return expr.Eq(col("nota"), L("ORB")) }),
		vc05leafEq("wild-q", vc05tw("f_1"), vc05tw("?x"), func() *expr.Expression { return expr.Eq(col("f_1"), W("?x")) }),
		vc05leafBare("escaped", vc05tw(`b\:c`), func() *expr.Expression { return L("b:c") }),
		vc05leafBare("quoted-ops", vc05tq(`"x OR (y"`), func() *expr.Expression { return L("x OR (y") }),
		vc05leafBare("wild-q", vc05tw("?x"), func() *expr.Expression { return W("?x") }),
		vc05leafCmp("gt-int", ">", vc05tw("5"), func() *expr.Expression { return expr.GREATER(col("a"), L(5)) }),
		vc05leafCmp("lt-int", "<", vc05tw("5"), func() *expr.Expression { return expr.LESS(col("a"), L(5)) }),
		vc05leafCmp("le-int", "<=", vc05tw("5"), func() *expr.Expression { return expr.LESSEQ(col("a"), L(5)) }),
		vc05leafCmp("ge-quoted", ">=", vc05tq(`"q r"`), func() *expr.Expression { return expr.GREATEREQ(col("a"), L("q r")) }),
		vc05leafRange("excl-int", "{", vc05tw("1"), vc05tw("5"), func() *expr.Expression { return expr.Rang(col("a"), L(1), L(5), false) }),
		vc05leafRange("incl-open-lo", "[", vc05tw("*"), vc05tw("5"), func() *expr.Expression { return expr.Rang(col("a"), W("*"), L(5), true) }),
		vc05leafRange("incl-float", "[", vc05tw("1.5"), vc05tw("2.5"), func() *expr.Expression { return expr.Rang(col("a"), L(1.5), L(2.5), true) }),
		vc05leafRange("incl-neg", "[", vc05tw("-5"), vc05tw("-1"), func() *expr.Expression { return expr.Rang(col("a"), L(-5), L(-1), true) }),
		vc05leafList("mixed", []vc05tok{vc05tq(`"q r"`), vc05tw("x"), vc05tw("1.5")}, func() *expr.Expression { return expr.IN(col("a"), expr.LIST(L("q r"), L("x"), L(1.5))) }),
	}
	return ls
}

// generic field:value leaves used to test whether a failure depends on the leaves at all
func vc05genericLeaves() []*vc05node {
	mk := func(f, v string) *vc05node {
		return vc05leafEq("generic", vc05tw(f), vc05tw(v), func() *expr.Expression { return expr.Eq(expr.Lit(f), expr.Lit(v)) })
	}
	return []*vc05node{mk("a", "b"), mk("c", "d"), mk("e", "f"), mk("g", "h"), mk("i", "j"), mk("k", "l"), mk("m", "n"), mk("o", "p")}
}

// vc05generic replaces the leaves of n by generic ones (cyclically).
func vc05generic(n *vc05node) *vc05node {
	g := vc05genericLeaves()
	i := 0
	var rec func(n *vc05node) *vc05node
	rec = func(n *vc05node) *vc05node {
		if n.kind == vc05Leaf {
			x := g[i%len(g)]
			i++
			return x
		}
		c := *n
		c.status = nil
		c.l = rec(n.l)
		if n.r != nil {
			c.r = rec(n.r)
		}
		return &c
	}
	return rec(n)
}

func vc05isGeneric(n *vc05node) bool { return n.kind == vc05Leaf && n.name == "eq-generic" }

// vc05replaceAt returns a copy of n in which the subtree at preorder index p is r.
func vc05replaceAt(n *vc05node, p int, r *vc05node) *vc05node {
	idx := 0
	var rec func(x *vc05node) *vc05node
	rec = func(x *vc05node) *vc05node {
		i := idx
		idx++
		if i == p {
			idx += x.nodes - 1
			return r
		}
		if x.kind == vc05Leaf {
			return x
		}
		c := *x
		c.status = nil
		c.l = rec(x.l)
		c.depth, c.nodes = c.l.depth+1, c.l.nodes+1
		if x.r != nil {
			c.r = rec(x.r)
			c.nodes += c.r.nodes
			if c.r.depth+1 > c.depth {
				c.depth = c.r.depth + 1
			}
		}
		return &c
	}
	return rec(n)
}

// vc05shrink reduces a failing tree to a locally minimal failing one: subtrees are
// replaced by plain field:value terms or by one of their own operands, boost
// powers and fuzzy distances are normalised to 2, as long as fails() stays true.
func vc05shrink(n *vc05node, fails func(*vc05node) bool) *vc05node {
	g := vc05genericLeaves()
	for step := 0; step < 300; step++ {
		type pos struct {
			idx int
			x   *vc05node
		}
		var list []pos
		vc05walk(n, func(idx int, x, _ *vc05node, _ int) { list = append(list, pos{idx, x}) })
		progressed := false
	search:
		for _, p := range list {
			var cands []*vc05node
			if p.x.kind != vc05Leaf {
				cands = append(cands, p.x.l)
				if p.x.r != nil {
					cands = append(cands, p.x.r)
				}
			}
			if !vc05isGeneric(p.x) {
				cands = append(cands, g[p.idx%len(g)])
			}
			if (p.x.kind == vc05Boost || p.x.kind == vc05Fuzzy) && p.x.arg != "2" {
				c := *p.x
				c.arg, c.status = "2", nil
				cands = append(cands, &c)
			}
			for _, c := range cands {
				if t := vc05replaceAt(n, p.idx, c); fails(t) {
					n, progressed = t, true
					break search
				}
			}
		}
		if !progressed {
			break
		}
	}
	return n
}

// vc05treeName renders a (small) tree as a category tag: leaves that were
// replaceable by a plain term are "term", operators are named, operands follow "of".
func vc05treeName(n *vc05node) string {
	switch {
	case n.kind == vc05Leaf:
		if vc05isGeneric(n) {
			return "term"
		}
		return n.name
	case n.r == nil:
		return vc05opName(n) + "-of-" + vc05treeName(n.l)
	}
	return vc05opName(n) + "-of-" + vc05treeName(n.l) + "-and-" + vc05treeName(n.r)
}

// vc05shape is the two-level operator skeleton with leaf forms (cache key for classifications).
func vc05shape(n *vc05node) string {
	one := func(c *vc05node) string {
		if c == nil {
			return ""
		}
		if c.kind == vc05Leaf {
			return c.form
		}
		return vc05opName(c)
	}
	if n.kind == vc05Leaf {
		return n.name
	}
	return vc05opName(n) + "(" + one(n.l) + "," + one(n.r) + ")"
}

type vc05unop struct {
	kind int
	arg  string
}

var vc05unops = []vc05unop{{vc05Not, ""}, {vc05Must, ""}, {vc05MustNot, ""}, {vc05Boost, ""}, {vc05Boost, "2"}, {vc05Boost, "1.5"}, {vc05Fuzzy, ""}, {vc05Fuzzy, "2"}}

// vc05nextLevel materialises leaves ∪ unary(prev) ∪ binary(prev × prev).
func vc05nextLevel(leaves, prev []*vc05node) []*vc05node {
	out := append([]*vc05node{}, leaves...)
	for _, u := range vc05unops {
		for _, x := range prev {
			out = append(out, vc05un(u.kind, u.arg, x))
		}
	}
	for _, k := range []int{vc05And, vc05Or} {
		for _, a := range prev {
			for _, b := range prev {
				out = append(out, vc05bin(k, a, b))
			}
		}
	}
	return out
}

// vc05randTree draws a tree of depth <= depth; leaves and (shared) small subtrees come from pool.
func vc05randTree(rng *rand.Rand, depth int, pool []*vc05node) *vc05node {
	if depth <= 0 || rng.Intn(8) == 0 {
		return pool[rng.Intn(len(pool))]
	}
	switch r := rng.Intn(10); {
	case r < 5:
		k := vc05And
		if rng.Intn(5) < 2 {
			k = vc05Or
		}
		return vc05bin(k, vc05randTree(rng, depth-1, pool), vc05randTree(rng, depth-1, pool))
	default:
		u := vc05unops[rng.Intn(len(vc05unops))]
		return vc05un(u.kind, u.arg, vc05randTree(rng, depth-1, pool))
	}
}

// ---- running the parser -------------------------------------------------------

type vc05res struct {
	e     *expr.Expression
	err   error
	panic string
}

func vc05parse(q string, df bool) (r vc05res) {
	defer func() {
		if p := recover(); p != nil {
			r = vc05res{panic: fmt.Sprint(p)}
		}
	}()
	if df {
		r.e, r.err = Parse(q, WithDefaultField(vc05DefaultField))
	} else {
		r.e, r.err = Parse(q)
	}
	if r.err == nil && r.e == nil {
		r.err = fmt.Errorf("nil expression with nil error")
	}
	return r
}

func (r vc05res) ok() bool { return r.panic == "" && r.err == nil }

// vc05sameOutcome: both rejected, or both accepted with deep-equal trees.
func vc05sameOutcome(a, b vc05res) bool {
	if a.panic != "" || b.panic != "" {
		return false
	}
	if (a.err == nil) != (b.err == nil) {
		return false
	}
	return a.err != nil || vc05equal(a.e, b.e)
}

// vc05equal is reflect.DeepEqual specialised to expression trees (DeepEqual's
// bookkeeping dominates the run time otherwise); whenever it says "different"
// the callers confirm with reflect.DeepEqual, which remains the definition.
func vc05equalFast(a, b any) bool {
	switch x := a.(type) {
	case nil:
		return b == nil
	case *expr.Expression:
		y, ok := b.(*expr.Expression)
		if !ok {
			return false
		}
		if x == nil || y == nil {
			return x == y
		}
		cx, cy := *x, *y
		cx.Left, cx.Right, cy.Left, cy.Right = nil, nil, nil, nil
		if cx != cy { // operator, boost power, fuzzy distance
			return false
		}
		return vc05equalFast(x.Left, y.Left) && vc05equalFast(x.Right, y.Right)
	case []*expr.Expression:
		y, ok := b.([]*expr.Expression)
		if !ok || (x == nil) != (y == nil) || len(x) != len(y) {
			return false
		}
		for i := range x {
			if !vc05equalFast(x[i], y[i]) {
				return false
			}
		}
		return true
	case *expr.RangeBoundary:
		y, ok := b.(*expr.RangeBoundary)
		if !ok {
			return false
		}
		if x == nil || y == nil {
			return x == y
		}
		return x.Inclusive == y.Inclusive && vc05equalFast(x.Min, y.Min) && vc05equalFast(x.Max, y.Max)
	case string, int, float64, bool, expr.Column:
		return a == b
	}
	return reflect.DeepEqual(a, b)
}

func vc05equal(a, b *expr.Expression) bool {
	return vc05equalFast(a, b) || reflect.DeepEqual(a, b)
}

func (r vc05res) String() string {
	switch {
	case r.panic != "":
		return "PANIC " + r.panic
	case r.err != nil:
		return "error: " + r.err.Error()
	}
	return vc05show(r.e)
}

// vc05show prints a tree unambiguously without relying on the library's printers.
func vc05show(x any) (s string) {
	defer func() {
		if p := recover(); p != nil {
			s = fmt.Sprintf("<unprintable: %v>", p)
		}
	}()
	switch v := x.(type) {
	case nil:
		return "nil"
	case *expr.Expression:
		if v == nil {
			return "nil-expr"
		}
		op := v.Op.String()
		if op == "" {
			op = fmt.Sprintf("OP%d", int(v.Op))
		}
		extra := ""
		rv := reflect.ValueOf(v).Elem()
		if v.Op == expr.Boost {
			extra = fmt.Sprintf("^%v", rv.FieldByName("boostPower").Float())
		}
		if v.Op == expr.Fuzzy {
			extra = fmt.Sprintf("~%v", rv.FieldByName("fuzzyDistance").Int())
		}
		if v.Right == nil {
			return op + extra + "(" + vc05show(v.Left) + ")"
		}
		return op + extra + "(" + vc05show(v.Left) + ", " + vc05show(v.Right) + ")"
	case []*expr.Expression:
		parts := make([]string, len(v))
		for i, e := range v {
			parts[i] = vc05show(e)
		}
		return "[" + strings.Join(parts, ", ") + "]"
	case *expr.RangeBoundary:
		if v == nil {
			return "nil-boundary"
		}
		return fmt.Sprintf("{min %s, max %s, inclusive %v}", vc05show(v.Min), vc05show(v.Max), v.Inclusive)
	case expr.Column:
		return "col:" + strconv.Quote(string(v))
	case string:
		return strconv.Quote(v)
	}
	return fmt.Sprintf("%T:%v", x, x)
}

// vc05erase removes every `dflt:` scoping from a tree (copying, never mutating).
func vc05erase(x any) any {
	switch v := x.(type) {
	case *expr.Expression:
		if v == nil {
			return v
		}
		if v.Op == expr.Equals || v.Op == expr.Like {
			if l, ok := v.Left.(*expr.Expression); ok && l != nil && l.Op == expr.Literal {
				if c, ok := l.Left.(expr.Column); ok && string(c) == vc05DefaultField {
					return vc05erase(v.Right)
				}
			}
		}
		c := *v
		c.Left = vc05erase(v.Left)
		c.Right = vc05erase(v.Right)
		return &c
	case []*expr.Expression:
		out := make([]*expr.Expression, len(v))
		for i, e := range v {
			out[i], _ = vc05erase(e).(*expr.Expression)
		}
		return out
	case *expr.RangeBoundary:
		if v == nil {
			return v
		}
		c := *v
		c.Min = vc05erase(v.Min)
		c.Max = vc05erase(v.Max)
		return &c
	}
	return x
}

func vc05eraseRes(r vc05res) vc05res {
	if r.ok() {
		defer func() { recover() }()
		if e, ok := vc05erase(r.e).(*expr.Expression); ok {
			r.e = e
		}
	}
	return r
}

func vc05hash(s string) uint64 {
	h := fnv.New64a()
	h.Write([]byte(s))
	return h.Sum64()
}

// ---- aggregation, report ------------------------------------------------------

type vc05msg struct {
	input string
	text  string
}

type vc05cat struct {
	n    int64
	best []vc05msg // the (at most 3) smallest inputs
}

type vc05agg struct {
	evals    int64
	distinct int64
	skipped  int64
	cats     map[string]*vc05cat
	samples  []string
}

func vc05newAgg() *vc05agg { return &vc05agg{cats: map[string]*vc05cat{}} }

func vc05msgLess(a, b vc05msg) bool {
	if len(a.input) != len(b.input) {
		return len(a.input) < len(b.input)
	}
	if a.input != b.input {
		return a.input < b.input
	}
	return a.text < b.text
}

func (c *vc05cat) add(m vc05msg) {
	for i, o := range c.best {
		if o.input == m.input { // one message per input, the shorter one
			if len(m.text) < len(o.text) || (len(m.text) == len(o.text) && m.text < o.text) {
				c.best[i] = m
			}
			return
		}
	}
	c.best = append(c.best, m)
	sort.Slice(c.best, func(i, j int) bool { return vc05msgLess(c.best[i], c.best[j]) })
	if len(c.best) > 3 {
		c.best = c.best[:3]
	}
}

// fail counts one failing evaluation under cat; input/detail are recorded as a
// candidate message unless input is empty (failure attributed to a smaller input).
func (a *vc05agg) fail(cat, input, detail string) {
	c := a.cats[cat]
	if c == nil {
		c = &vc05cat{}
		a.cats[cat] = c
	}
	c.n++
	if input != "" || detail != "" {
		if len(detail) > 420 {
			detail = detail[:420] + "..."
		}
		c.add(vc05msg{input: input, text: fmt.Sprintf("[%s] %s : %s", cat, strconv.Quote(input), detail)})
	}
}

func (a *vc05agg) sample(s string) {
	if len(a.samples) < 4 {
		a.samples = append(a.samples, strconv.Quote(s))
	}
}

func (a *vc05agg) merge(b *vc05agg) {
	a.evals += b.evals
	a.distinct += b.distinct
	a.skipped += b.skipped
	for k, c := range b.cats {
		d := a.cats[k]
		if d == nil {
			d = &vc05cat{}
			a.cats[k] = d
		}
		d.n += c.n
		for _, m := range c.best {
			d.add(m)
		}
	}
	a.samples = append(a.samples, b.samples...)
}

type vc05report struct {
	Property   string           `json:"property"`
	Tier       string           `json:"tier"`
	Seed       int64            `json:"seed"`
	Evals      int64            `json:"evaluations"`
	Distinct   int64            `json:"distinct_nontrivial"`
	Bound      string           `json:"bound"`
	FailCount  int64            `json:"failure_count"`
	ByCategory map[string]int64 `json:"by_category"`
	Failures   []string         `json:"failures"`
	Samples    []string         `json:"samples"`
}

type vc05env struct {
	tier     string
	thorough bool
	seed     int64
	report   string
	deadline time.Time
	expired  int32
	oldGC    int
	oldLimit int64
}

func vc05getenv() *vc05env {
	e := &vc05env{tier: "quick", seed: 1, report: os.Getenv("VERIF_REPORT")}
	if os.Getenv("VERIF_TIER") == "thorough" {
		e.tier, e.thorough = "thorough", true
	}
	if s, err := strconv.ParseInt(os.Getenv("VERIF_SEED"), 10, 64); err == nil {
		e.seed = s
	}
	// the parser allocates heavily and the live heap is tiny: without this the
	// collector runs continuously and the 16 workers mostly wait for it
	e.oldGC = debug.SetGCPercent(-1)
	e.oldLimit = debug.SetMemoryLimit(3 << 30)
	// safety net only (go test itself gives up after 10 minutes): the domains are sized
	// for about 60 CPU-seconds (quick) and 25 CPU-minutes (thorough)
	if e.thorough {
		e.deadline = time.Now().Add(8 * time.Minute)
	} else {
		e.deadline = time.Now().Add(90 * time.Second)
	}
	return e
}

func (e *vc05env) timeUp() bool {
	if atomic.LoadInt32(&e.expired) != 0 {
		return true
	}
	if time.Now().After(e.deadline) {
		atomic.StoreInt32(&e.expired, 1)
		return true
	}
	return false
}

// vc05parallel runs fn(unit) for unit in [0,n) on all cores; every unit gets its
// own aggregate and the aggregates are merged in unit order (deterministic).
func vc05parallel(env *vc05env, total *vc05agg, n int, fn func(unit int, a *vc05agg)) {
	if n <= 0 {
		return
	}
	workers := runtime.NumCPU()
	if workers > n {
		workers = n
	}
	aggs := make([]*vc05agg, workers)
	var next int64 = -1
	var wg sync.WaitGroup
	for w := 0; w < workers; w++ {
		aggs[w] = vc05newAgg()
		wg.Add(1)
		go func(a *vc05agg) {
			defer wg.Done()
			for {
				u := int(atomic.AddInt64(&next, 1))
				if u >= n {
					return
				}
				if env.timeUp() {
					a.skipped++
					continue
				}
				func() {
					defer func() {
						if p := recover(); p != nil {
							a.fail("harness-panic", fmt.Sprintf("unit %d", u), fmt.Sprint(p))
						}
					}()
					fn(u, a)
				}()
			}
		}(aggs[w])
	}
	wg.Wait()
	for _, a := range aggs {
		// samples: keep deterministic order irrespective of scheduling
		sort.Strings(a.samples)
		total.merge(a)
	}
	sort.Strings(total.samples)
}

func vc05finish(t *testing.T, env *vc05env, property, bound string, total *vc05agg) {
	debug.SetGCPercent(env.oldGC)
	debug.SetMemoryLimit(env.oldLimit)
	rep := vc05report{Property: property, Tier: env.tier, Seed: env.seed, Evals: total.evals, Distinct: total.distinct,
		Bound: bound, ByCategory: map[string]int64{}, Failures: []string{}, Samples: []string{}}
	if total.skipped > 0 {
		rep.Bound += fmt.Sprintf(" -- TRUNCATED: %d work units skipped because the time budget ran out", total.skipped)
	}
	names := []string{}
	for k, c := range total.cats {
		rep.ByCategory[k] = c.n
		rep.FailCount += c.n
		names = append(names, k)
	}
	sort.Strings(names)
	for round := 0; round < 3; round++ {
		for _, k := range names {
			if b := total.cats[k].best; round < len(b) && len(rep.Failures) < 25 {
				rep.Failures = append(rep.Failures, b[round].text)
			}
		}
	}
	sort.Strings(rep.Failures)
	if len(total.samples) > 8 {
		step := len(total.samples) / 8
		s := []string{}
		for i := 0; i < len(total.samples) && len(s) < 8; i += step {
			s = append(s, total.samples[i])
		}
		total.samples = s
	}
	rep.Samples = append(rep.Samples, total.samples...)
	if env.report != "" {
		b, _ := json.MarshalIndent(rep, "", " ")
		if err := os.WriteFile(env.report, b, 0o644); err != nil {
			t.Errorf("cannot write report: %v", err)
		}
	}
	t.Logf("%s %s: %d evaluations, %d distinct non-trivial, %d failing in %d categories", property, env.tier, rep.Evals, rep.Distinct, rep.FailCount, len(names))
	for _, k := range names {
		t.Logf("  %-60s %d", "["+k+"]", total.cats[k].n)
	}
	for _, f := range rep.Failures {
		t.Errorf("%s violated: %s", property, f)
	}
	if rep.FailCount > 0 && len(rep.Failures) == 0 {
		t.Errorf("%s violated %d times (no message recorded)", property, rep.FailCount)
	}
}
