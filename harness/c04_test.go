//go:build verif

package lucene

// Bounded stand-in for property C04: "Parameterized SQL agrees with inline SQL; all values
// travel as parameters".
//
// Queries are built from the stand-in's own syntax trees (so the values, their order and
// their kinds are known without asking the library), printed in Lucene syntax and rendered
// with ToPostgres and ToParameterizedPostgres.  Checked: (1) inline success implies
// parameterized success; (2) number of ? outside quoted identifiers == len(params);
// (3) params == the values of the tree, left to right, as int / float64 / string, patterns
// translated (* -> %, ? -> _), unbounded range ends omitted; (4) the parameterized SQL with
// the parameters substituted and the inline SQL, both read with a small evaluator that
// follows PostgreSQL's precedence, agree on probe rows hitting every region cut out by all
// constants involved; (5) replacing any one value by another of the same kind leaves the
// SQL text unchanged and changes only that parameter.
//
// Run:
//   echo '{"Replace": {"/repo/zz_verif_c04_test.go": "/verif/harness/c04_test.go"}}' > /tmp/ov_c04.json
//   cd /repo && VERIF_REPORT=/tmp/rep_c04.json go test -tags verif -overlay /tmp/ov_c04.json -vet=off -count=1 -run 'TestVerifStandin_C04$' .
// (VERIF_TIER=thorough for the large tier; VERIF_SHOW=<category> logs up to 40 inputs of one category.)
// The file is self-contained: the shared machinery below is a private copy with the vc04 prefix.

import (
	"encoding/json"
	"fmt"
	"math"
	"math/big"
	"math/bits"
	"math/rand"
	"os"
	"reflect"
	"regexp"
	"runtime"
	"sort"
	"strconv"
	"strings"
	"sync"
	"sync/atomic"
	"testing"
	"unicode"
	"unicode/utf8"
)

// =====================================================================================
// Shared machinery (self-contained copy; every identifier carries the vc04 prefix)
//
//   1. a tiny model of the filterable Lucene fragment (vc04Node / vc04Val) with a printer
//      that writes the query text in Lucene syntax and an evaluator that computes the
//      query's OWN meaning on a row (this is the oracle: it never looks at the library);
//   2. a tokenizer / parser / evaluator for the SQL subset the driver emits, with
//      PostgreSQL's operator precedence (OR < AND < NOT < comparison < BETWEEN/IN/SIMILAR
//      < other operators such as ~ < unary +/-);
//   3. probe-row construction: for every field the regions cut out by the constants of the
//      query AND of the SQL text (so a rounded or invented constant is seen too).
// =====================================================================================

type vc04Kind int

const (
	vc04KInt  vc04Kind = iota // integer, text as written
	vc04KDec                  // decimal, text as written
	vc04KStr                  // string value
	vc04KPat                  // wildcard pattern (* any run, ? any one character)
	vc04KRe                   // regular expression /body/
	vc04KOpen                 // the unbounded range end *
)

// pattern token: k=0 literal rune r, k=1 '*', k=2 '?'
type vc04PTok struct {
	k int
	r rune
}

const (
	vc04StyleBare    = 0 // written as a bare word
	vc04StyleQuoted  = 1 // written as a "phrase" (\ and " escaped with a backslash)
	vc04StyleEscaped = 2 // written as a bare word with every special character backslash-escaped
)

type vc04Val struct {
	kind  vc04Kind
	text  string // number as written / the string itself / regexp body
	style int
	pat   []vc04PTok
	rat   *big.Rat
	num   *vc04Num
}

// vc04Num is an exact rational with an allocation-free comparison for the common case
// (numerator and denominator fit in 63 bits).
type vc04Num struct {
	r     *big.Rat
	n, d  int64
	small bool
}

func vc04MkNum(r *big.Rat) *vc04Num {
	x := &vc04Num{r: r}
	if r.Num().IsInt64() && r.Denom().IsInt64() && r.Num().Int64() != math.MinInt64 {
		x.n, x.d, x.small = r.Num().Int64(), r.Denom().Int64(), true
	}
	return x
}

func vc04NumCmp(a, b *vc04Num) int {
	if !a.small || !b.small {
		return a.r.Cmp(b.r)
	}
	sa, sb := 0, 0
	switch {
	case a.n > 0:
		sa = 1
	case a.n < 0:
		sa = -1
	}
	switch {
	case b.n > 0:
		sb = 1
	case b.n < 0:
		sb = -1
	}
	if sa != sb {
		if sa < sb {
			return -1
		}
		return 1
	}
	if sa == 0 {
		return 0
	}
	ua, ub := uint64(a.n), uint64(b.n)
	if sa < 0 {
		ua, ub = uint64(-a.n), uint64(-b.n)
	}
	h1, l1 := bits.Mul64(ua, uint64(b.d))
	h2, l2 := bits.Mul64(ub, uint64(a.d))
	c := 0
	switch {
	case h1 != h2:
		if h1 < h2 {
			c = -1
		} else {
			c = 1
		}
	case l1 != l2:
		if l1 < l2 {
			c = -1
		} else {
			c = 1
		}
	}
	return c * sa
}

const (
	vc04OpEq = iota
	vc04OpLt
	vc04OpLe
	vc04OpGt
	vc04OpGe
	vc04OpRange
	vc04OpIn
	vc04OpLike
	vc04OpRegex
	vc04OpAnd
	vc04OpOr
	vc04OpNot
	vc04OpMust    // +x
	vc04OpMustNot // -x
	vc04OpJuxt    // x y  (only generated for +/- prefixed operands: the conjunction of the clauses)
)

type vc04Node struct {
	op             int
	field          string
	num            bool // type of the field: numeric or string
	vals           []vc04Val
	loIncl, hiIncl bool
	kids           []*vc04Node
}

func vc04IsLeaf(n *vc04Node) bool { return n.op <= vc04OpRegex }

func vc04Int(s string) vc04Val {
	r, ok := new(big.Rat).SetString(s)
	if !ok {
		panic("bad int " + s)
	}
	return vc04Val{kind: vc04KInt, text: s, rat: r, num: vc04MkNum(r)}
}

func vc04Dec(s string) vc04Val {
	r, ok := new(big.Rat).SetString(s)
	if !ok {
		panic("bad dec " + s)
	}
	return vc04Val{kind: vc04KDec, text: s, rat: r, num: vc04MkNum(r)}
}

func vc04Str(s string, style int) vc04Val { return vc04Val{kind: vc04KStr, text: s, style: style} }

func vc04Open() vc04Val { return vc04Val{kind: vc04KOpen, text: "*"} }

func vc04Re(body string) vc04Val { return vc04Val{kind: vc04KRe, text: body} }

// vc04Pat builds a pattern from a compact spelling: '*' and '?' are wildcards, every other
// rune is a literal, and a rune preceded by '\' is a literal even if it is * or ?.
func vc04Pat(spec string) vc04Val {
	var toks []vc04PTok
	rs := []rune(spec)
	for i := 0; i < len(rs); i++ {
		switch {
		case rs[i] == '\\' && i+1 < len(rs):
			i++
			toks = append(toks, vc04PTok{0, rs[i]})
		case rs[i] == '*':
			toks = append(toks, vc04PTok{1, 0})
		case rs[i] == '?':
			toks = append(toks, vc04PTok{2, 0})
		default:
			toks = append(toks, vc04PTok{0, rs[i]})
		}
	}
	return vc04Val{kind: vc04KPat, text: spec, pat: toks}
}

func vc04WordRune(r rune) bool {
	return r == '_' || unicode.IsLetter(r) || unicode.IsDigit(r)
}

// ---- printer: Lucene query syntax -----------------------------------------------------

func vc04PrintVal(v vc04Val) string {
	switch v.kind {
	case vc04KInt, vc04KDec:
		return v.text
	case vc04KOpen:
		return "*"
	case vc04KRe:
		return "/" + v.text + "/"
	case vc04KPat:
		var sb strings.Builder
		for i, t := range v.pat {
			switch t.k {
			case 1:
				sb.WriteByte('*')
			case 2:
				sb.WriteByte('?')
			default:
				if vc04WordRune(t.r) || (i > 0 && (t.r == '.' || t.r == '-')) {
					sb.WriteRune(t.r)
				} else {
					sb.WriteByte('\\')
					sb.WriteRune(t.r)
				}
			}
		}
		return sb.String()
	}
	switch v.style {
	case vc04StyleBare:
		return v.text
	case vc04StyleQuoted:
		s := strings.ReplaceAll(v.text, `\`, `\\`)
		s = strings.ReplaceAll(s, `"`, `\"`)
		return `"` + s + `"`
	default:
		var sb strings.Builder
		switch strings.ToUpper(v.text) {
		case "AND", "OR", "NOT", "TO":
			return `\` + v.text // an escaped first letter makes the keyword an ordinary term
		}
		for i, r := range v.text {
			if vc04WordRune(r) || (i > 0 && (r == '.' || r == '-')) {
				sb.WriteRune(r)
			} else {
				sb.WriteByte('\\')
				sb.WriteRune(r)
			}
		}
		return sb.String()
	}
}

func vc04PrintLeaf(n *vc04Node) string {
	switch n.op {
	case vc04OpEq, vc04OpLike, vc04OpRegex:
		return n.field + ":" + vc04PrintVal(n.vals[0])
	case vc04OpLt:
		return n.field + ":<" + vc04PrintVal(n.vals[0])
	case vc04OpLe:
		return n.field + ":<=" + vc04PrintVal(n.vals[0])
	case vc04OpGt:
		return n.field + ":>" + vc04PrintVal(n.vals[0])
	case vc04OpGe:
		return n.field + ":>=" + vc04PrintVal(n.vals[0])
	case vc04OpRange:
		o, c := "{", "}"
		if n.loIncl {
			o = "["
		}
		if n.hiIncl {
			c = "]"
		}
		return n.field + ":" + o + vc04PrintVal(n.vals[0]) + " TO " + vc04PrintVal(n.vals[1]) + c
	case vc04OpIn:
		parts := make([]string, len(n.vals))
		for i, v := range n.vals {
			parts[i] = vc04PrintVal(v)
		}
		return n.field + ":(" + strings.Join(parts, " OR ") + ")"
	}
	panic("not a leaf")
}

func vc04Level(n *vc04Node) int {
	switch n.op {
	case vc04OpOr:
		return 1
	case vc04OpAnd:
		return 2
	case vc04OpJuxt:
		return 0 // always parenthesised when nested
	case vc04OpNot:
		return 3
	case vc04OpMust, vc04OpMustNot:
		return 4
	}
	return 9
}

// vc04Print writes the tree as query text.  full=false: parentheses only where the
// standard precedence (NOT > AND > OR, prefix +/- tightest) needs them; full=true: every
// compound operand is parenthesised.  A prefix operator applied to another prefix
// operator is always parenthesised (Lucene allows one modifier per clause).
func vc04Print(n *vc04Node, full bool) string {
	if vc04IsLeaf(n) {
		return vc04PrintLeaf(n)
	}
	child := func(c *vc04Node, parentLevel int, unaryParent bool) string {
		s := vc04Print(c, full)
		if vc04IsLeaf(c) {
			return s
		}
		need := full || vc04Level(c) < parentLevel
		if unaryParent && !vc04IsLeaf(c) {
			need = true // compound or prefixed operand of a prefix operator
		}
		if need {
			return "(" + s + ")"
		}
		return s
	}
	switch n.op {
	case vc04OpAnd:
		return child(n.kids[0], 2, false) + " AND " + child(n.kids[1], 2, false)
	case vc04OpOr:
		return child(n.kids[0], 1, false) + " OR " + child(n.kids[1], 1, false)
	case vc04OpJuxt:
		return child(n.kids[0], 4, false) + " " + child(n.kids[1], 4, false)
	case vc04OpNot:
		c := n.kids[0]
		if vc04IsLeaf(c) {
			return "NOT " + vc04Print(c, full)
		}
		return "NOT (" + vc04Print(c, full) + ")"
	case vc04OpMust:
		return "+" + child(n.kids[0], 9, true)
	case vc04OpMustNot:
		return "-" + child(n.kids[0], 9, true)
	}
	panic("bad op")
}

func vc04Size(n *vc04Node) int {
	s := 1
	for _, k := range n.kids {
		s += vc04Size(k)
	}
	return s
}

func vc04LeavesOf(n *vc04Node, out []*vc04Node) []*vc04Node {
	if vc04IsLeaf(n) {
		return append(out, n)
	}
	for _, k := range n.kids {
		out = vc04LeavesOf(k, out)
	}
	return out
}

// ---- the query's own meaning ------------------------------------------------------------

type vc04Cell struct {
	num bool
	n   *vc04Num
	s   string
}

type vc04Row map[string]vc04Cell

func vc04CmpVal(c vc04Cell, v vc04Val) int {
	if c.num {
		return vc04NumCmp(c.n, v.num)
	}
	return strings.Compare(c.s, v.text)
}

func vc04MatchPat(p []vc04PTok, s []rune) bool {
	if len(p) == 0 {
		return len(s) == 0
	}
	switch p[0].k {
	case 1:
		for i := 0; i <= len(s); i++ {
			if vc04MatchPat(p[1:], s[i:]) {
				return true
			}
		}
		return false
	case 2:
		return len(s) > 0 && vc04MatchPat(p[1:], s[1:])
	}
	return len(s) > 0 && s[0] == p[0].r && vc04MatchPat(p[1:], s[1:])
}

// vc04Meaning is the oracle: +x means x, -x means NOT x, numbers compare numerically,
// strings compare as strings (byte order), * / ? match any run / any one character.
func vc04Meaning(n *vc04Node, row vc04Row) bool {
	switch n.op {
	case vc04OpAnd, vc04OpJuxt:
		return vc04Meaning(n.kids[0], row) && vc04Meaning(n.kids[1], row)
	case vc04OpOr:
		return vc04Meaning(n.kids[0], row) || vc04Meaning(n.kids[1], row)
	case vc04OpNot, vc04OpMustNot:
		return !vc04Meaning(n.kids[0], row)
	case vc04OpMust:
		return vc04Meaning(n.kids[0], row)
	}
	c := row[n.field]
	switch n.op {
	case vc04OpEq:
		return vc04CmpVal(c, n.vals[0]) == 0
	case vc04OpLt:
		return vc04CmpVal(c, n.vals[0]) < 0
	case vc04OpLe:
		return vc04CmpVal(c, n.vals[0]) <= 0
	case vc04OpGt:
		return vc04CmpVal(c, n.vals[0]) > 0
	case vc04OpGe:
		return vc04CmpVal(c, n.vals[0]) >= 0
	case vc04OpRange:
		lo, hi := n.vals[0], n.vals[1]
		if lo.kind != vc04KOpen {
			d := vc04CmpVal(c, lo)
			if d < 0 || (d == 0 && !n.loIncl) {
				return false
			}
		}
		if hi.kind != vc04KOpen {
			d := vc04CmpVal(c, hi)
			if d > 0 || (d == 0 && !n.hiIncl) {
				return false
			}
		}
		return true
	case vc04OpIn:
		for _, v := range n.vals {
			if vc04CmpVal(c, v) == 0 {
				return true
			}
		}
		return false
	case vc04OpLike:
		return vc04MatchPat(n.vals[0].pat, []rune(c.s))
	case vc04OpRegex:
		re, err := regexp.Compile(`^(?s:` + n.vals[0].text + `)$`)
		return err == nil && re.MatchString(c.s)
	}
	panic("bad op")
}

// ---- SQL subset: tokenizer ------------------------------------------------------------

const (
	vc04TIdent = iota
	vc04TStr
	vc04TNum
	vc04TParam
	vc04TOp
	vc04TKw
	vc04TLParen
	vc04TRParen
	vc04TComma
	vc04TEOF
)

type vc04Tok struct {
	t   int
	s   string
	idx int // parameter index
}

var vc04Keywords = map[string]bool{"AND": true, "OR": true, "NOT": true, "BETWEEN": true, "IN": true, "SIMILAR": true, "TO": true}

func vc04LexSQL(sql string) ([]vc04Tok, error) {
	var toks []vc04Tok
	nparam := 0
	i := 0
	for i < len(sql) {
		c := sql[i]
		switch {
		case c == ' ' || c == '\t' || c == '\n' || c == '\r':
			i++
		case c == '"':
			j := i + 1
			var sb strings.Builder
			closed := false
			for j < len(sql) {
				if sql[j] == '"' {
					if j+1 < len(sql) && sql[j+1] == '"' {
						sb.WriteByte('"')
						j += 2
						continue
					}
					closed = true
					j++
					break
				}
				sb.WriteByte(sql[j])
				j++
			}
			if !closed {
				return nil, fmt.Errorf("unterminated quoted identifier")
			}
			if sb.Len() == 0 {
				return nil, fmt.Errorf("zero-length delimited identifier")
			}
			toks = append(toks, vc04Tok{t: vc04TIdent, s: sb.String()})
			i = j
		case c == '\'':
			j := i + 1
			var sb strings.Builder
			closed := false
			for j < len(sql) {
				if sql[j] == '\'' {
					if j+1 < len(sql) && sql[j+1] == '\'' {
						sb.WriteByte('\'')
						j += 2
						continue
					}
					closed = true
					j++
					break
				}
				sb.WriteByte(sql[j])
				j++
			}
			if !closed {
				return nil, fmt.Errorf("unterminated string constant")
			}
			toks = append(toks, vc04Tok{t: vc04TStr, s: sb.String()})
			i = j
		case c >= '0' && c <= '9' || (c == '.' && i+1 < len(sql) && sql[i+1] >= '0' && sql[i+1] <= '9'):
			j := i
			for j < len(sql) && sql[j] >= '0' && sql[j] <= '9' {
				j++
			}
			if j < len(sql) && sql[j] == '.' {
				j++
				for j < len(sql) && sql[j] >= '0' && sql[j] <= '9' {
					j++
				}
			}
			if j < len(sql) && (sql[j] == 'e' || sql[j] == 'E') {
				k := j + 1
				if k < len(sql) && (sql[k] == '+' || sql[k] == '-') {
					k++
				}
				if k < len(sql) && sql[k] >= '0' && sql[k] <= '9' {
					for k < len(sql) && sql[k] >= '0' && sql[k] <= '9' {
						k++
					}
					j = k
				}
			}
			if j < len(sql) && (sql[j] == '_' || sql[j] >= 'a' && sql[j] <= 'z' || sql[j] >= 'A' && sql[j] <= 'Z') {
				return nil, fmt.Errorf("trailing junk after numeric literal at %d", i)
			}
			toks = append(toks, vc04Tok{t: vc04TNum, s: sql[i:j]})
			i = j
		case c == '?':
			toks = append(toks, vc04Tok{t: vc04TParam, idx: nparam})
			nparam++
			i++
		case c == '_' || c >= 'a' && c <= 'z' || c >= 'A' && c <= 'Z' || c >= 0x80:
			j := i
			for j < len(sql) && (sql[j] == '_' || sql[j] == '$' || sql[j] >= 'a' && sql[j] <= 'z' || sql[j] >= 'A' && sql[j] <= 'Z' || sql[j] >= '0' && sql[j] <= '9' || sql[j] >= 0x80) {
				j++
			}
			w := sql[i:j]
			if vc04Keywords[strings.ToUpper(w)] {
				toks = append(toks, vc04Tok{t: vc04TKw, s: strings.ToUpper(w)})
			} else {
				toks = append(toks, vc04Tok{t: vc04TIdent, s: strings.ToLower(w)})
			}
			i = j
		case c == '(':
			toks = append(toks, vc04Tok{t: vc04TLParen})
			i++
		case c == ')':
			toks = append(toks, vc04Tok{t: vc04TRParen})
			i++
		case c == ',':
			toks = append(toks, vc04Tok{t: vc04TComma})
			i++
		case c == '-' && i+1 < len(sql) && sql[i+1] == '-':
			return nil, fmt.Errorf("SQL comment at %d", i)
		case c == '/' && i+1 < len(sql) && sql[i+1] == '*':
			return nil, fmt.Errorf("SQL comment at %d", i)
		case c == '<' || c == '>' || c == '=' || c == '~' || c == '+' || c == '-':
			if (c == '<' || c == '>') && i+1 < len(sql) && sql[i+1] == '=' {
				toks = append(toks, vc04Tok{t: vc04TOp, s: sql[i : i+2]})
				i += 2
			} else {
				toks = append(toks, vc04Tok{t: vc04TOp, s: string(c)})
				i++
			}
		default:
			return nil, fmt.Errorf("character %q at %d is outside the emitted SQL subset", c, i)
		}
	}
	toks = append(toks, vc04Tok{t: vc04TEOF})
	return toks, nil
}

// ---- SQL subset: parser (PostgreSQL precedence) ------------------------------------------

const (
	vc04SCol = iota
	vc04SStr
	vc04SNum
	vc04SParam
	vc04SCmp     // a op b
	vc04SBetween // a BETWEEN b AND c
	vc04SIn      // a IN list
	vc04SSimilar // a SIMILAR TO b
	vc04SRegex   // a ~ b
	vc04SAnd
	vc04SOr
	vc04SNot
	vc04SNeg // unary minus on a non-constant
	vc04SPos // unary plus
)

type vc04SQL struct {
	k       int
	s       string // column name / string constant / operator
	n       *big.Rat
	num     *vc04Num
	idx     int
	a, b, c *vc04SQL
	list    []*vc04SQL
}

type vc04Parser struct {
	toks []vc04Tok
	p    int
}

func (p *vc04Parser) peek() vc04Tok { return p.toks[p.p] }
func (p *vc04Parser) next() vc04Tok { t := p.toks[p.p]; p.p++; return t }
func (p *vc04Parser) isKw(s string) bool {
	t := p.peek()
	return t.t == vc04TKw && t.s == s
}

func vc04ParseSQL(sql string) (*vc04SQL, error) {
	toks, err := vc04LexSQL(sql)
	if err != nil {
		return nil, err
	}
	p := &vc04Parser{toks: toks}
	e, err := p.parseOr()
	if err != nil {
		return nil, err
	}
	if p.peek().t != vc04TEOF {
		return nil, fmt.Errorf("syntax error: unexpected token %d after the expression", p.p)
	}
	return e, nil
}

func (p *vc04Parser) parseOr() (*vc04SQL, error) {
	l, err := p.parseAnd()
	if err != nil {
		return nil, err
	}
	for p.isKw("OR") {
		p.next()
		r, err := p.parseAnd()
		if err != nil {
			return nil, err
		}
		l = &vc04SQL{k: vc04SOr, a: l, b: r}
	}
	return l, nil
}

func (p *vc04Parser) parseAnd() (*vc04SQL, error) {
	l, err := p.parseNot()
	if err != nil {
		return nil, err
	}
	for p.isKw("AND") {
		p.next()
		r, err := p.parseNot()
		if err != nil {
			return nil, err
		}
		l = &vc04SQL{k: vc04SAnd, a: l, b: r}
	}
	return l, nil
}

func (p *vc04Parser) parseNot() (*vc04SQL, error) {
	if p.isKw("NOT") {
		p.next()
		e, err := p.parseNot()
		if err != nil {
			return nil, err
		}
		return &vc04SQL{k: vc04SNot, a: e}, nil
	}
	return p.parseCmp()
}

func vc04IsCmpOp(t vc04Tok) bool {
	return t.t == vc04TOp && (t.s == "=" || t.s == "<" || t.s == "<=" || t.s == ">" || t.s == ">=")
}

func (p *vc04Parser) parseCmp() (*vc04SQL, error) {
	l, err := p.parseIn()
	if err != nil {
		return nil, err
	}
	if vc04IsCmpOp(p.peek()) {
		op := p.next().s
		r, err := p.parseIn()
		if err != nil {
			return nil, err
		}
		l = &vc04SQL{k: vc04SCmp, s: op, a: l, b: r}
		if vc04IsCmpOp(p.peek()) {
			return nil, fmt.Errorf("syntax error: comparison operators are non-associative")
		}
	}
	return l, nil
}

func (p *vc04Parser) parseIn() (*vc04SQL, error) {
	l, err := p.parseOp()
	if err != nil {
		return nil, err
	}
	switch {
	case p.isKw("BETWEEN"):
		p.next()
		lo, err := p.parseOp()
		if err != nil {
			return nil, err
		}
		if !p.isKw("AND") {
			return nil, fmt.Errorf("syntax error: BETWEEN without AND")
		}
		p.next()
		hi, err := p.parseOp()
		if err != nil {
			return nil, err
		}
		return &vc04SQL{k: vc04SBetween, a: l, b: lo, c: hi}, nil
	case p.isKw("IN"):
		p.next()
		if p.peek().t != vc04TLParen {
			return nil, fmt.Errorf("syntax error: IN without list")
		}
		p.next()
		var items []*vc04SQL
		for {
			e, err := p.parseOr()
			if err != nil {
				return nil, err
			}
			items = append(items, e)
			if p.peek().t == vc04TComma {
				p.next()
				continue
			}
			break
		}
		if p.peek().t != vc04TRParen {
			return nil, fmt.Errorf("syntax error: unterminated IN list")
		}
		p.next()
		return &vc04SQL{k: vc04SIn, a: l, list: items}, nil
	case p.isKw("SIMILAR"):
		p.next()
		if !p.isKw("TO") {
			return nil, fmt.Errorf("syntax error: SIMILAR without TO")
		}
		p.next()
		r, err := p.parseOp()
		if err != nil {
			return nil, err
		}
		return &vc04SQL{k: vc04SSimilar, a: l, b: r}, nil
	}
	return l, nil
}

func (p *vc04Parser) parseOp() (*vc04SQL, error) {
	l, err := p.parseUnary()
	if err != nil {
		return nil, err
	}
	for {
		t := p.peek()
		if t.t == vc04TOp && t.s == "~" {
			p.next()
			r, err := p.parseUnary()
			if err != nil {
				return nil, err
			}
			l = &vc04SQL{k: vc04SRegex, a: l, b: r}
			continue
		}
		if t.t == vc04TOp && (t.s == "+" || t.s == "-") {
			return nil, fmt.Errorf("arithmetic operator %s is outside the emitted SQL subset", t.s)
		}
		return l, nil
	}
}

func (p *vc04Parser) parseUnary() (*vc04SQL, error) {
	t := p.peek()
	if t.t == vc04TOp && (t.s == "-" || t.s == "+") {
		p.next()
		e, err := p.parseUnary()
		if err != nil {
			return nil, err
		}
		if e.k == vc04SNum {
			if t.s == "-" {
				neg := new(big.Rat).Neg(e.n)
				return &vc04SQL{k: vc04SNum, n: neg, num: vc04MkNum(neg), s: "-" + e.s}, nil
			}
			return e, nil
		}
		if t.s == "-" {
			return &vc04SQL{k: vc04SNeg, a: e}, nil
		}
		return &vc04SQL{k: vc04SPos, a: e}, nil
	}
	return p.parsePrimary()
}

func (p *vc04Parser) parsePrimary() (*vc04SQL, error) {
	t := p.next()
	switch t.t {
	case vc04TLParen:
		e, err := p.parseOr()
		if err != nil {
			return nil, err
		}
		if p.peek().t != vc04TRParen {
			return nil, fmt.Errorf("syntax error: missing )")
		}
		p.next()
		return e, nil
	case vc04TIdent:
		return &vc04SQL{k: vc04SCol, s: t.s}, nil
	case vc04TStr:
		return &vc04SQL{k: vc04SStr, s: t.s}, nil
	case vc04TNum:
		r, ok := new(big.Rat).SetString(t.s)
		if !ok {
			return nil, fmt.Errorf("bad numeric constant %q", t.s)
		}
		return &vc04SQL{k: vc04SNum, n: r, num: vc04MkNum(r), s: t.s}, nil
	case vc04TParam:
		return &vc04SQL{k: vc04SParam, idx: t.idx}, nil
	}
	return nil, fmt.Errorf("syntax error at token %d", p.p-1)
}

func vc04SQLConsts(e *vc04SQL, nums *[]*big.Rat, strs *[]string) {
	if e == nil {
		return
	}
	switch e.k {
	case vc04SNum:
		*nums = append(*nums, e.n)
	case vc04SStr:
		*strs = append(*strs, e.s)
	}
	vc04SQLConsts(e.a, nums, strs)
	vc04SQLConsts(e.b, nums, strs)
	vc04SQLConsts(e.c, nums, strs)
	for _, x := range e.list {
		vc04SQLConsts(x, nums, strs)
	}
}

// ---- SQL subset: evaluator ----------------------------------------------------------------

type vc04Sv struct {
	t int8 // 0 bool, 1 number, 2 string
	b bool
	n *vc04Num
	s string
}

func vc04TypeName(v vc04Sv) string {
	return [...]string{"boolean", "numeric", "text"}[v.t]
}

var vc04ReCache sync.Map

// vc04SimilarRegexp translates a SIMILAR TO pattern the way PostgreSQL's similar_to_escape
// does (default escape character backslash): % -> .*, _ -> ., \c -> literal c, the regular
// expression metacharacters | * + ? { } ( ) [ ] keep their meaning, . ^ $ are literals.
func vc04SimilarRegexp(pat string) (*regexp.Regexp, error) {
	if re, ok := vc04ReCache.Load("S" + pat); ok {
		if re == nil {
			return nil, fmt.Errorf("invalid SIMILAR TO pattern %q", pat)
		}
		return re.(*regexp.Regexp), nil
	}
	var sb strings.Builder
	sb.WriteString(`^(?s:`)
	rs := []rune(pat)
	for i := 0; i < len(rs); i++ {
		r := rs[i]
		switch {
		case r == '\\':
			if i+1 >= len(rs) {
				return nil, fmt.Errorf("invalid SIMILAR TO pattern %q: ends with the escape character", pat)
			}
			i++
			sb.WriteString(regexp.QuoteMeta(string(rs[i])))
		case r == '%':
			sb.WriteString(`.*`)
		case r == '_':
			sb.WriteString(`.`)
		case strings.ContainsRune(`|*+?{}()[]`, r):
			sb.WriteRune(r)
		default:
			sb.WriteString(regexp.QuoteMeta(string(r)))
		}
	}
	sb.WriteString(`)$`)
	re, err := regexp.Compile(sb.String())
	if err != nil {
		return nil, fmt.Errorf("invalid SIMILAR TO pattern %q: %v", pat, err)
	}
	vc04ReCache.Store("S"+pat, re)
	return re, nil
}

func vc04PosixRegexp(pat string) (*regexp.Regexp, error) {
	if re, ok := vc04ReCache.Load("R" + pat); ok {
		return re.(*regexp.Regexp), nil
	}
	re, err := regexp.Compile(`(?s)` + pat)
	if err != nil {
		return nil, fmt.Errorf("invalid regular expression %q: %v", pat, err)
	}
	vc04ReCache.Store("R"+pat, re)
	return re, nil
}

func vc04CompareSv(a, b vc04Sv, op string) (int, error) {
	if a.t != b.t || a.t == 0 {
		return 0, fmt.Errorf("operator does not exist: %s %s %s", vc04TypeName(a), op, vc04TypeName(b))
	}
	if a.t == 1 {
		return vc04NumCmp(a.n, b.n), nil
	}
	return strings.Compare(a.s, b.s), nil
}

func vc04EvalSQL(e *vc04SQL, row vc04Row, params []vc04Sv) (vc04Sv, error) {
	switch e.k {
	case vc04SCol:
		c, ok := row[e.s]
		if !ok {
			return vc04Sv{}, fmt.Errorf("column %q does not exist", e.s)
		}
		if c.num {
			return vc04Sv{t: 1, n: c.n}, nil
		}
		return vc04Sv{t: 2, s: c.s}, nil
	case vc04SStr:
		return vc04Sv{t: 2, s: e.s}, nil
	case vc04SNum:
		return vc04Sv{t: 1, n: e.num}, nil
	case vc04SParam:
		if e.idx >= len(params) {
			return vc04Sv{}, fmt.Errorf("there is no parameter $%d", e.idx+1)
		}
		return params[e.idx], nil
	case vc04SNeg, vc04SPos:
		v, err := vc04EvalSQL(e.a, row, params)
		if err != nil {
			return v, err
		}
		if v.t != 1 {
			return v, fmt.Errorf("operator does not exist: unary sign on %s", vc04TypeName(v))
		}
		if e.k == vc04SNeg {
			return vc04Sv{t: 1, n: vc04MkNum(new(big.Rat).Neg(v.n.r))}, nil
		}
		return v, nil
	case vc04SAnd, vc04SOr:
		a, err := vc04EvalSQL(e.a, row, params)
		if err != nil {
			return a, err
		}
		b, err := vc04EvalSQL(e.b, row, params)
		if err != nil {
			return b, err
		}
		if a.t != 0 || b.t != 0 {
			return a, fmt.Errorf("argument of AND/OR must be type boolean, not %s/%s", vc04TypeName(a), vc04TypeName(b))
		}
		if e.k == vc04SAnd {
			return vc04Sv{b: a.b && b.b}, nil
		}
		return vc04Sv{b: a.b || b.b}, nil
	case vc04SNot:
		a, err := vc04EvalSQL(e.a, row, params)
		if err != nil {
			return a, err
		}
		if a.t != 0 {
			return a, fmt.Errorf("argument of NOT must be type boolean, not %s", vc04TypeName(a))
		}
		return vc04Sv{b: !a.b}, nil
	case vc04SCmp:
		a, err := vc04EvalSQL(e.a, row, params)
		if err != nil {
			return a, err
		}
		b, err := vc04EvalSQL(e.b, row, params)
		if err != nil {
			return b, err
		}
		d, err := vc04CompareSv(a, b, e.s)
		if err != nil {
			return a, err
		}
		switch e.s {
		case "=":
			return vc04Sv{b: d == 0}, nil
		case "<":
			return vc04Sv{b: d < 0}, nil
		case "<=":
			return vc04Sv{b: d <= 0}, nil
		case ">":
			return vc04Sv{b: d > 0}, nil
		default:
			return vc04Sv{b: d >= 0}, nil
		}
	case vc04SBetween:
		a, err := vc04EvalSQL(e.a, row, params)
		if err != nil {
			return a, err
		}
		lo, err := vc04EvalSQL(e.b, row, params)
		if err != nil {
			return lo, err
		}
		hi, err := vc04EvalSQL(e.c, row, params)
		if err != nil {
			return hi, err
		}
		d1, err := vc04CompareSv(a, lo, ">=")
		if err != nil {
			return a, err
		}
		d2, err := vc04CompareSv(a, hi, "<=")
		if err != nil {
			return a, err
		}
		return vc04Sv{b: d1 >= 0 && d2 <= 0}, nil
	case vc04SIn:
		a, err := vc04EvalSQL(e.a, row, params)
		if err != nil {
			return a, err
		}
		res := false
		for _, it := range e.list {
			v, err := vc04EvalSQL(it, row, params)
			if err != nil {
				return v, err
			}
			d, err := vc04CompareSv(a, v, "=")
			if err != nil {
				return a, err
			}
			if d == 0 {
				res = true
			}
		}
		return vc04Sv{b: res}, nil
	case vc04SSimilar, vc04SRegex:
		a, err := vc04EvalSQL(e.a, row, params)
		if err != nil {
			return a, err
		}
		b, err := vc04EvalSQL(e.b, row, params)
		if err != nil {
			return b, err
		}
		if a.t != 2 || b.t != 2 {
			return a, fmt.Errorf("operator does not exist: %s ~ %s", vc04TypeName(a), vc04TypeName(b))
		}
		var re *regexp.Regexp
		if e.k == vc04SSimilar {
			re, err = vc04SimilarRegexp(b.s)
		} else {
			re, err = vc04PosixRegexp(b.s)
		}
		if err != nil {
			return a, err
		}
		return vc04Sv{b: re.MatchString(a.s)}, nil
	}
	return vc04Sv{}, fmt.Errorf("unknown SQL node")
}

func vc04ShowSQL(e *vc04SQL) string {
	if e == nil {
		return ""
	}
	switch e.k {
	case vc04SCol:
		return `"` + e.s + `"`
	case vc04SStr:
		return `'` + strings.ReplaceAll(e.s, `'`, `''`) + `'`
	case vc04SNum:
		return e.s
	case vc04SParam:
		return fmt.Sprintf("$%d", e.idx+1)
	case vc04SCmp:
		return "(" + vc04ShowSQL(e.a) + " " + e.s + " " + vc04ShowSQL(e.b) + ")"
	case vc04SBetween:
		return "(" + vc04ShowSQL(e.a) + " BETWEEN " + vc04ShowSQL(e.b) + " AND " + vc04ShowSQL(e.c) + ")"
	case vc04SIn:
		var parts []string
		for _, x := range e.list {
			parts = append(parts, vc04ShowSQL(x))
		}
		return "(" + vc04ShowSQL(e.a) + " IN (" + strings.Join(parts, ", ") + "))"
	case vc04SSimilar:
		return "(" + vc04ShowSQL(e.a) + " SIMILAR TO " + vc04ShowSQL(e.b) + ")"
	case vc04SRegex:
		return "(" + vc04ShowSQL(e.a) + " ~ " + vc04ShowSQL(e.b) + ")"
	case vc04SAnd:
		return "(" + vc04ShowSQL(e.a) + " AND " + vc04ShowSQL(e.b) + ")"
	case vc04SOr:
		return "(" + vc04ShowSQL(e.a) + " OR " + vc04ShowSQL(e.b) + ")"
	case vc04SNot:
		return "(NOT " + vc04ShowSQL(e.a) + ")"
	case vc04SNeg:
		return "(-" + vc04ShowSQL(e.a) + ")"
	case vc04SPos:
		return "(+" + vc04ShowSQL(e.a) + ")"
	}
	return "?"
}

// ---- probe rows -----------------------------------------------------------------------------

func vc04PatProbes(p []vc04PTok) []string {
	build := func(star, q string, skip int, repl string) string {
		var sb strings.Builder
		for i, t := range p {
			if i == skip {
				sb.WriteString(repl)
				continue
			}
			switch t.k {
			case 1:
				sb.WriteString(star)
			case 2:
				sb.WriteString(q)
			default:
				sb.WriteRune(t.r)
			}
		}
		return sb.String()
	}
	var out []string
	for _, f := range []string{"", "z", "zq"} {
		out = append(out, build(f, "z", -1, ""))
	}
	base := build("z", "z", -1, "")
	out = append(out, "z"+base, base+"z", build("", "", -1, ""), build("z/z", "é", -1, ""))
	for i, t := range p {
		switch t.k {
		case 0:
			out = append(out, build("z", "z", i, "z"), build("z", "z", i, ""), build("", "z", i, "Z"))
		case 2:
			out = append(out, build("z", "z", i, ""), build("z", "z", i, "zz"))
		}
	}
	return out
}

type vc04ProbeSet struct {
	fields []string
	cells  [][]vc04Cell
}

// vc04Probes builds, for every field of the query, one value in every region cut out by the
// constants that the query and the SQL text(s) mention: numbers - below the smallest, each
// constant, a point strictly between neighbours, above the largest; strings - each constant,
// its immediate successor in byte order (c+"\x01"), the empty string, case variants, and for
// patterns a set of matching strings and near misses.
func vc04Probes(root *vc04Node, sqlNums []*big.Rat, sqlStrs []string) vc04ProbeSet {
	type fld struct {
		num  bool
		nums []*big.Rat
		strs []string
	}
	flds := map[string]*fld{}
	var order []string
	for _, l := range vc04LeavesOf(root, nil) {
		f := flds[l.field]
		if f == nil {
			f = &fld{num: l.num}
			flds[l.field] = f
			order = append(order, l.field)
		}
		for _, v := range l.vals {
			switch v.kind {
			case vc04KInt, vc04KDec:
				f.nums = append(f.nums, v.rat)
			case vc04KStr:
				f.strs = append(f.strs, v.text)
			case vc04KPat:
				f.strs = append(f.strs, vc04PatProbes(v.pat)...)
			case vc04KRe:
				f.strs = append(f.strs, v.text, "/"+v.text+"/", "z"+v.text+"z", "z/"+v.text+"/z")
			}
		}
	}
	sort.Strings(order)
	ps := vc04ProbeSet{fields: order}
	for _, name := range order {
		f := flds[name]
		var cells []vc04Cell
		if f.num {
			all := append(append([]*big.Rat{}, f.nums...), sqlNums...)
			sort.Slice(all, func(i, j int) bool { return all[i].Cmp(all[j]) < 0 })
			var uniq []*big.Rat
			for _, r := range all {
				if len(uniq) == 0 || uniq[len(uniq)-1].Cmp(r) != 0 {
					uniq = append(uniq, r)
				}
			}
			if len(uniq) == 0 {
				uniq = []*big.Rat{new(big.Rat)}
			}
			one := big.NewRat(1, 1)
			half := big.NewRat(1, 2)
			cells = append(cells, vc04Cell{num: true, n: vc04MkNum(new(big.Rat).Sub(uniq[0], one))})
			for i, r := range uniq {
				cells = append(cells, vc04Cell{num: true, n: vc04MkNum(r)})
				if i+1 < len(uniq) {
					mid := new(big.Rat).Add(r, uniq[i+1])
					mid.Mul(mid, half)
					cells = append(cells, vc04Cell{num: true, n: vc04MkNum(mid)})
				}
			}
			cells = append(cells, vc04Cell{num: true, n: vc04MkNum(new(big.Rat).Add(uniq[len(uniq)-1], one))})
		} else {
			seen := map[string]bool{}
			add := func(s string) {
				if !seen[s] && utf8.ValidString(s) && !strings.ContainsRune(s, 0) {
					seen[s] = true
					cells = append(cells, vc04Cell{s: s})
				}
			}
			add("")
			for _, s := range append(append([]string{}, f.strs...), sqlStrs...) {
				add(s)
				add(s + "\x01")
				add(strings.ToUpper(s))
				add(strings.ToLower(s))
			}
			sort.Slice(cells, func(i, j int) bool { return cells[i].s < cells[j].s })
		}
		ps.cells = append(ps.cells, cells)
	}
	return ps
}

// vc04ForRows enumerates the product of the per-field probes (a deterministic subset of
// maxRows of them when the product is larger) until fn returns false.
func vc04ForRows(ps vc04ProbeSet, maxRows int, fn func(vc04Row) bool) int {
	total := 1
	for _, c := range ps.cells {
		total *= len(c)
	}
	n := total
	if n > maxRows {
		n = maxRows
	}
	row := vc04Row{}
	for i := 0; i < n; i++ {
		idx := i
		if total > maxRows {
			idx = int((int64(i) * 1000003) % int64(total))
		}
		for f, c := range ps.cells {
			row[ps.fields[f]] = c[idx%len(c)]
			idx /= len(c)
		}
		if !fn(row) {
			return i + 1
		}
	}
	return n
}

func vc04ShowRow(row vc04Row) string {
	var names []string
	for k := range row {
		names = append(names, k)
	}
	sort.Strings(names)
	var parts []string
	for _, k := range names {
		c := row[k]
		if c.num {
			parts = append(parts, k+"="+c.n.r.FloatString(6))
		} else {
			parts = append(parts, k+"="+strconv.Quote(c.s))
		}
	}
	return "{" + strings.Join(parts, ", ") + "}"
}

// ---- alphabets and enumerators ------------------------------------------------------------

type vc04Alphabet struct {
	nums []vc04Val
	strs []vc04Val
	pats []vc04Val
}

func vc04NumVals(thorough bool) []vc04Val {
	ints := []string{"0", "1", "5", "-5", "9223372036854775807", "-9223372036854775808"}
	decs := []string{"1.5", "-1.5", "2.25", "0.001", "0.002", "2.125", "100.5"}
	if thorough {
		ints = append(ints, "2", "10", "-1", "42", "9007199254740993", "-9223372036854775807", "1000000")
		decs = append(decs, "0.5", "-0.25", "0.1", "2.675", "1.005", "123456789.25", "-0.004", "3.14159", "0.000001")
	}
	var out []vc04Val
	for _, s := range ints {
		out = append(out, vc04Int(s))
	}
	for _, s := range decs {
		out = append(out, vc04Dec(s))
	}
	return out
}

func vc04StrVals(thorough bool) []vc04Val {
	q, b, e := vc04StyleQuoted, vc04StyleBare, vc04StyleEscaped
	out := []vc04Val{
		vc04Str("b", b), vc04Str("b", q), vc04Str("d", b), vc04Str("d", q), vc04Str("B", b),
		vc04Str("b c", q), vc04Str("b c", e),
		vc04Str("b,c", q), vc04Str("b,c", e),
		vc04Str("it's", q), vc04Str("it's", e),
		vc04Str(`b"c`, q), vc04Str(`b"c`, e),
		vc04Str(`b\c`, q), vc04Str(`b\c`, e),
		vc04Str("é", b),
		vc04Str("b*", q), vc04Str("b*", e),
		vc04Str("*", q),
		vc04Str("1", q),
		vc04Str("NaN", b), vc04Str("NaN", q),
		vc04Str("AND", q),
		vc04Str("%", q),
		vc04Str("b_", b),
		vc04Str("x'; DROP TABLE t;--", q),
		vc04Str(" b", q),
		vc04Str("", q),
	}
	if thorough {
		out = append(out,
			vc04Str("Inf", b), vc04Str("infinity", b), vc04Str("nan", b),
			vc04Str("日本", b), vc04Str("é ü", q), vc04Str("D", b), vc04Str("c", b), vc04Str("bb", b),
			vc04Str("b-c", b), vc04Str("b.c", b), vc04Str("a/*b*/", q), vc04Str("a--b", q),
			vc04Str("''", q), vc04Str("'", e), vc04Str(`\`, q), vc04Str(`\\`, q),
			vc04Str("b?", q), vc04Str("b?", e), vc04Str("?", q), vc04Str("TO", q), vc04Str("or", q), vc04Str("AND", e),
			vc04Str("1.5", q), vc04Str("-1", q), vc04Str("b\tc", q), vc04Str("b\nc", q), vc04Str("(b)", q), vc04Str("(b)", e),
			vc04Str("[b TO d]", q), vc04Str("b:c", q), vc04Str("b:c", e), vc04Str("_", b), vc04Str("b%", q), vc04Str("/b/", q),
			vc04Str("b, c", q), vc04Str("$1", q), vc04Str("?", e),
		)
	}
	return out
}

func vc04PatVals(thorough bool) []vc04Val {
	runes := []string{"b", "c", "*", "?", "_"}
	maxLen := 3
	if thorough {
		runes = []string{"b", "c", "*", "?", "_", ".", "-", "é"}
		maxLen = 4
	}
	var specs []string
	var rec func(prefix string, n int)
	rec = func(prefix string, n int) {
		if n > 0 && strings.ContainsAny(prefix, "*?") {
			specs = append(specs, prefix)
		}
		if n == maxLen {
			return
		}
		for _, r := range runes {
			if n == 0 && (r == "." || r == "-") {
				continue
			}
			rec(prefix+r, n+1)
		}
	}
	rec("", 0)
	// patterns with backslash-escaped literal specials
	specs = append(specs, `b\**`, `b\?*`, `\**`, `b\ c*`, `it\'s*`, `b\\*`, `b\%*`, `b\+*`, `b\,c?`, `\?b?`)
	var out []vc04Val
	for _, s := range specs {
		out = append(out, vc04Pat(s))
	}
	return out
}

func vc04Leaf(op int, field string, num bool, vals ...vc04Val) *vc04Node {
	return &vc04Node{op: op, field: field, num: num, vals: vals, loIncl: true, hiIncl: true}
}

func vc04Range(field string, num bool, lo, hi vc04Val, loIncl, hiIncl bool) *vc04Node {
	return &vc04Node{op: vc04OpRange, field: field, num: num, vals: []vc04Val{lo, hi}, loIncl: loIncl, hiIncl: hiIncl}
}

// vc04AllLeaves: every leaf form over the value alphabets: equality, the four comparisons,
// ranges (each bound a value or *, all four bracket combinations), value lists of two and
// three values, wildcard patterns.
func vc04AllLeaves(thorough bool) []*vc04Node {
	var out []*vc04Node
	gen := func(field string, num bool, vals []vc04Val) {
		for _, v := range vals {
			out = append(out, vc04Leaf(vc04OpEq, field, num, v))
			for _, op := range []int{vc04OpLt, vc04OpLe, vc04OpGt, vc04OpGe} {
				out = append(out, vc04Leaf(op, field, num, v))
			}
		}
		bounds := append([]vc04Val{vc04Open()}, vals...)
		for _, lo := range bounds {
			for _, hi := range bounds {
				for _, li := range []bool{true, false} {
					for _, hi2 := range []bool{true, false} {
						out = append(out, vc04Range(field, num, lo, hi, li, hi2))
					}
				}
			}
		}
		for _, a := range vals {
			for _, b := range vals {
				out = append(out, vc04Leaf(vc04OpIn, field, num, a, b))
			}
		}
		k := 4
		if len(vals) < k {
			k = len(vals)
		}
		step := len(vals) / k
		var sub []vc04Val
		for i := 0; i < k; i++ {
			sub = append(sub, vals[i*step])
		}
		for _, a := range sub {
			for _, b := range sub {
				for _, c := range sub {
					out = append(out, vc04Leaf(vc04OpIn, field, num, a, b, c))
				}
			}
		}
	}
	gen("n", true, vc04NumVals(thorough))
	gen("s", false, vc04StrVals(thorough))
	for _, p := range vc04PatVals(thorough) {
		out = append(out, vc04Leaf(vc04OpLike, "s", false, p))
	}
	return out
}

func vc04Un(op int, k *vc04Node) *vc04Node     { return &vc04Node{op: op, kids: []*vc04Node{k}} }
func vc04Bin(op int, a, b *vc04Node) *vc04Node { return &vc04Node{op: op, kids: []*vc04Node{a, b}} }

// vc04Contexts puts a leaf into every depth-1 context (alone, under NOT / - / +, and on either
// side of AND / OR with a fixed neighbour on another field).
func vc04Contexts(l *vc04Node) []*vc04Node {
	k := vc04Leaf(vc04OpEq, "k", true, vc04Int("7"))
	return []*vc04Node{
		l,
		vc04Un(vc04OpNot, l), vc04Un(vc04OpMustNot, l), vc04Un(vc04OpMust, l),
		vc04Bin(vc04OpAnd, l, k), vc04Bin(vc04OpAnd, k, l), vc04Bin(vc04OpOr, l, k), vc04Bin(vc04OpOr, k, l),
	}
}

// vc04StructLeaves: one representative leaf per SQL rendering shape, used for the exhaustive
// enumeration of tree structures.
func vc04StructLeaves(thorough bool) []*vc04Node {
	b, q := vc04StyleBare, vc04StyleQuoted
	out := []*vc04Node{
		vc04Leaf(vc04OpEq, "n", true, vc04Int("1")),
		vc04Leaf(vc04OpGt, "n", true, vc04Dec("1.5")),
		vc04Range("n", true, vc04Int("1"), vc04Int("5"), true, true),
		vc04Range("n", true, vc04Int("0"), vc04Open(), false, false),
		vc04Leaf(vc04OpEq, "s", false, vc04Str("b", b)),
		vc04Range("s", false, vc04Str("b", b), vc04Str("d", b), true, true),
		vc04Leaf(vc04OpIn, "t", false, vc04Str("b", b), vc04Str("c d", q)),
		vc04Leaf(vc04OpLike, "t", false, vc04Pat("b*")),
	}
	if thorough {
		out = append(out,
			vc04Leaf(vc04OpIn, "m", true, vc04Int("1"), vc04Int("2")),
			vc04Leaf(vc04OpLe, "m", true, vc04Int("2")),
			vc04Range("m", true, vc04Dec("0.5"), vc04Dec("2.25"), true, true),
			vc04Leaf(vc04OpGe, "s", false, vc04Str("it's", q)),
		)
	}
	return out
}

// vc04Structures enumerates every tree of depth <= 2 over the given leaves with NOT, +, -,
// AND, OR (and the juxtaposition of +/- prefixed leaves, meaning their conjunction).
func vc04Structures(leaves []*vc04Node, juxtLeaves []*vc04Node) []*vc04Node {
	unary := []int{vc04OpNot, vc04OpMustNot, vc04OpMust}
	binary := []int{vc04OpAnd, vc04OpOr}
	d0 := leaves
	var d1 []*vc04Node
	for _, l := range d0 {
		for _, u := range unary {
			d1 = append(d1, vc04Un(u, l))
		}
	}
	for _, a := range d0 {
		for _, b := range d0 {
			for _, op := range binary {
				d1 = append(d1, vc04Bin(op, a, b))
			}
		}
	}
	var juxt []*vc04Node
	var pre []*vc04Node
	for _, l := range juxtLeaves {
		pre = append(pre, vc04Un(vc04OpMust, l), vc04Un(vc04OpMustNot, l))
	}
	for _, a := range pre {
		for _, b := range pre {
			juxt = append(juxt, vc04Bin(vc04OpJuxt, a, b))
		}
	}
	out := append(append([]*vc04Node{}, d0...), d1...)
	out = append(out, juxt...)
	upto1 := append(append([]*vc04Node{}, d0...), d1...)
	for _, x := range d1 {
		for _, u := range unary {
			out = append(out, vc04Un(u, x))
		}
	}
	for _, x := range juxt {
		for _, u := range unary {
			out = append(out, vc04Un(u, x))
		}
		out = append(out, vc04Bin(vc04OpAnd, x, d0[0]), vc04Bin(vc04OpOr, d0[0], x), vc04Bin(vc04OpJuxt, pre[0], x))
	}
	for _, a := range upto1 {
		for _, b := range upto1 {
			if vc04IsLeaf(a) && vc04IsLeaf(b) {
				continue
			}
			for _, op := range binary {
				out = append(out, vc04Bin(op, a, b))
			}
		}
	}
	return out
}

// ---- seeded random sampling beyond the bound --------------------------------------------------

func vc04RandStr(r *rand.Rand) vc04Val {
	pool := []rune("abcZ09_ ,'\"\\é日%;-.*?():/")
	n := 1 + r.Intn(6)
	rs := make([]rune, n)
	for i := range rs {
		rs[i] = pool[r.Intn(len(pool))]
	}
	s := string(rs)
	style := vc04StyleQuoted
	switch r.Intn(3) {
	case 0:
		ok := unicode.IsLetter(rs[0])
		for _, c := range rs {
			if !vc04WordRune(c) {
				ok = false
			}
		}
		up := strings.ToUpper(s)
		if up == "AND" || up == "OR" || up == "NOT" || up == "TO" || up == "NAN" || up == "INF" || up == "INFINITY" {
			ok = false
		}
		if ok {
			style = vc04StyleBare
		}
	case 1:
		style = vc04StyleEscaped
		up := strings.ToUpper(s)
		if _, err := strconv.ParseFloat(s, 64); err == nil || up == "AND" || up == "OR" || up == "NOT" || up == "TO" {
			style = vc04StyleQuoted
		}
	}
	return vc04Str(s, style)
}

func vc04RandNum(r *rand.Rand) vc04Val {
	switch r.Intn(4) {
	case 0:
		return vc04Int(strconv.FormatInt(int64(r.Intn(41)-20), 10))
	case 1:
		return vc04Int(strconv.FormatInt(int64(r.Uint64()), 10))
	}
	for {
		ip := r.Intn(2001) - 1000
		digits := 1 + r.Intn(6)
		frac := r.Intn(int(math.Pow10(digits)))
		s := fmt.Sprintf("%d.%0*d", ip, digits, frac)
		if strings.HasSuffix(s, "0") {
			continue
		}
		f, err := strconv.ParseFloat(s, 64)
		if err != nil || strconv.FormatFloat(f, 'f', -1, 64) != s {
			continue
		}
		return vc04Dec(s)
	}
}

func vc04RandPat(r *rand.Rand) vc04Val {
	pool := []string{"a", "b", "é", "_", ".", "-", "*", "?", "*", "?"}
	for {
		n := 1 + r.Intn(5)
		s := ""
		for i := 0; i < n; i++ {
			s += pool[r.Intn(len(pool))]
		}
		if !strings.ContainsAny(s, "*?") || s[0] == '.' || s[0] == '-' {
			continue
		}
		return vc04Pat(s)
	}
}

func vc04RandLeaf(r *rand.Rand) *vc04Node {
	num := r.Intn(2) == 0
	field := []string{"s", "t", "u"}[r.Intn(3)]
	val := func() vc04Val { return vc04RandStr(r) }
	if num {
		field = []string{"n", "m", "k"}[r.Intn(3)]
		val = func() vc04Val { return vc04RandNum(r) }
	}
	switch r.Intn(9) {
	case 0, 1:
		return vc04Leaf(vc04OpEq, field, num, val())
	case 2:
		return vc04Leaf([]int{vc04OpLt, vc04OpLe, vc04OpGt, vc04OpGe}[r.Intn(4)], field, num, val())
	case 3, 4, 5:
		lo, hi := val(), val()
		if r.Intn(5) == 0 {
			lo = vc04Open()
		}
		if r.Intn(5) == 0 {
			hi = vc04Open()
		}
		return vc04Range(field, num, lo, hi, r.Intn(2) == 0, r.Intn(2) == 0)
	case 6, 7:
		n := 2 + r.Intn(3)
		vals := make([]vc04Val, n)
		for i := range vals {
			vals[i] = val()
		}
		return vc04Leaf(vc04OpIn, field, num, vals...)
	}
	if num {
		return vc04Leaf(vc04OpEq, field, num, val())
	}
	return vc04Leaf(vc04OpLike, field, false, vc04RandPat(r))
}

func vc04RandTree(r *rand.Rand, depth int) *vc04Node {
	if depth == 0 || r.Intn(4) == 0 {
		return vc04RandLeaf(r)
	}
	switch r.Intn(7) {
	case 0:
		return vc04Un(vc04OpNot, vc04RandTree(r, depth-1))
	case 1:
		return vc04Un(vc04OpMustNot, vc04RandTree(r, depth-1))
	case 2:
		return vc04Un(vc04OpMust, vc04RandTree(r, depth-1))
	case 3, 4:
		return vc04Bin(vc04OpAnd, vc04RandTree(r, depth-1), vc04RandTree(r, depth-1))
	}
	return vc04Bin(vc04OpOr, vc04RandTree(r, depth-1), vc04RandTree(r, depth-1))
}

// ---- report ---------------------------------------------------------------------------------

type vc04Failure struct {
	cat   string
	input string
	msg   string
	rank  [3]int // suspect features, tree size, text length
}

type vc04Report struct {
	Property           string         `json:"property"`
	Tier               string         `json:"tier"`
	Seed               int64          `json:"seed"`
	Evaluations        int            `json:"evaluations"`
	DistinctNontrivial int            `json:"distinct_nontrivial"`
	Bound              string         `json:"bound"`
	FailureCount       int            `json:"failure_count"`
	ByCategory         map[string]int `json:"by_category"`
	Failures           []string       `json:"failures"`
	Samples            []string       `json:"samples"`
}

func vc04Env() (tier string, seed int64) {
	tier = os.Getenv("VERIF_TIER")
	if tier != "thorough" {
		tier = "quick"
	}
	seed = 1
	if s := os.Getenv("VERIF_SEED"); s != "" {
		if v, err := strconv.ParseInt(s, 10, 64); err == nil {
			seed = v
		}
	}
	return
}

// vc04Finish sorts the failures (smallest first inside each category), keeps at most three
// messages per category and 25 overall, writes the report and raises the test errors.
func vc04Finish(t *testing.T, rep *vc04Report, fails []vc04Failure) {
	sort.Slice(fails, func(i, j int) bool {
		a, b := fails[i], fails[j]
		if a.cat != b.cat {
			return a.cat < b.cat
		}
		if a.rank != b.rank {
			for k := 0; k < 3; k++ {
				if a.rank[k] != b.rank[k] {
					return a.rank[k] < b.rank[k]
				}
			}
		}
		return a.input < b.input
	})
	rep.ByCategory = map[string]int{}
	rep.Failures = []string{}
	perCat := map[string][]string{}
	var catOrder []string
	show := os.Getenv("VERIF_SHOW") // debugging aid: log up to 40 inputs of this category
	for _, f := range fails {
		rep.ByCategory[f.cat]++
		if rep.ByCategory[f.cat] == 1 {
			catOrder = append(catOrder, f.cat)
		}
		m := fmt.Sprintf("[%s] %s : %s", f.cat, strconv.Quote(f.input), f.msg)
		if rep.ByCategory[f.cat] <= 3 {
			perCat[f.cat] = append(perCat[f.cat], m)
		}
		if show == f.cat && rep.ByCategory[f.cat] <= 40 {
			t.Logf("SHOW %s", m)
		}
	}
	// at most 3 messages per category and 25 overall; every category gets its smallest
	// input first (round-robin) so that no category is crowded out of the report
	quota := map[string]int{}
	total := 0
	for round := 0; round < 3; round++ {
		for _, c := range catOrder {
			if round < len(perCat[c]) && total < 25 {
				quota[c]++
				total++
			}
		}
	}
	for _, c := range catOrder {
		rep.Failures = append(rep.Failures, perCat[c][:quota[c]]...)
	}
	rep.FailureCount = len(fails)
	if path := os.Getenv("VERIF_REPORT"); path != "" {
		data, err := json.MarshalIndent(rep, "", " ")
		if err == nil {
			err = os.WriteFile(path, data, 0o644)
		}
		if err != nil {
			t.Logf("cannot write report: %v", err)
		}
	}
	t.Logf("%s %s seed=%d: %d evaluations, %d distinct non-trivial, %d failures in %d categories",
		rep.Property, rep.Tier, rep.Seed, rep.Evaluations, rep.DistinctNontrivial, rep.FailureCount, len(rep.ByCategory))
	cats := make([]string, 0, len(rep.ByCategory))
	for c := range rep.ByCategory {
		cats = append(cats, c)
	}
	sort.Strings(cats)
	for _, c := range cats {
		t.Logf("  [%s] x %d", c, rep.ByCategory[c])
	}
	for _, m := range rep.Failures {
		t.Errorf("%s", m)
	}
}

// vc04Parallel runs fn(i) for i in [0,n) on all cores.
func vc04Parallel(n int, fn func(i int)) {
	workers := runtime.NumCPU()
	if workers > 16 {
		workers = 16
	}
	var wg sync.WaitGroup
	var next int64
	const chunk = 64
	for w := 0; w < workers; w++ {
		wg.Add(1)
		go func() {
			defer wg.Done()
			for {
				start := int(atomic.AddInt64(&next, chunk)) - chunk
				if start >= n {
					return
				}
				end := start + chunk
				if end > n {
					end = n
				}
				for i := start; i < end; i++ {
					fn(i)
				}
			}
		}()
	}
	wg.Wait()
}

// ---- suspect features of a leaf (only used to name categories and to rank inputs) ---------

func vc04DecNeedsMoreThan2(v vc04Val) bool {
	if v.kind != vc04KDec {
		return false
	}
	x := new(big.Rat).Mul(v.rat, big.NewRat(100, 1))
	return !x.IsInt()
}

func vc04BigInt(v vc04Val) bool {
	if v.kind != vc04KInt {
		return false
	}
	lim := big.NewRat(1<<53, 1)
	return new(big.Rat).Abs(v.rat).Cmp(lim) > 0
}

// vc04Live: the features whose canonical single-feature witness currently fails the check.
// A feature whose witness passes (e.g. because the defect has been fixed) is not used to
// name a category any more.  nil = every feature counts.
var vc04Live map[string]bool

// vc04Witnesses: for every feature the smallest leaf that has this feature and no other.
func vc04Witnesses() map[string]*vc04Node {
	b, q, e := vc04StyleBare, vc04StyleQuoted, vc04StyleEscaped
	sb, sd := vc04Str("b", b), vc04Str("d", b)
	return map[string]*vc04Node{
		"nan-inf-word-read-as-number":            vc04Leaf(vc04OpEq, "s", false, vc04Str("NaN", b)),
		"phrase-escapes-unprocessed":             vc04Leaf(vc04OpEq, "s", false, vc04Str(`b\c`, q)),
		"escaped-wildcard-char-read-as-wildcard": vc04Leaf(vc04OpEq, "s", false, vc04Str("b*", e)),
		"escaped-backslash-dropped":              vc04Leaf(vc04OpEq, "s", false, vc04Str(`b\c`, e)),
		"pattern-escaped-wildcard-char":          vc04Leaf(vc04OpLike, "s", false, vc04Pat(`b\**`)),
		"pattern-literal-underscore-percent":     vc04Leaf(vc04OpLike, "s", false, vc04Pat("b_*")),
		"quoted-star-bounds-read-as-open":        vc04Range("s", false, vc04Str("*", q), vc04Str("*", q), true, true),
		"string-range-bound-with-comma":          vc04Range("s", false, vc04Str("b,c", q), sd, true, true),
		"range-both-ends-open":                   vc04Range("n", true, vc04Open(), vc04Open(), true, true),
		"string-range-open-end-as-between":       vc04Range("s", false, sb, vc04Open(), true, true),
		"string-range-exclusive-as-between":      vc04Range("s", false, sb, sd, false, false),
		"decimal-range-open-end-as-between":      vc04Range("n", true, vc04Open(), vc04Dec("1.5"), true, true),
		"range-mixed-brackets":                   vc04Range("n", true, vc04Int("1"), vc04Int("5"), true, false),
		"decimal-range-bound-rounded":            vc04Range("n", true, vc04Dec("0.001"), vc04Dec("0.002"), true, true),
		"int-range-bound-through-float64":        vc04Range("n", true, vc04Dec("1.5"), vc04Int("9223372036854775807"), true, true),
		"short-regexp-similar-to-vs-tilde":       vc04Leaf(vc04OpRegex, "s", false, vc04Re("b")),
	}
}

// vc04FindLive runs the check on every witness.
func vc04FindLive(fails func(*vc04Node) bool) map[string]bool {
	live := map[string]bool{}
	for f, w := range vc04Witnesses() {
		if fails(w) {
			live[f] = true
		}
	}
	return live
}

func vc04LeafFeatures(l *vc04Node) []string {
	var fs []string
	add := func(f string) {
		if vc04Live != nil && !vc04Live[f] {
			return
		}
		for _, x := range fs {
			if x == f {
				return
			}
		}
		fs = append(fs, f)
	}
	for _, v := range l.vals {
		if v.kind == vc04KRe && len(v.text) < 2 {
			add("short-regexp-similar-to-vs-tilde")
		}
	}
	for _, v := range l.vals {
		if v.kind == vc04KStr {
			up := strings.ToUpper(v.text)
			if v.style == vc04StyleBare && (up == "NAN" || up == "INF" || up == "INFINITY") {
				add("nan-inf-word-read-as-number")
			}
			if v.style == vc04StyleQuoted && strings.ContainsAny(v.text, "\\\"") {
				add("phrase-escapes-unprocessed")
			}
			if v.style == vc04StyleEscaped && strings.ContainsAny(v.text, "*?") {
				add("escaped-wildcard-char-read-as-wildcard")
			}
			if v.style == vc04StyleEscaped && strings.Contains(v.text, `\`) {
				add("escaped-backslash-dropped")
			}
		}
		if v.kind == vc04KPat {
			for _, t := range v.pat {
				if t.k == 0 && (t.r == '*' || t.r == '?') {
					add("pattern-escaped-wildcard-char")
				}
				if t.k == 0 && (t.r == '_' || t.r == '%') {
					add("pattern-literal-underscore-percent")
				}
			}
		}
	}
	if l.op == vc04OpRange {
		lo, hi := l.vals[0], l.vals[1]
		oneOpen := (lo.kind == vc04KOpen) != (hi.kind == vc04KOpen)
		if !l.num {
			starOrOpen := func(v vc04Val) bool { return v.kind == vc04KOpen || (v.kind == vc04KStr && v.text == "*") }
			if starOrOpen(lo) && starOrOpen(hi) && (lo.kind == vc04KStr || hi.kind == vc04KStr) {
				add("quoted-star-bounds-read-as-open")
			}
			// string ranges are always rendered as BETWEEN: the brackets are never consulted
			for _, v := range l.vals {
				if v.kind == vc04KStr && strings.Contains(v.text, ",") {
					add("string-range-bound-with-comma")
				}
			}
			if lo.kind == vc04KOpen && hi.kind == vc04KOpen {
				add("range-both-ends-open")
			} else if oneOpen {
				add("string-range-open-end-as-between")
			} else if !(l.loIncl && l.hiIncl) {
				add("string-range-exclusive-as-between")
			}
		} else {
			if lo.kind == vc04KOpen && hi.kind == vc04KOpen {
				add("range-both-ends-open")
			}
			if oneOpen && (lo.kind == vc04KDec || hi.kind == vc04KDec) {
				add("decimal-range-open-end-as-between")
			}
			if l.loIncl != l.hiIncl {
				add("range-mixed-brackets")
			}
			if vc04DecNeedsMoreThan2(lo) || vc04DecNeedsMoreThan2(hi) {
				add("decimal-range-bound-rounded")
			}
			if (lo.kind == vc04KDec || hi.kind == vc04KDec) && (vc04BigInt(lo) || vc04BigInt(hi)) {
				add("int-range-bound-through-float64")
			}
		}
	}
	return fs
}

// =====================================================================================
// C04: the check
// =====================================================================================

type vc04Query struct {
	root *vc04Node
	text string
}

type vc04Outcome struct {
	kind       string // "", "panic", "param-rejected", "placeholder-count", "params", "not-equivalent", "sql-depends-on-value"
	msg        string
	renderable bool
	rows       int
	culprit    *vc04Node // for substitution failures: the tree after the substitution
}

func vc04CallInline(q string) (sql string, err error, pan any) {
	defer func() {
		if r := recover(); r != nil {
			pan = r
		}
	}()
	sql, err = ToPostgres(q)
	return
}

func vc04CallParam(q string) (sql string, params []any, err error, pan any) {
	defer func() {
		if r := recover(); r != nil {
			pan = r
		}
	}()
	sql, params, err = ToParameterizedPostgres(q)
	return
}

// vc04CountPlaceholders counts the ? outside quoted identifiers.
func vc04CountPlaceholders(sql string) int {
	n := 0
	inIdent := false
	for i := 0; i < len(sql); i++ {
		switch {
		case sql[i] == '"':
			inIdent = !inIdent
		case sql[i] == '?' && !inIdent:
			n++
		}
	}
	return n
}

// vc04ExpectedParams lists the values of the tree, left to right, with their Go kinds.
// A regular expression may travel with or without its slashes (alt holds the second form).
func vc04ExpectedParams(root *vc04Node) (want []any, alt []any) {
	for _, l := range vc04LeavesOf(root, nil) {
		for _, v := range l.vals {
			switch v.kind {
			case vc04KInt:
				i, err := strconv.ParseInt(v.text, 10, 64)
				if err != nil {
					panic(err)
				}
				want = append(want, int(i))
				alt = append(alt, int(i))
			case vc04KDec:
				f, err := strconv.ParseFloat(v.text, 64)
				if err != nil {
					panic(err)
				}
				want = append(want, f)
				alt = append(alt, f)
			case vc04KStr:
				want = append(want, v.text)
				alt = append(alt, v.text)
			case vc04KPat:
				var sb strings.Builder
				for _, t := range v.pat {
					switch t.k {
					case 1:
						sb.WriteByte('%')
					case 2:
						sb.WriteByte('_')
					default:
						sb.WriteRune(t.r)
					}
				}
				want = append(want, sb.String())
				alt = append(alt, sb.String())
			case vc04KRe:
				want = append(want, "/"+v.text+"/")
				alt = append(alt, v.text)
			}
		}
	}
	return
}

func vc04ParamsMatch(got, want, alt []any) bool {
	if len(got) != len(want) {
		return false
	}
	for i := range got {
		if !reflect.DeepEqual(got[i], want[i]) && !reflect.DeepEqual(got[i], alt[i]) {
			return false
		}
	}
	return true
}

func vc04ShowParams(p []any) string {
	parts := make([]string, len(p))
	for i, x := range p {
		parts[i] = fmt.Sprintf("%T(%#v)", x, x)
	}
	return "[" + strings.Join(parts, ", ") + "]"
}

func vc04ParamSv(p any) (vc04Sv, error) {
	switch x := p.(type) {
	case int:
		return vc04Sv{t: 1, n: vc04MkNum(new(big.Rat).SetInt64(int64(x)))}, nil
	case float64:
		if math.IsNaN(x) || math.IsInf(x, 0) {
			return vc04Sv{}, fmt.Errorf("parameter %v has no numeric value", x)
		}
		r, ok := new(big.Rat).SetString(strconv.FormatFloat(x, 'g', -1, 64))
		if !ok {
			return vc04Sv{}, fmt.Errorf("parameter %v has no numeric value", x)
		}
		return vc04Sv{t: 1, n: vc04MkNum(r)}, nil
	case string:
		return vc04Sv{t: 2, s: x}, nil
	}
	return vc04Sv{}, fmt.Errorf("parameter of kind %T", p)
}

func vc04CloneTree(n *vc04Node) *vc04Node {
	c := *n
	c.vals = append([]vc04Val{}, n.vals...)
	c.kids = nil
	for _, k := range n.kids {
		c.kids = append(c.kids, vc04CloneTree(k))
	}
	return &c
}

// vc04Substitutes: other values of the same kind.
func vc04Substitutes(v vc04Val, thorough bool) []vc04Val {
	var out []vc04Val
	switch v.kind {
	case vc04KInt:
		out = []vc04Val{vc04Int("7"), vc04Int("-3"), vc04Int("9223372036854775807")}
	case vc04KDec:
		out = []vc04Val{vc04Dec("0.001"), vc04Dec("-2.5"), vc04Dec("123456.789")}
	case vc04KStr:
		out = []vc04Val{vc04Str("zz", vc04StyleBare), vc04Str("b,c", vc04StyleQuoted), vc04Str("it's", vc04StyleQuoted), vc04Str("*", vc04StyleQuoted)}
		if thorough {
			out = append(out, vc04Str("1", vc04StyleQuoted), vc04Str("/b/", vc04StyleQuoted), vc04Str("b c", vc04StyleEscaped), vc04Str("", vc04StyleQuoted))
		}
	case vc04KPat:
		out = []vc04Val{vc04Pat("*"), vc04Pat("?"), vc04Pat("zz*"), vc04Pat("*z?z")}
	case vc04KRe:
		out = []vc04Val{vc04Re("b"), vc04Re("ab+c"), vc04Re("a b")}
	}
	var res []vc04Val
	for _, s := range out {
		if s.text != v.text || s.style != v.style {
			res = append(res, s)
		}
	}
	return res
}

func vc04CheckOne(root *vc04Node, text string, full bool, maxRows int, thorough bool, maxSubs int) vc04Outcome {
	sqlI, errI, panI := vc04CallInline(text)
	if panI != nil {
		return vc04Outcome{kind: "panic", msg: fmt.Sprintf("ToPostgres panicked: %v", panI)}
	}
	if errI != nil {
		return vc04Outcome{} // not renderable: outside the quantifier of C04
	}
	out := vc04Outcome{renderable: true}
	sqlP, params, errP, panP := vc04CallParam(text)
	if panP != nil {
		out.kind, out.msg = "panic", fmt.Sprintf("ToParameterizedPostgres panicked: %v (ToPostgres gives %s)", panP, strconv.Quote(sqlI))
		return out
	}
	if errP != nil {
		out.kind, out.msg = "param-rejected", fmt.Sprintf("ToPostgres succeeds with %s but ToParameterizedPostgres fails: %v", strconv.Quote(sqlI), errP)
		return out
	}
	if n := vc04CountPlaceholders(sqlP); n != len(params) {
		out.kind, out.msg = "placeholder-count", fmt.Sprintf("%d placeholders in %s but %d parameters %s", n, strconv.Quote(sqlP), len(params), vc04ShowParams(params))
		return out
	}
	want, alt := vc04ExpectedParams(root)
	if !vc04ParamsMatch(params, want, alt) {
		out.kind, out.msg = "params", fmt.Sprintf("parameters must be the query's values %s, got %s (SQL %s)", vc04ShowParams(want), vc04ShowParams(params), strconv.Quote(sqlP))
		return out
	}

	// equivalence of the two predicates on the probe rows
	astI, perrI := vc04ParseSQL(sqlI)
	astP, perrP := vc04ParseSQL(sqlP)
	if (perrI == nil) != (perrP == nil) {
		out.kind, out.msg = "not-equivalent", fmt.Sprintf("inline SQL %s (%v) and parameterized SQL %s (%v): only one of them is a readable predicate", strconv.Quote(sqlI), perrI, strconv.Quote(sqlP), perrP)
		return out
	}
	if perrI == nil {
		var nums []*big.Rat
		var strs []string
		vc04SQLConsts(astI, &nums, &strs)
		vc04SQLConsts(astP, &nums, &strs)
		svs := make([]vc04Sv, len(params))
		var svErr error
		for i, p := range params {
			sv, err := vc04ParamSv(p)
			if err != nil {
				svErr = err
			}
			svs[i] = sv
			switch sv.t {
			case 1:
				if sv.n != nil {
					nums = append(nums, sv.n.r)
				}
			case 2:
				strs = append(strs, sv.s)
			}
		}
		ps := vc04Probes(root, nums, strs)
		out.rows = vc04ForRows(ps, maxRows, func(row vc04Row) bool {
			gi, ei := vc04EvalSQL(astI, row, nil)
			gp, ep := vc04EvalSQL(astP, row, svs)
			if ep == nil && svErr != nil {
				ep = svErr
			}
			if (ei == nil) != (ep == nil) {
				out.kind = "not-equivalent"
				out.msg = fmt.Sprintf("on row %s inline SQL %s gives %s but parameterized SQL %s with %s gives %s", vc04ShowRow(row),
					strconv.Quote(sqlI), vc04ShowResult(gi, ei), strconv.Quote(sqlP), vc04ShowParams(params), vc04ShowResult(gp, ep))
				return false
			}
			if ei == nil && (gi.t != gp.t || gi.b != gp.b) {
				out.kind = "not-equivalent"
				out.msg = fmt.Sprintf("on row %s inline SQL %s is %v but parameterized SQL %s with %s is %v", vc04ShowRow(row),
					strconv.Quote(sqlI), gi.b, strconv.Quote(sqlP), vc04ShowParams(params), gp.b)
				return false
			}
			return true
		})
		if out.kind != "" {
			return out
		}
	}

	// the SQL text must not depend on the values
	leaves := vc04LeavesOf(root, nil)
	pos := 0
	for li, l := range leaves {
		for vi, v := range l.vals {
			if v.kind == vc04KOpen {
				continue
			}
			subs := vc04Substitutes(v, thorough)
			if len(subs) > maxSubs {
				subs = subs[:maxSubs]
			}
			for _, sub := range subs {
				c := vc04CloneTree(root)
				vc04LeavesOf(c, nil)[li].vals[vi] = sub
				text2 := vc04Print(c, full)
				sql2, params2, err2, pan2 := vc04CallParam(text2)
				switch {
				case pan2 != nil:
					out.kind, out.msg = "panic", fmt.Sprintf("after replacing value %s by %s: ToParameterizedPostgres(%s) panicked: %v", vc04PrintVal(v), vc04PrintVal(sub), strconv.Quote(text2), pan2)
				case err2 != nil:
					out.kind, out.msg = "sql-depends-on-value", fmt.Sprintf("after replacing value %s by %s: ToParameterizedPostgres(%s) fails: %v", vc04PrintVal(v), vc04PrintVal(sub), strconv.Quote(text2), err2)
				case sql2 != sqlP:
					out.kind, out.msg = "sql-depends-on-value", fmt.Sprintf("replacing value %s by %s (%s) changes the SQL text from %s to %s", vc04PrintVal(v), vc04PrintVal(sub), strconv.Quote(text2), strconv.Quote(sqlP), strconv.Quote(sql2))
				case len(params2) != len(params):
					out.kind, out.msg = "sql-depends-on-value", fmt.Sprintf("replacing value %s by %s (%s) changes the number of parameters: %s -> %s", vc04PrintVal(v), vc04PrintVal(sub), strconv.Quote(text2), vc04ShowParams(params), vc04ShowParams(params2))
				default:
					for j := range params {
						if j != pos && !reflect.DeepEqual(params[j], params2[j]) {
							out.kind, out.msg = "sql-depends-on-value", fmt.Sprintf("replacing value #%d %s by %s (%s) changes parameter #%d: %s -> %s", pos, vc04PrintVal(v), vc04PrintVal(sub), strconv.Quote(text2), j, vc04ShowParams(params), vc04ShowParams(params2))
							break
						}
					}
				}
				if out.kind != "" {
					out.culprit = c
					return out
				}
			}
			pos++
		}
	}
	return out
}

func vc04ShowResult(v vc04Sv, err error) string {
	if err != nil {
		return "error (" + err.Error() + ")"
	}
	if v.t == 0 {
		return strconv.FormatBool(v.b)
	}
	return "a " + vc04TypeName(v) + " value"
}

func vc04Features(l *vc04Node) []string { return vc04LeafFeatures(l) }

func vc04Category(root *vc04Node, out vc04Outcome) (cat string, nfeat int) {
	if out.kind == "panic" {
		return "panic", 0
	}
	trees := []*vc04Node{root}
	if out.culprit != nil {
		trees = append(trees, out.culprit)
	}
	for _, tr := range trees {
		for _, l := range vc04LeavesOf(tr, nil) {
			if fs := vc04Features(l); len(fs) > 0 {
				return fs[0], len(fs)
			}
		}
	}
	if vc04IsLeaf(root) {
		return "unclassified-leaf-" + out.kind, 0
	}
	return "compound-" + out.kind, 0
}

func TestVerifStandin_C04(t *testing.T) {
	tier, seed := vc04Env()
	thorough := tier == "thorough"
	maxRows := 500
	if thorough {
		maxRows = 2000
	}

	type item struct {
		q       vc04Query
		full    bool
		maxSubs int
	}
	var items []item
	seen := map[string]bool{}
	maxSubs := 8
	add := func(n *vc04Node, full bool) {
		text := vc04Print(n, full)
		if seen[text] {
			return
		}
		seen[text] = true
		items = append(items, item{vc04Query{root: n, text: text}, full, maxSubs})
	}
	leaves := vc04AllLeaves(thorough)
	reBodies := []string{"b", "ab+c", "a b", "b*", "", "é", ".", ".*", "bc", "[bc]d"}
	for _, b := range reBodies {
		leaves = append(leaves, vc04Leaf(vc04OpRegex, "s", false, vc04Re(b)))
	}
	for _, l := range leaves {
		plain := true
		for _, v := range l.vals {
			for _, tk := range v.pat {
				// the fixed translation "* to %, ? to _" says nothing about escaped literal
				// specials inside a pattern: those patterns are left to C03
				if tk.k == 0 && !(vc04WordRune(tk.r) || tk.r == '.' || tk.r == '-') {
					plain = false
				}
			}
		}
		if !plain {
			continue
		}
		for _, c := range vc04Contexts(l) {
			add(c, false)
		}
	}
	nLeafPart := len(items)
	sl := vc04StructLeaves(false)
	if !thorough {
		sl = []*vc04Node{sl[0], sl[2], sl[4], sl[5], sl[6], sl[7]}
	}
	sl = append(sl, vc04Leaf(vc04OpRegex, "t", false, vc04Re("b.d")), vc04Leaf(vc04OpLike, "s", false, vc04Pat("*")))
	structs := vc04Structures(sl, []*vc04Node{sl[0], sl[2], sl[4]})
	maxSubs = 3 // every value position of every structure still gets 2-3 same-kind substitutions
	if !thorough {
		maxSubs = 2
	}
	for _, s := range structs {
		add(s, false)
		if thorough {
			add(s, true)
		}
	}
	nStructPart := len(items) - nLeafPart
	maxSubs = 8
	nRandom := 4000
	randDepth := 3
	if thorough {
		nRandom = 100000
		randDepth = 4
	}
	rng := rand.New(rand.NewSource(seed))
	for i := 0; i < nRandom; i++ {
		d := 1 + rng.Intn(randDepth)
		add(vc04RandTree(rng, d), rng.Intn(2) == 0)
	}
	nRandPart := len(items) - nLeafPart - nStructPart

	// which known root causes currently make C04 fail? (only used to name categories)
	vc04Live = nil
	vc04Live = vc04FindLive(func(w *vc04Node) bool {
		return vc04CheckOne(w, vc04PrintLeaf(w), false, maxRows, thorough, 8).kind != ""
	})

	var mu sync.Mutex
	var fails []vc04Failure
	var renderable, rowEvals int64
	vc04Parallel(len(items), func(i int) {
		it := items[i]
		var out vc04Outcome
		func() {
			defer func() {
				if r := recover(); r != nil {
					out = vc04Outcome{kind: "panic", msg: fmt.Sprintf("panic while checking: %v", r)}
				}
			}()
			out = vc04CheckOne(it.q.root, it.q.text, it.full, maxRows, thorough, it.maxSubs)
		}()
		atomic.AddInt64(&rowEvals, int64(out.rows))
		if out.renderable {
			atomic.AddInt64(&renderable, 1)
		}
		if out.kind == "" {
			return
		}
		cat, nfeat := vc04Category(it.q.root, out)
		f := vc04Failure{cat: cat, input: it.q.text, msg: out.msg, rank: [3]int{nfeat, vc04Size(it.q.root), len(it.q.text)}}
		mu.Lock()
		fails = append(fails, f)
		mu.Unlock()
	})

	rep := &vc04Report{Property: "C04", Tier: tier, Seed: seed}
	rep.Evaluations = len(items)
	rep.DistinctNontrivial = int(renderable)
	rep.Bound = fmt.Sprintf("distinct query texts printed from own syntax trees; non-trivial = ToPostgres succeeds (the quantifier of C04). "+
		"(1) %d texts: every leaf form (equality, < <= > >=, ranges with each bound a value or * and all 4 bracket combinations, lists of 2 and 3 values, wildcard patterns of length <= %d incl. the one-character patterns * and ?, regexps %q) "+
		"over %d numbers and %d string spellings, each alone and under NOT, -, +, and on both sides of AND / OR; "+
		"(2) %d texts: every tree of depth <= 2 over %d representative leaves with NOT, +, -, AND, OR and juxtaposed +/- clauses; "+
		"(3) %d seeded random trees of depth <= %d with random values. "+
		"For every value position 3-8 (structures: 2 in the quick tier, 3 in the thorough tier) substitutions by another value of the same kind (ints incl. MaxInt64, decimals, strings with comma / apostrophe / \"*\", patterns * and ?, short and long regexps). "+
		"Equivalence decided on the product of per-field probes hitting every region cut out by the constants of the query, of both SQL texts and of the parameters (at most %d rows per query; %d row evaluations in total).",
		nLeafPart, map[bool]int{false: 3, true: 4}[thorough], reBodies, len(vc04NumVals(thorough)), len(vc04StrVals(thorough)),
		nStructPart, len(sl), nRandPart, randDepth, maxRows, rowEvals)
	for i := 0; i < len(items) && len(rep.Samples) < 12; i += 1 + len(items)/12 {
		rep.Samples = append(rep.Samples, strconv.Quote(items[i].q.text))
	}
	vc04Finish(t, rep, fails)
}
