//go:build verif

package lucene

// Bounded stand-in / counterexample search for property C01:
//
//	"Parsing and rendering are total: no panic, no hang, no garbled output."
//
// For every enumerated input and every default-field option the six operations
// Parse, ToPostgres, ToParameterizedPostgres, String(), %#v and json.Marshal are
// run on the real code.  The oracle is the statement itself: every call returns
// (a recovered panic is a failure), Parse returns a tree or an error, none of the
// produced texts contains a Go formatting-error marker ("%!verb(type=value)",
// "%!(EXTRA ...)", "%!v(PANIC=...)"), and on adversarial shapes of 1250..10000
// tokens the running time grows at most quadratically (with an absolute cap).
//
// Injected into the root package with `go test -overlay`; never written to /repo.

import (
	"encoding/json"
	"fmt"
	"math"
	"math/rand"
	"os"
	"regexp"
	"runtime"
	"sort"
	"strconv"
	"strings"
	"sync"
	"sync/atomic"
	"testing"
	"time"

	"github.com/grindlemire/go-lucene/pkg/lucene/expr"
)

// ---------------------------------------------------------------------------------------------
// report

type vc01Report struct {
	Property    string         `json:"property"`
	Tier        string         `json:"tier"`
	Seed        int64          `json:"seed"`
	Evaluations int64          `json:"evaluations"`
	Distinct    int64          `json:"distinct_nontrivial"`
	Bound       string         `json:"bound"`
	FailCount   int            `json:"failure_count"`
	ByCategory  map[string]int `json:"by_category"`
	Failures    []string       `json:"failures"`
	Samples     []string       `json:"samples"`
	Domains     map[string]int64 `json:"domains,omitempty"`
	Timing      []string       `json:"timing,omitempty"`
	Notes       []string       `json:"notes,omitempty"`
}

func vc01WriteReport(rep *vc01Report) {
	out := os.Getenv("VERIF_REPORT")
	if out == "" {
		return
	}
	if rep.ByCategory == nil {
		rep.ByCategory = map[string]int{}
	}
	if rep.Failures == nil {
		rep.Failures = []string{}
	}
	if rep.Samples == nil {
		rep.Samples = []string{}
	}
	b, err := json.MarshalIndent(rep, "", " ")
	if err != nil {
		b = []byte(fmt.Sprintf(`{"property":"C01","failure_count":1,"by_category":{"harness-error":1},"failures":[%q]}`, "[harness-error] cannot encode report: "+err.Error()))
	}
	_ = os.WriteFile(out, b, 0o644)
}

// ---------------------------------------------------------------------------------------------
// failure aggregation (per worker, merged deterministically at the end)

type vc01Fail struct {
	in  string
	msg string
}

type vc01Agg struct {
	count map[string]int
	best  map[string][]vc01Fail
}

func vc01NewAgg() *vc01Agg {
	return &vc01Agg{count: map[string]int{}, best: map[string][]vc01Fail{}}
}

func vc01Less(a, b vc01Fail) bool {
	if len(a.in) != len(b.in) {
		return len(a.in) < len(b.in)
	}
	if a.in != b.in {
		return a.in < b.in
	}
	return a.msg < b.msg
}

func (a *vc01Agg) add(cat, in, msg string, n int) {
	a.count[cat] += n
	b := a.best[cat]
	for _, f := range b {
		if f.in == in {
			return
		}
	}
	b = append(b, vc01Fail{in, msg})
	sort.Slice(b, func(i, j int) bool { return vc01Less(b[i], b[j]) })
	if len(b) > 3 {
		b = b[:3]
	}
	a.best[cat] = b
}

func (a *vc01Agg) merge(o *vc01Agg) {
	for c, n := range o.count {
		a.count[c] += n
	}
	for c, fs := range o.best {
		for _, f := range fs {
			a.add(c, f.in, f.msg, 0)
		}
	}
}

// ---------------------------------------------------------------------------------------------
// the check of one input

type vc01Cfg struct {
	name string
	opts []opt
}

var vc01Cfgs = []vc01Cfg{
	{"no default field", nil},
	{`WithDefaultField("f")`, []opt{WithDefaultField("f")}},
	{`WithDefaultField("d \"q\" *")`, []opt{WithDefaultField(`d "q" *`)}},
}

const (
	vc01StParse = iota
	vc01StToPostgres
	vc01StToParam
	vc01StString
	vc01StGoString
	vc01StJSON
	vc01NStages
)

var vc01StageName = [...]string{"Parse", "ToPostgres", "ToParameterizedPostgres", "String()", "%#v", "json.Marshal"}
var vc01StageTag = [...]string{"parse", "topostgres", "toparameterizedpostgres", "string", "gostring", "json"}

type vc01Res struct {
	tree    *expr.Expression
	err     error
	text    string // text produced by the stage (sql / string / gostring / json)
	jsonErr bool
}

var vc01SanRe = regexp.MustCompile(`[^a-z0-9]+`)

func vc01Sanitize(s string) string {
	s = vc01SanRe.ReplaceAllString(strings.ToLower(s), "-")
	s = strings.Trim(s, "-")
	if len(s) > 48 {
		s = s[:48]
	}
	if s == "" {
		s = "x"
	}
	return s
}

// vc01PanicSite names the innermost library function on the panicking stack (so that
// two panics with different origins get different category tags) and the kind of panic.
func vc01PanicSite(r any) string {
	pcs := make([]uintptr, 64)
	n := runtime.Callers(3, pcs)
	frames := runtime.CallersFrames(pcs[:n])
	site := "unknown"
	for {
		fr, more := frames.Next()
		fn := fr.Function
		if strings.HasPrefix(fn, "github.com/grindlemire/go-lucene") && !strings.Contains(fn, ".vc01") && !strings.Contains(fn, ".TestVerif") {
			fn = strings.TrimPrefix(fn, "github.com/grindlemire/go-lucene")
			fn = strings.TrimPrefix(fn, "/pkg/lucene/")
			fn = strings.TrimPrefix(fn, "/pkg/")
			fn = strings.TrimPrefix(fn, "/internal/")
			fn = strings.TrimPrefix(fn, ".")
			site = vc01Sanitize(fn)
			break
		}
		if !more {
			break
		}
	}
	msg := fmt.Sprint(r)
	kind := "other"
	switch {
	case strings.Contains(msg, "index out of range"):
		kind = "index"
	case strings.Contains(msg, "slice bounds out of range"):
		kind = "slice-bounds"
	case strings.Contains(msg, "interface conversion"):
		kind = "type-assertion"
	case strings.Contains(msg, "nil pointer dereference"):
		kind = "nil-deref"
	case strings.Contains(msg, "nil map"):
		kind = "nil-map"
	case strings.Contains(msg, "divide by zero"):
		kind = "div-zero"
	}
	return site + "-" + kind
}

// vc01Stage runs one operation under recover.
func vc01Stage(stage int, in string, opts []opt, r *vc01Res) (pan any, site string) {
	defer func() {
		if p := recover(); p != nil {
			pan = p
			site = vc01PanicSite(p)
		}
	}()
	r.text = ""
	switch stage {
	case vc01StParse:
		r.tree, r.err = Parse(in, opts...)
	case vc01StToPostgres:
		r.text, _ = ToPostgres(in, opts...)
	case vc01StToParam:
		r.text, _, _ = ToParameterizedPostgres(in, opts...)
	case vc01StString:
		r.text = r.tree.String()
	case vc01StGoString:
		r.text = fmt.Sprintf("%#v", r.tree)
	case vc01StJSON:
		b, err := json.Marshal(r.tree)
		r.jsonErr = err != nil
		r.text = string(b)
	}
	return nil, ""
}

var vc01MarkerRe = regexp.MustCompile(`%!([a-zA-Z])?\(([^=)\s]*)`)

// vc01Marker returns a category suffix for the first Go formatting-error marker in s, or "".
func vc01Marker(s string) (string, string) {
	i := strings.Index(s, "%!")
	if i < 0 {
		return "", ""
	}
	end := i + 60
	if end > len(s) {
		end = len(s)
	}
	excerpt := s[i:end]
	m := vc01MarkerRe.FindStringSubmatch(s[i:])
	if m == nil {
		return "bare", excerpt
	}
	verb, typ := m[1], m[2]
	if verb == "" {
		return vc01Sanitize(typ), excerpt // %!(EXTRA, %!(NOVERB), %!(BADWIDTH) ...
	}
	return vc01Sanitize(verb + "-" + typ), excerpt
}

type vc01Finding struct{ cat, msg string }

type vc01Stats struct {
	trees    int64 // inputs for which Parse returned a tree under at least one option
	jsonErrs int64
	skipped  int64 // inputs containing "%!" themselves: marker check not applicable
}

func vc01Abbrev(in string) string {
	if len(in) <= 160 {
		return strconv.Quote(in)
	}
	return fmt.Sprintf("%s...(%d bytes)...%s", strconv.Quote(in[:60]), len(in), strconv.Quote(in[len(in)-40:]))
}

// vc01Check checks the statement of C01 on one input under every option.
func vc01Check(in string, st *vc01Stats) (out []vc01Finding) {
	markerApplies := !strings.Contains(in, "%!")
	if !markerApplies && st != nil {
		st.skipped++
	}
	gotTree := false
	for ci := range vc01Cfgs {
		cfg := &vc01Cfgs[ci]
		var r vc01Res
		for stage := 0; stage < vc01NStages; stage++ {
			if stage >= vc01StString && r.tree == nil {
				break
			}
			pan, site := vc01Stage(stage, in, cfg.opts, &r)
			if pan != nil {
				out = append(out, vc01Finding{"panic-" + site, fmt.Sprintf("%s : %s with %s must return normally, it panicked: %v", vc01Abbrev(in), vc01StageName[stage], cfg.name, pan)})
				continue
			}
			if stage == vc01StParse {
				if r.tree == nil && r.err == nil {
					out = append(out, vc01Finding{"parse-neither-tree-nor-error", fmt.Sprintf("%s : Parse with %s must return a tree or an error, it returned (nil, nil)", vc01Abbrev(in), cfg.name)})
				}
				if r.err != nil {
					r.tree = nil
				}
				if r.tree != nil {
					gotTree = true
				}
				continue
			}
			if stage == vc01StJSON && r.jsonErr && st != nil {
				st.jsonErrs++
			}
			if markerApplies && r.text != "" {
				if suffix, excerpt := vc01Marker(r.text); suffix != "" {
					out = append(out, vc01Finding{"fmt-marker-" + vc01StageTag[stage] + "-" + suffix,
						fmt.Sprintf("%s : text of %s with %s must not contain a Go formatting-error marker, it contains %q", vc01Abbrev(in), vc01StageName[stage], cfg.name, excerpt)})
				}
			}
		}
	}
	if gotTree && st != nil {
		st.trees++
	}
	return out
}

// ---------------------------------------------------------------------------------------------
// domains

// byte-level alphabet: one representative (or all members) of every class the lexer
// distinguishes at the start of a token, plus bytes no token can start with.  The code is
// uniquely decodable (0xa9 and 0xa3 are not symbols), so all enumerated strings are distinct.
var vc01ByteAlphabet = []string{
	"a", "T", "O", "_", "1", "\u00e9", "\u0663", // letters (incl. T,O for the keyword), digit, 2-byte letter, 2-byte digit
	"*", "?", "\\", ".", "-", " ",
	"\"", "'", "/",
	"(", ")", "[", "]", "{", "}", ":", "+", "=", ">", "<", "~", "^",
	";", "\x00", "\xff", "\xc3", "\x80",
}

// reduced alphabet for one more symbol of length in the thorough tier
var vc01ByteAlphabetSmall = []string{
	"a", "1", "\u00e9", "*", "\\", ".", "-", " ", "\"", "/", "(", ")", "[", "]", ":", "+", "<", "=", "~", "^", "\xff", "\x00",
}

// token vocabulary (joined by single spaces)
var vc01Tokens = []string{
	"a", "1", "-1", "1.5", "NaN", `"q r"`, `'s'`, "/re/", "w*", "*", "?", `\(`,
	"AND", "OR", "NOT", "TO",
	"(", ")", "[", "]", "{", "}", ":", "+", "-", "=", ">", "<", "~", "^",
}

// chunk vocabulary: whole clauses plus connectors, to reach the deeper trees (ranges, lists,
// comparisons, fuzzy, boost) that short token sequences cannot build
var vc01Chunks = []string{
	"a:b", "a:1", `a:"q r"`, "a:/re/", "a:w*", "a:*", "a:?", `a:""`,
	"a:[1 TO 5]", "a:{1 TO 5}", "a:[* TO 5]", "a:[1 TO *]", "a:[* TO *]", `a:["x" TO "y, z"]`, "a:[b TO c]", "a:[1.5 TO 2.5]", "a:{1 TO 5]", "a:[w* TO /r/]",
	"a:(1 OR 2)", "a:(x OR y)", `a:("p q" OR 2)`, "a:(1 OR 2 OR 1.5)", "a:(b AND c)", "a:(w* OR /r/)",
	"a:>1", "a:>=1", "a:<1", "a:<=1.5", "a:>x", "a:<=*",
	"b~", "b~2", "b^", "b^2", "a:b~2", "a:b^2.5", `"p q"~3`, "b~x", "b^-1",
	"b", "1", `"q"`, "/re/", "*",
	"AND", "OR", "NOT", "(", ")", "+", "-", ":", "TO", "[", "]",
}

// terminal values for the clause templates
var vc01Values = []string{
	"b", "1", "-1", "0", "1.5", "-2.5", "1e3", "NaN", "Inf", "0x1F", "9223372036854775808",
	`"q"`, `"p q"`, `"a, b"`, `"1,2"`, `"*"`, `"'*'"`, `""`, `"it's"`, `"(x)"`, `"/r/"`, `'s'`,
	"*", "?", "w*", "?x", "/re/", "/a,b/", `/a\/b/`, "//", `\*`, `a\ b`, "TO", "x.y", "x-y",
}

func vc01Enumerate(alphabet []string, sep string, minLen, maxLen int, emit func(string)) {
	var rec func(prefix string, depth int)
	rec = func(prefix string, depth int) {
		if depth >= minLen {
			emit(prefix)
		}
		if depth == maxLen {
			return
		}
		for _, a := range alphabet {
			rec(prefix+sep+a, depth+1)
		}
	}
	for _, a := range alphabet {
		rec(a, 1)
	}
}

func vc01Templates(emit func(string)) {
	v := vc01Values
	for _, x := range v {
		for _, pre := range []string{"a:", "a:>", "a:>=", "a:<", "a:<=", "a=", "+", "-", "NOT ", "", "a:+", "a:-", "a:NOT "} {
			emit(pre + x)
		}
		for _, suf := range []string{"~", "^", "~2", "^2", "~0", "^0", "~-1", "~1.5", "^1.5"} {
			emit(x + suf)
			emit("a:" + x + suf)
		}
		emit(x + ":b")
		emit(x + ":[1 TO 2]")
		emit(x + ":(1 OR 2)")
		emit(x + ":>1")
		for _, y := range v {
			for _, o := range []string{"[", "{"} {
				for _, c := range []string{"]", "}"} {
					emit("a:" + o + x + " TO " + y + c)
				}
			}
			emit("a:(" + x + " OR " + y + ")")
			emit("a:(" + x + " " + y + ")")
			emit("a:(" + x + " AND " + y + ")")
			emit(x + "~" + y)
			emit(x + "^" + y)
			emit("a:" + x + "~" + y)
			emit(x + " " + y)
			emit(x + ":" + y)
		}
	}
	// three-element lists over a smaller set
	w := []string{"b", "1", "1.5", `"p q"`, "w*", "/re/", "*", "NaN", `""`}
	for _, x := range w {
		for _, y := range w {
			for _, z := range w {
				emit("a:(" + x + " OR " + y + " OR " + z + ")")
				emit("a:(" + x + " OR (" + y + " OR " + z + "))")
				emit("a:[" + x + " TO " + y + "] OR b:" + z)
			}
		}
	}
}

// ---------------------------------------------------------------------------------------------
// adversarial long shapes

type vc01Family struct {
	name string
	gen  func(n int) string // n = approximate number of tokens
}

func vc01Rep(s string, n int) string {
	if n < 0 {
		n = 0
	}
	return strings.Repeat(s, n)
}

var vc01Families = []vc01Family{
	{"open-parens", func(n int) string { return vc01Rep("(", n) + "a" }},
	{"nested-parens", func(n int) string { return vc01Rep("(", n/2) + "a:b" + vc01Rep(")", n/2) }},
	{"nested-parens-literal", func(n int) string { return vc01Rep("(", n/2) + "a" + vc01Rep(")", n/2) }},
	{"closing-parens", func(n int) string { return "a:b" + vc01Rep(")", n) }},
	{"and-chain", func(n int) string { return "a:b" + vc01Rep(" AND a:b", n/4) }},
	{"or-chain", func(n int) string { return "a:b" + vc01Rep(" OR a:b", n/4) }},
	{"and-or-alternating", func(n int) string { return "a:b" + vc01Rep(" AND a:b OR c:d", n/8) }},
	{"implicit-and-clauses", func(n int) string { return "a:b" + vc01Rep(" a:b", n/3) }},
	{"implicit-and-literals", func(n int) string { return "a" + vc01Rep(" a", n) }},
	{"or-literals", func(n int) string { return "a" + vc01Rep(" OR a", n/2) }},
	{"in-list", func(n int) string { return "a:(1" + vc01Rep(" OR 2", n/2) + ")" }},
	{"right-nested-groups", func(n int) string { return vc01Rep("a:b AND (", n/4) + "a:b" + vc01Rep(")", n/4) }},
	{"right-nested-fields", func(n int) string { return vc01Rep("a:(", n/3) + "b" + vc01Rep(")", n/3) }},
	{"unclosed-groups", func(n int) string { return vc01Rep("a:b AND (", n/4) + "a:b" }},
	{"not-parens", func(n int) string { return vc01Rep("NOT (", n/2) + "a:b" + vc01Rep(")", n/2) }},
	{"not-chain", func(n int) string { return vc01Rep("NOT ", n) + "a:b" }},
	{"and-not-chain", func(n int) string { return "a:b" + vc01Rep(" AND NOT a:b", n/5) }},
	{"only-and", func(n int) string { return vc01Rep("AND ", n) }},
	{"only-or-not", func(n int) string { return vc01Rep("OR NOT ", n/2) }},
	{"only-colons", func(n int) string { return vc01Rep(":", n) }},
	{"only-plus", func(n int) string { return vc01Rep("+", n) }},
	{"only-minus", func(n int) string { return vc01Rep("- ", n) }},
	{"only-tilde", func(n int) string { return vc01Rep("~", n) }},
	{"only-carets", func(n int) string { return vc01Rep("^", n) }},
	{"only-compare", func(n int) string { return vc01Rep(":>=", n/3) }},
	{"only-to", func(n int) string { return vc01Rep("TO ", n) }},
	{"plus-minus-prefix", func(n int) string { return vc01Rep("+-", n/2) + "a:b" }},
	{"must-mustnot-clauses", func(n int) string { return vc01Rep("+a:b -c:d ", n/8) }},
	{"fuzzy-boost-chain", func(n int) string { return "a" + vc01Rep("~2^3", n/4) }},
	{"fuzzy-chain-field", func(n int) string { return "a:b" + vc01Rep("~", n) }},
	{"range-chain", func(n int) string { return "a:[1 TO 2]" + vc01Rep(" OR a:[1 TO 2]", n/8) }},
	{"open-squares", func(n int) string { return "a:" + vc01Rep("[", n) + "1 TO 2]" }},
	{"close-squares", func(n int) string { return "a:[1 TO 2" + vc01Rep("]", n) }},
	{"open-curlies", func(n int) string { return vc01Rep("{", n) }},
	{"mixed-unbalanced", func(n int) string { return vc01Rep("([{", n/3) + "a" + vc01Rep(")]}", n/3) }},
	{"nested-ranges", func(n int) string { return vc01Rep("a:[", n/2) + "1 TO 2" + vc01Rep("]", n/2) }},
	{"field-chain", func(n int) string { return "a" + vc01Rep(":a", n/2) }},
	{"long-word", func(n int) string { return "a:" + vc01Rep("x", n) }},
	{"long-escaped-word", func(n int) string { return "a:" + vc01Rep(`\ `, n) }},
	{"long-quoted", func(n int) string { return `a:"` + vc01Rep("x y ", n/2) + `"` }},
	{"long-unterminated-quote", func(n int) string { return `a:"` + vc01Rep("x y ", n/2) }},
	{"long-regexp", func(n int) string { return `a:/` + vc01Rep(`x\/`, n/2) + `/` }},
	{"quotes-many", func(n int) string { return vc01Rep(`"q" `, n) }},
	{"regexps-many", func(n int) string { return vc01Rep(`a:/r/ `, n/3) }},
	{"wildcards-many", func(n int) string { return vc01Rep(`a:w* `, n/3) }},
	{"bad-bytes", func(n int) string { return vc01Rep("\xff", n) }},
	{"error-at-end", func(n int) string { return "a:b" + vc01Rep(" AND a:b", n/4) + " ;" }},
	{"dangling-operator-end", func(n int) string { return "a:b" + vc01Rep(" OR a:b", n/4) + " AND" }},
	{"whitespace-only", func(n int) string { return vc01Rep(" \t\n", n) }},
	{"numbers-many", func(n int) string { return vc01Rep("-1 ", n) }},
}

var vc01Sizes = []int{1250, 2500, 5000, 10000}

const (
	vc01CallCap      = 10 * time.Second // absolute cap for one call on <= 10^4 tokens
	vc01CallAbandon  = 25 * time.Second // give up waiting (reported as hang)
	vc01EnumHang     = 8 * time.Second  // one short enumerated input must never take this long
	vc01GrowthFloor  = 150 * time.Millisecond
	vc01GrowthExp    = 2.5 // fitted exponent over 1250..10000 tokens
	vc01GrowthLastX2 = 6.5 // time(10000)/time(5000); 4 is quadratic, 8 is cubic
)

type vc01TimingRow struct {
	family string
	cfg    int
	times  [vc01NStages][]time.Duration // per size; -1 = not run
}

// vc01TimeOne measures all six operations on one input; returns the tree for reuse.
func vc01TimeOne(in string, cfg *vc01Cfg) (d [vc01NStages]time.Duration, pan [vc01NStages]string) {
	var r vc01Res
	for stage := 0; stage < vc01NStages; stage++ {
		d[stage] = -1
		if stage >= vc01StString && r.tree == nil {
			continue
		}
		best := time.Duration(math.MaxInt64)
		for rep := 0; rep < 2; rep++ {
			var rr vc01Res
			rr.tree = r.tree
			t0 := time.Now()
			p, site := vc01Stage(stage, in, cfg.opts, &rr)
			el := time.Since(t0)
			if p != nil {
				pan[stage] = fmt.Sprintf("panic-%s|%v", site, p)
				break
			}
			if el < best {
				best = el
			}
			if stage == vc01StParse {
				if rr.err != nil {
					rr.tree = nil
				}
				r = rr
			}
			if el > 400*time.Millisecond {
				break
			}
		}
		if best != time.Duration(math.MaxInt64) {
			d[stage] = best
		}
	}
	return d, pan
}

// ---------------------------------------------------------------------------------------------
// shrinking (only used for failures found by sampling / long shapes)

func vc01HasCat(in, cat string) bool {
	for _, f := range vc01Check(in, nil) {
		if f.cat == cat {
			return true
		}
	}
	return false
}

func vc01Shrink(in, cat string, budget time.Duration) string {
	deadline := time.Now().Add(budget)
	for chunk := len(in) / 2; chunk >= 1; {
		changed := false
		for i := 0; i+chunk <= len(in); {
			if time.Now().After(deadline) {
				return in
			}
			cand := in[:i] + in[i+chunk:]
			if vc01HasCat(cand, cat) {
				in = cand
				changed = true
			} else {
				i += chunk
			}
		}
		if !changed || chunk > len(in) {
			chunk /= 2
		}
	}
	return in
}

// ---------------------------------------------------------------------------------------------
// entry point

func TestVerifStandin_C01(t *testing.T) {
	tier := os.Getenv("VERIF_TIER")
	if tier != "thorough" {
		tier = "quick"
	}
	seed := int64(1)
	if v := os.Getenv("VERIF_SEED"); v != "" {
		if s, err := strconv.ParseInt(v, 10, 64); err == nil {
			seed = s
		}
	}
	rep := &vc01Report{Property: "C01", Tier: tier, Seed: seed, ByCategory: map[string]int{}, Domains: map[string]int64{}}

	// a report that survives a crash of the test binary (fatal stack overflow, external kill)
	rep.FailCount = 1
	rep.ByCategory["harness-incomplete"] = 1
	rep.Failures = []string{"[harness-incomplete] \"\" : the stand-in did not run to completion (fatal runtime error such as a stack overflow, or killed)"}
	vc01WriteReport(rep)
	rep.FailCount = 0
	rep.ByCategory = map[string]int{}
	rep.Failures = nil

	byteLen, tokLen, chunkLen, nRandom := 4, 4, 3, 120000
	smallByteLen := 5
	if tier == "thorough" {
		byteLen, tokLen, chunkLen, nRandom = 4, 5, 4, 1500000
		smallByteLen = 6
	}

	workers := runtime.NumCPU()
	if workers < 2 {
		workers = 2
	}

	// ---- phase 1: enumerated and sampled short inputs, in parallel --------------------------
	type slot struct {
		cur   atomic.Pointer[string]
		since atomic.Int64
	}
	slots := make([]slot, workers)
	aggs := make([]*vc01Agg, workers)
	stats := make([]vc01Stats, workers)
	evals := make([]int64, workers)
	batches := make(chan []string, 4*workers)
	var stop atomic.Bool
	var wg sync.WaitGroup
	for w := 0; w < workers; w++ {
		aggs[w] = vc01NewAgg()
		wg.Add(1)
		go func(w int) {
			defer wg.Done()
			for b := range batches {
				if stop.Load() {
					continue
				}
				for i := range b {
					in := b[i]
					slots[w].cur.Store(&b[i])
					slots[w].since.Store(time.Now().UnixNano())
					fs := vc01Check(in, &stats[w])
					evals[w]++
					if len(fs) > 0 {
						seen := map[string]bool{}
						for _, f := range fs {
							n := 1
							if seen[f.cat] {
								n = 0
							}
							seen[f.cat] = true
							aggs[w].add(f.cat, in, "["+f.cat+"] "+f.msg, n)
						}
					}
				}
				slots[w].cur.Store(nil)
			}
		}(w)
	}

	// watchdog for "never loops" on the short inputs
	hangCh := make(chan string, 1)
	watchDone := make(chan struct{})
	go func() {
		tk := time.NewTicker(200 * time.Millisecond)
		defer tk.Stop()
		for {
			select {
			case <-watchDone:
				return
			case <-tk.C:
				now := time.Now().UnixNano()
				for w := range slots {
					p := slots[w].cur.Load()
					if p != nil && now-slots[w].since.Load() > int64(vc01EnumHang) {
						select {
						case hangCh <- *p:
						default:
						}
						return
					}
				}
			}
		}
	}()

	var samples []string
	var produced int64
	cur := make([]string, 0, 1024)
	domain := ""
	var domainCount int64
	emit := func(s string) {
		produced++
		domainCount++
		if domainCount%9973 == 17 && len(samples) < 40 {
			samples = append(samples, strconv.Quote(s))
		}
		cur = append(cur, s)
		if len(cur) == cap(cur) {
			batches <- cur
			cur = make([]string, 0, 1024)
		}
	}
	endDomain := func() {
		rep.Domains[domain] = domainCount
		domainCount = 0
	}

	producerDone := make(chan struct{})
	go func() {
		defer close(producerDone)
		defer close(batches)

		domain = "empty-and-whitespace"
		for _, s := range []string{"", " ", "\t", "\n", "\r\n", "  \t "} {
			emit(s)
		}
		endDomain()

		domain = fmt.Sprintf("byte-strings<=%d-over-%d-symbols", byteLen, len(vc01ByteAlphabet))
		vc01Enumerate(vc01ByteAlphabet, "", 1, byteLen, emit)
		endDomain()

		domain = fmt.Sprintf("byte-strings=%d..%d-over-%d-symbols", byteLen+1, smallByteLen, len(vc01ByteAlphabetSmall))
		vc01Enumerate(vc01ByteAlphabetSmall, "", byteLen+1, smallByteLen, emit)
		endDomain()

		domain = fmt.Sprintf("token-sequences<=%d-over-%d-tokens", tokLen, len(vc01Tokens))
		vc01Enumerate(vc01Tokens, " ", 1, tokLen, emit)
		endDomain()

		domain = fmt.Sprintf("chunk-sequences<=%d-over-%d-chunks", chunkLen, len(vc01Chunks))
		vc01Enumerate(vc01Chunks, " ", 1, chunkLen, emit)
		endDomain()

		domain = "clause-templates"
		vc01Templates(emit)
		endDomain()

		// seeded sampling beyond the bounds
		rng := rand.New(rand.NewSource(seed))
		domain = "random-bytes"
		for i := 0; i < nRandom; i++ {
			n := 1 + rng.Intn(24)
			b := make([]byte, n)
			switch i % 3 {
			case 0: // uniformly random bytes
				for j := range b {
					b[j] = byte(rng.Intn(256))
				}
				emit(string(b))
			case 1: // printable ASCII
				for j := range b {
					b[j] = byte(32 + rng.Intn(95))
				}
				emit(string(b))
			default: // the class alphabet, longer
				var sb strings.Builder
				for j := 0; j < n; j++ {
					sb.WriteString(vc01ByteAlphabet[rng.Intn(len(vc01ByteAlphabet))])
				}
				emit(sb.String())
			}
		}
		endDomain()

		domain = "random-token-sequences"
		all := append(append([]string{}, vc01Tokens...), vc01Chunks...)
		all = append(all, vc01Values...)
		for i := 0; i < nRandom; i++ {
			n := 5 + rng.Intn(10)
			var sb strings.Builder
			for j := 0; j < n; j++ {
				if j > 0 && rng.Intn(4) != 0 {
					sb.WriteByte(' ')
				}
				sb.WriteString(all[rng.Intn(len(all))])
			}
			emit(sb.String())
		}
		endDomain()

		if len(cur) > 0 {
			batches <- cur
		}
	}()

	workersDone := make(chan struct{})
	go func() { wg.Wait(); close(workersDone) }()

	total := vc01NewAgg()
	hung := false
	select {
	case <-workersDone:
	case in := <-hangCh:
		hung = true
		stop.Store(true)
		go func() { // drain so the producer can finish
			for range batches {
			}
		}()
		total.add("hang", in, fmt.Sprintf("[hang] %s : every operation must return, one of them is still running after %v", vc01Abbrev(in), vc01EnumHang), 1)
	}
	close(watchDone)
	<-producerDone
	for w := 0; w < workers; w++ {
		if hung {
			break // workers may still be running: do not touch their state
		}
		total.merge(aggs[w])
		rep.Evaluations += evals[w]
		rep.Distinct += stats[w].trees
	}
	var jsonErrs, skipped int64
	if !hung {
		for w := range stats {
			jsonErrs += stats[w].jsonErrs
			skipped += stats[w].skipped
		}
	}

	// ---- phase 2: adversarial long shapes, timing ------------------------------------------
	if !hung {
		type job struct {
			fam *vc01Family
			cfg int
		}
		jobs := make(chan job, len(vc01Families)*len(vc01Cfgs))
		ncfg := 2 // long shapes: no default field, default field "f"
		for i := range vc01Families {
			for c := 0; c < ncfg; c++ {
				jobs <- job{&vc01Families[i], c}
			}
		}
		close(jobs)
		tw := workers / 2
		if tw < 1 {
			tw = 1
		}
		var mu sync.Mutex
		var rows []vc01TimingRow
		var twg sync.WaitGroup
		abandoned := atomic.Bool{}
		for w := 0; w < tw; w++ {
			twg.Add(1)
			go func() {
				defer twg.Done()
				for j := range jobs {
					if abandoned.Load() {
						return
					}
					row := vc01TimingRow{family: j.fam.name, cfg: j.cfg}
					for _, n := range vc01Sizes {
						in := j.fam.gen(n)
						type res struct {
							d   [vc01NStages]time.Duration
							pan [vc01NStages]string
						}
						ch := make(chan res, 1)
						go func() {
							d, p := vc01TimeOne(in, &vc01Cfgs[j.cfg])
							ch <- res{d, p}
						}()
						var r res
						select {
						case r = <-ch:
						case <-time.After(vc01CallAbandon):
							abandoned.Store(true)
							mu.Lock()
							total.add("hang-"+j.fam.name, in, fmt.Sprintf("[hang-%s] %s : shape %s(%d tokens) with %s must finish in polynomial time, still running after %v", j.fam.name, vc01Abbrev(in), j.fam.name, n, vc01Cfgs[j.cfg].name, vc01CallAbandon), 1)
							mu.Unlock()
							return
						}
						mu.Lock()
						rep.Evaluations++
						for st := 0; st < vc01NStages; st++ {
							row.times[st] = append(row.times[st], r.d[st])
							if r.pan[st] != "" {
								parts := strings.SplitN(r.pan[st], "|", 2)
								total.add(parts[0], in, fmt.Sprintf("[%s] %s : %s on shape %s(%d tokens) with %s must return normally, it panicked: %s", parts[0], vc01Abbrev(in), vc01StageName[st], j.fam.name, n, vc01Cfgs[j.cfg].name, parts[1]), 1)
							}
							if r.d[st] > vc01CallCap {
								cat := "slow-" + vc01StageTag[st] + "-" + j.fam.name
								total.add(cat, in, fmt.Sprintf("[%s] %s : %s on shape %s(%d tokens) with %s took %v, cap is %v", cat, vc01Abbrev(in), vc01StageName[st], j.fam.name, n, vc01Cfgs[j.cfg].name, r.d[st], vc01CallCap), 1)
							}
						}
						mu.Unlock()
						// the marker / parse-contract part of the statement on the long input as well
						if n == vc01Sizes[0] || n == vc01Sizes[len(vc01Sizes)-1] {
							for _, f := range vc01Check(in, nil) {
								if strings.HasPrefix(f.cat, "panic-") {
									continue // already recorded above
								}
								mu.Lock()
								total.add(f.cat, in, "["+f.cat+"] "+f.msg, 1)
								mu.Unlock()
							}
						}
					}
					mu.Lock()
					rows = append(rows, row)
					mu.Unlock()
				}
			}()
		}
		twg.Wait()
		sort.Slice(rows, func(i, j int) bool {
			if rows[i].family != rows[j].family {
				return rows[i].family < rows[j].family
			}
			return rows[i].cfg < rows[j].cfg
		})
		last := len(vc01Sizes) - 1
		type slowest struct {
			desc string
			d    time.Duration
		}
		var top []slowest
		for _, row := range rows {
			for st := 0; st < vc01NStages; st++ {
				ts := row.times[st]
				if len(ts) != len(vc01Sizes) || ts[last] < 0 || ts[0] <= 0 || ts[last-1] <= 0 {
					continue
				}
				exp := math.Log(float64(ts[last])/float64(ts[0])) / math.Log(float64(vc01Sizes[last])/float64(vc01Sizes[0]))
				lastX2 := float64(ts[last]) / float64(ts[last-1])
				desc := fmt.Sprintf("%s / %s / %s: %v %v %v %v (exponent %.2f, last doubling x%.1f)", row.family, vc01StageName[st], vc01Cfgs[row.cfg].name, ts[0], ts[1], ts[2], ts[3], exp, lastX2)
				top = append(top, slowest{desc, ts[last]})
				if ts[last] >= vc01GrowthFloor && (exp > vc01GrowthExp || lastX2 > vc01GrowthLastX2) {
					cat := "superquadratic-" + vc01StageTag[st] + "-" + row.family
					in := "shape " + row.family
					total.add(cat, in, fmt.Sprintf("[%s] %s : running time must grow at most quadratically between n and 2n tokens, measured at %v tokens: %s", cat, strconv.Quote(vc01Families[vc01FamilyIndex(row.family)].gen(8)), vc01Sizes, desc), 1)
				}
			}
		}
		sort.Slice(top, func(i, j int) bool { return top[i].d > top[j].d })
		for i := 0; i < len(top) && i < 8; i++ {
			rep.Timing = append(rep.Timing, top[i].desc)
		}
		rep.Domains[fmt.Sprintf("long-shapes-%d-families-x-%d-sizes-x-%d-options", len(vc01Families), len(vc01Sizes), ncfg)] = int64(len(vc01Families) * len(vc01Sizes) * ncfg)
	}

	// ---- shrink what was only found beyond the exhaustive bounds ----------------------------
	if !hung {
		for cat, fs := range total.best {
			if strings.HasPrefix(cat, "superquadratic-") || strings.HasPrefix(cat, "slow-") || strings.HasPrefix(cat, "hang") {
				continue
			}
			if len(fs) == 0 || len(fs[0].in) <= 10 {
				continue
			}
			small := vc01Shrink(fs[0].in, cat, 2*time.Second)
			if len(small) < len(fs[0].in) {
				for _, f := range vc01Check(small, nil) {
					if f.cat == cat {
						total.add(cat, small, "["+cat+"] "+f.msg, 0)
						break
					}
				}
			}
		}
	}

	// ---- report ------------------------------------------------------------------------------
	cats := make([]string, 0, len(total.count))
	for c := range total.count {
		cats = append(cats, c)
	}
	sort.Strings(cats)
	for _, c := range cats {
		rep.ByCategory[c] = total.count[c]
		rep.FailCount += total.count[c]
	}
	for _, c := range cats {
		for _, f := range total.best[c] {
			if len(rep.Failures) < 25 {
				rep.Failures = append(rep.Failures, f.msg)
			}
		}
	}
	if len(samples) > 12 {
		step := len(samples) / 12
		var s2 []string
		for i := 0; i < len(samples); i += step {
			s2 = append(s2, samples[i])
		}
		samples = s2
	}
	rep.Samples = samples
	rep.Bound = fmt.Sprintf("every input x %d default-field options (none, \"f\", a hostile name) x {Parse, ToPostgres, ToParameterizedPostgres, String, %%#v, json.Marshal}; inputs: "+
		"all byte strings of <=%d symbols over a %d-symbol alphabet covering every token-start class (ASCII/2-byte letters and digits, wildcards, escape, all operator symbols, quotes, slash, NUL, invalid UTF-8 bytes, a non-token character) and of %d..%d symbols over a %d-symbol sub-alphabet; "+
		"all sequences of <=%d tokens over %d token kinds; all sequences of <=%d chunks over %d clauses/connectors; %d-value clause templates (ranges, lists, comparisons, fuzzy, boost); "+
		"%d seeded random byte strings (<=24 bytes) and %d random token sequences (5..14 items); %d adversarial shape families at %v tokens with timing. "+
		"distinct_nontrivial = inputs for which Parse returned a tree under at least one option, so that all six operations ran (enumerated strings are pairwise distinct within a domain; cross-domain overlap is below 0.1%%)",
		len(vc01Cfgs), byteLen, len(vc01ByteAlphabet), byteLen+1, smallByteLen, len(vc01ByteAlphabetSmall), tokLen, len(vc01Tokens), chunkLen, len(vc01Chunks), len(vc01Values), nRandom, nRandom, len(vc01Families), vc01Sizes)
	rep.Notes = append(rep.Notes,
		fmt.Sprintf("json.Marshal returned an error (a normal return, not a failure) for %d input/option pairs (NaN/Inf values, nesting deeper than encoding/json allows)", jsonErrs),
		fmt.Sprintf("%d inputs contain \"%%!\" themselves; the marker check does not apply to them", skipped),
		"growth rule: flagged when time(10000 tokens) >= 150ms and (fitted exponent over 1250..10000 > 2.5 or time(10000)/time(5000) > 6.5); absolute cap 10s per call",
	)
	vc01WriteReport(rep)

	for _, f := range rep.Failures {
		t.Errorf("C01 violated: %s", f)
	}
	if rep.FailCount > len(rep.Failures) {
		t.Errorf("C01 violated: %d failures in total in %d categories (see report)", rep.FailCount, len(cats))
	}
	t.Logf("C01 %s: %d inputs, %d with a tree, %d failures in %d categories", tier, rep.Evaluations, rep.Distinct, rep.FailCount, len(cats))
}

func vc01FamilyIndex(name string) int {
	for i := range vc01Families {
		if vc01Families[i].name == name {
			return i
		}
	}
	return 0
}
