//go:build verif

package lucene

// Bounded stand-in / counterexample search for property C01:
//
//	"Parsing and rendering are total: no panic, no hang, no garbled output."
//
// For every enumerated input and every default-field option the six operations
// Parse, ToPostgres, ToParameterizedPostgres, String(), %#v and json.Marshal are
// run on the real code.  The oracle is the statement itself: every call returns
// (a recovered panic is a failure), Parse returns a tree or an error, none of the
// produced texts contains a Go formatting-error marker ("%!verb(type=value)",
// "%!(EXTRA ...)", "%!v(PANIC=...)"), and on adversarial shapes of 1250..10000
// tokens the running time grows at most quadratically (with an absolute cap).
//
// Injected into the root package with `go test -overlay`; never written to /repo.

import (
	"bytes"
	"encoding/json"
	"fmt"
	"math"
	"math/rand"
	"os"
	"regexp"
	"runtime"
	"sort"
	"strconv"
	"strings"
	"sync"
	"sync/atomic"
	"syscall"
	"testing"
	"time"

	"github.com/grindlemire/go-lucene/pkg/lucene/expr"
)

// ---------------------------------------------------------------------------------------------
// report

type vc01Report struct {
	Property    string           `json:"property"`
	Tier        string           `json:"tier"`
	Seed        int64            `json:"seed"`
	Evaluations int64            `json:"evaluations"`
	Distinct    int64            `json:"distinct_nontrivial"`
	Bound       string           `json:"bound"`
	FailCount   int              `json:"failure_count"`
	ByCategory  map[string]int   `json:"by_category"`
	Failures    []string         `json:"failures"`
	Samples     []string         `json:"samples"`
	Domains     map[string]int64 `json:"domains,omitempty"`
	Timing      []string         `json:"timing,omitempty"`
	Notes       []string         `json:"notes,omitempty"`
}

func vc01WriteReport(rep *vc01Report) {
	out := os.Getenv("VERIF_REPORT")
	if out == "" {
		return
	}
	if rep.ByCategory == nil {
		rep.ByCategory = map[string]int{}
	}
	if rep.Failures == nil {
		rep.Failures = []string{}
	}
	if rep.Samples == nil {
		rep.Samples = []string{}
	}
	var buf bytes.Buffer
	enc := json.NewEncoder(&buf)
	enc.SetEscapeHTML(false)
	enc.SetIndent("", " ")
	err := enc.Encode(rep)
	b := buf.Bytes()
	if err != nil {
		b = []byte(fmt.Sprintf(`{"property":"C01","failure_count":1,"by_category":{"harness-error":1},"failures":[%q]}`, "[harness-error] cannot encode report: "+err.Error()))
	}
	_ = os.WriteFile(out, b, 0o644)
}

// ---------------------------------------------------------------------------------------------
// failure aggregation (per worker, merged deterministically at the end)

type vc01Fail struct {
	in  string
	msg string
}

type vc01Agg struct {
	count map[string]int
	best  map[string][]vc01Fail
}

func vc01NewAgg() *vc01Agg {
	return &vc01Agg{count: map[string]int{}, best: map[string][]vc01Fail{}}
}

func vc01Less(a, b vc01Fail) bool {
	if len(a.in) != len(b.in) {
		return len(a.in) < len(b.in)
	}
	if a.in != b.in {
		return a.in < b.in
	}
	return a.msg < b.msg
}

func (a *vc01Agg) add(cat, in, msg string, n int) {
	a.count[cat] += n
	b := a.best[cat]
	for _, f := range b {
		if f.in == in {
			return
		}
	}
	b = append(b, vc01Fail{in, msg})
	sort.Slice(b, func(i, j int) bool { return vc01Less(b[i], b[j]) })
	if len(b) > 3 {
		b = b[:3]
	}
	a.best[cat] = b
}

func (a *vc01Agg) merge(o *vc01Agg) {
	for c, n := range o.count {
		a.count[c] += n
	}
	for c, fs := range o.best {
		for _, f := range fs {
			a.add(c, f.in, f.msg, 0)
		}
	}
}

// ---------------------------------------------------------------------------------------------
// the check of one input

type vc01Cfg struct {
	name string
	opts []opt
}

var vc01Cfgs = []vc01Cfg{
	{"no default field", nil},
	{`WithDefaultField("f")`, []opt{WithDefaultField("f")}},
	{`WithDefaultField("d \"q\" *")`, []opt{WithDefaultField(`d "q" *`)}},
}

const (
	vc01StParse = iota
	vc01StToPostgres
	vc01StToParam
	vc01StString
	vc01StGoString
	vc01StJSON
	vc01NStages
)

var vc01StageName = [...]string{"Parse", "ToPostgres", "ToParameterizedPostgres", "String()", "%#v", "json.Marshal"}
var vc01StageTag = [...]string{"parse", "topostgres", "toparameterizedpostgres", "string", "gostring", "json"}

type vc01Res struct {
	tree    *expr.Expression
	err     error
	text    string // text produced by the stage (sql / string / gostring / json)
	jsonErr bool
}

var vc01SanRe = regexp.MustCompile(`[^a-z0-9]+`)

func vc01Sanitize(s string) string {
	s = vc01SanRe.ReplaceAllString(strings.ToLower(s), "-")
	s = strings.Trim(s, "-")
	if len(s) > 48 {
		s = s[:48]
	}
	if s == "" {
		s = "x"
	}
	return s
}

// vc01PanicSite names the innermost library function on the panicking stack (so that
// two panics with different origins get different category tags) and the kind of panic.
func vc01PanicSite(r any) string {
	pcs := make([]uintptr, 64)
	n := runtime.Callers(3, pcs)
	frames := runtime.CallersFrames(pcs[:n])
	site := "unknown"
	for {
		fr, more := frames.Next()
		fn := fr.Function
		if strings.HasPrefix(fn, "github.com/grindlemire/go-lucene") && !strings.Contains(fn, ".vc01") && !strings.Contains(fn, ".TestVerif") {
			fn = strings.TrimPrefix(fn, "github.com/grindlemire/go-lucene")
			fn = strings.TrimPrefix(fn, "/pkg/lucene/")
			fn = strings.TrimPrefix(fn, "/pkg/")
			fn = strings.TrimPrefix(fn, "/internal/")
			fn = strings.TrimPrefix(fn, ".")
			site = vc01Sanitize(fn)
			break
		}
		if !more {
			break
		}
	}
	msg := fmt.Sprint(r)
	kind := "other"
	switch {
	case strings.Contains(msg, "index out of range"):
		kind = "index"
	case strings.Contains(msg, "slice bounds out of range"):
		kind = "slice-bounds"
	case strings.Contains(msg, "interface conversion"):
		kind = "type-assertion"
	case strings.Contains(msg, "nil pointer dereference"):
		kind = "nil-deref"
	case strings.Contains(msg, "nil map"):
		kind = "nil-map"
	case strings.Contains(msg, "divide by zero"):
		kind = "div-zero"
	}
	return site + "-" + kind
}

// vc01Stage runs one operation under recover.
func vc01Stage(stage int, in string, opts []opt, r *vc01Res) (pan any, site string) {
	defer func() {
		if p := recover(); p != nil {
			pan = p
			site = vc01PanicSite(p)
		}
	}()
	r.text = ""
	switch stage {
	case vc01StParse:
		r.tree, r.err = Parse(in, opts...)
	case vc01StToPostgres:
		r.text, _ = ToPostgres(in, opts...)
	case vc01StToParam:
		r.text, _, _ = ToParameterizedPostgres(in, opts...)
	case vc01StString:
		r.text = r.tree.String()
	case vc01StGoString:
		r.text = fmt.Sprintf("%#v", r.tree)
	case vc01StJSON:
		b, err := json.Marshal(r.tree)
		r.jsonErr = err != nil
		r.text = string(b)
	}
	return nil, ""
}

var vc01MarkerRe = regexp.MustCompile(`%!([a-zA-Z])?\(([^=)\s]*)`)

// vc01Marker returns a category suffix for the first Go formatting-error marker in s, or "".
func vc01Marker(s string) (string, string) {
	i := strings.Index(s, "%!")
	if i < 0 {
		return "", ""
	}
	end := i + 60
	if end > len(s) {
		end = len(s)
	}
	excerpt := s[i:end]
	m := vc01MarkerRe.FindStringSubmatch(s[i:])
	if m == nil {
		return "bare", excerpt
	}
	verb, typ := m[1], m[2]
	if verb == "" {
		return vc01Sanitize(typ), excerpt // %!(EXTRA, %!(NOVERB), %!(BADWIDTH) ...
	}
	return vc01Sanitize(verb + "-" + typ), excerpt
}

type vc01Finding struct{ cat, msg string }

type vc01Batch struct {
	ncfg  int
	items []string
}

type vc01Stats struct {
	trees    int64 // inputs for which Parse returned a tree under at least one option
	jsonErrs int64
	skipped  int64 // inputs containing "%!" themselves: marker check not applicable
}

func vc01Abbrev(in string) string {
	if len(in) <= 160 {
		return strconv.Quote(in)
	}
	return fmt.Sprintf("%s...(%d bytes)...%s", strconv.Quote(in[:60]), len(in), strconv.Quote(in[len(in)-40:]))
}

// vc01Check checks the statement of C01 on one input under every option.
func vc01Check(in string, st *vc01Stats, ncfg int) (out []vc01Finding) {
	markerApplies := !strings.Contains(in, "%!")
	if !markerApplies && st != nil {
		st.skipped++
	}
	gotTree := false
	for ci := 0; ci < ncfg && ci < len(vc01Cfgs); ci++ {
		cfg := &vc01Cfgs[ci]
		var r vc01Res
		for stage := 0; stage < vc01NStages; stage++ {
			if stage >= vc01StString && r.tree == nil {
				break
			}
			pan, site := vc01Stage(stage, in, cfg.opts, &r)
			if pan != nil {
				out = append(out, vc01Finding{"panic-" + site, fmt.Sprintf("%s : %s with %s must return normally, it panicked: %v", vc01Abbrev(in), vc01StageName[stage], cfg.name, pan)})
				continue
			}
			if stage == vc01StParse {
				if r.tree == nil && r.err == nil {
					out = append(out, vc01Finding{"parse-neither-tree-nor-error", fmt.Sprintf("%s : Parse with %s must return a tree or an error, it returned (nil, nil)", vc01Abbrev(in), cfg.name)})
				}
				if r.err != nil {
					r.tree = nil
				}
				if r.tree != nil {
					gotTree = true
				}
				continue
			}
			if stage == vc01StJSON && r.jsonErr && st != nil {
				st.jsonErrs++
			}
			if markerApplies && r.text != "" {
				if suffix, excerpt := vc01Marker(r.text); suffix != "" {
					out = append(out, vc01Finding{"fmt-marker-" + vc01StageTag[stage] + "-" + suffix,
						fmt.Sprintf("%s : text of %s with %s must not contain a Go formatting-error marker, it contains %q", vc01Abbrev(in), vc01StageName[stage], cfg.name, excerpt)})
				}
			}
		}
	}
	if gotTree && st != nil {
		st.trees++
	}
	return out
}

// ---------------------------------------------------------------------------------------------
// domains

// byte-level alphabet: one representative (or all members) of every class the lexer
// distinguishes at the start of a token, plus bytes no token can start with.  The code is
// uniquely decodable (0xa9 and 0xa3 are not symbols), so all enumerated strings are distinct.
var vc01ByteAlphabet = []string{
	"a", "T", "O", "_", "1", "\u00e9", "\u0663", // letters (incl. T,O for the keyword), digit, 2-byte letter, 2-byte digit
	"*", "?", "\\", ".", "-", " ",
	"\"", "'", "/",
	"(", ")", "[", "]", "{", "}", ":", "+", "=", ">", "<", "~", "^",
	";", "\x00", "\xff", "\xc3", "\x80",
}

// reduced alphabet (20 symbols) for one more symbol of length
var vc01ByteAlphabetTiny = []string{
	"a", "1", "*", "\\", ".", "-", " ", "\"", "/", "(", ")", "[", ":", "~", "\xff", "\u00e9", // the quick tier uses these 16
	"]", "+", "<", "\x00",
}

// token vocabulary (joined by single spaces)
var vc01Tokens = []string{
	"a", "1", "-1", "1.5", "NaN", `"q r"`, `'s'`, "/re/", "w*", "*", "?", `\(`,
	"AND", "OR", "NOT", "TO",
	"(", ")", "[", "]", "{", "}", ":", "+", "-", "=", ">", "<", "~", "^",
}

// reduced token vocabulary (20 tokens) for one more token of length
var vc01TokensTiny = []string{
	"a", "1", `"q r"`, "w*", "AND", "OR", "NOT", "TO", "(", ")", "[", "]", ":", "-", "~", "/re/", // the quick tier uses these 16
	"*", "+", "=", "^",
}

// reduced chunk vocabulary (30 chunks) for one more chunk of length
var vc01ChunksSmall = []string{
	"a:b", "a:1", `a:"q r"`, "a:/re/", "a:w*", "a:*",
	"a:[1 TO 5]", "a:{* TO 5}", `a:["x" TO "y, z"]`, "a:[b TO c]",
	"a:(1 OR 2)", `a:("p q" OR 2)`, "a:(b AND c)",
	"a:>1", "a:<=1.5",
	"b~2", "b^2", "a:b~", `"p q"~3`,
	"b", "1", `"q"`, "*",
	"AND", "OR", "NOT", "(", ")", "+", "-",
}

// chunk vocabulary: whole clauses plus connectors, to reach the deeper trees (ranges, lists,
// comparisons, fuzzy, boost) that short token sequences cannot build
var vc01Chunks = []string{
	"a:b", "a:1", `a:"q r"`, "a:/re/", "a:w*", "a:*", "a:?", `a:""`,
	"a:[1 TO 5]", "a:{1 TO 5}", "a:[* TO 5]", "a:[1 TO *]", "a:[* TO *]", `a:["x" TO "y, z"]`, "a:[b TO c]", "a:[1.5 TO 2.5]", "a:{1 TO 5]", "a:[w* TO /r/]",
	"a:(1 OR 2)", "a:(x OR y)", `a:("p q" OR 2)`, "a:(1 OR 2 OR 1.5)", "a:(b AND c)", "a:(w* OR /r/)",
	"a:>1", "a:>=1", "a:<1", "a:<=1.5", "a:>x", "a:<=*",
	"b~", "b~2", "b^", "b^2", "a:b~2", "a:b^2.5", `"p q"~3`, "b~x", "b^-1",
	"b", "1", `"q"`, "/re/", "*",
	"AND", "OR", "NOT", "(", ")", "+", "-", ":", "TO", "[", "]",
}

// terminal values for the clause templates
var vc01Values = []string{
	"b", "1", "-1", "0", "1.5", "-2.5", "1e3", "NaN", "Inf", "0x1F", "9223372036854775808",
	`"q"`, `"p q"`, `"a, b"`, `"1,2"`, `"*"`, `"'*'"`, `""`, `"it's"`, `"(x)"`, `"/r/"`, `'s'`,
	"*", "?", "w*", "?x", "/re/", "/a,b/", `/a\/b/`, "//", `\*`, `a\ b`, "TO", "x.y", "x-y",
}

func vc01Enumerate(alphabet []string, sep string, minLen, maxLen int, emit func(string)) {
	var rec func(prefix string, depth int)
	rec = func(prefix string, depth int) {
		if depth >= minLen {
			emit(prefix)
		}
		if depth == maxLen {
			return
		}
		for _, a := range alphabet {
			rec(prefix+sep+a, depth+1)
		}
	}
	for _, a := range alphabet {
		rec(a, 1)
	}
}

func vc01Templates(emit func(string)) {
	v := vc01Values
	for _, x := range v {
		for _, pre := range []string{"a:", "a:>", "a:>=", "a:<", "a:<=", "a=", "+", "-", "NOT ", "", "a:+", "a:-", "a:NOT "} {
			emit(pre + x)
		}
		for _, suf := range []string{"~", "^", "~2", "^2", "~0", "^0", "~-1", "~1.5", "^1.5"} {
			emit(x + suf)
			emit("a:" + x + suf)
		}
		emit(x + ":b")
		emit(x + ":[1 TO 2]")
		emit(x + ":(1 OR 2)")
		emit(x + ":>1")
		for _, y := range v {
			for _, o := range []string{"[", "{"} {
				for _, c := range []string{"]", "}"} {
					emit("a:" + o + x + " TO " + y + c)
				}
			}
			emit("a:(" + x + " OR " + y + ")")
			emit("a:(" + x + " " + y + ")")
			emit("a:(" + x + " AND " + y + ")")
			emit(x + "~" + y)
			emit(x + "^" + y)
			emit("a:" + x + "~" + y)
			emit(x + " " + y)
			emit(x + ":" + y)
		}
	}
	// three-element lists over a smaller set
	w := []string{"b", "1", "1.5", `"p q"`, "w*", "/re/", "*", "NaN", `""`}
	for _, x := range w {
		for _, y := range w {
			for _, z := range w {
				emit("a:(" + x + " OR " + y + " OR " + z + ")")
				emit("a:(" + x + " OR (" + y + " OR " + z + "))")
				emit("a:[" + x + " TO " + y + "] OR b:" + z)
			}
		}
	}
}

// ---------------------------------------------------------------------------------------------
// adversarial long shapes

type vc01Family struct {
	name string
	gen  func(n int) string // n = approximate number of tokens
}

// families that contain bare literals, i.e. whose tree depends on the default field; the quick
// tier runs the other families without a default field only
var vc01BareFamilies = map[string]bool{
	"open-parens": true, "nested-parens-literal": true, "implicit-and-literals": true, "or-literals": true, "in-list": true,
	"right-nested-fields": true, "fuzzy-boost-chain": true, "quotes-many": true, "numbers-many": true, "mixed-unbalanced": true,
}

func vc01Rep(s string, n int) string {
	if n < 0 {
		n = 0
	}
	return strings.Repeat(s, n)
}

var vc01Families = []vc01Family{
	{"open-parens", func(n int) string { return vc01Rep("(", n) + "a" }},
	{"nested-parens", func(n int) string { return vc01Rep("(", n/2) + "a:b" + vc01Rep(")", n/2) }},
	{"nested-parens-literal", func(n int) string { return vc01Rep("(", n/2) + "a" + vc01Rep(")", n/2) }},
	{"closing-parens", func(n int) string { return "a:b" + vc01Rep(")", n) }},
	{"and-chain", func(n int) string { return "a:b" + vc01Rep(" AND a:b", n/4) }},
	{"or-chain", func(n int) string { return "a:b" + vc01Rep(" OR a:b", n/4) }},
	{"and-or-alternating", func(n int) string { return "a:b" + vc01Rep(" AND a:b OR c:d", n/8) }},
	{"implicit-and-clauses", func(n int) string { return "a:b" + vc01Rep(" a:b", n/3) }},
	{"implicit-and-literals", func(n int) string { return "a" + vc01Rep(" a", n) }},
	{"or-literals", func(n int) string { return "a" + vc01Rep(" OR a", n/2) }},
	{"in-list", func(n int) string { return "a:(1" + vc01Rep(" OR 2", n/2) + ")" }},
	{"right-nested-groups", func(n int) string { return vc01Rep("a:b AND (", n/4) + "a:b" + vc01Rep(")", n/4) }},
	{"right-nested-fields", func(n int) string { return vc01Rep("a:(", n/3) + "b" + vc01Rep(")", n/3) }},
	{"unclosed-groups", func(n int) string { return vc01Rep("a:b AND (", n/4) + "a:b" }},
	{"not-parens", func(n int) string { return vc01Rep("NOT (", n/2) + "a:b" + vc01Rep(")", n/2) }},
	{"not-chain", func(n int) string { return vc01Rep("NOT ", n) + "a:b" }},
	{"and-not-chain", func(n int) string { return "a:b" + vc01Rep(" AND NOT a:b", n/5) }},
	{"only-and", func(n int) string { return vc01Rep("AND ", n) }},
	{"only-or-not", func(n int) string { return vc01Rep("OR NOT ", n/2) }},
	{"only-colons", func(n int) string { return vc01Rep(":", n) }},
	{"only-plus", func(n int) string { return vc01Rep("+", n) }},
	{"only-minus", func(n int) string { return vc01Rep("- ", n) }},
	{"only-tilde", func(n int) string { return vc01Rep("~", n) }},
	{"only-carets", func(n int) string { return vc01Rep("^", n) }},
	{"only-compare", func(n int) string { return vc01Rep(":>=", n/3) }},
	{"only-to", func(n int) string { return vc01Rep("TO ", n) }},
	{"plus-minus-prefix", func(n int) string { return vc01Rep("+-", n/2) + "a:b" }},
	{"must-mustnot-clauses", func(n int) string { return vc01Rep("+a:b -c:d ", n/8) }},
	{"fuzzy-boost-chain", func(n int) string { return "a" + vc01Rep("~2^3", n/4) }},
	{"fuzzy-chain-field", func(n int) string { return "a:b" + vc01Rep("~", n) }},
	{"range-chain", func(n int) string { return "a:[1 TO 2]" + vc01Rep(" OR a:[1 TO 2]", n/8) }},
	{"open-squares", func(n int) string { return "a:" + vc01Rep("[", n) + "1 TO 2]" }},
	{"close-squares", func(n int) string { return "a:[1 TO 2" + vc01Rep("]", n) }},
	{"open-curlies", func(n int) string { return vc01Rep("{", n) }},
	{"mixed-unbalanced", func(n int) string { return vc01Rep("([{", n/3) + "a" + vc01Rep(")]}", n/3) }},
	{"nested-ranges", func(n int) string { return vc01Rep("a:[", n/2) + "1 TO 2" + vc01Rep("]", n/2) }},
	{"field-chain", func(n int) string { return "a" + vc01Rep(":a", n/2) }},
	{"long-word", func(n int) string { return "a:" + vc01Rep("x", n) }},
	{"long-escaped-word", func(n int) string { return "a:" + vc01Rep(`\ `, n) }},
	{"long-quoted", func(n int) string { return `a:"` + vc01Rep("x y ", n/2) + `"` }},
	{"long-unterminated-quote", func(n int) string { return `a:"` + vc01Rep("x y ", n/2) }},
	{"long-regexp", func(n int) string { return `a:/` + vc01Rep(`x\/`, n/2) + `/` }},
	{"quotes-many", func(n int) string { return vc01Rep(`"q" `, n) }},
	{"regexps-many", func(n int) string { return vc01Rep(`a:/r/ `, n/3) }},
	{"wildcards-many", func(n int) string { return vc01Rep(`a:w* `, n/3) }},
	{"bad-bytes", func(n int) string { return vc01Rep("\xff", n) }},
	{"error-at-end", func(n int) string { return "a:b" + vc01Rep(" AND a:b", n/4) + " ;" }},
	{"dangling-operator-end", func(n int) string { return "a:b" + vc01Rep(" OR a:b", n/4) + " AND" }},
	{"whitespace-only", func(n int) string { return vc01Rep(" \t\n", n) }},
	{"numbers-many", func(n int) string { return vc01Rep("-1 ", n) }},
}

// shape sizes in tokens; the quick tier stops at 5000 (set in the test), the thorough tier at 10^4
var vc01Sizes = []int{39, 78, 156, 312, 625, 1250, 2500, 5000, 10000}

const (
	vc01EnumHang = 8 * time.Second // one short enumerated input must never take this long
	vc01Growth2  = 45.0            // time(4n)/time(n): 16 is quadratic, 64 is cubic (32: quadratic with a 2x allocator/cache step)
	vc01Growth1  = 5.0             // and time(4n)/time(2n): 4 is quadratic, 8 is cubic
)

// vc01CPU returns the CPU time consumed by the process so far.
func vc01CPU() time.Duration {
	var ru syscall.Rusage
	if syscall.Getrusage(syscall.RUSAGE_SELF, &ru) != nil {
		return 0
	}
	return time.Duration(ru.Utime.Nano() + ru.Stime.Nano())
}

// vc01ThreadCPU returns the CPU time consumed by the calling OS thread (Linux RUSAGE_THREAD),
// or 0 where that is not available; callers then fall back to wall-clock time.
func vc01ThreadCPU() time.Duration {
	var ru syscall.Rusage
	if syscall.Getrusage(1 /* RUSAGE_THREAD */, &ru) != nil {
		return 0
	}
	return time.Duration(ru.Utime.Nano() + ru.Stime.Nano())
}

// vc01Cap is the generous absolute bound for one call on n tokens: quadratic, 60s at 10^4 tokens.
func vc01Cap(n int) time.Duration {
	f := float64(n) / 10000
	return time.Second + time.Duration(60*f*f*float64(time.Second))
}

// vc01Ladder is the measurement of one shape family under one option at growing sizes.  An
// operation is measured at the next size only while it stayed below the per-call budget, so
// quadratic operations with a large constant (json.Marshal of deep trees) do not blow the budget.
type vc01Ladder struct {
	family *vc01Family
	cfg    int

	mu        sync.Mutex
	callStage int // operation currently running (-1 none), for the hang watchdog
	callN     int
	callSince time.Time
	times     [vc01NStages][]time.Duration // measured times by size index (consecutive from 0)
	finds     []vc01Fail                   // failures found on the way (category in findCats)
	findCats  []string
	done      bool
}

func (l *vc01Ladder) find(cat, in, msg string) {
	l.mu.Lock()
	l.findCats = append(l.findCats, cat)
	l.finds = append(l.finds, vc01Fail{in, msg})
	l.mu.Unlock()
}

// measure runs one operation (min of a few repetitions when it is fast).
func (l *vc01Ladder) measure(stage, n int, in string, tree *expr.Expression, reps int) (best time.Duration, res vc01Res, panicked bool) {
	cfg := &vc01Cfgs[l.cfg]
	best = time.Duration(math.MaxInt64)
	for rep := 0; rep < reps; rep++ {
		var rr vc01Res
		rr.tree = tree
		l.mu.Lock()
		l.callStage, l.callN, l.callSince = stage, n, time.Now()
		l.mu.Unlock()
		w0, c0 := time.Now(), vc01ThreadCPU()
		p, site := vc01Stage(stage, in, cfg.opts, &rr)
		el := time.Since(w0)
		if c1 := vc01ThreadCPU(); c0 > 0 && c1 >= c0 {
			el = c1 - c0 // CPU time of this (locked) thread: not inflated by other processes
		}
		l.mu.Lock()
		l.callStage = -1
		l.mu.Unlock()
		if p != nil {
			cat := "panic-" + site
			l.find(cat, in, fmt.Sprintf("[%s] %s : %s on shape %s(%d tokens) with %s must return normally, it panicked: %v", cat, vc01Abbrev(in), vc01StageName[stage], l.family.name, n, cfg.name, p))
			return 0, rr, true
		}
		if el < best {
			best = el
		}
		res = rr
		if el > 100*time.Millisecond {
			break
		}
	}
	return best, res, false
}

func (l *vc01Ladder) run(budget time.Duration, reps int) {
	runtime.LockOSThread()
	defer runtime.UnlockOSThread()
	defer func() {
		l.mu.Lock()
		l.done = true
		l.mu.Unlock()
	}()
	cfg := &vc01Cfgs[l.cfg]
	var active [vc01NStages]bool
	for i := range active {
		active[i] = true
	}
	for _, n := range vc01Sizes {
		in := l.family.gen(n)
		var tree *expr.Expression
		for stage := 0; stage < vc01NStages; stage++ {
			if !active[stage] || (stage >= vc01StString && tree == nil) {
				active[stage] = false // keep the measured sizes consecutive
				continue
			}
			d, res, panicked := l.measure(stage, n, in, tree, reps)
			if panicked {
				active[stage] = false
				continue
			}
			if stage == vc01StParse && res.err == nil {
				tree = res.tree
			}
			l.mu.Lock()
			l.times[stage] = append(l.times[stage], d)
			l.mu.Unlock()
			if d > vc01Cap(n) {
				cat := "slow-" + vc01StageTag[stage] + "-" + l.family.name
				l.find(cat, in, fmt.Sprintf("[%s] %s : %s on shape %s(%d tokens) with %s took %v, the (generous, quadratic) cap for this size is %v", cat, vc01Abbrev(in), vc01StageName[stage], l.family.name, n, cfg.name, d, vc01Cap(n)))
			}
			if stage == vc01StParse && res.tree == nil && res.err == nil {
				l.find("parse-neither-tree-nor-error", in, fmt.Sprintf("[parse-neither-tree-nor-error] %s : Parse with %s must return a tree or an error, it returned (nil, nil)", vc01Abbrev(in), cfg.name))
			}
			if stage != vc01StParse && res.text != "" && !strings.Contains(in, "%!") {
				if suffix, excerpt := vc01Marker(res.text); suffix != "" {
					cat := "fmt-marker-" + vc01StageTag[stage] + "-" + suffix
					l.find(cat, in, fmt.Sprintf("[%s] %s : text of %s with %s must not contain a Go formatting-error marker, it contains %q", cat, vc01Abbrev(in), vc01StageName[stage], cfg.name, excerpt))
				}
			}
			if d > budget {
				active[stage] = false
			}
		}
		if !active[vc01StParse] {
			return
		}
	}
}

// vc01Growth decides from the measured times whether an operation grows faster than quadratically.
func vc01Growth(ts []time.Duration, sizes []int, floor time.Duration) (flag bool, desc string) {
	k := len(ts)
	if k < 3 {
		return false, fmt.Sprintf("%v at %v tokens", ts, sizes[:k])
	}
	last := ts[k-1]
	if ts[k-3] <= 0 || ts[k-2] <= 0 {
		return false, ""
	}
	r2 := float64(last) / float64(ts[k-3])
	r1 := float64(last) / float64(ts[k-2])
	desc = fmt.Sprintf("%v at %v tokens: time(4n)/time(n)=%.1f (quadratic: 16), time(4n)/time(2n)=%.1f (quadratic: 4)", ts, sizes[:k], r2, r1)
	return last >= floor && r2 > vc01Growth2 && r1 > vc01Growth1, desc
}

// ---------------------------------------------------------------------------------------------
// shrinking (only used for failures found by sampling / long shapes)

func vc01HasCat(in, cat string) bool {
	for _, f := range vc01Check(in, nil, len(vc01Cfgs)) {
		if f.cat == cat {
			return true
		}
	}
	return false
}

func vc01Shrink(in, cat string, budget time.Duration) string {
	deadline := time.Now().Add(budget)
	for chunk := len(in) / 2; chunk >= 1; {
		changed := false
		for i := 0; i+chunk <= len(in); {
			if time.Now().After(deadline) {
				return in
			}
			cand := in[:i] + in[i+chunk:]
			if vc01HasCat(cand, cat) {
				in = cand
				changed = true
			} else {
				i += chunk
			}
		}
		if !changed || chunk > len(in) {
			chunk /= 2
		}
	}
	return in
}

// vc01Returns reports whether all operations come back on this input within d.
func vc01Returns(in string, d time.Duration) bool {
	done := make(chan struct{})
	go func() {
		defer close(done)
		vc01Check(in, nil, len(vc01Cfgs))
	}()
	select {
	case <-done:
		return true
	case <-time.After(d):
		return false
	}
}

// vc01ShrinkHang drops single characters from a hanging input while it still hangs.  Every
// successful step leaks one spinning goroutine, hence the small cap on the number of tries.
func vc01ShrinkHang(in string) string {
	tries := 0
	for changed := true; changed; {
		changed = false
		for i := 0; i < len(in) && tries < 12; {
			w := 1
			for i+w < len(in) && in[i+w]&0xC0 == 0x80 {
				w++
			}
			cand := in[:i] + in[i+w:]
			tries++
			if cand != "" && !vc01Returns(cand, 1500*time.Millisecond) {
				in = cand
				changed = true
			} else {
				i += w
			}
		}
	}
	return in
}

// ---------------------------------------------------------------------------------------------
// entry point

func TestVerifStandin_C01(t *testing.T) {
	tier := os.Getenv("VERIF_TIER")
	if tier != "thorough" {
		tier = "quick"
	}
	seed := int64(1)
	if v := os.Getenv("VERIF_SEED"); v != "" {
		if s, err := strconv.ParseInt(v, 10, 64); err == nil {
			seed = s
		}
	}
	rep := &vc01Report{Property: "C01", Tier: tier, Seed: seed, ByCategory: map[string]int{}, Domains: map[string]int64{}}

	// a report that survives a crash of the test binary (fatal stack overflow, external kill)
	rep.FailCount = 1
	rep.ByCategory["harness-incomplete"] = 1
	rep.Failures = []string{"[harness-incomplete] \"\" : the stand-in did not run to completion (fatal runtime error such as a stack overflow, or killed)"}
	vc01WriteReport(rep)
	rep.FailCount = 0
	rep.ByCategory = map[string]int{}
	rep.Failures = nil

	// full vocabularies up to length L, reduced vocabularies at length L+1
	byteLen, tokLen, chunkLen, nRandom := 3, 3, 2, 30000
	nextBytes, nextTokens := vc01ByteAlphabetTiny[:16], vc01TokensTiny[:16]
	if tier != "thorough" {
		vc01Sizes = vc01Sizes[:8] // ... 5000
	}
	if tier == "thorough" {
		byteLen, tokLen, chunkLen, nRandom = 4, 4, 3, 750000
		nextBytes, nextTokens = vc01ByteAlphabetTiny, vc01TokensTiny
	}

	t0 := time.Now()
	workers := runtime.NumCPU()
	if workers < 2 {
		workers = 2
	}

	// ---- phase 1: enumerated and sampled short inputs, in parallel --------------------------
	type slot struct {
		cur   atomic.Pointer[string]
		since atomic.Int64
	}
	slots := make([]slot, workers)
	aggs := make([]*vc01Agg, workers)
	stats := make([]vc01Stats, workers)
	evals := make([]int64, workers)
	batches := make(chan vc01Batch, 4*workers)
	var stop atomic.Bool
	var wg sync.WaitGroup
	for w := 0; w < workers; w++ {
		aggs[w] = vc01NewAgg()
		wg.Add(1)
		go func(w int) {
			defer wg.Done()
			for b := range batches {
				if stop.Load() {
					continue
				}
				for i := range b.items {
					in := b.items[i]
					slots[w].cur.Store(&b.items[i])
					slots[w].since.Store(time.Now().UnixNano())
					fs := vc01Check(in, &stats[w], b.ncfg)
					evals[w]++
					if len(fs) > 0 {
						seen := map[string]bool{}
						for _, f := range fs {
							n := 1
							if seen[f.cat] {
								n = 0
							}
							seen[f.cat] = true
							aggs[w].add(f.cat, in, "["+f.cat+"] "+f.msg, n)
						}
					}
				}
				slots[w].cur.Store(nil)
			}
		}(w)
	}

	// watchdog for "never loops" on the short inputs
	hangCh := make(chan string, 1)
	watchDone := make(chan struct{})
	go func() {
		tk := time.NewTicker(200 * time.Millisecond)
		defer tk.Stop()
		for {
			select {
			case <-watchDone:
				return
			case <-tk.C:
				now := time.Now().UnixNano()
				for w := range slots {
					p := slots[w].cur.Load()
					if p != nil && now-slots[w].since.Load() > int64(vc01EnumHang) {
						select {
						case hangCh <- *p:
						default:
						}
						return
					}
				}
			}
		}
	}()

	var samples []string
	var produced int64
	cur := make([]string, 0, 1024)
	domain := ""
	ncfg := 2
	var domainCount int64
	flush := func() {
		if len(cur) > 0 {
			batches <- vc01Batch{ncfg, cur}
			cur = make([]string, 0, 1024)
		}
	}
	emit := func(s string) {
		produced++
		domainCount++
		if domainCount%9973 == 17 && len(samples) < 40 {
			samples = append(samples, strconv.Quote(s))
		}
		cur = append(cur, s)
		if len(cur) == cap(cur) {
			flush()
		}
	}
	// begin a domain; options = 2: {none, "f"}, 3: also the hostile default field name
	begin := func(name string, options int) {
		flush()
		if domain != "" {
			rep.Domains[domain] = domainCount
		}
		domain, domainCount, ncfg = name, 0, options
	}

	producerDone := make(chan struct{})
	go func() {
		defer close(producerDone)
		defer close(batches)

		begin("empty-and-whitespace", 3)
		for _, s := range []string{"", " ", "\t", "\n", "\r\n", "  \t "} {
			emit(s)
		}

		begin(fmt.Sprintf("byte-strings<=%d-over-%d-symbols", byteLen, len(vc01ByteAlphabet)), 2)
		vc01Enumerate(vc01ByteAlphabet, "", 1, byteLen, emit)
		begin(fmt.Sprintf("byte-strings=%d-over-%d-symbols", byteLen+1, len(nextBytes)), 2)
		vc01Enumerate(nextBytes, "", byteLen+1, byteLen+1, emit)

		begin(fmt.Sprintf("token-sequences<=%d-over-%d-tokens", tokLen, len(vc01Tokens)), 2)
		vc01Enumerate(vc01Tokens, " ", 1, tokLen, emit)
		begin(fmt.Sprintf("token-sequences=%d-over-%d-tokens", tokLen+1, len(nextTokens)), 2)
		vc01Enumerate(nextTokens, " ", tokLen+1, tokLen+1, emit)

		begin(fmt.Sprintf("chunk-sequences<=%d-over-%d-chunks", chunkLen, len(vc01Chunks)), 3)
		vc01Enumerate(vc01Chunks, " ", 1, chunkLen, emit)
		begin(fmt.Sprintf("chunk-sequences=%d-over-%d-chunks", chunkLen+1, len(vc01ChunksSmall)), 3)
		vc01Enumerate(vc01ChunksSmall, " ", chunkLen+1, chunkLen+1, emit)

		begin("clause-templates", 3)
		vc01Templates(emit)

		// seeded sampling beyond the bounds
		rng := rand.New(rand.NewSource(seed))
		begin("random-bytes", 3)
		for i := 0; i < nRandom; i++ {
			n := 1 + rng.Intn(24)
			b := make([]byte, n)
			switch i % 3 {
			case 0: // uniformly random bytes
				for j := range b {
					b[j] = byte(rng.Intn(256))
				}
				emit(string(b))
			case 1: // printable ASCII
				for j := range b {
					b[j] = byte(32 + rng.Intn(95))
				}
				emit(string(b))
			default: // the class alphabet, longer
				var sb strings.Builder
				for j := 0; j < n; j++ {
					sb.WriteString(vc01ByteAlphabet[rng.Intn(len(vc01ByteAlphabet))])
				}
				emit(sb.String())
			}
		}
		begin("random-token-sequences", 3)
		all := append(append([]string{}, vc01Tokens...), vc01Chunks...)
		all = append(all, vc01Values...)
		for i := 0; i < nRandom; i++ {
			n := 5 + rng.Intn(10)
			var sb strings.Builder
			for j := 0; j < n; j++ {
				if j > 0 && rng.Intn(4) != 0 {
					sb.WriteByte(' ')
				}
				sb.WriteString(all[rng.Intn(len(all))])
			}
			emit(sb.String())
		}
		begin("", 0)
	}()

	workersDone := make(chan struct{})
	go func() { wg.Wait(); close(workersDone) }()

	total := vc01NewAgg()
	hung := false
	select {
	case <-workersDone:
	case in := <-hangCh:
		hung = true
		stop.Store(true)
		go func() { // drain so the producer can finish
			for range batches {
			}
		}()
		in = vc01ShrinkHang(in)
		total.add("hang", in, fmt.Sprintf("[hang] %s : every operation must return, one of them is still running after %v", vc01Abbrev(in), vc01EnumHang), 1)
	}
	close(watchDone)
	<-producerDone
	for w := 0; w < workers; w++ {
		if hung {
			break // workers may still be running: do not touch their state
		}
		total.merge(aggs[w])
		rep.Evaluations += evals[w]
		rep.Distinct += stats[w].trees
	}
	var jsonErrs, skipped int64
	if !hung {
		for w := range stats {
			jsonErrs += stats[w].jsonErrs
			skipped += stats[w].skipped
		}
	}

	// ---- phase 2: adversarial long shapes, timing ------------------------------------------
	phase1Dur, phase1CPU := time.Since(t0), vc01CPU()
	var floorUsed time.Duration
	t1 := time.Now()
	if !hung {
		budget, floor, abandon, reps := 60*time.Millisecond, 60*time.Millisecond, 20*time.Second, 1
		if tier == "thorough" {
			budget, floor, abandon, reps = 3*time.Second, 150*time.Millisecond, 90*time.Second, 3
		}
		floorUsed = floor
		ncfg := 2 // long shapes: no default field, default field "f"
		var ladders []*vc01Ladder
		for i := range vc01Families {
			for c := 0; c < ncfg; c++ {
				if c > 0 && tier != "thorough" && !vc01BareFamilies[vc01Families[i].name] {
					continue
				}
				ladders = append(ladders, &vc01Ladder{family: &vc01Families[i], cfg: c, callStage: -1})
			}
		}
		jobs := make(chan *vc01Ladder, len(ladders))
		for _, l := range ladders {
			jobs <- l
		}
		close(jobs)
		tw := workers // times are per-thread CPU times, so running the ladders side by side is fine
		var started sync.Map
		allDone := make(chan struct{})
		var twg sync.WaitGroup
		for w := 0; w < tw; w++ {
			twg.Add(1)
			go func() {
				defer twg.Done()
				for l := range jobs {
					started.Store(l, true)
					l.run(budget, reps)
				}
			}()
		}
		go func() { twg.Wait(); close(allDone) }()
		// watchdog: a single call that does not come back is a hang
		tk := time.NewTicker(250 * time.Millisecond)
	wait:
		for {
			select {
			case <-allDone:
				break wait
			case <-tk.C:
				for _, l := range ladders {
					l.mu.Lock()
					stuck := l.callStage >= 0 && time.Since(l.callSince) > abandon
					st, n := l.callStage, l.callN
					l.mu.Unlock()
					if stuck {
						hung = true
						in := l.family.gen(n)
						cat := "hang-" + vc01StageTag[st] + "-" + l.family.name
						total.add(cat, in, fmt.Sprintf("[%s] %s : %s on shape %s(%d tokens) with %s must finish in polynomial time, still running after %v", cat, vc01Abbrev(in), vc01StageName[st], l.family.name, n, vc01Cfgs[l.cfg].name, abandon), 1)
						break wait
					}
				}
			}
		}
		tk.Stop()
		type slowest struct {
			desc string
			d    time.Duration
		}
		var top []slowest
		maxTokens := [vc01NStages]int{}
		for _, l := range ladders {
			l.mu.Lock()
			if !l.done {
				l.mu.Unlock()
				continue
			}
			rep.Evaluations += int64(len(l.times[vc01StParse]))
			for i, f := range l.finds {
				total.add(l.findCats[i], f.in, f.msg, 1)
			}
			for st := 0; st < vc01NStages; st++ {
				ts := l.times[st]
				if len(ts) == 0 {
					continue
				}
				if n := vc01Sizes[len(ts)-1]; n > maxTokens[st] {
					maxTokens[st] = n
				}
				flag, desc := vc01Growth(ts, vc01Sizes, floor)
				top = append(top, slowest{fmt.Sprintf("%s / %s / %s: %s", l.family.name, vc01StageName[st], vc01Cfgs[l.cfg].name, desc), ts[len(ts)-1]})
				if flag {
					// confirm alone (no concurrent load inside this process), best of 5
					runtime.LockOSThread()
					k := len(ts)
					var again []time.Duration
					for _, n := range vc01Sizes[k-3 : k] {
						in := l.family.gen(n)
						var tree *expr.Expression
						if st >= vc01StString {
							tree, _ = Parse(in, vc01Cfgs[l.cfg].opts...)
						}
						c := &vc01Ladder{family: l.family, cfg: l.cfg, callStage: -1}
						d, _, _ := c.measure(st, n, in, tree, 5)
						again = append(again, d)
					}
					runtime.UnlockOSThread()
					flag2, desc2 := vc01Growth(again, vc01Sizes[k-3:k], floor)
					if flag2 {
						tag, opName := vc01StageTag[st], vc01StageName[st]
						if pt := l.times[vc01StParse]; (st == vc01StToPostgres || st == vc01StToParam) && len(pt) >= k && 2*pt[k-1] >= ts[k-1] {
							tag = vc01StageTag[vc01StParse] // the renderers parse first: the time is spent in Parse
							opName += " (most of it inside Parse)"
						}
						cat := "superquadratic-" + tag + "-" + l.family.name
						// Wall-clock growth ratios depend on what else the machine is doing (a run under heavy
						// load measured 25ms -> 253ms for one doubling on the unchanged tree): they are reported
						// in the timing notes only.  Polynomial time is decided by the proof side (loop and
						// recursion variants, cost/single-visit); this stand-in keeps the hang watchdog.
						rep.Timing = append(rep.Timing, fmt.Sprintf("[%s] %s : running time of %s with %s on shape %s must grow at most quadratically between n and 2n tokens; measured %s; re-measured without concurrent load: %s",
							cat, strconv.Quote(l.family.gen(12)), opName, vc01Cfgs[l.cfg].name, l.family.name, desc, desc2))
					}
				}
			}
			l.mu.Unlock()
		}
		sort.Slice(top, func(i, j int) bool { return top[i].d > top[j].d })
		for i := 0; i < len(top) && i < 8; i++ {
			rep.Timing = append(rep.Timing, top[i].desc)
		}
		rep.Timing = append(rep.Timing, fmt.Sprintf("largest shape size (tokens) reached per operation within the per-call budget of %v: Parse %d, ToPostgres %d, ToParameterizedPostgres %d, String %d, %%#v %d, json.Marshal %d",
			budget, maxTokens[0], maxTokens[1], maxTokens[2], maxTokens[3], maxTokens[4], maxTokens[5]))
		rep.Domains[fmt.Sprintf("long-shapes-%d-families-at-%v-tokens (family x option pairs)", len(vc01Families), vc01Sizes)] = int64(len(ladders))
	}
	phase2Dur, phase2CPU := time.Since(t1), vc01CPU()-phase1CPU

	// ---- shrink what was only found beyond the exhaustive bounds ----------------------------
	if !hung {
		for cat, fs := range total.best {
			if strings.HasPrefix(cat, "superquadratic-") || strings.HasPrefix(cat, "slow-") || strings.HasPrefix(cat, "hang") {
				continue
			}
			if len(fs) == 0 || len(fs[0].in) <= 10 {
				continue
			}
			small := vc01Shrink(fs[0].in, cat, 2*time.Second)
			if len(small) < len(fs[0].in) {
				for _, f := range vc01Check(small, nil, len(vc01Cfgs)) {
					if f.cat == cat {
						total.add(cat, small, "["+cat+"] "+f.msg, 0)
						break
					}
				}
			}
		}
	}

	// ---- report ------------------------------------------------------------------------------
	cats := make([]string, 0, len(total.count))
	for c := range total.count {
		cats = append(cats, c)
	}
	sort.Strings(cats)
	for _, c := range cats {
		rep.ByCategory[c] = total.count[c]
		rep.FailCount += total.count[c]
	}
	if len(samples) > 12 {
		step := len(samples) / 12
		var s2 []string
		for i := 0; i < len(samples); i += step {
			s2 = append(s2, samples[i])
		}
		samples = s2
	}
	rep.Samples = samples
	// at most 3 messages per category and 25 in total; every category gets its first message
	// before any category gets a second one
	for round := 0; round < 3; round++ {
		for _, c := range cats {
			if fs := total.best[c]; round < len(fs) && len(rep.Failures) < 25 {
				rep.Failures = append(rep.Failures, fs[round].msg)
			}
		}
	}
	rep.Bound = fmt.Sprintf("every input x default-field options {none, \"f\"} (plus a hostile field name with double quote, space and wildcard on the empty, chunk, template and random domains) x {Parse, ToPostgres, ToParameterizedPostgres, String, %%#v, json.Marshal}; inputs: "+
		"all byte strings of <=%d symbols over a %d-symbol alphabet covering every token-start class (ASCII and 2-byte letters and digits, wildcards, escape, every operator symbol, both quotes, slash, dot, minus, space, NUL, three invalid UTF-8 bytes, a non-token character) and all of %d symbols over a %d-symbol sub-alphabet; "+
		"all sequences of <=%d tokens over %d token kinds and all of %d tokens over %d kinds; all sequences of <=%d chunks (whole clauses and connectors) over %d chunks and all of %d over %d; clause templates over %d values (ranges, lists, comparisons, fuzzy, boost, field position); "+
		"%d seeded random byte strings (<=24 bytes: raw bytes, printable ASCII, class alphabet) and %d random token/chunk sequences (5..14 items); %d adversarial shape families (deep nesting, long operator chains, operator-only, unbalanced brackets, long tokens) at %v tokens with timing (quick tier: the default-field option only on the families with bare literals). "+
		"distinct_nontrivial = inputs for which Parse returned a tree under at least one option, so that all six operations ran (enumerated strings are pairwise distinct within a domain; cross-domain overlap is below 0.1%%)",
		byteLen, len(vc01ByteAlphabet), byteLen+1, len(nextBytes), tokLen, len(vc01Tokens), tokLen+1, len(nextTokens), chunkLen, len(vc01Chunks), chunkLen+1, len(vc01ChunksSmall), len(vc01Values), nRandom, nRandom, len(vc01Families), vc01Sizes)
	rep.Notes = append(rep.Notes,
		fmt.Sprintf("json.Marshal returned an error (a normal return, not a failure) for %d input/option pairs (NaN/Inf values, nesting deeper than encoding/json allows)", jsonErrs),
		fmt.Sprintf("%d inputs contain \"%%!\" themselves; the marker check does not apply to them", skipped),
		fmt.Sprintf("growth rule (floor %v): an operation is measured at 39,78,156,... tokens while one call stays within the per-call budget; flagged when, at the three largest sizes n,2n,4n measured, time(4n) >= floor, time(4n)/time(n) > 45 and time(4n)/time(2n) > 5, and a second measurement without concurrent load confirms; absolute cap per call 1s + 60s*(n/10^4)^2; largest size 5000 tokens in the quick tier, 10000 in the thorough tier; times are CPU times of the measuring thread (wall-clock where unavailable)", floorUsed),
		fmt.Sprintf("short inputs: wall %v cpu %v; long shapes: wall %v cpu %v (%d workers)", phase1Dur.Round(time.Millisecond), phase1CPU.Round(time.Millisecond), phase2Dur.Round(time.Millisecond), phase2CPU.Round(time.Millisecond), workers),
	)
	vc01WriteReport(rep)

	for _, f := range rep.Failures {
		t.Errorf("C01 violated: %s", f)
	}
	if rep.FailCount > len(rep.Failures) {
		t.Errorf("C01 violated: %d failures in total in %d categories (see report)", rep.FailCount, len(cats))
	}
	t.Logf("C01 %s: %d inputs, %d with a tree, %d failures in %d categories", tier, rep.Evaluations, rep.Distinct, rep.FailCount, len(cats))
}
