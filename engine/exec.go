package main

import (
	"fmt"
	"go/ast"
	"go/token"
	"go/types"
	"sort"
	"strings"

	"golang.org/x/tools/go/ast/astutil"
	"golang.org/x/tools/go/ssa"
)

// ---- symbolic values ---------------------------------------------------------

type Val interface{}

// TV is an SMT term value.  Origin, when set, is the cell path the value was
// loaded from; it lets calls that mutate through a pointer stored in a field
// (p.lex.Next()) write the new pointee back.
type TV struct {
	T      Term
	Origin *PV
}

type SelKind int

const (
	SelField SelKind = iota
	SelDeref         // through a P_T option value
	SelIndex         // array / slice-array element
	SelAnyPayload    // through an Any constructor payload (type given by Sort)
)

type Sel struct {
	Kind SelKind
	I    int
	Idx  Term
	Ctor *anyCtor
}

// PV is a pointer: into a mutable cell, or into an immutable base value.
type PV struct {
	Cell *Cell
	Base *Term
	Path []Sel
}

type Tuple []Val

// CloV is a closure value known to the executor.
type CloV struct {
	Fn   *ssa.Function
	Bind []Val
}

// IfaceRef is an interface value wrapping a pointer to a cell (only usable as an
// argument of modelled library calls such as json.Unmarshal).
type IfaceRef struct{ P PV }

type Cell struct {
	ID      int
	Name    string
	Sort    *Sort
	Escaped string // non-empty once a snapshot of the cell escaped as data
	Ghost   bool
}

type State struct {
	cells map[*Cell]Term
	ptrs  map[*Cell]PV // cells that hold a pointer to another cell (pointer identity is kept)
}

func (s *State) clone() *State {
	n := &State{cells: make(map[*Cell]Term, len(s.cells)), ptrs: make(map[*Cell]PV, len(s.ptrs))}
	for k, v := range s.cells {
		n.cells[k] = v
	}
	for k, v := range s.ptrs {
		n.ptrs[k] = v
	}
	return n
}

// ---- events ------------------------------------------------------------------

type EvKind int

const (
	EvDecl EvKind = iota
	EvAssume
	EvAssert
)

type Event struct {
	Kind EvKind
	Text string // EvDecl: full command
	T    Term   // EvAssume / EvAssert: formula (already guarded)
	Name string // EvAssert
	Pos  string
	Info string
	NoAssume bool // the formula is not added to the hypotheses of later obligations
}

// Exec verifies one root function.
type Exec struct {
	proving bool // the clause being evaluated is a proof goal (not an assumption)
	eng    *Engine
	root   *ssa.Function
	events []Event
	n      int
	cellN  int
	names  map[string]int
	errors []string // unsupported constructs: the function is outside the subset
	decl   map[string]bool
	rootDec []Term // values of the root's decreases clauses at entry
	depthLimit int
	usedAssumptions map[string]bool
	callCount  map[string]int
	unfolded   map[string]bool
	qdepth     int
	ghostDepth int
	globals    map[*ssa.Global]*Cell
	globalInit map[*Cell]Term
	vacuityAt  int // index into events after the root's requires were assumed
	carve      map[string]Term
	inputs     []string
	fmtHyp     []Term // hypotheses under which the verb/operand obligations are stated (fmtwhen)
	fuelFor    map[string]int
	allSyms    map[string]bool
	contractDepth map[*ssa.Function]int
}

func (x *Exec) unsupported(format string, a ...any) {
	msg := fmt.Sprintf(format, a...)
	for _, e := range x.errors {
		if e == msg {
			return
		}
	}
	x.errors = append(x.errors, msg)
}

func (x *Exec) nextID() int { x.n++; return x.n }

func (x *Exec) fresh(prefix string, s *Sort) Term {
	x.n++
	name := fmt.Sprintf("%s_%d", sanitize(prefix), x.n)
	x.events = append(x.events, Event{Kind: EvDecl, Text: fmt.Sprintf("(declare-const %s %s)", name, s.Name), T: Term{name, s}})
	return Term{name, s}
}

// define introduces a named constant equal to t (keeps terms small).
func (x *Exec) define(prefix string, t Term) Term {
	if len(t.S) < 40 {
		return t
	}
	c := x.fresh(prefix, t.Sort)
	x.events = append(x.events, Event{Kind: EvAssume, T: Eq(c, t)})
	curDefs[c.S] = t
	return c
}

func (x *Exec) assume(g, t Term) {
	f := Imp(g, t)
	if f.S == "true" {
		return
	}
	x.events = append(x.events, Event{Kind: EvAssume, T: f})
}

func (x *Exec) assert(g Term, name string, t Term, pos, info string) {
	f := Imp(g, t)
	if f.S == "true" {
		// trivially true obligations are still counted
	}
	k := x.names[name]
	x.names[name] = k + 1
	if k > 0 {
		name = fmt.Sprintf("%s#%d", name, k)
	}
	x.events = append(x.events, Event{Kind: EvAssert, T: f, Name: name, Pos: pos, Info: info,
		NoAssume: strings.Contains(name, "missing-variant") || strings.Contains(name, "frame/")})
}

func (x *Exec) newCell(name string, s *Sort) *Cell {
	x.cellN++
	return &Cell{ID: x.cellN, Name: name, Sort: s}
}

// ---- frames ------------------------------------------------------------------

type retPoint struct {
	g    Term
	vals []Val
	st   *State
}

type loopGhost struct {
	invs   []*CloV
	decs   []*CloV
	labels []string
}

func (lg *loopGhost) label(n int) string {
	if n < len(lg.labels) && lg.labels[n] != "" {
		return lg.labels[n]
	}
	return fmt.Sprint(n)
}

type Frame struct {
	x      *Exec
	fn     *ssa.Function
	regs   map[ssa.Value]Val
	boxed  map[ssa.Value]*Cell
	guard  map[*ssa.BasicBlock]Term
	out    map[*ssa.BasicBlock]*State
	edge   map[[2]int]Term
	rets   []retPoint
	depth  int
	prefix string // obligation name prefix for inlined frames ("" for root)
	isRoot bool
	ghost  bool // executing ghost/spec code: no safety obligations are emitted, partial ops are total
	loops  map[*ssa.BasicBlock]*loopGhost
	decAt  map[*ssa.BasicBlock][]Term
	fuel   int
	unfoldDepth map[string]int
	noSafety bool
	onReturn func(fr *Frame, g Term, vals []Val, st *State, pos token.Pos)
}

func (x *Exec) posOf(p token.Pos) string {
	if !p.IsValid() {
		return ""
	}
	ps := x.eng.fset.Position(p)
	return fmt.Sprintf("%s:%d", shortPath(ps.Filename), ps.Line)
}

func shortPath(p string) string {
	return strings.TrimPrefix(p, "/repo/")
}

// srcText returns the source text of the smallest expression of the wanted
// kind enclosing pos; used to give safety obligations stable, readable names.
func (x *Exec) srcText(pos token.Pos, want string) string {
	if !pos.IsValid() {
		return "?"
	}
	f := x.eng.fileOf(pos)
	if f == nil {
		return "?"
	}
	path, _ := astutil.PathEnclosingInterval(f, pos, pos)
	for _, n := range path {
		ok := false
		switch n.(type) {
		case *ast.IndexExpr:
			ok = want == "index"
		case *ast.SliceExpr:
			ok = want == "slice"
		case *ast.TypeAssertExpr:
			ok = want == "assert-type"
		case *ast.StarExpr, *ast.SelectorExpr:
			ok = want == "nil"
		case *ast.CallExpr:
			ok = want == "call" || want == "nil"
		case *ast.BinaryExpr:
			ok = want == "div"
		}
		if ok {
			s := x.eng.nodeText(n)
			s = strings.Join(strings.Fields(s), " ")
			if len(s) > 60 {
				s = s[:60]
			}
			return s
		}
	}
	return "?"
}

// runFunc symbolically executes fn (loop-free after cutting back edges) and
// returns its merged results and final state.
func (x *Exec) runFunc(fn *ssa.Function, args []Val, free []Val, st *State, g Term, parent *Frame, prefix string, ghost bool, setup func(*Frame)) ([]Val, *State, *Frame) {
	depth := 0
	if parent != nil {
		depth = parent.depth + 1
	}
	fr := &Frame{x: x, fn: fn, regs: map[ssa.Value]Val{}, boxed: map[ssa.Value]*Cell{}, guard: map[*ssa.BasicBlock]Term{},
		out: map[*ssa.BasicBlock]*State{}, edge: map[[2]int]Term{}, depth: depth, prefix: prefix, ghost: ghost,
		loops: map[*ssa.BasicBlock]*loopGhost{}, decAt: map[*ssa.BasicBlock][]Term{}}
	if parent != nil {
		fr.fuel = parent.fuel
		fr.noSafety = parent.noSafety
		fr.unfoldDepth = parent.unfoldDepth
	}
	if depth > 40 {
		x.unsupported("inlining depth exceeded at %s", fn)
		return nil, st, fr
	}
	if len(fn.Blocks) == 0 {
		x.unsupported("function without body: %s", fn)
		return x.havocResults(fn, "ext"), st, fr
	}
	for i, p := range fn.Params {
		if i < len(args) {
			fr.regs[p] = args[i]
		}
	}
	for i, fv := range fn.FreeVars {
		if i < len(free) {
			fr.regs[fv] = free[i]
		} else if pt, ok := fv.Type().(*types.Pointer); ok {
			// closure reached through a function value: captured variables are unknown
			c := x.newCell("fv_"+fv.Name(), x.eng.tc.sortOf(pt.Elem()))
			fr.regs[fv] = PV{Cell: c}
		}
	}
	if setup != nil {
		setup(fr)
	}
	fr.findBoxed()
	cur := st.clone()
	for _, p := range fn.Params {
		if _, ok := fr.boxed[p]; ok {
			fr.box(p, fr.regs[p], cur)
		}
	}
	fr.run(cur, g)
	return fr.mergeReturns(st)
}

func (fr *Frame) mergeReturns(st0 *State) ([]Val, *State, *Frame) {
	x := fr.x
	if len(fr.rets) == 0 {
		// no normal return reachable
		return x.havocResults(fr.fn, "noret"), st0, fr
	}
	if len(fr.rets) == 1 {
		return fr.rets[0].vals, fr.rets[0].st, fr
	}
	// merge values
	n := len(fr.rets[0].vals)
	vals := make([]Val, n)
	for i := 0; i < n; i++ {
		var cands []Val
		var gs []Term
		for _, r := range fr.rets {
			cands = append(cands, r.vals[i])
			gs = append(gs, r.g)
		}
		vals[i] = x.mergeVals(cands, gs, fr.rets, "ret")
	}
	var sts []*State
	var gs []Term
	for _, r := range fr.rets {
		sts = append(sts, r.st)
		gs = append(gs, r.g)
	}
	return vals, x.mergeStates(sts, gs), fr
}

func (x *Exec) mergeVals(cands []Val, gs []Term, rets []retPoint, what string) Val {
	// identical?
	same := true
	for _, c := range cands[1:] {
		if !sameVal(c, cands[0]) {
			same = false
		}
	}
	if same {
		return cands[0]
	}
	var ts []Term
	for i, c := range cands {
		var st *State
		if rets != nil {
			st = rets[i].st
		}
		t, ok := x.termOf(c, st)
		if !ok {
			x.unsupported("cannot merge non-term values (%T) at %s", c, what)
			return cands[0]
		}
		ts = append(ts, t)
	}
	r := ts[len(ts)-1]
	for i := len(ts) - 2; i >= 0; i-- {
		r = Ite(gs[i], ts[i], r)
	}
	return TV{T: x.define("m", r)}
}

func sameVal(a, b Val) bool {
	switch av := a.(type) {
	case TV:
		bv, ok := b.(TV)
		return ok && av.T.S == bv.T.S
	case PV:
		bv, ok := b.(PV)
		if !ok || av.Cell != bv.Cell || len(av.Path) != len(bv.Path) {
			return false
		}
		if (av.Base == nil) != (bv.Base == nil) || (av.Base != nil && av.Base.S != bv.Base.S) {
			return false
		}
		for i := range av.Path {
			if av.Path[i].Kind != bv.Path[i].Kind || av.Path[i].I != bv.Path[i].I || av.Path[i].Idx.S != bv.Path[i].Idx.S {
				return false
			}
		}
		return true
	case nil:
		return b == nil
	case CloV:
		bv, ok := b.(CloV)
		return ok && av.Fn == bv.Fn
	}
	return false
}

func (x *Exec) mergeStates(sts []*State, gs []Term) *State {
	if len(sts) == 1 {
		return sts[0]
	}
	out := &State{cells: map[*Cell]Term{}, ptrs: map[*Cell]PV{}}
	for c, p := range sts[0].ptrs {
		same := true
		for _, s := range sts[1:] {
			q, ok := s.ptrs[c]
			if _, live := s.cells[c]; !live {
				continue
			}
			if !ok || !sameVal(p, q) {
				same = false
			}
		}
		if same {
			out.ptrs[c] = p
		}
	}
	keys := map[*Cell]bool{}
	for _, s := range sts {
		for c := range s.cells {
			keys[c] = true
		}
	}
	var cs []*Cell
	for c := range keys {
		cs = append(cs, c)
	}
	sort.Slice(cs, func(i, j int) bool { return cs[i].ID < cs[j].ID })
	for _, c := range cs {
		var ts []Term
		var cg []Term
		for i, s := range sts {
			if t, ok := s.cells[c]; ok {
				ts = append(ts, t)
				cg = append(cg, gs[i])
			}
		}
		same := true
		for _, t := range ts[1:] {
			if t.S != ts[0].S {
				same = false
			}
		}
		if same {
			out.cells[c] = ts[0]
			continue
		}
		r := ts[len(ts)-1]
		for i := len(ts) - 2; i >= 0; i-- {
			r = Ite(cg[i], ts[i], r)
		}
		out.cells[c] = x.define("c"+c.Name, r)
	}
	return out
}

func (x *Exec) havocResults(fn *ssa.Function, what string) []Val {
	res := fn.Signature.Results()
	out := make([]Val, res.Len())
	for i := 0; i < res.Len(); i++ {
		out[i] = TV{T: x.fresh(what, x.eng.tc.sortOf(res.At(i).Type()))}
	}
	return out
}

// ---- block scheduling ----------------------------------------------------------

func isBackEdge(from, to *ssa.BasicBlock) bool { return to.Dominates(from) }

func rpo(fn *ssa.Function) []*ssa.BasicBlock {
	seen := map[*ssa.BasicBlock]bool{}
	var post []*ssa.BasicBlock
	var dfs func(b *ssa.BasicBlock)
	dfs = func(b *ssa.BasicBlock) {
		seen[b] = true
		for _, s := range b.Succs {
			if !seen[s] && !isBackEdge(b, s) {
				dfs(s)
			}
		}
		post = append(post, b)
	}
	dfs(fn.Blocks[0])
	for i, j := 0, len(post)-1; i < j; i, j = i+1, j-1 {
		post[i], post[j] = post[j], post[i]
	}
	return post
}

// naturalLoop returns the blocks of the loop with the given header.
func naturalLoop(h *ssa.BasicBlock) map[*ssa.BasicBlock]bool {
	body := map[*ssa.BasicBlock]bool{h: true}
	var stack []*ssa.BasicBlock
	for _, p := range h.Preds {
		if isBackEdge(p, h) && !body[p] {
			body[p] = true
			stack = append(stack, p)
		}
	}
	for len(stack) > 0 {
		b := stack[len(stack)-1]
		stack = stack[:len(stack)-1]
		for _, p := range b.Preds {
			if !body[p] {
				body[p] = true
				stack = append(stack, p)
			}
		}
	}
	return body
}

func isLoopHeader(b *ssa.BasicBlock) bool {
	for _, p := range b.Preds {
		if isBackEdge(p, b) {
			return true
		}
	}
	return false
}

func (fr *Frame) run(st0 *State, g0 Term) {
	x := fr.x
	fn := fr.fn
	order := rpo(fn)
	fr.collectGhosts()
	for _, b := range order {
		var g Term
		var st *State
		var inGs []Term
		var inPreds []*ssa.BasicBlock
		if b == fn.Blocks[0] {
			g, st = g0, st0
		} else {
			var sts []*State
			for _, p := range b.Preds {
				if isBackEdge(p, b) {
					continue
				}
				eg, ok := fr.edge[[2]int{p.Index, b.Index}]
				if !ok || eg.S == "false" {
					continue
				}
				inGs = append(inGs, eg)
				inPreds = append(inPreds, p)
				sts = append(sts, fr.out[p])
			}
			if len(inGs) == 0 {
				continue // unreachable
			}
			g = x.define("g", Or(inGs...))
			st = x.mergeStates(sts, inGs).clone()
		}
		fr.guard[b] = g
		header := isLoopHeader(b)
		if header {
			st = fr.enterLoop(b, st, g, inPreds, inGs)
		}
		// phis
		for _, in := range b.Instrs {
			phi, ok := in.(*ssa.Phi)
			if !ok {
				break
			}
			if header {
				continue // havocked by enterLoop
			}
			var cands []Val
			for _, p := range inPreds {
				idx := predIndex(b, p)
				cands = append(cands, fr.val(phi.Edges[idx], fr.out[p]))
			}
			if len(cands) == 0 {
				continue
			}
			fr.setReg(phi, x.mergeVals(cands, inGs, nil, "phi"), st)
		}
		for _, in := range b.Instrs {
			if _, ok := in.(*ssa.Phi); ok {
				continue
			}
			fr.step(in, st, g)
		}
		fr.out[b] = st
		// back edges
		for _, s := range b.Succs {
			if isBackEdge(b, s) {
				eg := fr.edge[[2]int{b.Index, s.Index}]
				if eg.S != "false" && eg.S != "" {
					fr.backEdge(b, s, st, eg)
				}
			}
		}
	}
}

func predIndex(b, p *ssa.BasicBlock) int {
	for i, q := range b.Preds {
		if q == p {
			return i
		}
	}
	return -1
}

// ---- ghost collection -----------------------------------------------------------

func ghostKind(c *ssa.Call) string {
	if f := c.Call.StaticCallee(); f != nil && f.Pkg != nil && f.Pkg.Pkg.Path() == verifspecPath {
		return f.Name()
	}
	return ""
}

// collectGhosts associates Invariant/RangeInvariant/Decreases ghost calls with
// the loop header that follows them.
func (fr *Frame) collectGhosts() {
	for _, b := range fr.fn.Blocks {
		for _, in := range b.Instrs {
			c, ok := in.(*ssa.Call)
			if !ok {
				continue
			}
			k := ghostKind(c)
			if k != "Invariant" && k != "RangeInvariant" && k != "Decreases" {
				continue
			}
			h := nextHeader(b)
			if h == nil {
				fr.x.unsupported("%s: ghost %s is not followed by a loop", fr.fn, k)
				continue
			}
			if fr.loops[h] == nil {
				fr.loops[h] = &loopGhost{}
			}
		}
	}
}

func nextHeader(b *ssa.BasicBlock) *ssa.BasicBlock {
	seen := map[*ssa.BasicBlock]bool{}
	for cur := b; cur != nil && !seen[cur]; {
		seen[cur] = true
		if cur != b && isLoopHeader(cur) {
			return cur
		}
		if len(cur.Succs) != 1 {
			// a ghost block that ends in a branch: look at successors that are headers
			for _, s := range cur.Succs {
				if isLoopHeader(s) {
					return s
				}
			}
			return nil
		}
		cur = cur.Succs[0]
	}
	return nil
}

// registerGhost is called when a ghost registration call is executed.
func (fr *Frame) registerGhost(c *ssa.Call, kind string, st *State) {
	h := nextHeader(c.Block())
	if h == nil {
		return
	}
	lg := fr.loops[h]
	if lg == nil {
		lg = &loopGhost{}
		fr.loops[h] = lg
	}
	clo, ok := fr.closureArg(c.Call.Args[0], st)
	if !ok {
		fr.x.unsupported("%s: ghost argument is not a closure literal", fr.fn)
		return
	}
	switch kind {
	case "Invariant", "RangeInvariant":
		lg.invs = append(lg.invs, &clo)
		label := ""
		if len(c.Call.Args) > 1 {
			if k, ok := c.Call.Args[1].(*ssa.Const); ok && k.Value != nil {
				label = strings.Trim(k.Value.ExactString(), `"`)
			}
		}
		lg.labels = append(lg.labels, label)
	case "Decreases":
		lg.decs = append(lg.decs, &clo)
	}
}

// evalClosure runs a ghost closure in the given state and returns its value.
func (fr *Frame) evalClosure(c *CloV, args []Val, st *State, g Term) Term {
	fr.x.ghostDepth++
	vals, _, _ := fr.x.runFunc(c.Fn, args, c.Bind, st, g, fr, fr.prefix, true, nil)
	fr.x.ghostDepth--
	if len(vals) != 1 {
		return TTrue
	}
	t, _ := fr.x.termOf(vals[0], st)
	return t
}

// closureArg resolves a ghost argument (possibly wrapped in an interface) to the
// function literal it denotes.
func (fr *Frame) closureArg(v ssa.Value, st *State) (CloV, bool) {
	for {
		switch vv := v.(type) {
		case *ssa.MakeInterface:
			v = vv.X
			continue
		case *ssa.ChangeType:
			v = vv.X
			continue
		case *ssa.Function:
			return CloV{Fn: vv}, true
		case *ssa.MakeClosure:
			c, ok := fr.val(vv, st).(CloV)
			return c, ok
		}
		c, ok := fr.val(v, st).(CloV)
		return c, ok
	}
}
