package main

import (
	"bufio"
	"context"
	"encoding/json"
	"fmt"
	"go/types"
	"io"
	"os"
	"os/exec"
	"path/filepath"
	"regexp"
	"strconv"
	"strings"
	"time"

	"golang.org/x/tools/go/ssa"
)

// Counterexample replay: for an obligation the solver answered `sat`, the model
// of the function's inputs is decoded into Go values and the REAL function is run
// on them by an in-package test injected with `go test -overlay` (together with
// the woven overlay, so the generated requires/ensures functions are available).
// The test reports whether the precondition holds of the decoded input and
// whether the function panics or violates a postcondition clause.

// ---- s-expressions ------------------------------------------------------------------------

type sx struct {
	atom string
	list []*sx
}

func (s *sx) isAtom() bool { return s.list == nil }
func (s *sx) head() string {
	if s.isAtom() || len(s.list) == 0 {
		return s.atom
	}
	if s.list[0].isAtom() {
		return s.list[0].atom
	}
	return ""
}

func parseSx(text string) []*sx {
	var out []*sx
	pos := 0
	var parse func() *sx
	skip := func() {
		for pos < len(text) && (text[pos] == ' ' || text[pos] == '\n' || text[pos] == '\t' || text[pos] == '\r') {
			pos++
		}
	}
	parse = func() *sx {
		skip()
		if pos >= len(text) {
			return nil
		}
		if text[pos] == '(' {
			pos++
			n := &sx{list: []*sx{}}
			for {
				skip()
				if pos >= len(text) {
					return n
				}
				if text[pos] == ')' {
					pos++
					return n
				}
				c := parse()
				if c == nil {
					return n
				}
				n.list = append(n.list, c)
			}
		}
		start := pos
		if text[pos] == '"' {
			pos++
			for pos < len(text) && text[pos] != '"' {
				pos++
			}
			pos++
			return &sx{atom: text[start:pos]}
		}
		for pos < len(text) && !strings.ContainsRune(" \n\t\r()", rune(text[pos])) {
			pos++
		}
		return &sx{atom: text[start:pos]}
	}
	for {
		n := parse()
		if n == nil {
			break
		}
		out = append(out, n)
	}
	return out
}

// expandLets substitutes let-bound names (z3 prints models with let).
func expandLets(s *sx, env map[string]*sx) *sx {
	if s.isAtom() {
		if v, ok := env[s.atom]; ok {
			return v
		}
		return s
	}
	if s.head() == "let" && len(s.list) == 3 {
		ne := map[string]*sx{}
		for k, v := range env {
			ne[k] = v
		}
		for _, b := range s.list[1].list {
			if len(b.list) == 2 {
				ne[b.list[0].atom] = expandLets(b.list[1], ne)
			}
		}
		return expandLets(s.list[2], ne)
	}
	n := &sx{list: make([]*sx, len(s.list))}
	for i, c := range s.list {
		n.list[i] = expandLets(c, env)
	}
	return n
}

func sxInt(s *sx) (int64, bool) {
	if s.isAtom() {
		v, err := strconv.ParseInt(s.atom, 10, 64)
		return v, err == nil
	}
	if s.head() == "-" && len(s.list) == 2 {
		v, ok := sxInt(s.list[1])
		return -v, ok
	}
	return 0, false
}

// the defining axiom of the clamped slice length, turned into a definition for candidate searches
var slnDefs = regexp.MustCompile(`\(declare-fun (\S+)_n \(\S+\) Int\)\n\(assert \(forall \(\(s \S+\)\) \(! [^\n]*\n`)

// dropQuantified removes the top-level assertions that contain a quantifier.
func dropQuantified(q string) string {
	var b strings.Builder
	depth, start := 0, 0
	inStr, inBar := false, false
	for i := 0; i < len(q); i++ {
		c := q[i]
		switch {
		case inStr:
			if c == '"' {
				inStr = false
			}
		case inBar:
			if c == '|' {
				inBar = false
			}
		case c == '"':
			inStr = true
		case c == '|':
			inBar = true
		case c == ';' && depth == 0:
			for i < len(q) && q[i] != '\n' {
				i++
			}
		case c == '(':
			if depth == 0 {
				b.WriteString(q[start:i])
				start = i
			}
			depth++
		case c == ')':
			depth--
			if depth == 0 {
				form := q[start : i+1]
				start = i + 1
				if strings.HasPrefix(form, "(assert") && (strings.Contains(form, "(forall ") || strings.Contains(form, "(exists ")) {
					continue
				}
				b.WriteString(form)
			}
		}
	}
	b.WriteString(q[start:])
	return b.String()
}

// ---- interactive solver session ---------------------------------------------------------------

type z3session struct {
	cmd *exec.Cmd
	in  io.WriteCloser
	out *bufio.Reader
}

func startZ3(query string) (*z3session, string, error) {
	ctx, _ := context.WithTimeout(context.Background(), 40*time.Second)
	cmd := exec.CommandContext(ctx, "z3-new", "-in", "-T:30")
	in, _ := cmd.StdinPipe()
	outp, _ := cmd.StdoutPipe()
	cmd.Stderr = nil
	if err := cmd.Start(); err != nil {
		return nil, "", err
	}
	s := &z3session{cmd: cmd, in: in, out: bufio.NewReader(outp)}
	io.WriteString(in, query)
	line, err := s.out.ReadString('\n')
	return s, strings.TrimSpace(line), err
}

// tell sends a command that produces no answer.
func (s *z3session) tell(cmd string) { io.WriteString(s.in, cmd+"\n") }

// ask sends a command and reads one balanced s-expression answer.
func (s *z3session) ask(cmd string) string {
	io.WriteString(s.in, cmd+"\n")
	var b strings.Builder
	depth := 0
	started := false
	for {
		r, _, err := s.out.ReadRune()
		if err != nil {
			break
		}
		b.WriteRune(r)
		if r == '(' {
			depth++
			started = true
		} else if r == ')' {
			depth--
			if started && depth == 0 {
				break
			}
		} else if !started && r == '\n' && strings.TrimSpace(b.String()) != "" {
			break
		}
	}
	return b.String()
}

func (s *z3session) close() {
	s.in.Close()
	s.cmd.Process.Kill()
	s.cmd.Wait()
}

// ---- decoding model values into Go source ------------------------------------------------------

type decoder struct {
	e       *Engine
	sess    *z3session
	pkg     *types.Package // package the replay test lives in
	imports map[string]string
	lossy   []string
}

func (d *decoder) qual(p *types.Package) string {
	if p == d.pkg {
		return ""
	}
	d.imports[p.Name()] = p.Path()
	return p.Name()
}

func (d *decoder) typeStr(t types.Type) string { return types.TypeString(t, d.qual) }

// strValue reads a string term's contents out of the model.
func (d *decoder) strValue(path string) string {
	ans := parseSx(d.sess.ask("(get-value ((slen " + path + ")))"))
	n := int64(0)
	if len(ans) == 1 && len(ans[0].list) == 1 && len(ans[0].list[0].list) == 2 {
		n, _ = sxInt(expandLets(ans[0].list[0].list[1], nil))
	}
	if n < 0 {
		n = 0
	}
	if n > 200 {
		d.lossy = append(d.lossy, fmt.Sprintf("string of length %d truncated to 200 bytes", n))
		n = 200
	}
	if n == 0 {
		return ""
	}
	var q []string
	for i := int64(0); i < n; i++ {
		q = append(q, fmt.Sprintf("(sat %s %d)", path, i))
	}
	ans = parseSx(d.sess.ask("(get-value (" + strings.Join(q, " ") + "))"))
	bs := make([]byte, n)
	if len(ans) == 1 {
		for i, pr := range ans[0].list {
			if i < int(n) && len(pr.list) == 2 {
				v, _ := sxInt(expandLets(pr.list[1], nil))
				bs[i] = byte(v)
			}
		}
	}
	return string(bs)
}

func (d *decoder) value(path string) *sx {
	ans := parseSx(d.sess.ask("(get-value (" + path + "))"))
	if len(ans) == 1 && len(ans[0].list) == 1 && len(ans[0].list[0].list) == 2 {
		return expandLets(ans[0].list[0].list[1], nil)
	}
	return &sx{atom: "?"}
}

// goValue prints the model value of the SMT term `path` (of Go type t) as Go source.
func (d *decoder) goValue(path string, t types.Type, depth int) string {
	tc := d.e.tc
	if depth > 12 {
		d.lossy = append(d.lossy, "value nested deeper than 12 levels replaced by the zero value")
		return "*new(" + d.typeStr(t) + ")"
	}
	s := tc.sortOf(t)
	switch {
	case s == SInt:
		if _, isSig := t.Underlying().(*types.Signature); isSig {
			v, _ := sxInt(d.value(path))
			if v >= 1 && int(v) <= len(d.e.fnByID) {
				f := d.e.fnByID[v-1]
				if f.Pkg != nil && f.Pkg.Pkg == d.pkg && f.Parent() == nil && f.Signature.Recv() == nil {
					return f.Name()
				}
			}
			return "nil"
		}
		if _, isIface := t.Underlying().(*types.Interface); isIface {
			return "nil"
		}
		v, _ := sxInt(d.value(path))
		return fmt.Sprintf("%s(%d)", d.typeStr(t), v)
	case s == SBool:
		return d.value(path).atom
	case s == SStr:
		str := d.strValue(path)
		if isByteSlice(t) {
			return fmt.Sprintf("%s(%q)", d.typeStr(t), str)
		}
		if b, ok := t.(*types.Basic); ok && b.Kind() == types.String {
			return strconv.Quote(str)
		}
		return fmt.Sprintf("%s(%q)", d.typeStr(t), str)
	case s == SF64:
		d.lossy = append(d.lossy, "float64 value is abstract in the model; 1.5 used")
		return d.typeStr(t) + "(1.5)"
	case s == SErr:
		v := d.value(path)
		if v.atom == "NoErr" {
			return "nil"
		}
		d.imports["errors"] = "errors"
		return `errors.New("model error")`
	case s.Kind == KRecord:
		st, ok := t.Underlying().(*types.Struct)
		if !ok {
			return "*new(" + d.typeStr(t) + ")"
		}
		var parts []string
		for i := 0; i < st.NumFields(); i++ {
			f := st.Field(i)
			if !f.Exported() && f.Pkg() != d.pkg {
				d.lossy = append(d.lossy, "unexported field "+f.Name()+" of another package left at its zero value")
				continue
			}
			parts = append(parts, f.Name()+": "+d.goValue("("+s.Fields[i].Sel+" "+path+")", f.Type(), depth+1))
		}
		return d.typeStr(t) + "{" + strings.Join(parts, ", ") + "}"
	case s.Kind == KPtr:
		v := d.value(path)
		if v.isAtom() {
			return "nil"
		}
		pt := t.Underlying().(*types.Pointer)
		inner := d.goValue("("+s.Name+"_val "+path+")", pt.Elem(), depth+1)
		if strings.HasSuffix(inner, "}") && !strings.HasPrefix(inner, "*new") {
			return "&" + inner
		}
		return fmt.Sprintf("func() %s { v := %s; return &v }()", d.typeStr(t), inner)
	case s.Kind == KSlice:
		sl := t.Underlying().(*types.Slice)
		nv, _ := sxInt(d.value("(" + s.Name + "_n " + path + ")"))
		if nv > 12 {
			d.lossy = append(d.lossy, fmt.Sprintf("slice of length %d truncated to 12", nv))
			nv = 12
		}
		var parts []string
		for i := int64(0); i < nv; i++ {
			parts = append(parts, d.goValue(fmt.Sprintf("(select (%s_arr %s) %d)", s.Name, path, i), sl.Elem(), depth+1))
		}
		return d.typeStr(t) + "{" + strings.Join(parts, ", ") + "}"
	case s.Kind == KAny:
		v := d.value(path)
		h := v.head()
		if v.isAtom() {
			h = v.atom
		}
		if h == "ANil" {
			return "nil"
		}
		for _, c := range tc.anyCtors {
			if c.Payload != nil && c.Name == h {
				gt := d.e.ctorTypes[c.Key]
				if gt == nil {
					break
				}
				return "any(" + d.goValue("("+c.Sel+" "+path+")", gt, depth+1) + ")"
			}
		}
		d.lossy = append(d.lossy, "interface value of a type outside the model's constructor list replaced by struct{}{}")
		return "any(struct{}{})"
	case s.Kind == KMap:
		d.lossy = append(d.lossy, "map value replaced by an empty map")
		return d.typeStr(t) + "{}"
	}
	return "*new(" + d.typeStr(t) + ")"
}

// sizeTerms collects bounds on the lengths of the slices and strings inside an input value.
func (d *decoder) sizeTerms(path string, t types.Type, depth int, out *[]string) {
	if depth > 3 || len(*out) > 60 {
		return
	}
	tc := d.e.tc
	s := tc.sortOf(t)
	switch {
	case s == SStr:
		*out = append(*out, fmt.Sprintf("(<= (slen %s) 12)", path))
	case s.Kind == KRecord:
		if st, ok := t.Underlying().(*types.Struct); ok {
			for i := 0; i < st.NumFields() && i < len(s.Fields); i++ {
				d.sizeTerms("("+s.Fields[i].Sel+" "+path+")", st.Field(i).Type(), depth+1, out)
			}
		}
	case s.Kind == KSlice:
		if sl, ok := t.Underlying().(*types.Slice); ok {
			*out = append(*out, fmt.Sprintf("(<= (%s_n %s) 4)", s.Name, path))
			for i := 0; i < 3; i++ {
				d.sizeTerms(fmt.Sprintf("(select (%s_arr %s) %d)", s.Name, path, i), sl.Elem(), depth+1, out)
			}
		}
	}
}

// ---- replay --------------------------------------------------------------------------------------

type ReplayResult struct {
	Obligation string
	Inputs     []string // Go source of each argument
	Lossy      []string
	Outcome    string // confirmed-panic | confirmed-postcondition | precondition-false | not-reproduced | error
	Detail     string
	Cmd        string
	TestFile   string
	Candidate  bool // the input came from a search with the quantified axioms dropped (the solver gave no model)
}

// replay decodes the model of a failed obligation and runs the real function.
func (e *Engine) replay(fn *ssa.Function, ob *Obligation, dir string, overlay map[string][]byte) *ReplayResult {
	res := &ReplayResult{Obligation: ob.Name}
	if len(ob.Inputs) == 0 || fn.Pkg == nil {
		res.Outcome, res.Detail = "error", "no input terms recorded"
		return res
	}
	q := strings.Replace(ob.Query, "(check-sat)\n", "", 1)
	if ob.Status != "failed" {
		// the solvers gave no model (quantified axioms make the query undecidable for them):
		// search for a candidate input with the quantified assertions dropped.  The candidate
		// may be spurious; it counts only if the real code confirms it below.
		q = dropQuantified(slnDefs.ReplaceAllString(q, "(define-fun ${1}_n ((s $1)) Int (ite (>= (${1}_len s) 0) (${1}_len s) 0))\n"))
		res.Candidate = true
	}
	sess, first, err := startZ3(q + "(check-sat)\n")
	if err != nil || first != "sat" {
		if sess != nil {
			sess.close()
		}
		res.Outcome, res.Detail = "error", "solver did not reproduce sat: "+first
		return res
	}
	defer sess.close()
	d := &decoder{e: e, sess: sess, pkg: fn.Pkg.Pkg, imports: map[string]string{"fmt": "fmt", "testing": "testing"}}
	// prefer a small counterexample: bound the lengths of the input's slices and strings if that is still satisfiable
	{
		var sizes []string
		m0 := e.mods[fn]
		k0 := 0
		for j, p := range fn.Params {
			if k0 >= len(ob.Inputs) {
				break
			}
			t := p.Type()
			if pt, ok := t.(*types.Pointer); ok && ((m0 != nil && m0.params[j]) || e.isCellParam(p)) {
				t = pt.Elem()
			}
			d.sizeTerms(ob.Inputs[k0], t, 0, &sizes)
			k0++
		}
		if len(sizes) > 0 {
			sess.tell("(push)")
			sess.tell("(assert (and " + strings.Join(sizes, " ") + " true))")
			if strings.TrimSpace(sess.ask("(check-sat)")) != "sat" {
				sess.tell("(pop)")
				sess.ask("(check-sat)")
			}
		}
	}
	c := e.contractOf[fn]
	m := e.mods[fn]
	var decls, args, olds []string
	k := 0
	for j, p := range fn.Params {
		name := fmt.Sprintf("arg%d", j)
		if pt, ok := p.Type().(*types.Pointer); ok && ((m != nil && m.params[j]) || e.isCellParam(p)) {
			if k >= len(ob.Inputs) {
				break
			}
			v := d.goValue(ob.Inputs[k], pt.Elem(), 0)
			k++
			decls = append(decls, fmt.Sprintf("%sv := %s\n\t%s := &%sv\n\t%soldv := %sv\n\t%sold := &%soldv", name, v, name, name, name, name, name, name))
			args = append(args, name)
			olds = append(olds, name+"old")
			res.Inputs = append(res.Inputs, "&"+v)
			continue
		}
		if k >= len(ob.Inputs) {
			break
		}
		v := d.goValue(ob.Inputs[k], p.Type(), 0)
		k++
		decls = append(decls, fmt.Sprintf("%s := %s", name, v))
		args = append(args, name)
		if isPtrType(p.Type()) {
			olds = append(olds, name)
		}
		res.Inputs = append(res.Inputs, v)
	}
	res.Lossy = d.lossy
	// the call
	callee := fn.Name()
	if recv := fn.Signature.Recv(); recv != nil {
		callee = "(" + types.TypeString(recv.Type(), d.qual) + ")." + fn.Name()
	}
	nres := fn.Signature.Results().Len()
	var rnames []string
	for r := 0; r < nres; r++ {
		rnames = append(rnames, fmt.Sprintf("res%d", r))
	}
	variadic := ""
	if fn.Signature.Variadic() {
		variadic = "..."
	}
	var b strings.Builder
	fmt.Fprintf(&b, "//go:build verif\n\npackage %s\n\nimport (\n", fn.Pkg.Pkg.Name())
	imports := d.imports
	if strings.Contains(ob.Name, "/assert/") {
		imports["verifspec"] = verifspecPath
	}
	for n, p := range imports {
		fmt.Fprintf(&b, "\t%s %q\n", n, p)
	}
	b.WriteString(")\n\nfunc TestVerifReplay(t *testing.T) {\n")
	b.WriteString("\tdefer func() {\n\t\tif r := recover(); r != nil {\n\t\t\tif s, ok := r.(string); ok && len(s) > 27 && s[:27] == \"verifspec: ghost assertion \" {\n\t\t\t\tfmt.Println(\"REPLAY-RESULT confirmed-assertion:\", s[27:])\n\t\t\t\treturn\n\t\t\t}\n\t\t\tfmt.Println(\"REPLAY-RESULT confirmed-panic:\", r)\n\t\t}\n\t}()\n")
	for _, dcl := range decls {
		b.WriteString("\t" + dcl + "\n")
	}
	all := strings.Join(args, ", ")
	if c != nil {
		for _, cl := range c.clauses("requires") {
			fmt.Fprintf(&b, "\tif !%s(%s) {\n\t\tfmt.Println(\"REPLAY-RESULT precondition-false: %s\")\n\t\treturn\n\t}\n", cl.GenName, all, strings.ReplaceAll(cl.Expr, `"`, `'`))
		}
	}
	if strings.Contains(ob.Name, "/assert/") {
		// ghost assertions are evaluated on this run
		b.WriteString("\tverifspec.Replaying = true\n")
	}
	if nres > 0 {
		fmt.Fprintf(&b, "\t%s := %s(%s%s)\n", strings.Join(rnames, ", "), callee, all, variadic)
		for _, r := range rnames {
			fmt.Fprintf(&b, "\t_ = %s\n", r)
		}
	} else {
		fmt.Fprintf(&b, "\t%s(%s%s)\n", callee, all, variadic)
	}
	if c != nil {
		ensArgs := append(append(append([]string{}, args...), olds...), rnames...)
		for n, cl := range c.clauses("ensures") {
			fmt.Fprintf(&b, "\tif !%s(%s) {\n\t\tfmt.Println(\"REPLAY-RESULT confirmed-postcondition: post/%s is false\")\n\t\treturn\n\t}\n", cl.GenName, strings.Join(ensArgs, ", "), clauseLabel(cl, n))
		}
	}
	b.WriteString("\tfmt.Println(\"REPLAY-RESULT not-reproduced\")\n}\n")
	for _, a := range args {
		_ = a
	}
	// unused variable guards
	src := b.String()
	for _, o := range olds {
		if strings.HasSuffix(o, "old") && !strings.Contains(src, o+")") && !strings.Contains(src, o+",") {
			src = strings.Replace(src, "\tdefer func()", "\t// (snapshots unused)\n\tdefer func()", 1)
		}
	}
	pkgDir := filepath.Dir(e.fset.Position(fn.Pos()).Filename)
	testPath := filepath.Join(pkgDir, "zz_verif_replay_test.go")
	realTest := filepath.Join(dir, fmt.Sprintf("replay_%s_%08x_test.go", sanitize(ob.Name), hashStr(ob.Func+"|"+ob.Name)))
	os.WriteFile(realTest, []byte(src), 0o644)
	ov := map[string]string{testPath: realTest}
	for p, content := range overlay {
		f := filepath.Join(dir, "ov_"+sanitize(p))
		os.WriteFile(f, content, 0o644)
		ov[p] = f
	}
	ovb, _ := json.Marshal(map[string]any{"Replace": ov})
	ovPath := filepath.Join(dir, fmt.Sprintf("replay_%s_%08x.overlay.json", sanitize(ob.Name), hashStr(ob.Func+"|"+ob.Name)))
	os.WriteFile(ovPath, ovb, 0o644)
	ctx, cancel := context.WithTimeout(context.Background(), 90*time.Second)
	defer cancel()
	cmd := exec.CommandContext(ctx, "go", "test", "-tags", "verif", "-overlay", ovPath, "-vet=off", "-count=1", "-v", "-timeout", "60s", "-run", "TestVerifReplay$", ".")
	cmd.Dir = pkgDir
	env := []string{}
	for _, kv := range os.Environ() {
		if !strings.HasPrefix(kv, "GOFLAGS=") {
			env = append(env, kv)
		}
	}
	cmd.Env = append(env, "GOPROXY=off", "GOSUMDB=off", "GOTOOLCHAIN=local")
	out, _ := cmd.CombinedOutput()
	res.Cmd = "cd " + pkgDir + " && go test -tags verif -overlay <overlay> -vet=off -count=1 -timeout 60s -run 'TestVerifReplay$' ."
	res.TestFile = src
	res.Outcome, res.Detail = "error", string(out)
	for _, line := range strings.Split(string(out), "\n") {
		if strings.HasPrefix(line, "REPLAY-RESULT ") {
			rest := strings.TrimPrefix(line, "REPLAY-RESULT ")
			parts := strings.SplitN(rest, ":", 2)
			res.Outcome = strings.TrimSpace(parts[0])
			if len(parts) > 1 {
				res.Detail = strings.TrimSpace(parts[1])
			} else {
				res.Detail = ""
			}
		}
	}
	if len(res.Detail) > 2000 {
		res.Detail = res.Detail[:2000]
	}
	return res
}
