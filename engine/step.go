package main

import (
	"fmt"
	"go/constant"
	"go/token"
	"go/types"
	"strings"

	"golang.org/x/tools/go/ssa"
)

// ---- boxed registers (slices written in place) ---------------------------------

func (fr *Frame) findBoxed() {
	for _, b := range fr.fn.Blocks {
		for _, in := range b.Instrs {
			st, ok := in.(*ssa.Store)
			if !ok {
				continue
			}
			ia, ok := st.Addr.(*ssa.IndexAddr)
			if !ok {
				continue
			}
			if _, isSlice := ia.X.Type().Underlying().(*types.Slice); isSlice {
				fr.boxed[ia.X] = nil
			}
		}
	}
}

func (fr *Frame) box(v ssa.Value, val Val, st *State) {
	t, ok := fr.x.termOf(val, st)
	if !ok {
		fr.x.unsupported("%s: cannot box %s", fr.fn, v.Name())
		return
	}
	c := fr.x.newCell("box_"+v.Name(), t.Sort)
	fr.boxed[v] = c
	st.cells[c] = t
}

func (fr *Frame) setReg(v ssa.Value, val Val, st *State) {
	if c, ok := fr.boxed[v]; ok {
		if c == nil {
			fr.box(v, val, st)
		} else {
			t, _ := fr.x.termOf(val, st)
			st.cells[c] = t
		}
		return
	}
	fr.regs[v] = val
}

// ---- value evaluation ------------------------------------------------------------

func (fr *Frame) val(v ssa.Value, st *State) Val {
	x := fr.x
	if c, ok := fr.boxed[v]; ok && c != nil {
		return TV{T: st.cells[c]}
	}
	switch vv := v.(type) {
	case *ssa.Const:
		return TV{T: x.constTerm(vv)}
	case *ssa.Function:
		return TV{T: x.eng.fnID(vv)}
	case *ssa.Global:
		return PV{Cell: x.globalCell(vv, st)}
	case *ssa.Builtin:
		return nil
	}
	if r, ok := fr.regs[v]; ok {
		return r
	}
	x.unsupported("%s: use of undefined value %s", fr.fn, v.Name())
	return TV{T: x.fresh("undef", x.eng.tc.sortOf(v.Type()))}
}

func (fr *Frame) term(v ssa.Value, st *State) Term {
	t, ok := fr.x.termOf(fr.val(v, st), st)
	if !ok {
		fr.x.unsupported("%s: value %s (%s) has no term form", fr.fn, v.Name(), v.Type())
		return fr.x.fresh("noterm", fr.x.eng.tc.sortOf(v.Type()))
	}
	return t
}

// termOf converts a value into an SMT term (snapshotting cells that escape).
func (x *Exec) termOf(v Val, st *State) (Term, bool) {
	switch vv := v.(type) {
	case TV:
		return vv.T, true
	case PV:
		if st == nil && vv.Cell != nil {
			return Term{}, false
		}
		content := x.load(vv, st)
		if vv.Cell != nil && len(vv.Path) == 0 && !vv.Cell.Ghost && x.ghostDepth == 0 {
			vv.Cell.Escaped = "snapshot"
		}
		return PMk(PtrSort(content.Sort), content), true
	case CloV:
		return x.eng.closureID(x, vv, st), true
	}
	return Term{}, false
}

func (x *Exec) constTerm(c *ssa.Const) Term {
	tc := x.eng.tc
	s := tc.sortOf(c.Type())
	if c.Value == nil { // nil or zero value
		return x.zero(s, c.Type())
	}
	switch c.Value.Kind() {
	case constant.Bool:
		return BoolLit(constant.BoolVal(c.Value))
	case constant.Int:
		if s == SF64 {
			f, _ := constant.Float64Val(c.Value)
			return x.eng.f64Const(f)
		}
		i, _ := constant.Int64Val(c.Value)
		return IntLit(i)
	case constant.Float:
		f, _ := constant.Float64Val(c.Value)
		return x.eng.f64Const(f)
	case constant.String:
		return x.eng.strConst(constant.StringVal(c.Value))
	}
	x.unsupported("constant %v", c)
	return x.fresh("const", s)
}

// zero yields the zero value of a sort.
func (x *Exec) zero(s *Sort, t types.Type) Term {
	switch {
	case s == SInt:
		return IntLit(0)
	case s == SBool:
		return TFalse
	case s == SStr:
		return x.eng.strConst("")
	case s == SF64:
		return x.eng.f64Const(0)
	case s == SErr:
		return Term{"NoErr", SErr}
	case s.Kind == KAny:
		return Term{"ANil", s}
	case s.Kind == KPtr:
		return PNil(s)
	case s.Kind == KRecord:
		args := make([]Term, len(s.Fields))
		for i, f := range s.Fields {
			args[i] = x.zero(f.Sort, nil)
		}
		return mk(s, s.Ctor, args...)
	case s.Kind == KSlice:
		return SlMk(s, IntLit(0), x.zero(s.Deps[0], nil))
	case s.Kind == KArray:
		name := "zarr_" + sanitize(s.Name)
		x.declareOnce(fmt.Sprintf("(declare-const %s %s)", name, s.Name))
		return Term{name, s}
	case s.Kind == KMap:
		return mk(s, s.Ctor, x.zero(s.Deps[0], nil), x.zero(s.Deps[1], nil))
	}
	return x.fresh("zero", s)
}

// ---- memory ------------------------------------------------------------------------

func (x *Exec) rootTerm(p PV, st *State) Term {
	if p.Cell != nil {
		t, ok := st.cells[p.Cell]
		if !ok {
			t = x.fresh("c"+p.Cell.Name, p.Cell.Sort)
			st.cells[p.Cell] = t
		}
		return t
	}
	return *p.Base
}

func applySel(t Term, s Sel) Term {
	switch s.Kind {
	case SelField:
		return FieldSel(t, s.I)
	case SelDeref:
		return PVal(t)
	case SelIndex:
		if t.Sort == SStr {
			return sat(t, s.Idx)
		}
		if t.Sort.Kind == KSlice {
			return SlAt(t, s.Idx)
		}
		return Select(t, s.Idx)
	case SelAnyPayload:
		return mk(s.Ctor.Payload, s.Ctor.Sel, t)
	}
	panic("sel")
}

func (x *Exec) load(p PV, st *State) Term {
	t := x.rootTerm(p, st)
	for _, s := range p.Path {
		t = applySel(t, s)
	}
	return t
}

func (x *Exec) upd(t Term, path []Sel, v Term) Term {
	if len(path) == 0 {
		return v
	}
	s := path[0]
	inner := x.upd(applySel(t, s), path[1:], v)
	switch s.Kind {
	case SelField:
		return RecUpdate(t, s.I, inner)
	case SelDeref:
		return PMk(t.Sort, inner)
	case SelIndex:
		if t.Sort.Kind == KSlice {
			return SlMk(t.Sort, SlLen(t), Store(SlArr(t), s.Idx, inner))
		}
		return Store(t, s.Idx, inner)
	case SelAnyPayload:
		return mk(t.Sort, s.Ctor.Name, inner)
	}
	panic("upd")
}

func (fr *Frame) store(p PV, v Term, st *State, g Term, pos token.Pos) {
	x := fr.x
	if p.Cell == nil {
		x.assert(g, fr.oname("frame/store-immutable@"+x.srcText(pos, "nil")), TFalse, x.posOf(pos), "store through a pointer to memory the function does not own")
		return
	}
	if p.Cell.Escaped != "" && !fr.ghost {
		x.assert(g, fr.oname("frame/store-after-escape@"+p.Cell.Name), TFalse, x.posOf(pos), "store to a cell after a snapshot of it escaped")
	}
	old := x.rootTerm(p, st)
	nv := x.upd(old, p.Path, v)
	if g.S != "true" && false {
		nv = Ite(g, nv, old)
	}
	st.cells[p.Cell] = x.define("c"+p.Cell.Name, nv)
}

func (fr *Frame) oname(s string) string {
	if fr.prefix != "" {
		return fr.prefix + s
	}
	return s
}

func (fr *Frame) safety(g Term, kind string, pos token.Pos, cond Term, info string) {
	if fr.ghost || fr.noSafety || cond.S == "true" {
		return
	}
	x := fr.x
	name := "safety/" + kind + "@" + x.srcText(pos, kind)
	x.assert(g, fr.oname(name), cond, x.posOf(pos), info)
}

// ---- instructions ---------------------------------------------------------------------

func (fr *Frame) step(in ssa.Instruction, st *State, g Term) {
	x := fr.x
	tc := x.eng.tc
	switch i := in.(type) {
	case *ssa.DebugRef:
	case *ssa.Alloc:
		es := tc.sortOf(i.Type().(*types.Pointer).Elem())
		c := x.newCell(nameOr(i.Comment, i.Name()), es)
		st.cells[c] = x.zero(es, nil)
		fr.regs[i] = PV{Cell: c}
	case *ssa.Store:
		addr := fr.val(i.Addr, st)
		p, ok := addr.(PV)
		if !ok {
			// store through pointer data
			if tv, ok := addr.(TV); ok && tv.Origin != nil {
				p = PV{Cell: tv.Origin.Cell, Base: tv.Origin.Base, Path: append(append([]Sel{}, tv.Origin.Path...), Sel{Kind: SelDeref})}
			} else {
				x.assert(g, fr.oname("frame/store-immutable@"+x.srcText(i.Pos(), "nil")), TFalse, x.posOf(i.Pos()), "store through a pointer the model treats as immutable data")
				return
			}
		}
		v := fr.val(i.Val, st)
		if pv, ok := v.(PV); ok && pv.Cell != nil && p.Cell != nil && len(p.Path) == 0 {
			// a variable holding a pointer to a cell: keep the pointer itself
			if st.ptrs == nil {
				st.ptrs = map[*Cell]PV{}
			}
			st.ptrs[p.Cell] = pv
			st.cells[p.Cell] = x.fresh("ptrvar", p.Cell.Sort)
			return
		}
		if p.Cell != nil && len(p.Path) == 0 {
			delete(st.ptrs, p.Cell)
		}
		if ir, ok := v.(IfaceRef); ok {
			_ = ir
			x.unsupported("%s: storing an interface that wraps a cell pointer", fr.fn)
			return
		}
		t, ok := x.termOf(v, st)
		if !ok {
			x.unsupported("%s: store of non-term value at %s", fr.fn, x.posOf(i.Pos()))
			return
		}
		fr.store(p, t, st, g, i.Pos())
	case *ssa.UnOp:
		fr.unop(i, st, g)
	case *ssa.BinOp:
		fr.regs[i] = TV{T: fr.binop(i, st, g)}
	case *ssa.FieldAddr:
		base := fr.val(i.X, st)
		switch b := base.(type) {
		case PV:
			fr.regs[i] = PV{Cell: b.Cell, Base: b.Base, Path: append(append([]Sel{}, b.Path...), Sel{Kind: SelField, I: i.Field})}
		case TV:
			fr.safety(g, "nil", i.Pos(), Not(PIsNil(b.T)), "field address of nil pointer")
			if b.Origin != nil {
				path := append(append([]Sel{}, b.Origin.Path...), Sel{Kind: SelDeref}, Sel{Kind: SelField, I: i.Field})
				fr.regs[i] = PV{Cell: b.Origin.Cell, Base: b.Origin.Base, Path: path}
			} else {
				v := x.define("deref", PVal(b.T))
				fr.regs[i] = PV{Base: &v, Path: []Sel{{Kind: SelField, I: i.Field}}}
			}
		default:
			x.unsupported("%s: FieldAddr on %T", fr.fn, base)
		}
	case *ssa.Field:
		t := fr.term(i.X, st)
		fr.regs[i] = TV{T: FieldSel(t, i.Field)}
	case *ssa.IndexAddr:
		idx := fr.term(i.Index, st)
		base := fr.val(i.X, st)
		switch b := base.(type) {
		case PV: // pointer to array
			arrT := i.X.Type().Underlying().(*types.Pointer).Elem().Underlying().(*types.Array)
			fr.safety(g, "index", i.Pos(), And(Le(IntLit(0), idx), Lt(idx, IntLit(arrT.Len()))), "array index")
			fr.regs[i] = PV{Cell: b.Cell, Base: b.Base, Path: append(append([]Sel{}, b.Path...), Sel{Kind: SelIndex, Idx: idx})}
		case TV:
			if b.T.Sort == SStr {
				fr.safety(g, "index", i.Pos(), And(Le(IntLit(0), idx), Lt(idx, slen(b.T))), "byte slice index")
				t := b.T
				fr.regs[i] = PV{Base: &t, Path: []Sel{{Kind: SelIndex, Idx: idx}}}
				return
			}
			if b.T.Sort.Kind != KSlice {
				x.unsupported("%s: IndexAddr on sort %s", fr.fn, b.T.Sort.Name)
				return
			}
			fr.safety(g, "index", i.Pos(), And(Le(IntLit(0), idx), Lt(idx, SlLen(b.T))), "slice index")
			if c, ok := fr.boxed[i.X]; ok && c != nil {
				fr.regs[i] = PV{Cell: c, Path: []Sel{{Kind: SelIndex, Idx: idx}}}
			} else {
				t := b.T
				fr.regs[i] = PV{Base: &t, Path: []Sel{{Kind: SelIndex, Idx: idx}}}
			}
		default:
			x.unsupported("%s: IndexAddr on %T", fr.fn, base)
		}
	case *ssa.Index:
		idx := fr.term(i.Index, st)
		t := fr.term(i.X, st)
		if t.Sort == SStr {
			fr.safety(g, "index", i.Pos(), And(Le(IntLit(0), idx), Lt(idx, mk(SInt, "slen", t))), "string index")
			fr.regs[i] = TV{T: mk(SInt, "sat", t, idx)}
		} else {
			fr.regs[i] = TV{T: Select(t, idx)}
		}
	case *ssa.Lookup:
		fr.lookup(i, st, g)
	case *ssa.Slice:
		fr.slice(i, st, g)
	case *ssa.Phi:
	case *ssa.Call:
		fr.call(i, st, g)
	case *ssa.MakeInterface:
		fr.makeInterface(i, st, g)
	case *ssa.ChangeInterface:
		from := tc.sortOf(i.X.Type())
		to := tc.sortOf(i.Type())
		v := fr.val(i.X, st)
		if from != to {
			t := fr.term(i.X, st)
			switch {
			case to.Kind == KAny && from == SErr:
				v = TV{T: tc.makeAny(i.X.Type(), t, func() Term { return x.fresh("opq", SInt) })}
			case to.Kind == KAny:
				v = TV{T: Ite(Eq(t, IntLit(0)), Term{"ANil", to}, mk(to, "AOther", IntLit(99), t))}
			default:
				v = TV{T: x.fresh("chiface", to)}
			}
		}
		fr.regs[i] = v
	case *ssa.ChangeType:
		fr.regs[i] = fr.val(i.X, st)
	case *ssa.Convert:
		fr.convert(i, st, g)
	case *ssa.MultiConvert:
		x.unsupported("%s: MultiConvert", fr.fn)
	case *ssa.TypeAssert:
		fr.typeAssert(i, st, g)
	case *ssa.Extract:
		tup, ok := fr.val(i.Tuple, st).(Tuple)
		if !ok || i.Index >= len(tup) {
			x.unsupported("%s: extract from non-tuple", fr.fn)
			fr.regs[i] = TV{T: x.fresh("ext", tc.sortOf(i.Type()))}
			return
		}
		fr.setReg(i, tup[i.Index], st)
	case *ssa.MakeClosure:
		var bind []Val
		for _, b := range i.Bindings {
			bind = append(bind, fr.val(b, st))
		}
		fr.regs[i] = CloV{Fn: i.Fn.(*ssa.Function), Bind: bind}
	case *ssa.MakeSlice:
		s := tc.sortOf(i.Type())
		n := fr.term(i.Len, st)
		if s == SStr || len(s.Deps) == 0 {
			// make([]byte, n): byte slices are strings in this model - an arbitrary string of that length
			v := x.fresh("mkbytes", s)
			if s == SStr {
				x.assume(g, Eq(slen(v), n))
			}
			fr.setReg(i, TV{T: v}, st)
			break
		}
		fr.setReg(i, TV{T: SlMk(s, n, x.zero(s.Deps[0], nil))}, st)
	case *ssa.MakeMap:
		s := tc.sortOf(i.Type())
		fr.setReg(i, TV{T: x.zero(s, nil)}, st)
	case *ssa.MapUpdate:
		x.unsupported("%s: map update", fr.fn)
	case *ssa.Range, *ssa.Next:
		x.unsupported("%s: range over map or string", fr.fn)
	case *ssa.If:
		c := fr.term(i.Cond, st)
		b := i.Block()
		fr.edge[[2]int{b.Index, b.Succs[0].Index}] = x.define("e", And(g, c))
		fr.edge[[2]int{b.Index, b.Succs[1].Index}] = x.define("e", And(g, Not(c)))
	case *ssa.Jump:
		b := i.Block()
		fr.edge[[2]int{b.Index, b.Succs[0].Index}] = g
	case *ssa.Return:
		var vals []Val
		for _, r := range i.Results {
			vals = append(vals, fr.val(r, st))
		}
		if fr.onReturn != nil {
			fr.onReturn(fr, g, vals, st, i.Pos())
		}
		fr.rets = append(fr.rets, retPoint{g: g, vals: vals, st: st})
	case *ssa.Panic:
		if !fr.ghost {
			x.assert(g, fr.oname("safety/panic@"+x.posLineText(i.Pos())), TFalse, x.posOf(i.Pos()), "explicit panic reachable")
		}
	case *ssa.RunDefers:
	case *ssa.Defer, *ssa.Go, *ssa.Send, *ssa.Select:
		x.unsupported("%s: %T outside the supported subset", fr.fn, in)
	default:
		x.unsupported("%s: instruction %T", fr.fn, in)
	}
}

func nameOr(a, b string) string {
	if a != "" {
		return sanitize(a)
	}
	return b
}

func (x *Exec) posLineText(p token.Pos) string {
	return x.posOf(p)
}

func (fr *Frame) unop(i *ssa.UnOp, st *State, g Term) {
	x := fr.x
	switch i.Op {
	case token.MUL: // load
		base := fr.val(i.X, st)
		switch b := base.(type) {
		case PV:
			if b.Cell != nil && len(b.Path) == 0 {
				if pp, ok := st.ptrs[b.Cell]; ok {
					fr.regs[i] = pp
					return
				}
			}
			t := x.load(b, st)
			tv := TV{T: t}
			if t.Sort.Kind == KPtr || t.Sort.Kind == KAny {
				bb := b
				tv.Origin = &bb
			}
			fr.regs[i] = tv
		case TV:
			if b.T.Sort.Kind != KPtr {
				x.unsupported("%s: load through non-pointer sort %s", fr.fn, b.T.Sort.Name)
				return
			}
			fr.safety(g, "nil", i.Pos(), Not(PIsNil(b.T)), "nil pointer dereference")
			fr.regs[i] = TV{T: PVal(b.T)}
		default:
			x.unsupported("%s: load from %T", fr.fn, base)
		}
	case token.NOT:
		fr.regs[i] = TV{T: Not(fr.term(i.X, st))}
	case token.SUB:
		t := fr.term(i.X, st)
		if t.Sort == SF64 {
			fr.regs[i] = TV{T: mk(SF64, "f64_neg", t)}
		} else {
			fr.regs[i] = TV{T: mk(SInt, "-", t)}
		}
	default:
		x.unsupported("%s: unary %s", fr.fn, i.Op)
	}
}

func (fr *Frame) binop(i *ssa.BinOp, st *State, g Term) Term {
	x := fr.x
	a := fr.val(i.X, st)
	b := fr.val(i.Y, st)
	// pointer comparisons involving cell pointers
	if pa, ok := a.(PV); ok {
		_ = pa
		if tb, ok := b.(TV); ok && (i.Op == token.EQL || i.Op == token.NEQ) && strings.HasSuffix(tb.T.S, "_nil") {
			return BoolLit(i.Op == token.NEQ)
		}
	}
	if pb, ok := b.(PV); ok {
		_ = pb
		if ta, ok := a.(TV); ok && (i.Op == token.EQL || i.Op == token.NEQ) && strings.HasSuffix(ta.T.S, "_nil") {
			return BoolLit(i.Op == token.NEQ)
		}
	}
	ta, ok1 := x.termOf(a, st)
	tb, ok2 := x.termOf(b, st)
	if !ok1 || !ok2 {
		x.unsupported("%s: binop on non-term values", fr.fn)
		return x.fresh("binop", x.eng.tc.sortOf(i.Type()))
	}
	s := ta.Sort
	switch i.Op {
	case token.EQL, token.NEQ:
		var e Term
		if s == SStr {
			e = x.eng.strEq(ta, tb)
		} else if s == SF64 {
			e = mk(SBool, "f64_eq", ta, tb)
		} else {
			e = Eq(ta, tb)
		}
		if i.Op == token.NEQ {
			return Not(e)
		}
		return e
	}
	if s == SF64 {
		switch i.Op {
		case token.LSS:
			return mk(SBool, "f64_lt", ta, tb)
		case token.GTR:
			return mk(SBool, "f64_lt", tb, ta)
		case token.LEQ:
			return mk(SBool, "f64_le", ta, tb)
		case token.GEQ:
			return mk(SBool, "f64_le", tb, ta)
		}
		x.unsupported("%s: float op %s", fr.fn, i.Op)
		return x.fresh("fop", SF64)
	}
	if s == SStr {
		switch i.Op {
		case token.ADD:
			return mk(SStr, "scat", ta, tb)
		}
		x.unsupported("%s: string op %s", fr.fn, i.Op)
		return x.fresh("sop", x.eng.tc.sortOf(i.Type()))
	}
	if s == SBool {
		switch i.Op {
		case token.AND, token.LAND:
			return And(ta, tb)
		case token.OR, token.LOR:
			return Or(ta, tb)
		}
	}
	switch i.Op {
	case token.ADD:
		return Add(ta, tb)
	case token.SUB:
		return Sub(ta, tb)
	case token.MUL:
		return mk(SInt, "*", ta, tb)
	case token.QUO:
		fr.safety(g, "div", i.Pos(), Not(Eq(tb, IntLit(0))), "division by zero")
		return mk(SInt, "go_div", ta, tb)
	case token.REM:
		fr.safety(g, "div", i.Pos(), Not(Eq(tb, IntLit(0))), "division by zero")
		return mk(SInt, "go_rem", ta, tb)
	case token.LSS:
		return Lt(ta, tb)
	case token.LEQ:
		return Le(ta, tb)
	case token.GTR:
		return Lt(tb, ta)
	case token.GEQ:
		return Le(tb, ta)
	}
	x.unsupported("%s: binary %s on %s", fr.fn, i.Op, s.Name)
	return x.fresh("binop", x.eng.tc.sortOf(i.Type()))
}

func (fr *Frame) lookup(i *ssa.Lookup, st *State, g Term) {
	x := fr.x
	tc := x.eng.tc
	if _, isMap := i.X.Type().Underlying().(*types.Map); !isMap {
		// string index
		t := fr.term(i.X, st)
		idx := fr.term(i.Index, st)
		fr.safety(g, "index", i.Pos(), And(Le(IntLit(0), idx), Lt(idx, mk(SInt, "slen", t))), "string index")
		fr.regs[i] = TV{T: mk(SInt, "sat", t, idx)}
		return
	}
	key := fr.term(i.Index, st)
	// known package-level table?
	if u, ok := i.X.(*ssa.UnOp); ok {
		if gl, ok := u.X.(*ssa.Global); ok {
			if tab := x.eng.table(gl); tab != nil {
				has, val := tab.lookup(x, key)
				if i.CommaOk {
					fr.regs[i] = Tuple{TV{T: val}, TV{T: has}}
				} else {
					fr.regs[i] = TV{T: val}
				}
				return
			}
		}
	}
	m := fr.term(i.X, st)
	if m.Sort.Kind != KMap {
		x.unsupported("%s: lookup on sort %s", fr.fn, m.Sort.Name)
		return
	}
	has := Select(mk(m.Sort.Deps[0], m.Sort.Name+"_has", m), key)
	vs := tc.sortOf(i.X.Type().Underlying().(*types.Map).Elem())
	val := Ite(has, Select(mk(m.Sort.Deps[1], m.Sort.Name+"_val", m), key), x.zero(vs, nil))
	if i.CommaOk {
		fr.regs[i] = Tuple{TV{T: val}, TV{T: has}}
	} else {
		fr.regs[i] = TV{T: val}
	}
}

func (fr *Frame) slice(i *ssa.Slice, st *State, g Term) {
	x := fr.x
	base := fr.val(i.X, st)
	var lo, hi Term
	if i.Low != nil {
		lo = fr.term(i.Low, st)
	} else {
		lo = IntLit(0)
	}
	switch b := base.(type) {
	case PV: // pointer to array
		arrT, ok := i.X.Type().Underlying().(*types.Pointer).Elem().Underlying().(*types.Array)
		if !ok {
			x.unsupported("%s: slice of pointer to non-array", fr.fn)
			return
		}
		n := IntLit(arrT.Len())
		if i.High != nil {
			hi = fr.term(i.High, st)
		} else {
			hi = n
		}
		if lo.S != "0" {
			x.unsupported("%s: slice of array with non-zero low bound", fr.fn)
		}
		fr.safety(g, "slice", i.Pos(), And(Le(IntLit(0), lo), Le(lo, hi), Le(hi, n)), "slice bounds")
		arr := x.load(b, st)
		ss := x.eng.tc.sortOf(i.Type())
		fr.setReg(i, TV{T: SlMk(ss, hi, arr)}, st)
	case TV:
		t := b.T
		if t.Sort == SStr {
			n := mk(SInt, "slen", t)
			if i.High != nil {
				hi = fr.term(i.High, st)
			} else {
				hi = n
			}
			fr.safety(g, "slice", i.Pos(), And(Le(IntLit(0), lo), Le(lo, hi), Le(hi, n)), "string slice bounds")
			fr.regs[i] = TV{T: mk(SStr, "ssub", t, lo, hi)}
			return
		}
		if t.Sort.Kind != KSlice {
			x.unsupported("%s: slice of sort %s", fr.fn, t.Sort.Name)
			return
		}
		n := SlLen(t)
		if i.High != nil {
			hi = fr.term(i.High, st)
		} else {
			hi = n
		}
		// capacity is not modelled: bounds are checked against the length
		fr.safety(g, "slice", i.Pos(), And(Le(IntLit(0), lo), Le(lo, hi), Le(hi, n)), "slice bounds (against length)")
		if lo.S != "0" {
			x.unsupported("%s: slice expression with non-zero low bound on a non-string", fr.fn)
		}
		fr.setReg(i, TV{T: SlMk(t.Sort, hi, SlArr(t))}, st)
	default:
		x.unsupported("%s: slice of %T", fr.fn, base)
	}
}

func (fr *Frame) makeInterface(i *ssa.MakeInterface, st *State, g Term) {
	x := fr.x
	tc := x.eng.tc
	target := tc.sortOf(i.Type())
	v := fr.val(i.X, st)
	if clo, ok := v.(CloV); ok && fr.isGhostOperand(i) {
		fr.regs[i] = clo
		return
	}
	switch target.Kind {
	case KAny:
		if pv, ok := v.(PV); ok {
			// pointer to a cell wrapped in an interface: keep the reference when the
			// pointee is not tree data or the interface only travels to library calls
			// (json.Unmarshal(data, &x)); otherwise snapshot
			es := x.load(pv, st).Sort
			if !x.eng.isTreeSort(es) || onlyLibCallOperand(i, x.eng) {
				fr.regs[i] = IfaceRef{P: pv}
				return
			}
		}
		t, ok := x.termOf(v, st)
		if !ok {
			x.unsupported("%s: MakeInterface of %T", fr.fn, v)
			return
		}
		fr.regs[i] = TV{T: tc.makeAny(i.X.Type(), t, func() Term { return x.fresh("opq", SInt) })}
	case KErr:
		fr.regs[i] = TV{T: mk(SErr, "SomeErr", x.fresh("errid", SInt))}
	default:
		fr.regs[i] = TV{T: x.fresh("iface", target)}
	}
}

func (fr *Frame) typeAssert(i *ssa.TypeAssert, st *State, g Term) {
	x := fr.x
	tc := x.eng.tc
	v := fr.val(i.X, st)
	if _, ok := v.(IfaceRef); ok {
		x.unsupported("%s: type assertion on interface wrapping a cell", fr.fn)
		return
	}
	t, _ := x.termOf(v, st)
	if t.Sort.Kind != KAny {
		x.unsupported("%s: type assertion on sort %s", fr.fn, t.Sort.Name)
		if i.CommaOk {
			fr.regs[i] = Tuple{TV{T: x.fresh("ta", tc.sortOf(i.AssertedType))}, TV{T: x.fresh("ok", SBool)}}
		} else {
			fr.regs[i] = TV{T: x.fresh("ta", tc.sortOf(i.AssertedType))}
		}
		return
	}
	if _, isIface := i.AssertedType.Underlying().(*types.Interface); isIface {
		x.unsupported("%s: assertion to interface type %s", fr.fn, i.AssertedType)
		return
	}
	is := tc.isAny(i.AssertedType, t)
	ps := tc.sortOf(i.AssertedType)
	pay, ok := tc.anyPayload(i.AssertedType, t)
	var val Term
	if ok {
		val = pay
	} else {
		val = x.fresh("opqval", ps)
	}
	var origin *PV
	if tv, isTV := v.(TV); isTV && tv.Origin != nil && ok {
		o := *tv.Origin
		o.Path = append(append([]Sel{}, o.Path...), Sel{Kind: SelAnyPayload, Ctor: tc.ctorFor(i.AssertedType)})
		origin = &o
	}
	if i.CommaOk {
		fr.regs[i] = Tuple{TV{T: Ite(is, val, x.zero(ps, nil)), Origin: origin}, TV{T: is}}
		return
	}
	fr.safety(g, "assert-type", i.Pos(), is, "unchecked type assertion to "+types.TypeString(i.AssertedType, nil))
	fr.regs[i] = TV{T: val, Origin: origin}
}

func (fr *Frame) convert(i *ssa.Convert, st *State, g Term) {
	x := fr.x
	tc := x.eng.tc
	from := tc.sortOf(i.X.Type())
	to := tc.sortOf(i.Type())
	t := fr.term(i.X, st)
	switch {
	case from == to:
		fr.regs[i] = TV{T: t}
	case from == SInt && to == SStr:
		fr.regs[i] = TV{T: mk(SStr, "str_of_rune", t)}
	case from == SInt && to == SF64:
		fr.regs[i] = TV{T: mk(SF64, "f64_of_int", t)}
	case from == SF64 && to == SInt:
		fr.regs[i] = TV{T: mk(SInt, "int_of_f64", t)}
	default:
		x.unsupported("%s: conversion %s -> %s", fr.fn, from.Name, to.Name)
		fr.regs[i] = TV{T: x.fresh("conv", to)}
	}
}

// isGhostOperand: the interface value is only used as an argument of a ghost call.
func (fr *Frame) isGhostOperand(i *ssa.MakeInterface) bool {
	refs := i.Referrers()
	if refs == nil || len(*refs) == 0 {
		return false
	}
	for _, r := range *refs {
		c, ok := r.(*ssa.Call)
		if !ok || ghostKind(c) == "" {
			if _, isDbg := r.(*ssa.DebugRef); isDbg {
				continue
			}
			return false
		}
	}
	return true
}

func onlyLibCallOperand(i *ssa.MakeInterface, e *Engine) bool {
	refs := i.Referrers()
	if refs == nil || len(*refs) == 0 {
		return false
	}
	for _, r := range *refs {
		if _, isDbg := r.(*ssa.DebugRef); isDbg {
			continue
		}
		c, ok := r.(*ssa.Call)
		if !ok {
			return false
		}
		callee := c.Call.StaticCallee()
		if callee == nil || e.inRepo(callee) {
			return false
		}
	}
	return true
}
