package main

import (
	"bytes"
	"fmt"
	"go/ast"
	"go/format"
	"go/parser"
	"go/token"
	"os"
	"path/filepath"
	"regexp"
	"sort"
	"strings"
)

// A Clause is one requires/ensures/invariant/... line of a contract.
type Clause struct {
	Kind  string // requires ensures invariant rangeinv decreases loopdec assert
	Label string
	Loop  int    // loop ordinal for invariant/rangeinv/loopdec
	LoopAnchor string // or: text contained in the loop's header
	Before string // anchor text for assert
	Expr  string
	Line  string // file:line of the directive
	GenName string // generated function name (requires/ensures/decreases)
}

// Contract is the set of directives for one function.
type Contract struct {
	PkgDir   string
	PkgName  string
	FuncName string // as written: lexSpace, (*Lexer).next
	ID       string // identifier-safe: lexSpace, Lexer_next
	Clauses  []*Clause
	Flags    map[string]bool // inline pure trusted noinline lemma
	Props    []string
	Fuel     int
	Use      map[string]map[string]bool
	Rank     int
	FuelFor  map[string]int
	File     string
	Broken   string   // why the whole contract was dropped (it does not compile against the current sources)
	Missing  []string // "assert/<label>: <why>": directives whose anchor no longer exists (each becomes a failed obligation)
}

func (c *Contract) clauses(kind string) []*Clause {
	var out []*Clause
	for _, cl := range c.Clauses {
		if cl.Kind == kind {
			out = append(out, cl)
		}
	}
	return out
}

var reFuncDirective = regexp.MustCompile(`^func\s+(.+)$`)
var reLoop = regexp.MustCompile(`^loop\s+(\d+|"(?:[^"\\]|\\.)*")\s*:\s*(invariant|rangeinv|decreases|with)\s*(?:\[([A-Za-z0-9_\-]+)\])?\s+(.*)$`)
var reAssert = regexp.MustCompile(`^(assert|lemma|ghost)\s+([A-Za-z0-9_\-]+)\s+before\s+"((?:[^"\\]|\\.)*)"\s*:\s*(.*)$`)
var reClause = regexp.MustCompile(`^(requires|ensures|decreases|fmtwhen|assumes)\s*(?:\[([A-Za-z0-9_\-]+)\])?\s+(.*)$`)

func funcID(name string) string {
	s := strings.NewReplacer("(*", "", "(", "", ")", "", ".", "_", "[", "_", "]", "_").Replace(name)
	return sanitize(s)
}

// parseContractFile extracts the //@ directives of one contracts file.
func parseContractFile(path string) ([]*Contract, error) {
	data, err := os.ReadFile(path)
	if err != nil {
		return nil, err
	}
	var out []*Contract
	var cur *Contract
	var last *Clause
	pkgName := ""
	for i, line := range strings.Split(string(data), "\n") {
		t := strings.TrimSpace(line)
		if strings.HasPrefix(t, "package ") && pkgName == "" {
			pkgName = strings.TrimSpace(strings.TrimPrefix(t, "package "))
		}
		if strings.HasPrefix(t, "// @") {
			t = "//@" + t[4:] // gofmt rewrites directive comments inside doc comments
		}
		if !strings.HasPrefix(t, "//@") {
			if cur != nil && t != "" && !strings.HasPrefix(t, "//") {
				cur, last = nil, nil
			}
			continue
		}
		body := strings.TrimSpace(strings.TrimPrefix(t, "//@"))
		if body == "" {
			continue
		}
		loc := fmt.Sprintf("%s:%d", path, i+1)
		if m := reFuncDirective.FindStringSubmatch(body); m != nil {
			cur = &Contract{PkgDir: filepath.Dir(path), PkgName: pkgName, FuncName: strings.TrimSpace(m[1]), Flags: map[string]bool{}, File: path}
			cur.ID = funcID(cur.FuncName)
			out = append(out, cur)
			last = nil
			continue
		}
		if cur == nil {
			return nil, fmt.Errorf("%s: directive outside a func block: %s", loc, body)
		}
		if m := reLoop.FindStringSubmatch(body); m != nil {
			k := 0
			anchor := ""
			if strings.HasPrefix(m[1], `"`) {
				// loop "text": the first loop whose header contains the text (robust against added loops)
				anchor = strings.Trim(m[1], `"`)
				k = -1
			} else {
				fmt.Sscanf(m[1], "%d", &k)
			}
			kind := m[2]
			if kind == "decreases" {
				kind = "loopdec"
			}
			last = &Clause{Kind: kind, Loop: k, LoopAnchor: anchor, Label: m[3], Expr: m[4], Line: loc}
			cur.Clauses = append(cur.Clauses, last)
			continue
		}
		if m := reAssert.FindStringSubmatch(body); m != nil {
			last = &Clause{Kind: m[1], Label: m[2], Before: m[3], Expr: m[4], Line: loc}
			cur.Clauses = append(cur.Clauses, last)
			continue
		}
		if m := reClause.FindStringSubmatch(body); m != nil {
			last = &Clause{Kind: m[1], Label: m[2], Expr: m[3], Line: loc}
			cur.Clauses = append(cur.Clauses, last)
			continue
		}
		fields := strings.Fields(body)
		switch fields[0] {
		case "inline", "pure", "trusted", "noinline", "lemma", "spec", "functional", "structural":
			for _, f := range fields {
				cur.Flags[f] = true
			}
			last = nil
			continue
		case "use":
			// use <callee>: label label ...   (which labelled ensures of the callee this function relies on)
			rest := strings.TrimSpace(strings.TrimPrefix(body, "use"))
			if i := strings.Index(rest, ":"); i > 0 {
				if cur.Use == nil {
					cur.Use = map[string]map[string]bool{}
				}
				m := map[string]bool{}
				for _, l := range strings.Fields(rest[i+1:]) {
					m[l] = true
				}
				cur.Use[strings.TrimSpace(rest[:i])] = m
			}
			last = nil
			continue
		case "rank":
			fmt.Sscanf(fields[1], "%d", &cur.Rank)
			last = nil
			continue
		case "props":
			cur.Props = append(cur.Props, fields[1:]...)
			last = nil
			continue
		case "fuel":
			for _, f := range fields[1:] {
				if i := strings.Index(f, "="); i > 0 {
					n := 0
					fmt.Sscanf(f[i+1:], "%d", &n)
					if cur.FuelFor == nil {
						cur.FuelFor = map[string]int{}
					}
					cur.FuelFor[f[:i]] = n
				} else {
					fmt.Sscanf(f, "%d", &cur.Fuel)
				}
			}
			last = nil
			continue
		}
		if last == nil {
			return nil, fmt.Errorf("%s: cannot parse directive: %s", loc, body)
		}
		last.Expr += " " + body
	}
	return out, nil
}

// ---- "==>" and old() rewriting --------------------------------------------

// rewriteImp turns a ==> b (lowest precedence, right associative) into (!(a) || (b)).
func rewriteImp(s string) string {
	depth := 0
	inStr := byte(0)
	for i := 0; i < len(s); i++ {
		c := s[i]
		if inStr != 0 {
			if c == '\\' && inStr != '`' {
				i++
			} else if c == inStr {
				inStr = 0
			}
			continue
		}
		switch c {
		case '"', '\'', '`':
			inStr = c
		case '(', '[', '{':
			depth++
		case ')', ']', '}':
			depth--
		case '=':
			if depth == 0 && strings.HasPrefix(s[i:], "==>") {
				return "(!(" + rewriteImp(s[:i]) + ") || (" + rewriteImp(s[i+3:]) + "))"
			}
		}
	}
	// no top-level ==>: descend into groups
	var b strings.Builder
	depth = 0
	inStr = 0
	start := -1
	for i := 0; i < len(s); i++ {
		c := s[i]
		if inStr != 0 {
			if depth == 0 {
				b.WriteByte(c)
			}
			if c == '\\' && inStr != '`' {
				i++
				if depth == 0 && i < len(s) {
					b.WriteByte(s[i])
				}
			} else if c == inStr {
				inStr = 0
			}
			continue
		}
		switch c {
		case '"', '\'', '`':
			inStr = c
			if depth == 0 {
				b.WriteByte(c)
			}
		case '(', '[', '{':
			if depth == 0 {
				b.WriteByte(c)
				start = i + 1
			}
			depth++
		case ')', ']', '}':
			depth--
			if depth == 0 {
				inner := s[start:i]
				if s[start-1] == '{' {
					ti := strings.TrimSpace(inner)
					if strings.HasPrefix(ti, "return ") {
						b.WriteString(" return " + rewriteImp(strings.TrimPrefix(ti, "return ")) + " ")
					} else {
						b.WriteString(rewriteImp(inner))
					}
				} else {
					b.WriteString(rewriteImp(inner))
				}
				b.WriteByte(c)
			}
		default:
			if depth == 0 {
				b.WriteByte(c)
			}
		}
	}
	return b.String()
}

// rewriteOld replaces old(E) by E with pointer parameters renamed p -> p__old.
func rewriteOld(src string, ptrParams map[string]bool) (string, error) {
	e, err := parser.ParseExpr(src)
	if err != nil {
		return "", err
	}
	var rename func(n ast.Node)
	rename = func(n ast.Node) {
		ast.Inspect(n, func(m ast.Node) bool {
			if sel, ok := m.(*ast.SelectorExpr); ok {
				rename(sel.X)
				return false
			}
			if id, ok := m.(*ast.Ident); ok && ptrParams[id.Name] {
				id.Name = id.Name + "__old"
			}
			return true
		})
	}
	var walk func(n ast.Node) ast.Node
	replaced := map[*ast.CallExpr]ast.Expr{}
	ast.Inspect(e, func(n ast.Node) bool {
		if c, ok := n.(*ast.CallExpr); ok {
			if id, ok := c.Fun.(*ast.Ident); ok && id.Name == "old" && len(c.Args) == 1 {
				rename(c.Args[0])
				replaced[c] = &ast.ParenExpr{X: c.Args[0]}
				return false
			}
		}
		return true
	})
	_ = walk
	// substitute
	e2 := substExpr(e, replaced)
	var buf bytes.Buffer
	if err := format.Node(&buf, token.NewFileSet(), e2); err != nil {
		return "", err
	}
	return buf.String(), nil
}

func substExpr(e ast.Expr, repl map[*ast.CallExpr]ast.Expr) ast.Expr {
	if c, ok := e.(*ast.CallExpr); ok {
		if r, ok := repl[c]; ok {
			return r
		}
	}
	// generic in-place child substitution
	ast.Inspect(e, func(n ast.Node) bool {
		switch x := n.(type) {
		case *ast.BinaryExpr:
			x.X, x.Y = substExpr(x.X, repl), substExpr(x.Y, repl)
			return false
		case *ast.UnaryExpr:
			x.X = substExpr(x.X, repl)
			return false
		case *ast.ParenExpr:
			x.X = substExpr(x.X, repl)
			return false
		case *ast.CallExpr:
			x.Fun = substExpr(x.Fun, repl)
			for i := range x.Args {
				x.Args[i] = substExpr(x.Args[i], repl)
			}
			return false
		case *ast.IndexExpr:
			x.X, x.Index = substExpr(x.X, repl), substExpr(x.Index, repl)
			return false
		case *ast.SliceExpr:
			x.X = substExpr(x.X, repl)
			if x.Low != nil {
				x.Low = substExpr(x.Low, repl)
			}
			if x.High != nil {
				x.High = substExpr(x.High, repl)
			}
			return false
		case *ast.SelectorExpr:
			x.X = substExpr(x.X, repl)
			return false
		case *ast.StarExpr:
			x.X = substExpr(x.X, repl)
			return false
		case *ast.TypeAssertExpr:
			x.X = substExpr(x.X, repl)
			return false
		case *ast.CompositeLit:
			for i := range x.Elts {
				if kv, ok := x.Elts[i].(*ast.KeyValueExpr); ok {
					kv.Value = substExpr(kv.Value, repl)
				} else {
					x.Elts[i] = substExpr(x.Elts[i], repl)
				}
			}
			return false
		case *ast.FuncLit:
			ast.Inspect(x.Body, func(m ast.Node) bool {
				switch s := m.(type) {
				case *ast.ReturnStmt:
					for i := range s.Results {
						s.Results[i] = substExpr(s.Results[i], repl)
					}
					return false
				case *ast.ExprStmt:
					s.X = substExpr(s.X, repl)
					return false
				}
				return true
			})
			return false
		}
		return true
	})
	return e
}

// ---- weaving ---------------------------------------------------------------

type splice struct {
	off  int
	text string
	prio int // among splices at the same offset, higher priority text comes first
}

type srcFile struct {
	path  string
	fset  *token.FileSet
	file  *ast.File
	src   []byte
	splices []splice
	needImport bool
	extraImports map[string]string
}

type weaver struct {
	files map[string]*srcFile // by path
	gen   map[string]*bytes.Buffer // pkg dir -> generated decls
	genImports map[string]map[string]string // pkg dir -> name -> path
	pkgNames map[string]string
	errs  []string
	orphans []*Contract // contracts whose function no longer exists
	spliceOwner map[string]*Contract // "file:line" of a spliced ghost statement -> its contract
	contracts   []*Contract
}

const verifspecPath = "github.com/grindlemire/go-lucene/internal/verifspec"

func (w *weaver) loadDir(dir string) error {
	ents, err := os.ReadDir(dir)
	if err != nil {
		return err
	}
	for _, e := range ents {
		n := e.Name()
		if !strings.HasSuffix(n, ".go") || strings.HasSuffix(n, "_test.go") {
			continue
		}
		p := filepath.Join(dir, n)
		src, err := os.ReadFile(p)
		if err != nil {
			return err
		}
		fset := token.NewFileSet()
		f, err := parser.ParseFile(fset, p, src, parser.ParseComments)
		if err != nil {
			return err
		}
		w.files[p] = &srcFile{path: p, fset: fset, file: f, src: src}
		w.pkgNames[dir] = f.Name.Name
	}
	return nil
}

// findFunc locates the declaration of a contract's function in its package dir.
func (w *weaver) findFunc(c *Contract) (*srcFile, *ast.FuncDecl) {
	recv, name := "", c.FuncName
	if strings.HasPrefix(name, "(") {
		i := strings.Index(name, ").")
		recv, name = name[1:i], name[i+2:]
	}
	for _, sf := range w.files {
		if filepath.Dir(sf.path) != c.PkgDir || strings.HasPrefix(filepath.Base(sf.path), "zz_verif") {
			continue
		}
		for _, d := range sf.file.Decls {
			fd, ok := d.(*ast.FuncDecl)
			if !ok || fd.Name.Name != name {
				continue
			}
			r := ""
			if fd.Recv != nil && len(fd.Recv.List) == 1 {
				r = exprText(sf, fd.Recv.List[0].Type)
			}
			if r == recv {
				return sf, fd
			}
		}
	}
	// spec functions may live in the contracts file itself
	for _, sf := range w.files {
		if filepath.Dir(sf.path) != c.PkgDir {
			continue
		}
		for _, d := range sf.file.Decls {
			fd, ok := d.(*ast.FuncDecl)
			if ok && fd.Name.Name == name && recv == "" && fd.Recv == nil {
				return sf, fd
			}
		}
	}
	return nil, nil
}

func exprText(sf *srcFile, e ast.Node) string {
	return string(sf.src[sf.fset.Position(e.Pos()).Offset:sf.fset.Position(e.End()).Offset])
}

// loopsOf lists loop statements of a function body in source order, with the
// offset at which a ghost statement for that loop has to be inserted.
func loopsOf(sf *srcFile, fd *ast.FuncDecl) []int {
	var offs []int
	var visit func(n ast.Node, labelPos token.Pos)
	visit = func(n ast.Node, labelPos token.Pos) {
		ast.Inspect(n, func(m ast.Node) bool {
			switch x := m.(type) {
			case *ast.FuncLit:
				return false
			case *ast.LabeledStmt:
				switch x.Stmt.(type) {
				case *ast.ForStmt, *ast.RangeStmt:
					offs = append(offs, sf.fset.Position(x.Pos()).Offset)
					// visit the body of the loop but not the loop itself again
					switch l := x.Stmt.(type) {
					case *ast.ForStmt:
						visit(l.Body, token.NoPos)
					case *ast.RangeStmt:
						visit(l.Body, token.NoPos)
					}
					return false
				}
			case *ast.ForStmt:
				if m != n {
					offs = append(offs, sf.fset.Position(x.Pos()).Offset)
				}
			case *ast.RangeStmt:
				if m != n {
					offs = append(offs, sf.fset.Position(x.Pos()).Offset)
				}
			}
			return true
		})
	}
	visit(fd.Body, token.NoPos)
	sort.Ints(offs)
	return offs
}

func (w *weaver) fail(format string, a ...any) { w.errs = append(w.errs, fmt.Sprintf(format, a...)) }

func fileImports(f *ast.File) map[string]string {
	m := map[string]string{}
	for _, im := range f.Imports {
		p := strings.Trim(im.Path.Value, `"`)
		name := p
		if i := strings.LastIndex(p, "/"); i >= 0 {
			name = p[i+1:]
		}
		if im.Name != nil {
			name = im.Name.Name
		}
		m[name] = p
	}
	return m
}

// weave processes one contract: splices loop ghosts into the source file and
// appends requires/ensures wrapper functions to the generated file.
func (w *weaver) weave(c *Contract) {
	w.contracts = append(w.contracts, c)
	sf, fd := w.findFunc(c)
	if sf != nil {
		before := len(sf.splices)
		defer func() {
			if w.spliceOwner == nil {
				w.spliceOwner = map[string]*Contract{}
			}
			for _, sp := range sf.splices[before:] {
				line := 1 + bytes.Count(sf.src[:sp.off], []byte("\n"))
				w.spliceOwner[fmt.Sprintf("%s:%d", sf.path, line)] = c
			}
		}()
	}
	if fd == nil {
		// the function a contract names is gone (renamed, receiver kind changed, removed): only this
		// contract is lost - it becomes one failed obligation of that function, the rest still loads
		w.orphans = append(w.orphans, c)
		return
	}
	// parameter list for wrappers
	type prm struct{ name, typ string; ptr bool }
	var params []prm
	ptrParams := map[string]bool{}
	addField := func(f *ast.Field, dflt string, idx *int) {
		typ := exprText(sf, f.Type)
		isPtr := false
		if _, ok := f.Type.(*ast.StarExpr); ok {
			isPtr = true
		}
		if strings.HasPrefix(typ, "...") {
			typ = "[]" + typ[3:]
		}
		if len(f.Names) == 0 {
			params = append(params, prm{fmt.Sprintf("%s%d", dflt, *idx), typ, isPtr})
			*idx++
			return
		}
		for _, n := range f.Names {
			name := n.Name
			if name == "_" {
				name = fmt.Sprintf("%s%d", dflt, *idx)
			}
			*idx++
			params = append(params, prm{name, typ, isPtr})
		}
	}
	k := 0
	if fd.Recv != nil {
		for _, f := range fd.Recv.List {
			addField(f, "recv", &k)
		}
	}
	k = 0
	for _, f := range fd.Type.Params.List {
		addField(f, "_p", &k)
	}
	var results []prm
	if fd.Type.Results != nil {
		n := fd.Type.Results.NumFields()
		k = 0
		for _, f := range fd.Type.Results.List {
			typ := exprText(sf, f.Type)
			if len(f.Names) == 0 {
				name := "result"
				if n > 1 {
					name = fmt.Sprintf("result%d", k)
				}
				results = append(results, prm{name, typ, false})
				k++
				continue
			}
			for _, nm := range f.Names {
				results = append(results, prm{nm.Name, typ, false})
				k++
			}
		}
	}
	for _, p := range params {
		if p.ptr {
			ptrParams[p.name] = true
		}
	}
	imports := w.genImports[c.PkgDir]
	if imports == nil {
		imports = map[string]string{}
		w.genImports[c.PkgDir] = imports
	}
	avail := fileImports(sf.file)
	if cf := w.files[c.File]; cf != nil {
		for k, v := range fileImports(cf.file) {
			avail[k] = v
		}
	}
	avail["verifspec"] = verifspecPath
	noteImports := func(code string) {
		e, err := parser.ParseExpr("func(){" + code + "}")
		if err != nil {
			return
		}
		ast.Inspect(e, func(n ast.Node) bool {
			if sel, ok := n.(*ast.SelectorExpr); ok {
				if id, ok := sel.X.(*ast.Ident); ok {
					if p, ok := avail[id.Name]; ok {
						imports[id.Name] = p
					}
				}
			}
			return true
		})
	}
	gen := w.gen[c.PkgDir]
	if gen == nil {
		gen = &bytes.Buffer{}
		w.gen[c.PkgDir] = gen
	}
	plist := func(withOld, withRes bool) string {
		var ps []string
		for _, p := range params {
			ps = append(ps, p.name+" "+p.typ)
		}
		if withOld {
			for _, p := range params {
				if p.ptr {
					ps = append(ps, p.name+"__old "+p.typ)
				}
			}
		}
		if withRes {
			for _, r := range results {
				ps = append(ps, r.name+" "+r.typ)
			}
		}
		return strings.Join(ps, ", ")
	}
	loops := loopsOf(sf, fd)
	// resolve loop anchors to ordinals
	for _, cl := range c.Clauses {
		if cl.LoopAnchor == "" {
			continue
		}
		cl.Loop = -1
		for k, off := range loops {
			if strings.Contains(loopHeaderAt(sf, fd, off), cl.LoopAnchor) {
				cl.Loop = k
				break
			}
		}
		if cl.Loop < 0 {
			cl.Loop = len(loops) + 1000
		}
	}
	n := 0
	loopParams := map[int]string{}
	for _, cl := range c.Clauses {
		if cl.Kind == "with" {
			loopParams[cl.Loop] = cl.Expr
		}
	}
	oldUsed := map[string]bool{}
	valOldUsed := map[string]bool{}
	allParams := map[string]bool{}
	for _, p := range params {
		allParams[p.name] = true
	}
	for _, cl := range c.Clauses {
		expr := rewriteImp(cl.Expr)
		if cl.Kind == "invariant" || cl.Kind == "rangeinv" || cl.Kind == "loopdec" || cl.Kind == "assert" || cl.Kind == "lemma" {
			if strings.Contains(expr, "old(") {
				for p := range ptrParams {
					oldUsed[p] = true
				}
				for _, p := range params {
					if !p.ptr && strings.Contains(expr, p.name) {
						valOldUsed[p.name] = true
					}
				}
				src := expr
				if cl.Kind == "lemma" {
					src = "func() { " + expr + " }"
				}
				e2, err := rewriteOld(src, allParams)
				if err == nil && cl.Kind == "lemma" {
					e2 = strings.TrimSpace(e2)
					e2 = strings.TrimSuffix(strings.TrimPrefix(e2, "func() {"), "}")
					e2 = strings.ReplaceAll(strings.TrimSpace(e2), "\n", "; ")
				}
				if err != nil {
					w.fail("%s: %v in %q", cl.Line, err, expr)
					continue
				}
				expr = e2
			}
		}
		switch cl.Kind {
		case "with":
		case "requires", "ensures", "decreases", "fmtwhen", "assumes":
			if cl.Kind == "ensures" {
				e2, err := rewriteOld(expr, ptrParams)
				if err != nil {
					w.fail("%s: %v in %q", cl.Line, err, expr)
					continue
				}
				expr = e2
			}
			if _, err := parser.ParseExpr(expr); err != nil {
				w.fail("%s: %v in %q", cl.Line, err, expr)
				continue
			}
			short := map[string]string{"requires": "req", "ensures": "ens", "decreases": "dec", "fmtwhen": "fmt", "assumes": "asm"}[cl.Kind]
			cl.GenName = fmt.Sprintf("vc__%s__%s__%d", short, c.ID, n)
			n++
			ret := "bool"
			if cl.Kind == "decreases" {
				ret = "int"
			}
			sig := plist(cl.Kind == "ensures", cl.Kind == "ensures")
			fmt.Fprintf(gen, "func %s(%s) %s { return %s }\n\n", cl.GenName, sig, ret, expr)
			noteImports("_ = func(" + sig + "){ _ = " + expr + "}")
		case "invariant", "rangeinv", "loopdec":
			if cl.Loop >= len(loops) {
				lbl := cl.Label
				if lbl == "" {
					lbl = cl.Kind
				}
				c.Missing = append(c.Missing, fmt.Sprintf("inv/loop%d/%s: the loop this directive annotates no longer exists (%s has %d loops)", cl.Loop%1000, lbl, c.FuncName, len(loops)))
				continue
			}
			if _, err := parser.ParseExpr(expr); err != nil {
				w.fail("%s: %v in %q", cl.Line, err, expr)
				continue
			}
			var text string
			switch cl.Kind {
			case "invariant":
				text = fmt.Sprintf("verifspec.Invariant(func(%s) bool { return %s }, %q); ", loopParams[cl.Loop], expr, cl.Label)
			case "rangeinv":
				ps := "idx int"
				if loopParams[cl.Loop] != "" {
					ps += ", " + loopParams[cl.Loop]
				}
				text = fmt.Sprintf("verifspec.Invariant(func(%s) bool { return %s }, %q); ", ps, expr, cl.Label)
			case "loopdec":
				text = fmt.Sprintf("verifspec.Decreases(func(%s) int { return %s }); ", loopParams[cl.Loop], expr)
			}
			sf.splices = append(sf.splices, splice{loops[cl.Loop], text, 0})
			sf.needImport = true
		case "assert", "lemma", "ghost":
			off := -1
			ast.Inspect(fd.Body, func(m ast.Node) bool {
				if off >= 0 {
					return false
				}
				if _, ok := m.(*ast.FuncLit); ok {
					return false
				}
				if st, ok := m.(ast.Stmt); ok {
					if _, isBlock := st.(*ast.BlockStmt); !isBlock && strings.HasPrefix(exprText(sf, st), cl.Before) {
						off = sf.fset.Position(st.Pos()).Offset
						return false
					}
				}
				return true
			})
			if off < 0 {
				// no statement starts with the anchor text: take the first statement whose own text (for a
				// compound statement: its header, without the body) contains it
				ast.Inspect(fd.Body, func(m ast.Node) bool {
					if off >= 0 {
						return false
					}
					if _, ok := m.(*ast.FuncLit); ok {
						return false
					}
					if st, ok := m.(ast.Stmt); ok {
						if _, isBlock := st.(*ast.BlockStmt); !isBlock && strings.Contains(headerText(sf, st), cl.Before) {
							off = sf.fset.Position(st.Pos()).Offset
							return false
						}
					}
					return true
				})
			}
			if off < 0 {
				if cl.Kind == "assert" || cl.Kind == "lemma" {
					// the annotated statement is gone: this directive cannot be checked any more, the
					// rest of the contract can - it becomes one failed obligation instead of a load error
					c.Missing = append(c.Missing, fmt.Sprintf("%s/%s: the statement this directive annotates (%q) no longer occurs in %s", cl.Kind, cl.Label, cl.Before, c.FuncName))
					continue
				}
				w.fail("%s: anchor %q not found in %s", cl.Line, cl.Before, c.FuncName)
				continue
			}
			text := fmt.Sprintf("verifspec.Assert(%q, func() bool { return %s }); ", cl.Label, expr)
			if cl.Kind == "lemma" {
				text = fmt.Sprintf("verifspec.Lemma(func() { %s }); ", expr)
			}
			prio := 0
			if cl.Kind == "ghost" {
				// ghost <name> before "anchor": <expr>   declares a ghost snapshot variable
				text = fmt.Sprintf("%s := %s; _ = %s; ", cl.Label, cl.Expr, cl.Label)
				prio = 1
			}
			sf.splices = append(sf.splices, splice{off, text, prio})
			sf.needImport = true
		}
	}
	// packages the spliced ghost text mentions but the source file does not import
	have := fileImports(sf.file)
	for _, sp := range sf.splices {
		for _, m := range regexp.MustCompile(`\b([A-Za-z_][A-Za-z0-9_]*)\.`).FindAllStringSubmatch(sp.text, -1) {
			name := m[1]
			if path, ok := avail[name]; ok {
				if _, has := have[name]; !has && name != "verifspec" {
					if sf.extraImports == nil {
						sf.extraImports = map[string]string{}
					}
					sf.extraImports[name] = path
				}
			}
		}
	}
	if len(oldUsed)+len(valOldUsed) > 0 {
		// ghost snapshots of the pointees at function entry (shallow copies)
		var names []string
		for p := range oldUsed {
			names = append(names, p)
		}
		sort.Strings(names)
		text := ""
		for _, p := range names {
			text += fmt.Sprintf(" %s__oldv := *%s; %s__old := &%s__oldv; _ = %s__old;", p, p, p, p, p)
		}
		var vnames []string
		for p := range valOldUsed {
			vnames = append(vnames, p)
		}
		sort.Strings(vnames)
		for _, p := range vnames {
			text += fmt.Sprintf(" %s__old := %s; _ = %s__old;", p, p, p)
		}
		sf.splices = append(sf.splices, splice{sf.fset.Position(fd.Body.Lbrace).Offset + 1, text, 2})
	}
}

// overlay returns path -> contents for every woven or generated file.
func (w *weaver) overlay() map[string][]byte {
	out := map[string][]byte{}
	for _, sf := range w.files {
		if len(sf.splices) == 0 {
			continue
		}
		sp := append([]splice(nil), sf.splices...)
		sort.SliceStable(sp, func(i, j int) bool {
			if sp[i].off != sp[j].off {
				return sp[i].off > sp[j].off
			}
			return sp[i].prio < sp[j].prio // applied later = ends up first
		})
		src := append([]byte(nil), sf.src...)
		for _, s := range sp {
			src = append(src[:s.off], append([]byte(s.text), src[s.off:]...)...)
		}
		if _, has := fileImports(sf.file)["verifspec"]; !has {
			// add the import on the package clause line (keeps line numbers)
			end := sf.fset.Position(sf.file.Name.End()).Offset
			src = append(src[:end], append([]byte(`; import verifspec "`+verifspecPath+`"`), src[end:]...)...)
		}
		var names []string
		for n := range sf.extraImports {
			names = append(names, n)
		}
		sort.Strings(names)
		for _, n := range names {
			end := sf.fset.Position(sf.file.Name.End()).Offset
			src = append(src[:end], append([]byte(fmt.Sprintf(`; import %s %q`, n, sf.extraImports[n])), src[end:]...)...)
		}
		out[sf.path] = src
	}
	for dir, buf := range w.gen {
		var b bytes.Buffer
		fmt.Fprintf(&b, "//go:build verif\n\npackage %s\n\n", w.pkgNames[dir])
		var names []string
		for n := range w.genImports[dir] {
			names = append(names, n)
		}
		sort.Strings(names)
		for _, n := range names {
			fmt.Fprintf(&b, "import %s %q\n", n, w.genImports[dir][n])
		}
		b.WriteString("\n")
		b.Write(buf.Bytes())
		out[filepath.Join(dir, "zz_verif_gen.go")] = b.Bytes()
	}
	return out
}

// headerText: the source text of a statement without the bodies of compound statements.
func headerText(sf *srcFile, st ast.Stmt) string {
	var body *ast.BlockStmt
	switch x := st.(type) {
	case *ast.IfStmt:
		body = x.Body
	case *ast.ForStmt:
		body = x.Body
	case *ast.RangeStmt:
		body = x.Body
	case *ast.SwitchStmt:
		body = x.Body
	case *ast.TypeSwitchStmt:
		body = x.Body
	case *ast.SelectStmt:
		body = x.Body
	case *ast.LabeledStmt:
		return ""
	case *ast.CaseClause:
		return ""
	}
	t := exprText(sf, st)
	if body != nil {
		n := sf.fset.Position(body.Pos()).Offset - sf.fset.Position(st.Pos()).Offset
		if n >= 0 && n <= len(t) {
			return t[:n]
		}
	}
	return t
}

// loopHeaderAt: the header text of the loop statement that starts at the given offset.
func loopHeaderAt(sf *srcFile, fd *ast.FuncDecl, off int) string {
	out := ""
	ast.Inspect(fd.Body, func(m ast.Node) bool {
		if out != "" || m == nil {
			return false
		}
		st, ok := m.(ast.Stmt)
		if !ok || sf.fset.Position(st.Pos()).Offset != off {
			return true
		}
		if ls, isL := st.(*ast.LabeledStmt); isL {
			st = ls.Stmt
		}
		switch st.(type) {
		case *ast.ForStmt, *ast.RangeStmt:
			out = headerText(sf, st)
			if out == "" {
				out = " "
			}
			return false
		}
		return true
	})
	return out
}

var reErrPos = regexp.MustCompile(`^(.*?\.go):(\d+):(\d+): `)
var reGenFn = regexp.MustCompile(`^func vc__[a-z]+__(.+)__\d+\(`)

// contractAt finds the contract responsible for a compile error: one of its generated clause
// functions, or a ghost statement woven into the function it annotates.
func (w *weaver) contractAt(errText string, overlay map[string][]byte) *Contract {
	m := reErrPos.FindStringSubmatch(errText)
	if m == nil {
		return nil
	}
	file := m[1]
	line := 0
	fmt.Sscanf(m[2], "%d", &line)
	if strings.HasSuffix(file, "zz_verif_gen.go") {
		lines := strings.Split(string(overlay[file]), "\n")
		for i := line - 1; i >= 0 && i < len(lines); i-- {
			if g := reGenFn.FindStringSubmatch(lines[i]); g != nil {
				for _, c := range w.contracts {
					if c.ID == g[1] && filepath.Dir(file) == c.PkgDir {
						return c
					}
				}
				return nil
			}
		}
		return nil
	}
	if c, ok := w.spliceOwner[fmt.Sprintf("%s:%d", file, line)]; ok {
		return c
	}
	return nil
}
