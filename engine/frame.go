package main

import (
	"fmt"
	"go/token"
	"go/types"
	"sort"
	"strings"

	"golang.org/x/tools/go/ssa"
)

// Frame analysis (property C14): the entry points write no memory that existed
// before the call and read shared memory that nothing writes after package
// initialisation.  Every check below is a syntactic / data-flow fact over the
// SSA of the current tree; each becomes a named obligation with status proved
// or failed (solver "static").

var frameEntries = []string{
	modPath + ".Parse",
	modPath + ".ToPostgres",
	modPath + ".ToParameterizedPostgres",
	modPath + "/pkg/driver.(Base).Render",
	modPath + "/pkg/driver.(Base).RenderParam",
	modPath + "/pkg/lucene/expr.(Expression).String",
	modPath + "/pkg/lucene/expr.(Expression).GoString",
	modPath + "/pkg/lucene/expr.(Expression).MarshalJSON",
	modPath + "/pkg/lucene/expr.Validate",
}

func (e *Engine) realFunc(f *ssa.Function) bool {
	return e.inRepo(f) && !e.specFns[f] && len(f.Blocks) > 0
}

// frameReachable: functions reachable from the entry points (static calls, the
// candidates of dynamic calls, closures, and the String/GoString/MarshalJSON
// methods that fmt and encoding/json call back).
func (e *Engine) frameReachable() []*ssa.Function {
	seen := map[*ssa.Function]bool{}
	var order []*ssa.Function
	var callbacks []*ssa.Function
	for _, f := range e.allFuncs {
		if f.Signature.Recv() != nil && e.realFunc(f) {
			switch f.Name() {
			case "String", "GoString", "MarshalJSON", "Error":
				callbacks = append(callbacks, f)
			}
		}
	}
	var visit func(f *ssa.Function)
	visit = func(f *ssa.Function) {
		if f == nil || seen[f] || !e.realFunc(f) {
			return
		}
		seen[f] = true
		order = append(order, f)
		usesFmt := false
		for _, b := range f.Blocks {
			for _, in := range b.Instrs {
				if c, ok := in.(ssa.CallInstruction); ok {
					if sc := c.Common().StaticCallee(); sc != nil && sc.Pkg != nil {
						p := sc.Pkg.Pkg.Path()
						if p == "fmt" || p == "encoding/json" {
							usesFmt = true
						}
					}
				}
			}
		}
		for _, c := range e.callees(f) {
			visit(c)
		}
		if usesFmt {
			for _, c := range callbacks {
				visit(c)
			}
		}
	}
	for _, k := range frameEntries {
		visit(e.fnByKey[k])
	}
	sort.Slice(order, func(i, j int) bool { return order[i].String() < order[j].String() })
	return order
}

// returnsFresh: every pointer/slice/map the function returns was allocated by
// this activation (or by a callee with the same property).
func (e *Engine) computeFresh() map[*ssa.Function]bool {
	fresh := map[*ssa.Function]bool{}
	for _, f := range e.allFuncs {
		fresh[f] = true
	}
	for changed := true; changed; {
		changed = false
		for _, f := range e.allFuncs {
			if !fresh[f] || len(f.Blocks) == 0 {
				continue
			}
			ok := true
			for _, b := range f.Blocks {
				for _, in := range b.Instrs {
					ret, isRet := in.(*ssa.Return)
					if !isRet {
						continue
					}
					for _, r := range ret.Results {
						if !refType(r.Type()) {
							continue
						}
						if !e.freshValue(r, fresh, 0) {
							ok = false
						}
					}
				}
			}
			if !ok {
				fresh[f] = false
				changed = true
			}
		}
	}
	return fresh
}

func refType(t types.Type) bool {
	switch t.Underlying().(type) {
	case *types.Pointer, *types.Slice, *types.Map:
		return true
	}
	return false
}

// freshValue: v denotes memory allocated in the current activation.
func (e *Engine) freshValue(v ssa.Value, fresh map[*ssa.Function]bool, depth int) bool {
	return e.freshValueV(v, fresh, map[ssa.Value]bool{})
}

func (e *Engine) freshValueV(v ssa.Value, fresh map[*ssa.Function]bool, visiting map[ssa.Value]bool) bool {
	if visiting[v] {
		return true // a cycle through phis/appends adds no new source
	}
	visiting[v] = true
	depth := 0
	switch x := v.(type) {
	case *ssa.Alloc, *ssa.MakeSlice, *ssa.MakeMap:
		return true
	case *ssa.Const:
		return true // nil
	case *ssa.Slice:
		return e.freshValueV(x.X, fresh, visiting)
	case *ssa.ChangeType:
		return e.freshValueV(x.X, fresh, visiting)
	case *ssa.Phi:
		for _, ed := range x.Edges {
			if !e.freshValueV(ed, fresh, visiting) {
				return false
			}
		}
		return true
	case *ssa.Extract:
		return e.freshValueV(x.Tuple, fresh, visiting)
	case *ssa.Call:
		if b, ok := x.Call.Value.(*ssa.Builtin); ok && b.Name() == "append" {
			return e.freshValueV(x.Call.Args[0], fresh, visiting)
		}
		if c := x.Call.StaticCallee(); c != nil {
			if e.inRepo(c) {
				fr, known := fresh[c]
				if !known {
					fr = true
					if c.Origin() != nil {
						fr = fresh[c.Origin()] || true
					}
				}
				return fr
			}
			return true // library results (strings.Split, json.Marshal, ...) are fresh
		}
		for _, c := range e.candidates(x.Call.Value.Type()) {
			if !fresh[c] {
				return false
			}
		}
		return true
	case *ssa.UnOp:
		if x.Op == token.MUL {
			// loading a reference out of fresh memory that was filled by this activation
			if a, ok := x.X.(*ssa.Alloc); ok {
				var srcs []ssa.Value
				if refs := a.Referrers(); refs != nil {
					for _, r := range *refs {
						if st, ok := r.(*ssa.Store); ok && st.Addr == a {
							srcs = append(srcs, st.Val)
						}
					}
				}
				if len(srcs) == 0 {
					return false
				}
				for _, s := range srcs {
					if !e.freshValueV(s, fresh, visiting) {
						return false
					}
				}
				return true
			}
		}
	}
	_ = depth
	return false
}

type frameWrite struct {
	fn   *ssa.Function
	pos  token.Pos
	what string
	root ssa.Value
}

// frameCheck produces the obligations of C14.
func (e *Engine) frameCheck() *FuncResult {
	res := &FuncResult{Func: "frame", Key: "frame", HasContract: true, Props: []string{"C14"}}
	reach := e.frameReachable()
	fresh := e.computeFresh()
	frameEngine, frameFresh = e, fresh
	frameRetParams = nil
	for k := 0; k < 6; k++ {
		frameRetParams = e.computeRetParams(fresh)
	}
	add := func(name string, ok bool, pos token.Pos, info string) {
		st := "proved"
		if !ok {
			st = "failed"
		}
		p := ""
		if pos.IsValid() {
			ps := e.fset.Position(pos)
			p = fmt.Sprintf("%s:%d", shortPath(ps.Filename), ps.Line)
		}
		res.Obligations = append(res.Obligations, &Obligation{Func: "frame", Name: "frame/" + name, Short: name, Status: st, Solver: "static", Pos: p, Info: info, Props: []string{"C14"}})
	}
	// per function: classify every write
	paramWrites := map[*ssa.Function]map[int]bool{} // parameters (transitively) written through
	var bad []frameWrite
	classify := func(f *ssa.Function, root ssa.Value, pos token.Pos, what string) {
		switch r := root.(type) {
		case *ssa.Alloc, *ssa.MakeSlice, *ssa.MakeMap:
			return
		case *ssa.Const:
			return
		case *ssa.Parameter:
			if paramWrites[f] == nil {
				paramWrites[f] = map[int]bool{}
			}
			paramWrites[f][paramIndex(f, r)] = true
			return
		case *ssa.FreeVar:
			// closures write captured variables of their (fresh) creator frame: the
			// creator is checked for what it lets escape
			_ = r
			return
		case *ssa.Global:
			bad = append(bad, frameWrite{f, pos, what + " to package-level variable " + r.Name(), root})
			return
		case *ssa.Call, *ssa.Extract, *ssa.Phi, *ssa.Slice:
			if e.freshValue(root, fresh, 0) {
				return
			}
		}
		bad = append(bad, frameWrite{f, pos, fmt.Sprintf("%s through a reference of unknown provenance (%T %s)", what, root, root), root})
	}
	for iter := 0; iter < 20; iter++ {
		before := 0
		for _, m := range paramWrites {
			before += len(m)
		}
		bad = nil
		for _, f := range reach {
			for _, b := range f.Blocks {
				for _, in := range b.Instrs {
					switch i := in.(type) {
					case *ssa.Store:
						for _, r := range frameRoots(i.Addr) {
							classify(f, r, i.Pos(), "store")
						}
					case *ssa.MapUpdate:
						for _, r := range frameRoots(i.Map) {
							classify(f, r, i.Pos(), "map update")
						}
					case ssa.CallInstruction:
						cc := i.Common()
						if b, ok := cc.Value.(*ssa.Builtin); ok {
							if b.Name() == "append" && len(cc.Args) > 0 {
								// append may write into the backing array of its first operand
								for _, r := range frameRoots(cc.Args[0]) {
									classify(f, r, i.Pos(), "append")
								}
							}
							continue
						}
						var targets []*ssa.Function
						if c := cc.StaticCallee(); c != nil {
							targets = []*ssa.Function{c}
						} else if !cc.IsInvoke() {
							targets = e.candidates(cc.Value.Type())
						}
						for _, t := range targets {
							if !e.inRepo(t) {
								for _, k := range libMods(t) {
									if k < len(cc.Args) {
										for _, r := range frameRoots(cc.Args[k]) {
											classify(f, r, i.Pos(), "library call writing its argument")
										}
									}
								}
								continue
							}
							for k := range paramWrites[t] {
								if k >= 0 && k < len(cc.Args) {
									for _, r := range frameRoots(cc.Args[k]) {
										classify(f, r, i.Pos(), "call of "+t.Name()+" (writes its argument)")
									}
								}
							}
						}
					}
				}
			}
		}
		after := 0
		for _, m := range paramWrites {
			after += len(m)
		}
		if after == before {
			break
		}
	}
	badIn := map[*ssa.Function][]frameWrite{}
	for _, w := range bad {
		badIn[w.fn] = append(badIn[w.fn], w)
	}
	for _, f := range reach {
		name := shortFuncName(f)
		ws := badIn[f]
		info := "every store, map update and append in this function targets memory allocated by the current call (or a parameter the caller owns)"
		pos := f.Pos()
		if len(ws) > 0 {
			info = ws[0].what
			pos = ws[0].pos
		}
		add("stores-fresh-only/"+name, len(ws) == 0, pos, info)
	}
	// entry points: no write through any parameter
	for _, k := range frameEntries {
		f := e.fnByKey[k]
		if f == nil {
			add("entry-point-exists/"+k, false, token.NoPos, "entry point not found in the current tree")
			continue
		}
		var ps []string
		for i := range paramWrites[f] {
			if i >= 0 && i < len(f.Params) && refType(f.Params[i].Type()) || (i >= 0 && i < len(f.Params) && isIfaceOrStruct(f.Params[i].Type())) {
				ps = append(ps, f.Params[i].Name())
			}
		}
		sort.Strings(ps)
		add("arguments-unmodified/"+shortFuncName(f), len(ps) == 0, f.Pos(), "entry point writes through no argument (written: "+strings.Join(ps, ",")+")")
	}
	// determinism and concurrency primitives
	for _, f := range reach {
		name := shortFuncName(f)
		okDet, okConc := true, true
		var pos token.Pos
		for _, b := range f.Blocks {
			for _, in := range b.Instrs {
				switch i := in.(type) {
				case *ssa.Range:
					if _, isMap := i.X.Type().Underlying().(*types.Map); isMap {
						okDet, pos = false, i.Pos()
					}
				case *ssa.Go, *ssa.Select, *ssa.Send:
					okConc, pos = false, in.Pos()
				case *ssa.UnOp:
					if i.Op == token.ARROW {
						okConc, pos = false, i.Pos()
					}
				case ssa.CallInstruction:
					if c := i.Common().StaticCallee(); c != nil && c.Pkg != nil {
						switch c.Pkg.Pkg.Path() {
						case "time", "math/rand", "math/rand/v2", "crypto/rand", "os", "sync", "sync/atomic", "unsafe", "runtime":
							okDet, pos = false, in.Pos()
						}
					}
				case *ssa.Convert:
					if b, ok := i.Type().Underlying().(*types.Basic); ok && b.Kind() == types.Uintptr {
						okDet, pos = false, i.Pos()
					}
				}
			}
		}
		if !okDet || !okConc {
			add("deterministic/"+name, okDet, pos, "no map iteration, clock, randomness, environment or address-dependent value")
			add("no-concurrency-primitives/"+name, okConc, pos, "no goroutine, channel operation or select")
		}
	}
	// no reference to package-level data is stored into a data structure: the ownership argument
	// above ("everything reachable from a fresh object is fresh") needs it - a tree that contains a
	// shared node would be written (or raced on) through a fresh parent
	{
		retGlobal := map[*ssa.Function]bool{}
		retWhy := map[*ssa.Function]string{}
		var globalDerived func(v ssa.Value) (bool, string)
		globalDerived = func(v ssa.Value) (bool, string) {
			for _, r := range frameRoots(v) {
				switch x := r.(type) {
				case *ssa.Global:
					return true, "package-level variable " + x.Name()
				case *ssa.Call:
					var targets []*ssa.Function
					if c := x.Call.StaticCallee(); c != nil {
						targets = []*ssa.Function{c}
					} else if !x.Call.IsInvoke() {
						targets = e.candidates(x.Call.Value.Type())
					}
					for _, t := range targets {
						if retGlobal[t] {
							return true, "the result of " + t.Name() + " (which may return package-level data)"
						}
					}
				}
			}
			return false, ""
		}
		isRefVal := func(v ssa.Value) bool {
			t := v.Type()
			if types.Identical(t, types.Universe.Lookup("error").Type()) {
				return false // error values are opaque and never written through (sentinel errors are package-level)
			}
			if refType(t) {
				return true
			}
			if _, isStruct := t.Underlying().(*types.Struct); isStruct {
				return isIfaceOrStruct(t) // a struct value carrying a reference (Base.RenderFNs)
			}
			if _, isIface := t.Underlying().(*types.Interface); isIface {
				if mi, ok := v.(*ssa.MakeInterface); ok {
					return refType(mi.X.Type())
				}
				return true
			}
			return false
		}
		// scanned: everything reachable from the entry points, and every other function of the
		// repository (constructors such as NewPostgresDriver run at package initialisation and
		// build the data the entry points then use)
		scan := append([]*ssa.Function{}, reach...)
		{
			in := map[*ssa.Function]bool{}
			for _, f := range reach {
				in[f] = true
			}
			var extra []*ssa.Function
			for _, f := range e.allFuncs {
				if !in[f] && e.realFunc(f) && !isGhostClosure(f) && f.Pkg != nil && !strings.HasSuffix(f.Pkg.Pkg.Path(), "/cmd") && !strings.HasSuffix(f.Pkg.Pkg.Path(), "/verifspec") {
					extra = append(extra, f)
				}
			}
			sort.Slice(extra, func(i, j int) bool { return extra[i].String() < extra[j].String() })
			scan = append(scan, extra...)
		}
		for changed := true; changed; {
			changed = false
			for _, f := range scan {
				if retGlobal[f] {
					continue
				}
				for _, b := range f.Blocks {
					for _, in := range b.Instrs {
						ret, ok := in.(*ssa.Return)
						if !ok {
							continue
						}
						for _, r := range ret.Results {
							if !isRefVal(r) {
								continue
							}
							if g, what := globalDerived(r); g {
								retGlobal[f] = true
								retWhy[f] = what
								changed = true
							}
						}
					}
				}
			}
		}
		for _, f := range scan {
			why, pos := "", token.NoPos
			for _, b := range f.Blocks {
				for _, in := range b.Instrs {
					var val ssa.Value
					var addr ssa.Value
					switch i := in.(type) {
					case *ssa.Store:
						val, addr = i.Val, i.Addr
					case *ssa.MapUpdate:
						val, addr = i.Value, i.Map
					default:
						continue
					}
					if !isRefVal(val) {
						continue
					}
					if a := allocBase(addr); a != nil && !a.Heap {
						continue // a local variable, not a data structure
					}
					if g, what := globalDerived(val); g && why == "" {
						why, pos = "stores a reference to "+what+" into a data structure", in.Pos()
					}
				}
			}
			if why != "" || retGlobal[f] {
				info := "no reference to package-level data is stored into a data structure"
				if why != "" {
					info = why
				}
				add("no-shared-references/"+shortFuncName(f), why == "", pos, info)
			}
			// an exported function is a boundary of the ownership argument: what it returns is
			// owned by its caller, so it must not be (or contain) package-level data
			if retGlobal[f] && f.Parent() == nil && f.Object() != nil && f.Object().Exported() {
				add("no-shared-references/result-of-"+shortFuncName(f), false, f.Pos(), "the result of an exported function is or contains a reference to package-level data ("+retWhy[f]+"): its caller can change data that every other caller uses")
			}
		}
		nexp := 0
		for _, f := range scan {
			if f.Parent() == nil && f.Object() != nil && f.Object().Exported() {
				nexp++
			}
		}
		add("no-shared-references/exported-results", true, token.NoPos, fmt.Sprintf("%d exported functions scanned: a result that is or contains package-level data is an obligation of its own", nexp))
		add("no-shared-references/all-reachable", true, token.NoPos, fmt.Sprintf("%d functions scanned for references to package-level data stored into data structures", len(scan)))
	}
	add("deterministic/all-reachable", true, token.NoPos, fmt.Sprintf("%d reachable functions scanned for map iteration, clocks, randomness, environment access, pointer-to-integer conversions", len(reach)))
	// package-level variables are written only during initialisation
	writers := map[*ssa.Global][]string{}
	for _, f := range e.allFuncs {
		if !e.realFunc(f) {
			continue
		}
		for _, b := range f.Blocks {
			for _, in := range b.Instrs {
				var root ssa.Value
				switch i := in.(type) {
				case *ssa.Store:
					root = frameRoot(i.Addr)
				case *ssa.MapUpdate:
					root = frameRoot(i.Map)
				}
				if g, ok := root.(*ssa.Global); ok {
					writers[g] = append(writers[g], shortFuncName(f))
				}
			}
		}
	}
	var globals []*ssa.Global
	for path, p := range e.spkgs {
		if !strings.HasPrefix(path, modPath) || strings.HasSuffix(path, "/cmd") || strings.HasSuffix(path, "/verifspec") {
			continue
		}
		for _, m := range p.Members {
			if g, ok := m.(*ssa.Global); ok && !strings.HasPrefix(g.Name(), "init$") {
				globals = append(globals, g)
			}
		}
	}
	sort.Slice(globals, func(i, j int) bool { return globals[i].String() < globals[j].String() })
	for _, g := range globals {
		ws := writers[g]
		add("init-only/"+g.Pkg.Pkg.Name()+"."+g.Name(), len(ws) == 0, g.Pos(), "package-level variable written only by package initialisation (other writers: "+strings.Join(ws, ",")+")")
	}
	return res
}

// isIfaceOrStruct: the value can carry a reference to shared memory (an
// interface, or a struct with reference-typed fields such as Base.RenderFNs).
func isIfaceOrStruct(t types.Type) bool {
	switch u := t.Underlying().(type) {
	case *types.Interface:
		return true
	case *types.Struct:
		for i := 0; i < u.NumFields(); i++ {
			ft := u.Field(i).Type()
			if refType(ft) || isIfaceOrStruct(ft) {
				return true
			}
		}
	}
	return false
}

// frameRoots resolves an address or reference to the set of allocations,
// parameters, globals, calls ... it may be derived from: through field / element
// selection, type assertions, phis, and local variables (Allocs holding a
// reference: every value stored into the variable is followed).
var frameEngine *Engine
var frameRetParams map[*ssa.Function]map[int]bool
var frameFresh map[*ssa.Function]bool

// computeRetParams: for functions whose reference results are not fresh, the
// parameters those results may be derived from (nil entry: unknown sources).
func (e *Engine) computeRetParams(fresh map[*ssa.Function]bool) map[*ssa.Function]map[int]bool {
	out := map[*ssa.Function]map[int]bool{}
	for _, f := range e.allFuncs {
		if len(f.Blocks) == 0 {
			continue
		}
		m := map[int]bool{}
		ok := true
		for _, b := range f.Blocks {
			for _, in := range b.Instrs {
				ret, isRet := in.(*ssa.Return)
				if !isRet {
					continue
				}
				for _, r := range ret.Results {
					if !refType(r.Type()) {
						continue
					}
					for _, root := range frameRoots(r) {
						switch x := root.(type) {
						case *ssa.Parameter:
							m[paramIndex(f, x)] = true
						case *ssa.Alloc, *ssa.MakeSlice, *ssa.MakeMap, *ssa.Const:
						default:
							if !e.freshValue(root, fresh, 0) {
								ok = false
							}
						}
					}
				}
			}
		}
		if ok {
			out[f] = m
		}
	}
	return out
}

func frameRoots(v ssa.Value) []ssa.Value {
	seen := map[ssa.Value]bool{}
	var out []ssa.Value
	var walk func(v ssa.Value)
	walk = func(v ssa.Value) {
		for depth := 0; depth < 80; depth++ {
			if seen[v] {
				return
			}
			seen[v] = true
			switch x := v.(type) {
			case *ssa.FieldAddr:
				v = x.X
			case *ssa.IndexAddr:
				v = x.X
			case *ssa.Field:
				v = x.X
			case *ssa.Index:
				v = x.X
			case *ssa.ChangeType:
				v = x.X
			case *ssa.MakeInterface:
				v = x.X
			case *ssa.TypeAssert:
				v = x.X
			case *ssa.Slice:
				v = x.X
			case *ssa.Phi:
				for _, ed := range x.Edges {
					walk(ed)
				}
				return
			case *ssa.Extract:
				if c, ok := x.Tuple.(*ssa.TypeAssert); ok {
					v = c.X
					continue
				}
				if c, ok := x.Tuple.(*ssa.Call); ok {
					v = c
					seen[v] = false
					continue
				}
				out = append(out, v)
				return
			case *ssa.Call:
				if b, ok := x.Call.Value.(*ssa.Builtin); ok && b.Name() == "append" {
					v = x.Call.Args[0]
					continue
				}
				// results derived from the callee's parameters: follow the arguments
				if frameEngine != nil && frameRetParams != nil {
					var targets []*ssa.Function
					if c := x.Call.StaticCallee(); c != nil {
						targets = []*ssa.Function{c}
					} else if !x.Call.IsInvoke() {
						targets = frameEngine.candidates(x.Call.Value.Type())
					}
					known := len(targets) > 0
					var follow []int
					for _, t := range targets {
						if !frameEngine.inRepo(t) || frameFresh[t] {
							continue
						}
						m, ok := frameRetParams[t]
						if !ok {
							known = false
							break
						}
						for k := range m {
							follow = append(follow, k)
						}
					}
					if known {
						for _, k := range follow {
							if k >= 0 && k < len(x.Call.Args) {
								walk(x.Call.Args[k])
							}
						}
						if len(follow) == 0 {
							out = append(out, v)
						}
						return
					}
				}
				out = append(out, v)
				return
			case *ssa.UnOp:
				if x.Op != token.MUL {
					out = append(out, v)
					return
				}
				if a := allocBase(x.X); a != nil {
					// a load out of a local variable (or a field / element of it): the loaded
					// reference comes from whatever was stored into that variable
					n := 0
					for _, st := range storesInto(a) {
						n++
						walk(st.Val)
					}
					if n == 0 {
						out = append(out, a)
					}
					return
				}
				v = x.X
			default:
				out = append(out, v)
				return
			}
		}
		out = append(out, v)
	}
	walk(v)
	return out
}

// allocBase: the local allocation an address expression points into (nil if none).
func allocBase(v ssa.Value) *ssa.Alloc {
	for depth := 0; depth < 40; depth++ {
		switch x := v.(type) {
		case *ssa.Alloc:
			return x
		case *ssa.FieldAddr:
			v = x.X
		case *ssa.IndexAddr:
			v = x.X
		default:
			return nil
		}
	}
	return nil
}

// storesInto: every store whose address points into allocation a.
func storesInto(a *ssa.Alloc) []*ssa.Store {
	var out []*ssa.Store
	seen := map[ssa.Value]bool{}
	var visit func(v ssa.Value)
	visit = func(v ssa.Value) {
		if seen[v] {
			return
		}
		seen[v] = true
		refs := v.Referrers()
		if refs == nil {
			return
		}
		for _, r := range *refs {
			switch x := r.(type) {
			case *ssa.Store:
				if x.Addr == v {
					out = append(out, x)
				}
			case *ssa.FieldAddr:
				if x.X == v {
					visit(x)
				}
			case *ssa.IndexAddr:
				if x.X == v {
					visit(x)
				}
			}
		}
	}
	visit(a)
	return out
}

func frameRoot(v ssa.Value) ssa.Value {
	rs := frameRoots(v)
	if len(rs) == 1 {
		return rs[0]
	}
	return nil
}
