package main

import (
	"fmt"
	"go/types"
	"strconv"
	"strings"

	"golang.org/x/tools/go/ssa"
)

func (e *Engine) inlinable(f *ssa.Function) bool {
	if len(f.Blocks) == 0 || e.selfRecursive(f) {
		return false
	}
	for _, b := range f.Blocks {
		if isLoopHeader(b) {
			return false
		}
	}
	if c := e.contractOf[f]; c != nil {
		if c.Flags["noinline"] {
			return false
		}
		if c.Flags["inline"] {
			return true
		}
		if len(c.clauses("requires")) > 0 || len(c.clauses("ensures")) > 0 || c.Flags["trusted"] || c.Flags["pure"] {
			return false
		}
	}
	n := 0
	for _, b := range f.Blocks {
		n += len(b.Instrs)
	}
	return n <= 120
}

func (fr *Frame) args(cc *ssa.CallCommon, st *State) []Val {
	var out []Val
	for _, a := range cc.Args {
		out = append(out, fr.val(a, st))
	}
	return out
}

func (fr *Frame) setResult(i *ssa.Call, vals []Val, st *State) {
	n := i.Call.Signature().Results().Len()
	switch {
	case n == 0:
	case n == 1:
		if len(vals) >= 1 {
			fr.setReg(i, vals[0], st)
		}
	default:
		fr.regs[i] = Tuple(vals)
	}
}

func (fr *Frame) call(i *ssa.Call, st *State, g Term) {
	x := fr.x
	cc := &i.Call
	if b, ok := cc.Value.(*ssa.Builtin); ok {
		fr.builtin(i, b, st, g)
		return
	}
	if cc.IsInvoke() {
		fr.invoke(i, st, g)
		return
	}
	args := fr.args(cc, st)
	if callee := cc.StaticCallee(); callee != nil {
		var free []Val
		if mc, ok := cc.Value.(*ssa.MakeClosure); ok {
			for _, b := range mc.Bindings {
				free = append(free, fr.val(b, st))
			}
		}
		if gk := ghostKind(i); gk != "" {
			fr.ghostCall(i, gk, args, st, g)
			return
		}
		if !x.eng.inRepo(callee) {
			fr.libCall(i, callee, args, st, g)
			return
		}
		fr.repoCall(i, callee, args, free, st, g)
		return
	}
	// dynamic call through a function value
	fv := fr.val(cc.Value, st)
	if clo, ok := fv.(CloV); ok {
		fr.repoCall(i, clo.Fn, args, clo.Bind, st, g)
		return
	}
	ft, ok := x.termOf(fv, st)
	if !ok {
		x.unsupported("%s: dynamic call on %T", fr.fn, fv)
		return
	}
	fr.dynCall(i, ft, args, st, g)
}

// ---- builtins ---------------------------------------------------------------------------------

func litInt(t Term) (int, bool) {
	n, err := strconv.Atoi(t.S)
	return n, err == nil
}

func (fr *Frame) builtin(i *ssa.Call, b *ssa.Builtin, st *State, g Term) {
	x := fr.x
	switch b.Name() {
	case "len", "cap":
		t := fr.term(i.Call.Args[0], st)
		switch {
		case t.Sort == SStr:
			fr.regs[i] = TV{T: mk(SInt, "slen", t)}
		case t.Sort.Kind == KSlice:
			fr.regs[i] = TV{T: SlLen(t)}
		case t.Sort.Kind == KMap:
			fr.regs[i] = TV{T: x.fresh("maplen", SInt)}
		default:
			x.unsupported("%s: len of sort %s", fr.fn, t.Sort.Name)
		}
	case "append":
		a := fr.term(i.Call.Args[0], st)
		bb := fr.term(i.Call.Args[1], st)
		if a.Sort.Kind != KSlice || bb.Sort.Kind != KSlice {
			x.unsupported("%s: append on sorts %s, %s", fr.fn, a.Sort.Name, bb.Sort.Name)
			fr.setReg(i, TV{T: x.fresh("app", x.eng.tc.sortOf(i.Type()))}, st)
			return
		}
		fr.setReg(i, TV{T: x.appendTerm(a, bb, g)}, st)
	default:
		x.unsupported("%s: builtin %s", fr.fn, b.Name())
	}
}

// appendTerm builds append(a, b...).  For a literal small length of b the result
// is a chain of stores; otherwise a fresh slice constrained by quantified facts.
func (x *Exec) appendTerm(a, b Term, g Term) Term {
	la := SlLen(a)
	if n, ok := litInt(SlLen(b)); ok && n <= 8 {
		arr := SlArr(a)
		for k := 0; k < n; k++ {
			arr = Store(arr, Add(la, IntLit(int64(k))), SlAt(b, IntLit(int64(k))))
		}
		return x.define("app", SlMk(a.Sort, Add(la, IntLit(int64(n))), arr))
	}
	if x.isEmptySlice(a) {
		return b
	}
	// append is a function of its operands: the same operands give the same slice term
	fname := "append_" + a.Sort.Name
	x.declareOnce(fmt.Sprintf("(declare-fun %s (%s %s) %s)", fname, a.Sort.Name, b.Sort.Name, a.Sort.Name))
	r := mk(a.Sort, fname, a, b)
	key := "appfacts|" + r.S
	if x.unfolded[key] {
		return r
	}
	x.unfolded[key] = true
	g = TTrue
	lb := SlLen(b)
	x.assume(g, Eq(SlLen(r), Add(la, lb)))
	k := "k!q"
	kt := Term{k, SInt}
	f1 := fmt.Sprintf("(forall ((%s Int)) (! (=> (and (<= 0 %s) (< %s %s)) (= %s %s)) :pattern (%s)))", k, k, k, la.S, SlAt(r, kt).S, SlAt(a, kt).S, SlAt(r, kt).S)
	f2 := fmt.Sprintf("(forall ((%s Int)) (! (=> (and (<= %s %s) (< %s %s)) (= %s %s)) :pattern (%s)))", k, la.S, k, k, Add(la, lb).S, SlAt(r, kt).S, SlAt(b, Sub(kt, la)).S, SlAt(r, kt).S)
	x.assume(g, Term{f1, SBool})
	x.assume(g, Term{f2, SBool})
	return r
}

func (x *Exec) isEmptySlice(a Term) bool {
	return strings.HasPrefix(a.S, "("+a.Sort.Name+"_mk 0 ")
}

// ---- ghost vocabulary ----------------------------------------------------------------------------

func (fr *Frame) ghostCall(i *ssa.Call, kind string, args []Val, st *State, g Term) {
	x := fr.x
	switch kind {
	case "Invariant", "RangeInvariant", "Decreases":
		fr.registerGhost(i, kind, st)
	case "SameFn":
		var ts []Term
		for _, a := range i.Call.Args {
			v := a
			if mi, ok := v.(*ssa.MakeInterface); ok {
				v = mi.X
			}
			ts = append(ts, fr.term(v, st))
		}
		fr.regs[i] = TV{T: Eq(ts[0], ts[1])}
	case "Same":
		var ts []Term
		for _, a := range i.Call.Args {
			v := a
			if mi, ok := v.(*ssa.MakeInterface); ok {
				v = mi.X
			}
			ts = append(ts, fr.term(v, st))
		}
		if ts[0].Sort != ts[1].Sort {
			ts = []Term{fr.term(i.Call.Args[0], st), fr.term(i.Call.Args[1], st)}
		}
		fr.regs[i] = TV{T: Eq(ts[0], ts[1])}
	case "Lemma":
		clo, ok := fr.closureArg(i.Call.Args[0], st)
		if !ok {
			x.unsupported("%s: Lemma argument is not a closure literal", fr.fn)
			return
		}
		// the block runs as ordinary code (calls are checked against contracts) but
		// emits no safety obligations of its own
		x.runFunc(clo.Fn, nil, clo.Bind, st, g, fr, fr.prefix+"lemma:", false, func(f *Frame) { f.noSafety = true })
	case "RepoFn":
		v := i.Call.Args[0]
		if mi, ok := v.(*ssa.MakeInterface); ok {
			v = mi.X
		}
		ft := fr.term(v, st)
		var alts []Term
		for _, cand := range x.eng.candidates(v.Type()) {
			if len(cand.FreeVars) > 0 {
				alts = append(alts, Eq(x.fnTag(ft), x.eng.fnID(cand)))
			} else {
				alts = append(alts, Eq(ft, x.eng.fnID(cand)))
			}
		}
		fr.regs[i] = TV{T: Or(alts...)}
	case "SameText":
		// two strings with the same length and the same bytes are the same string.  Where the
		// clause is being PROVED (the function's own postcondition) the goal is the extensional
		// form, which follows from the byte-level axioms of concatenation whatever the shape of
		// the two ropes; where it is ASSUMED (at a call site) it is plain equality.
		a, b := x.t(args[0], st), x.t(args[1], st)
		if x.proving {
			k := fmt.Sprintf("k!st%d", x.nextID())
			all := fmt.Sprintf("(forall ((%s Int)) (=> (and (<= 0 %s) (< %s %s)) (= (sat %s %s) (sat %s %s))))", k, k, k, slen(a).S, a.S, k, b.S, k)
			fr.regs[i] = TV{T: And(Eq(slen(a), slen(b)), Term{all, SBool})}
		} else {
			fr.regs[i] = TV{T: Eq(a, b)}
		}
	case "SameFloat":
		fr.regs[i] = TV{T: Eq(x.t(args[0], st), x.t(args[1], st))}
	case "B2I":
		fr.regs[i] = TV{T: Ite(x.t(args[0], st), IntLit(1), IntLit(0))}
	case "Assert":
		clo, ok := fr.closureArg(i.Call.Args[1], st)
		if !ok {
			x.unsupported("%s: Assert argument is not a closure", fr.fn)
			return
		}
		label := "?"
		if c, ok := i.Call.Args[0].(*ssa.Const); ok {
			label = strings.Trim(c.Value.ExactString(), `"`)
		}
		t := fr.evalClosure(&clo, nil, st, g)
		x.assert(g, fr.oname("assert/"+label), t, x.posOf(i.Pos()), "ghost assertion")
	case "Assume":
		clo, ok := fr.closureArg(i.Call.Args[0], st)
		if !ok {
			return
		}
		if c := x.eng.contractOf[fr.fn]; c == nil || !c.Flags["trusted"] {
			x.unsupported("%s: Assume outside a trusted function", fr.fn)
			return
		}
		x.assume(g, fr.evalClosure(&clo, nil, st, g))
	case "Forall", "Exists":
		lo, _ := x.termOf(args[0], st)
		hi, _ := x.termOf(args[1], st)
		clo, ok := fr.closureArg(i.Call.Args[2], st)
		if !ok {
			x.unsupported("%s: quantifier body is not a closure literal", fr.fn)
			fr.regs[i] = TV{T: x.fresh("q", SBool)}
			return
		}
		x.n++
		bv := Term{fmt.Sprintf("q!%d", x.n), SInt}
		// the body is evaluated into a separate event list so that its definitions can be
		// placed under the binder
		saved := x.events
		x.events = nil
		x.qdepth++
		body := fr.evalClosure(&clo, []Val{TV{T: bv}}, st, TTrue)
		x.qdepth--
		inner := x.events
		x.events = saved
		body = x.inlineEvents(inner, body)
		rng := And(Le(lo, bv), Lt(bv, hi))
		var q string
		pat := x.patternFor(body, bv)
		if kind == "Forall" && pat == "" {
			q = fmt.Sprintf("(forall ((%s Int)) (=> %s %s))", bv.S, rng.S, body.S)
		} else if kind == "Forall" {
			q = fmt.Sprintf("(forall ((%s Int)) (! (=> %s %s)%s))", bv.S, rng.S, body.S, pat)
		} else {
			q = fmt.Sprintf("(exists ((%s Int)) (and %s %s))", bv.S, rng.S, body.S)
		}
		fr.regs[i] = TV{T: Term{q, SBool}}
	case "RuneAt":
		fr.regs[i] = TV{T: mk(SInt, "u8rune", x.t(args[0], st), x.t(args[1], st))}
	case "WidthAt":
		fr.regs[i] = TV{T: mk(SInt, "u8width", x.t(args[0], st), x.t(args[1], st))}
	case "LastWidth":
		fr.regs[i] = TV{T: mk(SInt, "u8lastw", x.t(args[0], st), x.t(args[1], st))}
	case "OnBoundary":
		fr.regs[i] = TV{T: mk(SBool, "u8bnd", x.t(args[0], st), x.t(args[1], st))}
	default:
		if h := ghostSymbols[kind]; h != nil {
			var ts []Term
			for _, a := range args {
				ts = append(ts, x.t(a, st))
			}
			fr.regs[i] = TV{T: h(x, ts)}
			return
		}
		x.unsupported("%s: unknown ghost function %s", fr.fn, kind)
	}
}

var ghostSymbols = map[string]func(x *Exec, a []Term) Term{}

func (x *Exec) t(v Val, st *State) Term {
	t, ok := x.termOf(v, st)
	if !ok {
		x.unsupported("value %T has no term form", v)
		return x.fresh("noterm", SInt)
	}
	return t
}

// inlineEvents turns the definitions produced while evaluating a quantifier body
// into let-bindings around the body (they may mention the bound variable).
func (x *Exec) inlineEvents(evs []Event, body Term) Term {
	// process in reverse: each "(= name term)" definition becomes a let
	s := body.S
	var extra []string
	bound := map[string]bool{}
	for k := len(evs) - 1; k >= 0; k-- {
		ev := evs[k]
		switch ev.Kind {
		case EvDecl:
			// a definition "(= name term)" that follows makes the name let-bound; anything
			// else (function symbols, genuinely fresh constants) is declared outside
			if !bound[ev.T.S] || ev.T.S == "" {
				x.events = append(x.events, ev)
			}
		case EvAssume:
			f := ev.T.S
			if strings.HasPrefix(f, "(= ") {
				// (= name term)
				rest := f[3 : len(f)-1]
				sp := strings.IndexByte(rest, ' ')
				name, term := rest[:sp], rest[sp+1:]
				if !strings.ContainsAny(name, "() ") {
					bound[name] = true
					s = fmt.Sprintf("(let ((%s %s)) %s)", name, term, s)
					continue
				}
			}
			extra = append(extra, f)
		case EvAssert:
			// obligations inside ghost code do not occur (ghost frames emit none)
		}
	}
	if len(extra) > 0 {
		s = fmt.Sprintf("(=> (and %s) %s)", strings.Join(extra, " "), s)
	}
	return Term{s, body.Sort}
}

// patternFor picks a trigger: the first array/sequence access indexed exactly by the bound variable.
func (x *Exec) patternFor(body Term, bv Term) string {
	for _, fn := range []string{"(sat ", "(select "} {
		idx := 0
		for {
			p := strings.Index(body.S[idx:], fn)
			if p < 0 {
				break
			}
			p += idx
			end := matchParen(body.S, p)
			sub := body.S[p : end+1]
			if strings.HasSuffix(sub, " "+bv.S+")") && !strings.Contains(sub[:len(sub)-len(bv.S)-2], bv.S) && !strings.Contains(sub, "(let ") && !strings.Contains(sub, "(ite ") {
				return " :pattern (" + sub + ")"
			}
			idx = p + 1
		}
	}
	return ""
}

func matchParen(s string, start int) int {
	d := 0
	for i := start; i < len(s); i++ {
		switch s[i] {
		case '(':
			d++
		case ')':
			d--
			if d == 0 {
				return i
			}
		}
	}
	return len(s) - 1
}

// ---- calls into the repository --------------------------------------------------------------------

func (fr *Frame) repoCall(i *ssa.Call, callee *ssa.Function, args []Val, free []Val, st *State, g Term) {
	x := fr.x
	e := x.eng
	c := e.contractOf[callee]
	isLemma := c != nil && c.Flags["lemma"]
	if fr.ghost || (e.specFns[callee] && !isLemma) {
		// specification functions keep their logical meaning also when proof code calls them
		fr.specCall(i, callee, c, args, free, st, g)
		return
	}
	hasContract := c != nil && (len(c.clauses("requires")) > 0 || len(c.clauses("ensures")) > 0 || c.Flags["trusted"] || c.Flags["pure"])
	if hasContract && !c.Flags["inline"] {
		fr.callContract(i, callee, c, args, st, g)
		return
	}
	if e.inlinable(callee) {
		vals, nst, _ := x.runFunc(callee, args, free, st, g, fr, fr.prefix+callee.Name()+":", false, nil)
		*st = *nst
		fr.setResult(i, vals, st)
		return
	}
	// default contract: requires true, ensures true; frame from the modifies inference
	fr.havocMods(callee, args, st, g)
	fr.setResult(i, x.havocResults(callee, "r_"+callee.Name()), st)
}

// havocMods forgets everything a callee may write through its arguments.
func (fr *Frame) havocMods(callee *ssa.Function, args []Val, st *State, g Term) {
	x := fr.x
	m := x.eng.mods[callee]
	if m == nil {
		return
	}
	for j := range m.params {
		if j >= len(args) {
			continue
		}
		if p, ok := fr.ptrArg(args[j]); ok && p.Cell != nil {
			cur := x.load(p, st)
			fr.store(p, x.fresh("hv", cur.Sort), st, g, callee.Pos())
		}
	}
	for gl := range m.globals {
		c := x.globalCell(gl, st)
		st.cells[c] = x.fresh("hvG", c.Sort)
	}
}

// ptrArg views an argument as a pointer into a cell when possible.
func (fr *Frame) ptrArg(v Val) (PV, bool) {
	switch a := v.(type) {
	case PV:
		return a, true
	case TV:
		if a.Origin != nil && a.T.Sort.Kind == KPtr {
			return PV{Cell: a.Origin.Cell, Base: a.Origin.Base, Path: append(append([]Sel{}, a.Origin.Path...), Sel{Kind: SelDeref})}, true
		}
	case IfaceRef:
		return a.P, true
	}
	return PV{}, false
}

func isPtrType(t types.Type) bool {
	_, ok := t.(*types.Pointer)
	return ok
}

// genFn finds a generated clause function.
func (e *Engine) genFn(callee *ssa.Function, name string) *ssa.Function {
	p := callee.Pkg
	if p == nil && callee.Origin() != nil {
		p = callee.Origin().Pkg
	}
	if p == nil {
		return nil
	}
	return p.Func(name)
}

// evalClause evaluates a generated requires/ensures/decreases function.
func (fr *Frame) evalClause(callee *ssa.Function, cl *Clause, vals []Val, st *State, g Term) Term {
	x := fr.x
	gf := x.eng.genFn(callee, cl.GenName)
	if gf == nil {
		x.unsupported("generated clause %s missing for %s", cl.GenName, callee)
		return TTrue
	}
	if len(vals) != len(gf.Params) {
		x.unsupported("clause %s: have %d values for %d parameters", cl.GenName, len(vals), len(gf.Params))
		return TTrue
	}
	x.ghostDepth++
	res, _, _ := x.runFunc(gf, vals, nil, st, g, fr, fr.prefix, true, nil)
	x.ghostDepth--
	if len(res) != 1 {
		return TTrue
	}
	return x.t(res[0], st)
}

func clauseLabel(cl *Clause, n int) string {
	if cl.Label != "" {
		return cl.Label
	}
	return strconv.Itoa(n)
}

func (fr *Frame) callContract(i *ssa.Call, callee *ssa.Function, c *Contract, args []Val, st *State, g Term) {
	fr.applyContract(i, callee, c, args, st, g, true)
}

func (fr *Frame) applyContract(i *ssa.Call, callee *ssa.Function, c *Contract, args []Val, st *State, g Term, check bool) {
	x := fr.x
	e := x.eng
	m := e.mods[callee]
	site := fr.oname("")
	k := x.callCount[callee.Name()]
	x.callCount[callee.Name()] = k + 1
	// parameters
	params := make([]Val, len(callee.Params))
	var olds []Val
	type modp struct {
		p   PV
		old *Cell
	}
	var modps []modp
	for j, p := range callee.Params {
		if j >= len(args) {
			break
		}
		a := args[j]
		modified := m != nil && m.params[j] && isPtrType(p.Type())
		if modified || x.eng.isCellParam(p) {
			pv, ok := fr.ptrArg(a)
			if !ok || pv.Cell == nil {
				if tv, isTV := a.(TV); isTV && tv.T.Sort.Kind == KPtr && !modified {
					params[j] = a
					if isPtrType(p.Type()) {
						olds = append(olds, a)
					}
					continue
				}
				x.unsupported("%s: call of %s passes an untracked pointer for mutable parameter %s", fr.fn, callee.Name(), p.Name())
				params[j] = a
				if isPtrType(p.Type()) {
					olds = append(olds, a)
				}
				continue
			}
			if tv, isTV := a.(TV); isTV {
				fr.safety(g, "nil", i.Pos(), Not(PIsNil(tv.T)), "nil pointer passed as receiver/mutable argument")
			}
			params[j] = pv
			oc := x.newCell("old_"+p.Name(), x.load(pv, st).Sort)
			oc.Ghost = true
			st.cells[oc] = x.define("old", x.load(pv, st))
			olds = append(olds, PV{Cell: oc})
			if modified {
				modps = append(modps, modp{pv, oc})
			}
			continue
		}
		if isPtrType(p.Type()) {
			// immutable pointer data
			t, ok := x.termOfNoEscape(a, st)
			if !ok {
				x.unsupported("%s: argument %d of %s has no term form", fr.fn, j, callee.Name())
				t = x.fresh("arg", e.tc.sortOf(p.Type()))
			}
			params[j] = TV{T: t}
			olds = append(olds, TV{T: t})
			continue
		}
		if _, isClo := a.(CloV); isClo {
			params[j] = a
			continue
		}
		t, ok := x.termOfNoEscape(a, st)
		if !ok {
			x.unsupported("%s: argument %d of %s has no term form (%T)", fr.fn, j, callee.Name(), a)
			t = x.fresh("arg", e.tc.sortOf(p.Type()))
		}
		params[j] = TV{T: t}
	}
	// requires
	for n, cl := range c.clauses("requires") {
		if !check {
			break
		}
		t := fr.evalClause(callee, cl, params, st, g)
		x.assert(g, fmt.Sprintf("%spre@%s#%d/%s", site, callee.Name(), k, clauseLabel(cl, n)), t, x.posOf(i.Pos()), "precondition of "+callee.Name()+": "+cl.Expr)
	}
	// termination of recursion
	if check && e.sameSCC(x.root, callee) && !fr.ghost {
		decs := c.clauses("decreases")
		if c.Flags["structural"] {
			// structural recursion over an acyclic tree: every pointer/interface argument
			// of the recursive call is a proper component of a parameter
			ok := false
			rootRank := 0
			if rc := e.contractOf[x.root]; rc != nil {
				rootRank = rc.Rank
			}
			for _, a := range i.Call.Args {
				if derivedFromParam(a, 0) {
					ok = true
				}
				// the same node may be handed to a function of lower rank (serialize -> Render)
				if c.Rank < rootRank && derivedFromParam(a, 1) {
					ok = true
				}
			}
			x.assert(g, fmt.Sprintf("%sdecr@%s#%d/structural", site, callee.Name(), k), BoolLit(ok), x.posOf(i.Pos()), "recursive call descends into a component of a parameter (trees are acyclic: frame analysis)")
		} else if len(decs) == 0 || len(x.rootDec) == 0 {
			x.assert(g, fmt.Sprintf("%sdecr@%s#%d/missing-variant", site, callee.Name(), k), TFalse, x.posOf(i.Pos()), "recursive call without decreases clause")
		} else {
			d1 := fr.evalClause(callee, decs[0], params, st, g)
			x.assert(g, fmt.Sprintf("%sdecr@%s#%d", site, callee.Name(), k), And(Le(IntLit(0), x.rootDec[0]), Lt(d1, x.rootDec[0])), x.posOf(i.Pos()), "variant decreases at recursive call")
		}
	}
	// pre-state terms (for functional contracts: results and post-states are functions of them)
	functional := c.Flags["functional"] || c.Flags["pure"]
	var preTerms []Term
	if functional {
		for _, p := range params {
			t, ok := x.termOfNoEscape(p, st)
			if !ok {
				functional = false
				break
			}
			preTerms = append(preTerms, t)
		}
	}
	// havoc
	for n, mp := range modps {
		cur := x.load(mp.p, st)
		var nv Term
		if functional {
			name := fmt.Sprintf("fn_%s_post%d", sanitize(callee.Name()), n)
			decl := "(declare-fun " + name + " ("
			for _, t := range preTerms {
				decl += t.Sort.Name + " "
			}
			decl += ") " + cur.Sort.Name + ")"
			x.declareOnce(decl)
			nv = mk(cur.Sort, name, preTerms...)
		} else {
			nv = x.fresh("post_"+callee.Name(), cur.Sort)
		}
		fr.store(mp.p, nv, st, g, i.Pos())
	}
	if m != nil {
		for gl := range m.globals {
			cg := x.globalCell(gl, st)
			st.cells[cg] = x.fresh("hvG", cg.Sort)
		}
	}
	// results
	var results []Val
	res := callee.Signature.Results()
	if functional {
		for r := 0; r < res.Len(); r++ {
			results = append(results, TV{T: x.pureApp(callee, r, preTerms)})
		}
	}
	if results == nil {
		for r := 0; r < res.Len(); r++ {
			results = append(results, TV{T: x.fresh("r_"+callee.Name(), e.tc.sortOf(res.At(r).Type()))})
		}
	}
	// ensures
	all := append(append(append([]Val{}, params...), olds...), results...)
	var useOnly map[string]bool
	if rc := e.contractOf[x.root]; rc != nil && rc.Use != nil {
		useOnly = rc.Use[callee.Name()]
	}
	if x.contractDepth == nil {
		x.contractDepth = map[*ssa.Function]int{}
	}
	for _, cl := range c.clauses("ensures") {
		if strings.HasPrefix(cl.Label, "x-") {
			// an "extended" postcondition (expensive to unfold): only for callers that ask for it by name
			if !useOnly[cl.Label] {
				continue
			}
		} else if useOnly != nil && cl.Label != "" && !useOnly[cl.Label] && restricts(useOnly) {
			continue // the caller declared which labelled postconditions it relies on
		}
		if !check && x.contractDepth[callee] >= 2 {
			// a postcondition that mentions the function itself (through a spec function) is
			// unfolded once; deeper applications are just the function symbols
			continue
		}
		x.contractDepth[callee]++
		t := fr.evalClause(callee, cl, all, st, g)
		x.contractDepth[callee]--
		x.assume(g, t)
	}
	if c.Flags["trusted"] {
		x.usedAssumptions["trusted contract of "+fnKey(callee)] = true
	}
	fr.setResult(i, results, st)
}

func (x *Exec) pureApp(callee *ssa.Function, r int, ts []Term) Term {
	name := fmt.Sprintf("fn_%s_%d", sanitize(callee.Name()), r)
	rs := x.eng.tc.sortOf(callee.Signature.Results().At(r).Type())
	decl := "(declare-fun " + name + " ("
	for _, t := range ts {
		decl += t.Sort.Name + " "
	}
	decl += ") " + rs.Name + ")"
	x.declareOnce(decl)
	return mk(rs, name, ts...)
}

func (x *Exec) termOfNoEscape(v Val, st *State) (Term, bool) {
	x.ghostDepth++
	defer func() { x.ghostDepth-- }()
	return x.termOf(v, st)
}

// isCellParam: pointer parameters to record types that are not tree data are
// always tracked as cells (and therefore implicitly non-nil).
func (e *Engine) isCellParam(p *ssa.Parameter) bool {
	pt, ok := p.Type().(*types.Pointer)
	if !ok {
		return false
	}
	n, ok := pt.Elem().(*types.Named)
	if !ok {
		return false
	}
	if _, isStruct := n.Underlying().(*types.Struct); !isStruct {
		return false
	}
	return !e.isTreeSort(e.tc.sortOf(n))
}

// ---- spec functions ----------------------------------------------------------------------------------

func (fr *Frame) specCall(i *ssa.Call, callee *ssa.Function, c *Contract, args []Val, free []Val, st *State, g Term) {
	x := fr.x
	e := x.eng
	if c != nil && !e.specFns[callee] && (c.Flags["functional"] || c.Flags["pure"]) {
		// a real function used inside a specification: its (functional) contract
		fr.applyContract(i, callee, c, args, st, g, false)
		return
	}
	rec := e.recursive[callee] && (e.specFns[callee] || e.selfRecursive(callee))
	if !rec && len(callee.Blocks) > 0 && !hasLoops(callee) {
		vals, _, _ := x.runFunc(callee, args, free, st, g, fr, fr.prefix, true, nil)
		fr.setResult(i, vals, st)
		return
	}
	// recursive spec function (or opaque pure function): uninterpreted symbol + bounded unfolding
	var ts []Term
	for _, a := range args {
		t, ok := x.termOfNoEscape(a, st)
		if !ok {
			x.unsupported("%s: argument of spec function %s has no term form", fr.fn, callee.Name())
			return
		}
		ts = append(ts, t)
	}
	res := callee.Signature.Results()
	var results []Val
	for r := 0; r < res.Len(); r++ {
		results = append(results, TV{T: x.pureApp(callee, r, ts)})
	}
	key := callee.Name() + "|" + fmt.Sprint(ts)
	limit := fr.fuel
	if n, ok := x.fuelFor[callee.Name()]; ok {
		limit = n
	}
	depth := fr.unfoldDepth[callee.Name()]
	if rec && e.specFns[callee] && depth < limit && !x.unfolded[key] && x.qdepth == 0 {
		x.unfolded[key] = true
		saved := fr.unfoldDepth
		nd := map[string]int{}
		for k, v := range saved {
			nd[k] = v
		}
		nd[callee.Name()] = depth + 1
		fr.unfoldDepth = nd
		var tvs []Val
		for _, t := range ts {
			tvs = append(tvs, TV{T: t})
		}
		// the defining equation is path-independent: the body is evaluated under guard true
		vals, _, _ := x.runFunc(callee, tvs, free, st, TTrue, fr, fr.prefix, true, nil)
		fr.unfoldDepth = saved
		for r := range results {
			if r < len(vals) {
				if t, ok := x.termOfNoEscape(vals[r], st); ok {
					x.assume(TTrue, Eq(results[r].(TV).T, t))
				}
			}
		}
	}
	if c != nil && !e.specFns[callee] {
		// opaque pure real function: its postconditions are available
		var olds []Val
		for j, p := range callee.Params {
			if isPtrType(p.Type()) && j < len(ts) {
				olds = append(olds, TV{T: ts[j]})
			}
		}
		var ps []Val
		for _, t := range ts {
			ps = append(ps, TV{T: t})
		}
		all := append(append(ps, olds...), results...)
		for _, cl := range c.clauses("ensures") {
			x.assume(g, fr.evalClause(callee, cl, all, st, g))
		}
	}
	fr.setResult(i, results, st)
}

func hasLoops(f *ssa.Function) bool {
	for _, b := range f.Blocks {
		if isLoopHeader(b) {
			return true
		}
	}
	return false
}

// ---- dynamic calls -------------------------------------------------------------------------------------

func (fr *Frame) dynCall(i *ssa.Call, ft Term, args []Val, st *State, g Term) {
	x := fr.x
	e := x.eng
	cands := e.candidates(i.Call.Value.Type())
	fr.safety(g, "nil", i.Pos(), Not(Eq(ft, IntLit(0))), "call of nil function value")
	if h := e.dynHook(i.Call.Value.Type()); h != nil {
		h(fr, i, ft, args, st, g)
		return
	}
	if len(cands) == 0 {
		x.unsupported("%s: dynamic call with no known targets (%s)", fr.fn, i.Call.Value.Type())
		fr.setResult(i, x.havocResultsSig(i.Call.Signature(), "dyn"), st)
		return
	}
	// case split over the address-taken functions of this type
	var conds []Term
	var sts []*State
	var rets [][]Val
	var anyOf []Term
	open := e.openWorld(i.Call.Value.Type())
	for _, cand := range cands {
		var is Term
		var free []Val
		if len(cand.FreeVars) > 0 {
			// a closure: the function value is clo_C(c...) for some captured values c
			var caps []Term
			for k, fv := range cand.FreeVars {
				pt, ok := fv.Type().(*types.Pointer)
				if !ok {
					caps = nil
					break
				}
				cs := e.tc.sortOf(pt.Elem())
				inv := fmt.Sprintf("clo_%d_inv%d", e.fnIDs[cand], k)
				x.declareOnce(fmt.Sprintf("(declare-fun %s (Int) %s)", inv, cs.Name))
				c := x.define("cap_"+fv.Name(), mk(cs, inv, ft))
				caps = append(caps, c)
				cell := x.newCell("fv_"+fv.Name(), c.Sort)
				cell.Ghost = true
				st.cells[cell] = c
				free = append(free, PV{Cell: cell})
			}
			if caps == nil {
				continue
			}
			// values tagged with this closure's code are exactly the images of clo_C
			is = Eq(x.fnTag(ft), e.fnID(cand))
			ct := x.closureTerm(cand, caps)
			x.assume(is, Eq(ft, ct))
		} else {
			is = Eq(ft, e.fnID(cand))
			x.assume(TTrue, Eq(x.fnTag(e.fnID(cand)), IntLit(0)))
		}
		anyOf = append(anyOf, is)
		cg := x.define("dyn", And(g, is))
		cst := st.clone()
		fr.repoCall(i, cand, args, free, cst, cg)
		var vals []Val
		if v, ok := fr.regs[i]; ok {
			if tup, isT := v.(Tuple); isT {
				vals = tup
			} else {
				vals = []Val{v}
			}
			delete(fr.regs, i)
		}
		conds = append(conds, cg)
		sts = append(sts, cst)
		rets = append(rets, vals)
	}
	if open {
		// open world: any other (user supplied) function - a total function of its arguments
		var ats []Term
		okAll := true
		for _, a := range args {
			t, ok := x.termOfNoEscape(a, st)
			if !ok {
				okAll = false
			}
			ats = append(ats, t)
		}
		if okAll {
			og := x.define("dynother", And(g, Not(Or(anyOf...))))
			res := i.Call.Signature().Results()
			var vals []Val
			for r := 0; r < res.Len(); r++ {
				rs := e.tc.sortOf(res.At(r).Type())
				name := fmt.Sprintf("userfn_%s_%d", sanitize(types.TypeString(i.Call.Value.Type(), func(p *types.Package) string { return p.Name() })), r)
				decl := "(declare-fun " + name + " (Int "
				for _, t := range ats {
					decl += t.Sort.Name + " "
				}
				decl += ") " + rs.Name + ")"
				x.declareOnce(decl)
				vals = append(vals, TV{T: mk(rs, name, append([]Term{ft}, ats...)...)})
			}
			conds = append(conds, og)
			sts = append(sts, st.clone())
			rets = append(rets, vals)
			x.usedAssumptions["user-supplied "+types.TypeString(i.Call.Value.Type(), nil)+" values are total functions of their arguments (no panic, no side effects)"] = true
		}
	} else {
		x.assume(g, Or(anyOf...)) // closed world: only address-taken functions of this type
		x.usedAssumptions["closed world for function values of type "+types.TypeString(i.Call.Value.Type(), nil)] = true
	}
	*st = *x.mergeStates(sts, conds)
	n := i.Call.Signature().Results().Len()
	vals := make([]Val, n)
	for r := 0; r < n; r++ {
		var cs []Val
		for _, rv := range rets {
			if r < len(rv) {
				cs = append(cs, rv[r])
			}
		}
		if len(cs) == len(rets) {
			vals[r] = x.mergeVals(cs, conds, nil, "dynret")
		}
	}
	fr.setResult(i, vals, st)
}

// closureTerm is the function-value term of closure code c with captured values caps:
// an injective constructor (ground inverse facts are emitted for every term built).
func (x *Exec) closureTerm(c *ssa.Function, caps []Term) Term {
	e := x.eng
	name := fmt.Sprintf("clo_%d", e.fnIDs[c])
	decl := "(declare-fun " + name + " ("
	for _, a := range caps {
		decl += a.Sort.Name + " "
	}
	decl += ") Int)"
	x.declareOnce(decl)
	t := mk(SInt, name, caps...)
	for k, a := range caps {
		inv := fmt.Sprintf("%s_inv%d", name, k)
		x.declareOnce(fmt.Sprintf("(declare-fun %s (Int) %s)", inv, a.Sort.Name))
		x.assume(TTrue, Eq(mk(a.Sort, inv, t), a))
	}
	x.assume(TTrue, Eq(x.fnTag(t), e.fnID(c)))
	return t
}

func (x *Exec) fnTag(t Term) Term {
	x.declareOnce("(declare-fun fn_tag (Int) Int)")
	return mk(SInt, "fn_tag", t)
}

func (x *Exec) havocResultsSig(sig *types.Signature, what string) []Val {
	res := sig.Results()
	out := make([]Val, res.Len())
	for i := 0; i < res.Len(); i++ {
		out[i] = TV{T: x.fresh(what, x.eng.tc.sortOf(res.At(i).Type()))}
	}
	return out
}

func (fr *Frame) invoke(i *ssa.Call, st *State, g Term) {
	x := fr.x
	recv := fr.val(i.Call.Value, st)
	switch i.Call.Method.Name() {
	case "Error", "String":
		t, ok := x.termOf(recv, st)
		if ok {
			name := "iface_" + i.Call.Method.Name() + "_" + sanitize(t.Sort.Name)
			x.declareOnce(fmt.Sprintf("(declare-fun %s (%s) Str)", name, t.Sort.Name))
			fr.regs[i] = TV{T: mk(SStr, name, t)}
			return
		}
	}
	x.unsupported("%s: interface method call %s", fr.fn, i.Call.Method.Name())
	fr.setResult(i, x.havocResultsSig(i.Call.Signature(), "inv"), st)
}

// derivedFromParam: v is obtained from a parameter by at least one field /
// element / payload selection.
func derivedFromParam(v ssa.Value, steps int) bool {
	for depth := 0; depth < 60; depth++ {
		switch x := v.(type) {
		case *ssa.Parameter:
			return steps > 0
		case *ssa.FieldAddr:
			v, steps = x.X, steps+1
		case *ssa.Field:
			v, steps = x.X, steps+1
		case *ssa.IndexAddr:
			v, steps = x.X, steps+1
		case *ssa.Index:
			v, steps = x.X, steps+1
		case *ssa.UnOp:
			v = x.X
		case *ssa.TypeAssert:
			v = x.X
		case *ssa.Extract:
			v = x.Tuple
		case *ssa.ChangeType:
			v = x.X
		case *ssa.MakeInterface:
			v = x.X
		case *ssa.Alloc:
			// a captured parameter variable: follow its single store
			var src ssa.Value
			n := 0
			if refs := x.Referrers(); refs != nil {
				for _, r := range *refs {
					if st, ok := r.(*ssa.Store); ok && st.Addr == x {
						n++
						src = st.Val
					}
				}
			}
			if n != 1 {
				return false
			}
			v = src
		default:
			return false
		}
	}
	return false
}

// restricts: a `use Callee: ...` list narrows the ordinary postconditions only if it names one of them
// (a list of extended x- labels alone adds those and keeps all the ordinary ones).
func restricts(use map[string]bool) bool {
	for l := range use {
		if !strings.HasPrefix(l, "x-") {
			return true
		}
	}
	return false
}
