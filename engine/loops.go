package main

import (
	"fmt"
	"go/token"
	"sort"

	"golang.org/x/tools/go/ssa"
)

// rangeInfo recognises go/ssa's lowering of "for i, v := range slice":
//
//	rangeindex.loop: t1 = phi [pre: -1, body: t2]; t2 = t1 + 1; t3 = t2 < tlen; if t3 ...
func rangeInfo(h *ssa.BasicBlock) (phi *ssa.Phi, lenV ssa.Value, ok bool) {
	if h.Comment != "rangeindex.loop" {
		return nil, nil, false
	}
	for _, in := range h.Instrs {
		cmp, ok := in.(*ssa.BinOp)
		if !ok || cmp.Op != token.LSS {
			continue
		}
		inc, ok := cmp.X.(*ssa.BinOp)
		if !ok || inc.Op != token.ADD {
			continue
		}
		p, ok := inc.X.(*ssa.Phi)
		if !ok || p.Block() != h {
			continue
		}
		return p, cmp.Y, true
	}
	return nil, nil, false
}

func (fr *Frame) loopOrdinal(h *ssa.BasicBlock) int {
	var hs []int
	for _, b := range fr.fn.Blocks {
		if isLoopHeader(b) {
			hs = append(hs, b.Index)
		}
	}
	sort.Ints(hs)
	for i, k := range hs {
		if k == h.Index {
			return i
		}
	}
	return -1
}

// ghostArgs binds the parameters of a loop ghost closure: "idx" is the range
// index (number of completed iterations), any other name is the header phi of
// the variable with that name (a variable declared by the for statement itself).
func (fr *Frame) ghostArgs(c *CloV, h *ssa.BasicBlock, phiVal func(*ssa.Phi) Val, st *State) ([]Val, bool) {
	var out []Val
	rphi, _, isRange := rangeInfo(h)
	for _, p := range c.Fn.Params {
		if p.Name() == "idx" {
			if !isRange {
				fr.x.unsupported("%s: idx used on a loop that is not a slice range", fr.fn)
				return nil, false
			}
			t, _ := fr.x.termOf(phiVal(rphi), st)
			out = append(out, TV{T: Add(t, IntLit(1))})
			continue
		}
		var found *ssa.Phi
		for _, in := range h.Instrs {
			ph, ok := in.(*ssa.Phi)
			if !ok {
				break
			}
			if ph.Comment == p.Name() {
				found = ph
			}
		}
		if found == nil {
			fr.x.unsupported("%s: loop ghost parameter %s does not name a variable of the loop statement", fr.fn, p.Name())
			return nil, false
		}
		out = append(out, phiVal(found))
	}
	return out, true
}

// enterLoop cuts the loop at its header: the invariants are asserted for the
// entry state, everything the loop may modify is havocked, and the invariants
// are assumed for the arbitrary iteration that is then executed once.
func (fr *Frame) enterLoop(h *ssa.BasicBlock, st *State, g Term, inPreds []*ssa.BasicBlock, inGs []Term) *State {
	x := fr.x
	lg := fr.loops[h]
	if lg == nil {
		lg = &loopGhost{}
		fr.loops[h] = lg
	}
	k := fr.loopOrdinal(h)
	phi, lenV, isRange := rangeInfo(h)
	// --- entry: invariants hold initially
	entryPhi := func(p *ssa.Phi) Val {
		var cands []Val
		for _, pr := range inPreds {
			cands = append(cands, fr.val(p.Edges[predIndex(h, pr)], fr.out[pr]))
		}
		return x.mergeVals(cands, inGs, nil, "phi-entry")
	}
	for n, inv := range lg.invs {
		args, ok := fr.ghostArgs(inv, h, entryPhi, st)
		if !ok {
			continue
		}
		c := fr.evalClosure(inv, args, st, g)
		x.assert(g, fr.oname(fmt.Sprintf("inv-entry/loop%d/%s", k, lg.label(n))), c, x.posOf(inv.Fn.Pos()), "loop invariant holds on entry")
	}
	// --- havoc
	st = st.clone()
	body := naturalLoop(h)
	cells, all := fr.loopModset(body, st)
	if all {
		for c := range st.cells {
			if !c.Ghost {
				st.cells[c] = x.fresh("hv_"+c.Name, c.Sort)
				delete(st.ptrs, c)
			}
		}
	} else {
		var cs []*Cell
		for c := range cells {
			cs = append(cs, c)
		}
		sort.Slice(cs, func(i, j int) bool { return cs[i].ID < cs[j].ID })
		for _, c := range cs {
			if _, live := st.cells[c]; live {
				st.cells[c] = x.fresh("hv_"+c.Name, c.Sort)
				delete(st.ptrs, c)
			}
		}
	}
	for _, in := range h.Instrs {
		p, ok := in.(*ssa.Phi)
		if !ok {
			break
		}
		t := x.fresh("phi_"+nameOr(p.Comment, p.Name()), x.eng.tc.sortOf(p.Type()))
		fr.setReg(p, TV{T: t}, st)
		x.typeInvariant(t, p.Type(), g)
	}
	// --- assume invariants for the arbitrary iteration
	curPhi := func(p *ssa.Phi) Val { return fr.val(p, st) }
	if isRange {
		pt := fr.term(phi, st)
		lt := fr.term(lenV, st)
		// at the header the phi holds the index of the last completed element
		x.assume(g, And(Le(IntLit(-1), pt), Lt(pt, lt)))
		fr.decAt[h] = append(fr.decAt[h], Sub(lt, pt))
	}
	for _, inv := range lg.invs {
		args, ok := fr.ghostArgs(inv, h, curPhi, st)
		if !ok {
			continue
		}
		x.assume(g, fr.evalClosure(inv, args, st, g))
	}
	for _, d := range lg.decs {
		args, ok := fr.ghostArgs(d, h, curPhi, st)
		if !ok {
			continue
		}
		t := fr.evalClosure(d, args, st, g)
		fr.decAt[h] = append(fr.decAt[h], x.define("dec", t))
	}
	if !isRange && len(lg.decs) == 0 && !fr.ghost {
		x.assert(g, fr.oname(fmt.Sprintf("decr/loop%d/missing-variant", k)), TFalse, "", "loop without a decreases clause")
	}
	return st
}

// backEdge checks that the invariants are re-established and the variant decreased.
func (fr *Frame) backEdge(from, h *ssa.BasicBlock, st *State, g Term) {
	x := fr.x
	lg := fr.loops[h]
	if lg == nil {
		return
	}
	k := fr.loopOrdinal(h)
	_, _, isRange := rangeInfo(h)
	edgePhi := func(p *ssa.Phi) Val { return fr.val(p.Edges[predIndex(h, from)], st) }
	for n, inv := range lg.invs {
		args, ok := fr.ghostArgs(inv, h, edgePhi, st)
		if !ok {
			continue
		}
		c := fr.evalClosure(inv, args, st, g)
		x.assert(g, fr.oname(fmt.Sprintf("inv-step/loop%d/%s", k, lg.label(n))), c, x.posOf(inv.Fn.Pos()), "loop invariant preserved")
	}
	ds := fr.decAt[h]
	off := 0
	if isRange {
		off = 1 // implicit variant of a range loop: decreases by construction
	}
	for n, d := range lg.decs {
		if n+off >= len(ds) {
			break
		}
		d0 := ds[n+off]
		args, ok := fr.ghostArgs(d, h, edgePhi, st)
		if !ok {
			continue
		}
		d1 := fr.evalClosure(d, args, st, g)
		x.assert(g, fr.oname(fmt.Sprintf("decr/loop%d/%d", k, n)), And(Le(IntLit(0), d0), Lt(d1, d0)), x.posOf(d.Fn.Pos()), "loop variant decreases and is bounded below")
	}
}

// loopModset computes the cells a loop body may write.
func (fr *Frame) loopModset(body map[*ssa.BasicBlock]bool, st *State) (map[*Cell]bool, bool) {
	out := map[*Cell]bool{}
	all := false
	add := func(root ssa.Value) {
		if root == nil {
			all = true
			return
		}
		if c, ok := fr.boxed[root]; ok && c != nil {
			out[c] = true
			return
		}
		switch v := fr.regs[root].(type) {
		case PV:
			if v.Cell != nil {
				out[v.Cell] = true
			}
		case TV:
			if v.Origin != nil && v.Origin.Cell != nil {
				out[v.Origin.Cell] = true
			}
		case nil:
			// defined inside the loop (fresh per iteration) or a global
			if g, ok := root.(*ssa.Global); ok {
				if c := fr.x.globalCellIfAny(g); c != nil {
					out[c] = true
				}
			}
		}
	}
	for b := range body {
		for _, in := range b.Instrs {
			switch i := in.(type) {
			case *ssa.Store:
				if ia, ok := i.Addr.(*ssa.IndexAddr); ok {
					if _, bx := fr.boxed[ia.X]; bx {
						add(ia.X)
						continue
					}
				}
				add(rootOf(i.Addr))
			case *ssa.MapUpdate:
				add(rootOf(i.Map))
			case ssa.CallInstruction:
				fr.x.eng.callMods(i, func(arg ssa.Value) { add(rootOf(arg)) }, func() { all = true })
			}
		}
	}
	// boxed registers defined in the loop are re-boxed per iteration; phis are havocked separately
	return out, all
}

// rootOf walks an address or pointer expression back to the allocation,
// parameter, free variable or global it is derived from (nil: unknown).
func rootOf(v ssa.Value) ssa.Value {
	for depth := 0; depth < 50; depth++ {
		switch x := v.(type) {
		case *ssa.FieldAddr:
			v = x.X
		case *ssa.IndexAddr:
			v = x.X
		case *ssa.UnOp:
			if x.Op != token.MUL {
				return nil
			}
			if a, ok := x.X.(*ssa.Alloc); ok {
				// a local variable holding a pointer: follow its single assignment
				var src ssa.Value
				n := 0
				if refs := a.Referrers(); refs != nil {
					for _, r := range *refs {
						if st, ok := r.(*ssa.Store); ok && st.Addr == a {
							n++
							src = st.Val
						}
					}
				}
				if n == 1 {
					v = src
					continue
				}
				return nil
			}
			v = x.X
		case *ssa.ChangeType:
			v = x.X
		case *ssa.MakeInterface:
			v = x.X
		case *ssa.Slice:
			v = x.X
		case *ssa.TypeAssert:
			v = x.X
		case *ssa.Extract:
			return v
		case *ssa.Alloc, *ssa.Parameter, *ssa.FreeVar, *ssa.Global, *ssa.Call, *ssa.MakeSlice, *ssa.MakeMap, *ssa.Const:
			return v
		default:
			return nil
		}
	}
	return nil
}
