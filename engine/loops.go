package main

import (
	"fmt"
	"go/token"
	"sort"

	"golang.org/x/tools/go/ssa"
)

// rangeInfo recognises go/ssa's lowering of "for i, v := range slice":
//
//	rangeindex.loop: t1 = phi [pre: -1, body: t2]; t2 = t1 + 1; t3 = t2 < tlen; if t3 ...
func rangeInfo(h *ssa.BasicBlock) (phi *ssa.Phi, lenV ssa.Value, ok bool) {
	if h.Comment != "rangeindex.loop" || len(h.Instrs) < 4 {
		return nil, nil, false
	}
	p, ok1 := h.Instrs[0].(*ssa.Phi)
	inc, ok2 := h.Instrs[1].(*ssa.BinOp)
	cmp, ok3 := h.Instrs[2].(*ssa.BinOp)
	if !ok1 || !ok2 || !ok3 || inc.Op != token.ADD || inc.X != p || cmp.Op != token.LSS || cmp.X != inc {
		return nil, nil, false
	}
	return p, cmp.Y, true
}

func (fr *Frame) loopOrdinal(h *ssa.BasicBlock) int {
	var hs []int
	for _, b := range fr.fn.Blocks {
		if isLoopHeader(b) {
			hs = append(hs, b.Index)
		}
	}
	sort.Ints(hs)
	for i, k := range hs {
		if k == h.Index {
			return i
		}
	}
	return -1
}

// enterLoop cuts the loop at its header: the invariants are asserted for the
// entry state, everything the loop may modify is havocked, and the invariants
// are assumed for the arbitrary iteration that is then executed once.
func (fr *Frame) enterLoop(h *ssa.BasicBlock, st *State, g Term, inPreds []*ssa.BasicBlock, inGs []Term) *State {
	x := fr.x
	lg := fr.loops[h]
	if lg == nil {
		lg = &loopGhost{}
		fr.loops[h] = lg
	}
	k := fr.loopOrdinal(h)
	phi, lenV, isRange := rangeInfo(h)
	// --- entry: invariants hold initially
	var entryIdx Term
	if isRange {
		var cands []Val
		for _, p := range inPreds {
			cands = append(cands, fr.val(phi.Edges[predIndex(h, p)], fr.out[p]))
		}
		v := x.mergeVals(cands, inGs, nil, "rangeidx")
		t, _ := x.termOf(v, nil)
		entryIdx = Add(t, IntLit(1))
	}
	for n, inv := range lg.invs {
		c := fr.evalClosure(inv, nil, st, g)
		x.assert(g, fr.oname(fmt.Sprintf("inv-entry/loop%d/%d", k, n)), c, x.posOf(inv.Fn.Pos()), "loop invariant holds on entry")
	}
	for n, inv := range lg.rinvs {
		if !isRange {
			x.unsupported("%s: RangeInvariant on a loop that is not a slice range", fr.fn)
			break
		}
		c := fr.evalClosure(inv, []Val{TV{T: entryIdx}}, st, g)
		x.assert(g, fr.oname(fmt.Sprintf("inv-entry/loop%d/r%d", k, n)), c, x.posOf(inv.Fn.Pos()), "range loop invariant holds on entry")
	}
	// --- havoc
	st = st.clone()
	body := naturalLoop(h)
	cells, all := fr.loopModset(body, st)
	if all {
		for c := range st.cells {
			if !c.Ghost {
				st.cells[c] = x.fresh("hv_"+c.Name, c.Sort)
			}
		}
	} else {
		var cs []*Cell
		for c := range cells {
			cs = append(cs, c)
		}
		sort.Slice(cs, func(i, j int) bool { return cs[i].ID < cs[j].ID })
		for _, c := range cs {
			if _, live := st.cells[c]; live {
				st.cells[c] = x.fresh("hv_"+c.Name, c.Sort)
			}
		}
	}
	for _, in := range h.Instrs {
		p, ok := in.(*ssa.Phi)
		if !ok {
			break
		}
		fr.setReg(p, TV{T: x.fresh("phi_"+nameOr(p.Comment, p.Name()), x.eng.tc.sortOf(p.Type()))}, st)
	}
	// --- assume invariants for the arbitrary iteration
	if isRange {
		pt := fr.term(phi, st)
		lt := fr.term(lenV, st)
		x.assume(g, And(Le(IntLit(-1), pt), Lt(pt, lt)))
		// note: at the header the phi holds the index of the last completed element;
		// pt < len always holds because the loop is left when pt+1 >= len.
		for _, inv := range lg.rinvs {
			c := fr.evalClosure(inv, []Val{TV{T: Add(pt, IntLit(1))}}, st, g)
			x.assume(g, c)
		}
		fr.decAt[h] = append(fr.decAt[h], Sub(lt, pt))
	}
	for _, inv := range lg.invs {
		c := fr.evalClosure(inv, nil, st, g)
		x.assume(g, c)
	}
	for _, d := range lg.decs {
		t := fr.evalClosure(d, nil, st, g)
		fr.decAt[h] = append(fr.decAt[h], x.define("dec", t))
	}
	if !isRange && len(lg.decs) == 0 && !fr.ghost {
		x.assert(g, fr.oname(fmt.Sprintf("decr/loop%d/missing-variant", k)), TFalse, "", "loop without a decreases clause")
	}
	return st
}

// backEdge checks that the invariants are re-established and the variant decreased.
func (fr *Frame) backEdge(from, h *ssa.BasicBlock, st *State, g Term) {
	x := fr.x
	lg := fr.loops[h]
	if lg == nil {
		return
	}
	k := fr.loopOrdinal(h)
	phi, lenV, isRange := rangeInfo(h)
	for n, inv := range lg.invs {
		c := fr.evalClosure(inv, nil, st, g)
		x.assert(g, fr.oname(fmt.Sprintf("inv-step/loop%d/%d", k, n)), c, x.posOf(inv.Fn.Pos()), "loop invariant preserved")
	}
	if isRange {
		nv := fr.term(phi.Edges[predIndex(h, from)], st)
		for n, inv := range lg.rinvs {
			c := fr.evalClosure(inv, []Val{TV{T: Add(nv, IntLit(1))}}, st, g)
			x.assert(g, fr.oname(fmt.Sprintf("inv-step/loop%d/r%d", k, n)), c, x.posOf(inv.Fn.Pos()), "range loop invariant preserved")
		}
		_ = lenV
	}
	ds := fr.decAt[h]
	off := 0
	if isRange {
		off = 1 // implicit variant of a range loop: decreases by construction
	}
	for n, d := range lg.decs {
		if n+off >= len(ds) {
			break
		}
		d0 := ds[n+off]
		d1 := fr.evalClosure(d, nil, st, g)
		x.assert(g, fr.oname(fmt.Sprintf("decr/loop%d/%d", k, n)), And(Le(IntLit(0), d0), Lt(d1, d0)), x.posOf(d.Fn.Pos()), "loop variant decreases and is bounded below")
	}
}

// loopModset computes the cells a loop body may write.
func (fr *Frame) loopModset(body map[*ssa.BasicBlock]bool, st *State) (map[*Cell]bool, bool) {
	out := map[*Cell]bool{}
	all := false
	add := func(root ssa.Value) {
		if root == nil {
			all = true
			return
		}
		if c, ok := fr.boxed[root]; ok && c != nil {
			out[c] = true
			return
		}
		switch v := fr.regs[root].(type) {
		case PV:
			if v.Cell != nil {
				out[v.Cell] = true
			}
		case TV:
			if v.Origin != nil && v.Origin.Cell != nil {
				out[v.Origin.Cell] = true
			}
		case nil:
			// defined inside the loop (fresh per iteration) or a global
			if g, ok := root.(*ssa.Global); ok {
				if c := fr.x.globalCellIfAny(g); c != nil {
					out[c] = true
				}
			}
		}
	}
	for b := range body {
		for _, in := range b.Instrs {
			switch i := in.(type) {
			case *ssa.Store:
				if ia, ok := i.Addr.(*ssa.IndexAddr); ok {
					if _, bx := fr.boxed[ia.X]; bx {
						add(ia.X)
						continue
					}
				}
				add(rootOf(i.Addr))
			case *ssa.MapUpdate:
				add(rootOf(i.Map))
			case ssa.CallInstruction:
				fr.x.eng.callMods(i, func(arg ssa.Value) { add(rootOf(arg)) }, func() { all = true })
			}
		}
	}
	// boxed registers defined in the loop are re-boxed per iteration; phis are havocked separately
	return out, all
}

// rootOf walks an address or pointer expression back to the allocation,
// parameter, free variable or global it is derived from (nil: unknown).
func rootOf(v ssa.Value) ssa.Value {
	for depth := 0; depth < 50; depth++ {
		switch x := v.(type) {
		case *ssa.FieldAddr:
			v = x.X
		case *ssa.IndexAddr:
			v = x.X
		case *ssa.UnOp:
			if x.Op != token.MUL {
				return nil
			}
			v = x.X
		case *ssa.ChangeType:
			v = x.X
		case *ssa.MakeInterface:
			v = x.X
		case *ssa.Slice:
			v = x.X
		case *ssa.TypeAssert:
			v = x.X
		case *ssa.Extract:
			return v
		case *ssa.Alloc, *ssa.Parameter, *ssa.FreeVar, *ssa.Global, *ssa.Call, *ssa.MakeSlice, *ssa.MakeMap, *ssa.Const:
			return v
		default:
			return nil
		}
	}
	return nil
}
