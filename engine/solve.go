package main

import (
	"math"
	"bytes"
	"context"
	"fmt"
	"os"
	"os/exec"
	"path/filepath"
	"regexp"
	"sort"
	"strings"
	"sync"
	"time"
)

// ---- preamble ------------------------------------------------------------------------------------

type ufDecl struct {
	name string
	decl string
}

var ufDecls = []ufDecl{
	{"slen", "(declare-fun slen (Str) Int)"},
	{"sat", "(declare-fun sat (Str Int) Int)"},
	{"ssub", "(declare-fun ssub (Str Int Int) Str)"},
	{"scat", "(declare-fun scat (Str Str) Str)"},
	{"u8rune", "(declare-fun u8rune (Str Int) Int)"},
	{"u8width", "(declare-fun u8width (Str Int) Int)"},
	{"u8lastr", "(declare-fun u8lastr (Str Int) Int)"},
	{"u8lastw", "(declare-fun u8lastw (Str Int) Int)"},
	{"u8bnd", "(declare-fun u8bnd (Str Int) Bool)"},
	{"u8valid", "(declare-fun u8valid (Str) Bool)"},
	{"uni_letter", "(declare-fun uni_letter (Int) Bool)"},
	{"uni_digit", "(declare-fun uni_digit (Int) Bool)"},
	{"str_upper", "(declare-fun str_upper (Str) Str)"},
	{"str_replace", "(declare-fun str_replace (Str Str Str) Str)"},
	{"str_contains", "(declare-fun str_contains (Str Str) Bool)"},
	{"str_containsany", "(declare-fun str_containsany (Str Str) Bool)"},
	{"str_containsrune", "(declare-fun str_containsrune (Str Int) Bool)"},
	{"str_trim", "(declare-fun str_trim (Str Str) Str)"},
	{"bytes_trimspace", "(declare-fun bytes_trimspace (Str) Str)"},
	{"str_of_rune", "(declare-fun str_of_rune (Int) Str)"},
	{"atoi_val", "(declare-fun atoi_val (Str) Int)"},
	{"atoi_err", "(declare-fun atoi_err (Str) Err)"},
	{"pf_val", "(declare-fun pf_val (Str Int) F64)"},
	{"pf_err", "(declare-fun pf_err (Str Int) Err)"},
	{"itoa", "(declare-fun itoa (Int) Str)"},
	{"fmt_v", "(declare-fun fmt_v (Any) Str)"},
	{"json_bytes", "(declare-fun json_bytes (Any) Str)"},
	{"json_err", "(declare-fun json_err (Any) Err)"},
	{"f64_lt", "(declare-fun f64_lt (F64 F64) Bool)"},
	{"f64_le", "(declare-fun f64_le (F64 F64) Bool)"},
	{"f64_eq", "(declare-fun f64_eq (F64 F64) Bool)"},
	{"f64_neg", "(declare-fun f64_neg (F64) F64)"},
	{"f64_isnan", "(declare-fun f64_isnan (F64) Bool)"},
	{"f64_isinf", "(declare-fun f64_isinf (F64 Int) Bool)"},
	{"f64_of_int", "(declare-fun f64_of_int (Int) F64)"},
	{"int_of_f64", "(declare-fun int_of_f64 (F64) Int)"},
	{"go_div", "(declare-fun go_div (Int Int) Int)"},
	{"go_rem", "(declare-fun go_rem (Int Int) Int)"},
}

type axiom struct {
	trigger []string // included when any of these symbols occurs
	text    string
	group   string
}

var axioms = []axiom{
	{[]string{"slen"}, "(assert (forall ((s Str)) (! (>= (slen s) 0) :pattern ((slen s)))))", "STRBASE"},
	{[]string{"sat"}, "(assert (forall ((s Str) (i Int)) (! (and (<= 0 (sat s i)) (<= (sat s i) 255)) :pattern ((sat s i)))))", "STRBASE"},
	{[]string{"ssub"}, "(assert (forall ((s Str) (i Int) (j Int)) (! (=> (and (<= 0 i) (<= i j) (<= j (slen s))) (= (slen (ssub s i j)) (- j i))) :pattern ((ssub s i j)))))", "STRBASE"},
	{[]string{"ssub"}, "(assert (forall ((s Str) (i Int) (j Int) (k Int)) (! (=> (and (<= 0 i) (<= i j) (<= j (slen s)) (<= 0 k) (< k (- j i))) (= (sat (ssub s i j) k) (sat s (+ i k)))) :pattern ((sat (ssub s i j) k)))))", "STRBASE"},
	{[]string{"ssub"}, "(assert (forall ((s Str)) (! (= (ssub s 0 (slen s)) s) :pattern ((ssub s 0 (slen s))))))", "STRBASE"},
	{[]string{"scat"}, "(assert (forall ((a Str) (b Str)) (! (= (slen (scat a b)) (+ (slen a) (slen b))) :pattern ((scat a b)))))", "STRBASE"},
	{[]string{"scat"}, "(assert (forall ((a Str) (b Str) (k Int)) (! (= (sat (scat a b) k) (ite (< k (slen a)) (sat a k) (sat b (- k (slen a))))) :pattern ((sat (scat a b) k)))))", "STRBASE"},
	// UTF8: contract of DecodeRuneInString at a byte offset
	{[]string{"u8width", "u8rune"}, "(assert (forall ((s Str) (i Int)) (! (=> (and (<= 0 i) (< i (slen s))) (and (<= 1 (u8width s i)) (<= (u8width s i) 4) (<= (+ i (u8width s i)) (slen s)))) :pattern ((u8width s i)))))", "UTF8"},
	{[]string{"u8width", "u8rune"}, "(assert (forall ((s Str) (i Int)) (! (=> (and (<= 0 i) (< i (slen s))) (and (<= 0 (u8rune s i)) (<= (u8rune s i) 1114111))) :pattern ((u8rune s i)))))", "UTF8"},
	{[]string{"u8width", "u8rune"}, "(assert (forall ((s Str) (i Int)) (! (=> (and (<= 0 i) (< i (slen s)) (< (sat s i) 128)) (and (= (u8rune s i) (sat s i)) (= (u8width s i) 1))) :pattern ((u8rune s i)) :pattern ((u8width s i)))))", "UTF8"},
	{[]string{"u8width", "u8rune"}, "(assert (forall ((s Str) (i Int)) (! (=> (and (<= 0 i) (< i (slen s)) (< (u8rune s i) 128)) (and (= (sat s i) (u8rune s i)) (= (u8width s i) 1))) :pattern ((u8rune s i)))))", "UTF8"},
	{[]string{"u8width"}, "(assert (forall ((s Str) (i Int) (k Int)) (! (=> (and (<= 0 i) (< i (slen s)) (<= i k) (< k (+ i (u8width s i))) (> (u8width s i) 1)) (>= (sat s k) 128)) :pattern ((u8width s i) (sat s k)))))", "UTF8"},
	// DecodeLastRuneInString
	{[]string{"u8lastw"}, "(assert (forall ((s Str) (p Int)) (! (=> (and (< 0 p) (<= p (slen s))) (and (<= 1 (u8lastw s p)) (<= (u8lastw s p) 4) (<= (u8lastw s p) p))) :pattern ((u8lastw s p)))))", "UTF8"},
	// UTF8-BW: on forward rune boundaries the backward width equals the forward width
	{[]string{"u8lastw"}, "(assert (forall ((s Str) (q Int)) (! (=> (and (<= 0 q) (< q (slen s)) (u8bnd s q)) (= (u8lastw s (+ q (u8width s q))) (u8width s q))) :pattern ((u8width s q)))))", "UTF8-BW"},
	{[]string{"u8bnd"}, "(assert (forall ((s Str)) (! (u8bnd s 0) :pattern ((u8bnd s 0)))))", "UTF8"},
	{[]string{"u8bnd"}, "(assert (forall ((s Str) (q Int)) (! (=> (and (<= 0 q) (< q (slen s)) (u8bnd s q)) (u8bnd s (+ q (u8width s q)))) :pattern ((u8width s q)))))", "UTF8"},
	// STR: replacing something that does not occur changes nothing
	{[]string{"str_replace"}, "(assert (forall ((s Str) (x Str) (y Str)) (! (=> (not (str_contains s x)) (= (str_replace s x y) s)) :pattern ((str_replace s x y)))))", "STR"},
	// STR: replacing one byte by one byte keeps the length and maps byte by byte
	{[]string{"str_replace"}, "(assert (forall ((s Str) (x Str) (y Str)) (! (=> (and (= (slen x) 1) (= (slen y) 1)) (= (slen (str_replace s x y)) (slen s))) :pattern ((str_replace s x y)))))", "STR"},
	{[]string{"str_replace"}, "(assert (forall ((s Str) (x Str) (y Str) (i Int)) (! (=> (and (= (slen x) 1) (= (slen y) 1) (<= 0 i) (< i (slen s))) (= (sat (str_replace s x y) i) (ite (= (sat s i) (sat x 0)) (sat y 0) (sat s i)))) :pattern ((sat (str_replace s x y) i)))))", "STR"},
	// F64: an int converts to a finite number
	{[]string{"f64_isinf"}, "(assert (forall ((i Int) (sg Int)) (! (not (f64_isinf (f64_of_int i) sg)) :pattern ((f64_isinf (f64_of_int i) sg)))))", "F64"},
	{[]string{"f64_isnan"}, "(assert (forall ((i Int)) (! (not (f64_isnan (f64_of_int i))) :pattern ((f64_isnan (f64_of_int i))))))", "F64"},
	// F64: NaN compares false with everything
	{[]string{"f64_isnan"}, "(assert (forall ((a F64) (b F64)) (! (=> (f64_lt a b) (and (not (f64_isnan a)) (not (f64_isnan b)))) :pattern ((f64_lt a b)))))", "F64"},
	// F64: IEEE equality is symmetric
	{[]string{"f64_eq"}, "(assert (forall ((a F64) (b F64)) (! (= (f64_eq a b) (f64_eq b a)) :pattern ((f64_eq a b)))))", "F64"},
	// FMT: a number prints as at least one character
	{[]string{"itoa"}, "(assert (forall ((i Int)) (! (>= (slen (itoa i)) 1) :pattern ((itoa i)))))", "FMT"},
	{[]string{"fmt_v"}, "(assert (forall ((a Any)) (! (=> (or ((_ is A_int) a) ((_ is A_float64) a)) (>= (slen (fmt_v a)) 1)) :pattern ((fmt_v a)))))", "FMT"},
	// UNI: ASCII behaviour of the unicode predicates
	{[]string{"uni_digit"}, "(assert (forall ((r Int)) (! (=> (< r 128) (= (uni_digit r) (and (<= 48 r) (<= r 57)))) :pattern ((uni_digit r)))))", "UNI"},
	{[]string{"uni_letter"}, "(assert (forall ((r Int)) (! (=> (< r 128) (= (uni_letter r) (or (and (<= 65 r) (<= r 90)) (and (<= 97 r) (<= r 122))))) :pattern ((uni_letter r)))))", "UNI"},
}

func usesSym(text, sym string) bool {
	return strings.Contains(text, "("+sym+" ") || strings.Contains(text, " "+sym+" ") || strings.Contains(text, " "+sym+")")
}

var reStrK = regexp.MustCompile(`str_k(\d+)`)
var reF64K = regexp.MustCompile(`f64_k(\d+)`)

var reIdent = regexp.MustCompile(`[A-Za-z_][A-Za-z0-9_!]*`)

func tokens(text string, into map[string]bool) {
	for _, m := range reIdent.FindAllString(text, -1) {
		into[m] = true
	}
}

// preamble emits sorts, function declarations, constants and axioms for exactly
// the symbols in syms (closed under what the selected axioms mention).
func (e *Engine) preamble(body string) string {
	syms := map[string]bool{}
	tokens(body, syms)
	return e.preambleSyms(syms)
}

func (e *Engine) preambleSyms(in map[string]bool) string {
	syms := make(map[string]bool, len(in)+64)
	for k := range in {
		syms[k] = true
	}
	var b strings.Builder
	b.WriteString("(set-option :produce-models true)\n(set-logic ALL)\n")
	var ax strings.Builder
	addAx := func(text string) {
		ax.WriteString(text + "\n")
		tokens(text, syms)
	}
	for changed := true; changed; {
		changed = false
		for i := range axioms {
			a := &axioms[i]
			if syms["@ax"+fmt.Sprint(i)] {
				continue
			}
			for _, t := range a.trigger {
				if syms[t] {
					syms["@ax"+fmt.Sprint(i)] = true
					addAx(a.text)
					changed = true
					break
				}
			}
		}
		for i, a := range e.extraAxioms {
			if syms["@xax"+fmt.Sprint(i)] {
				continue
			}
			for _, t := range a.trigger {
				if syms[t] {
					syms["@xax"+fmt.Sprint(i)] = true
					addAx(a.text)
					changed = true
					break
				}
			}
		}
	}
	// string and float constants
	var consts strings.Builder
	var strKs []int
	for sym := range syms {
		if strings.HasPrefix(sym, "str_k") {
			var k int
			if _, err := fmt.Sscanf(sym, "str_k%d", &k); err == nil && k < len(e.strList) {
				strKs = append(strKs, k)
			}
		}
	}
	sort.Ints(strKs)
	for _, k := range strKs {
		name := fmt.Sprintf("str_k%d", k)
		lit := e.strList[k]
		fmt.Fprintf(&consts, "(declare-const %s Str) ; %q\n(assert (= (slen %s) %d))\n", name, lit, name, len(lit))
		for i := 0; i < len(lit); i++ {
			fmt.Fprintf(&consts, "(assert (= (sat %s %d) %d))\n", name, i, lit[i])
		}
		if len(lit) <= 12 {
			// literal extensionality: a string with the literal's content is the literal
			fmt.Fprintf(&consts, "(assert (forall ((a Str)) (! (=> (and (= (slen a) %d)", len(lit))
			for i := 0; i < len(lit); i++ {
				fmt.Fprintf(&consts, " (= (sat a %d) %d)", i, lit[i])
			}
			fmt.Fprintf(&consts, ") (= a %s)) :pattern ((slen a)))))\n", name)
		}
		syms["slen"], syms["sat"] = true, true
	}
	var fks []int
	for sym := range syms {
		if strings.HasPrefix(sym, "f64_k") {
			var k int
			if _, err := fmt.Sscanf(sym, "f64_k%d", &k); err == nil && k < len(e.f64List) {
				fks = append(fks, k)
			}
		}
	}
	sort.Ints(fks)
	for _, k := range fks {
		fmt.Fprintf(&consts, "(declare-const f64_k%d F64) ; %v\n", k, e.f64List[k])
		syms["f64_lt"], syms["f64_le"], syms["f64_eq"] = true, true, true
		if syms["f64_isinf"] && !math.IsInf(e.f64List[k], 0) {
			fmt.Fprintf(&consts, "(assert (forall ((sg Int)) (! (not (f64_isinf f64_k%d sg)) :pattern ((f64_isinf f64_k%d sg)))))\n", k, k)
		}
		if syms["f64_isnan"] && !math.IsNaN(e.f64List[k]) {
			fmt.Fprintf(&consts, "(assert (not (f64_isnan f64_k%d)))\n", k)
		}
	}
	for _, i := range fks {
		for _, j := range fks {
			if i == j {
				continue
			}
			if e.f64List[i] < e.f64List[j] {
				fmt.Fprintf(&consts, "(assert (and (f64_lt f64_k%d f64_k%d) (f64_le f64_k%d f64_k%d) (not (f64_lt f64_k%d f64_k%d)) (not (f64_le f64_k%d f64_k%d)) (not (f64_eq f64_k%d f64_k%d))))\n", i, j, i, j, j, i, j, i, i, j)
			}
		}
		fmt.Fprintf(&consts, "(assert (and (f64_eq f64_k%d f64_k%d) (f64_le f64_k%d f64_k%d) (not (f64_lt f64_k%d f64_k%d))))\n", i, i, i, i, i, i)
	}
	if syms["f64_lt"] || syms["f64_le"] {
		consts.WriteString("(assert (forall ((a F64) (b F64)) (! (= (f64_le a b) (or (f64_lt a b) (f64_eq a b))) :pattern ((f64_le a b)))))\n")
		syms["f64_eq"], syms["f64_lt"], syms["f64_le"] = true, true, true
	}
	// sorts: every registered sort whose name occurs
	roots := map[*Sort]bool{SStr: true, SF64: true, SErr: true}
	for name, s := range sorts.byName {
		if s.Kind == KArray {
			continue
		}
		if syms[name] {
			roots[s] = true
			continue
		}
		// constructor / selector names imply the sort
		for sym := range syms {
			if strings.HasPrefix(sym, name+"_") {
				roots[s] = true
				break
			}
		}
	}
	b.WriteString(sortDecls(roots))
	for _, s := range sortClosure(roots) {
		if s.Kind == KSlice {
			// lengths are read through max(0, raw) so that every slice value has a non-negative length
			fmt.Fprintf(&b, "(declare-fun %s_n (%s) Int)\n(assert (forall ((s %s)) (! (= (%s_n s) (ite (>= (%s_len s) 0) (%s_len s) 0)) :pattern ((%s_n s)))))\n", s.Name, s.Name, s.Name, s.Name, s.Name, s.Name, s.Name)
		}
	}
	for _, d := range ufDecls {
		if syms[d.name] {
			b.WriteString(d.decl + "\n")
		}
	}
	for _, d := range e.extraDecls {
		if syms[d.name] {
			b.WriteString(d.decl + "\n")
		}
	}
	b.WriteString(consts.String())
	b.WriteString(ax.String())
	return b.String()
}

func usesSymAny(text string, syms ...string) bool {
	for _, s := range syms {
		if usesSym(text, s) {
			return true
		}
	}
	return false
}

// ---- obligations ------------------------------------------------------------------------------------

type Obligation struct {
	Func   string
	Name   string // full name pkg.func/kind/...
	Short  string
	Pos    string
	Info   string
	Query  string
	Status string // proved, failed, unknown, trivial
	Solver string
	Time   float64
	Model  string
	Size   int
	Props  []string
	Carved string // known-finding id whose carve-out hypothesis was used
	Inputs []string `json:"-"` // SMT terms whose model values describe the failing input
	SolverOutput string
	Replay *ReplayResult
}

// queries builds one SMT script per assertion of an executed function.
func (x *Exec) queries(fname string) []*Obligation {
	var out []*Obligation
	var body strings.Builder
	// symbols seen so far (events are scanned once; each obligation gets the
	// preamble of exactly the symbols that occur before it)
	seen := map[string]bool{}
	x.allSyms = seen
	for _, ev := range x.events {
		switch ev.Kind {
		case EvDecl:
			tokens(ev.Text, seen)
			body.WriteString(ev.Text + "\n")
		case EvAssume:
			tokens(ev.T.S, seen)
			body.WriteString("(assert " + ev.T.S + ")\n")
		case EvAssert:
			tokens(ev.T.S, seen)
			ob := &Obligation{Func: fname, Name: fname + "/" + ev.Name, Short: ev.Name, Pos: ev.Pos, Info: ev.Info, Inputs: x.inputs}
			if ev.T.S == "true" {
				ob.Status = "trivial"
			} else {
				goal := ev.T.S
				if hyp, ok := x.carve[ev.Name]; ok {
					goal = "(=> " + hyp.S + " " + goal + ")"
				}
				q := body.String() + "(assert (not " + goal + "))\n(check-sat)\n"
				if hyp, ok := x.carve[ev.Name]; ok {
					tokens(hyp.S, seen)
				}
				ob.Query = x.eng.preambleSyms(seen) + q
				ob.Size = len(ob.Query)
			}
			out = append(out, ob)
			if !ev.NoAssume {
				body.WriteString("(assert " + ev.T.S + ")\n")
			}
		}
	}
	return out
}

// endQuery: everything assumed anywhere in the function (definitions, callee
// postconditions, invariants, discharged obligations) must be jointly satisfiable;
// an unsat answer means the proofs of this function are vacuous.
func (x *Exec) endQuery() string {
	var body strings.Builder
	for _, ev := range x.events {
		switch ev.Kind {
		case EvDecl:
			body.WriteString(ev.Text + "\n")
		case EvAssume:
			body.WriteString("(assert " + ev.T.S + ")\n")
		case EvAssert:
			if !ev.NoAssume && ev.T.S != "false" && !strings.HasSuffix(ev.T.S, " false)") {
				body.WriteString("(assert " + ev.T.S + ")\n")
			}
		}
	}
	q := body.String() + "(check-sat)\n"
	return x.eng.preambleSyms(x.allSyms) + q
}

// vacuityQuery: the assumptions up to the end of the root's requires must be satisfiable.
func (x *Exec) vacuityQuery() string {
	var body strings.Builder
	for k, ev := range x.events {
		if k >= x.vacuityAt {
			break
		}
		switch ev.Kind {
		case EvDecl:
			body.WriteString(ev.Text + "\n")
		case EvAssume:
			body.WriteString("(assert " + ev.T.S + ")\n")
		}
	}
	q := body.String() + "(check-sat)\n"
	return x.eng.preamble(q) + q
}

// ---- solver portfolio ---------------------------------------------------------------------------------

type solverSpec struct {
	name string
	argv func(file string, timeout int) []string
}

// Budgets are *resource* limits (deterministic, independent of machine load); the
// wall-clock limit is only a safety net and is set generously (t is scaled by 12).
var rlimitPerSecond = 6000000 // z3 resource units that correspond to roughly one second on an idle core

var solvers = []solverSpec{
	{"z3-new", func(f string, t int) []string {
		return []string{"z3-new", fmt.Sprintf("rlimit=%d", t*rlimitPerSecond), fmt.Sprintf("-T:%d", t*12), f}
	}},
	{"z3", func(f string, t int) []string {
		return []string{"z3", fmt.Sprintf("rlimit=%d", t*rlimitPerSecond), fmt.Sprintf("-T:%d", t*12), f}
	}},
	{"cvc5", func(f string, t int) []string {
		return []string{"cvc5", "--dt-nested-rec", fmt.Sprintf("--rlimit=%d", t*300000), fmt.Sprintf("--tlimit=%d", t*3*1000), f}
	}},
}

func runSolver(s solverSpec, file string, timeout int) (string, float64) {
	ctx, cancel := context.WithTimeout(context.Background(), time.Duration(timeout*12+5)*time.Second)
	defer cancel()
	argv := s.argv(file, timeout)
	cmd := exec.CommandContext(ctx, argv[0], argv[1:]...)
	var out bytes.Buffer
	cmd.Stdout = &out
	cmd.Stderr = &out
	t0 := time.Now()
	cmd.Run()
	dt := time.Since(t0).Seconds()
	first := ""
	for _, line := range strings.Split(out.String(), "\n") {
		line = strings.TrimSpace(line)
		if line == "" || strings.HasPrefix(line, "WARNING") {
			continue
		}
		first = line
		break
	}
	if strings.Contains(out.String(), "(error") && !strings.Contains(out.String(), "canceled") && !strings.Contains(out.String(), "resource") {
		first = ""
	}
	switch first {
	case "unsat", "sat", "unknown":
		return first, dt
	}
	if strings.Contains(out.String(), "timeout") || ctx.Err() != nil {
		return "timeout", dt
	}
	return "error: " + strings.TrimSpace(out.String()), dt
}

// discharge runs the portfolio on one obligation: z3-new first with a short
// budget, then the remaining solvers in parallel with the full budget.
func discharge(ob *Obligation, dir string, timeout int, agree bool) {
	if ob.Status == "trivial" {
		ob.Status = "proved"
		ob.Solver = "syntactic"
		return
	}
	if ob.Solver == "static" {
		return // decided without a solver (frame, cost, missing anchors)
	}
	// the file name must be unique per obligation (two names may sanitize to the same text: "%s:{%s TO %s}" and
	// "%s:[%s TO %s]"; obligations are discharged concurrently and the files of proved ones are deleted)
	base := sanitize(ob.Name)
	if len(base) > 120 {
		base = base[:120]
	}
	file := filepath.Join(dir, fmt.Sprintf("%s_%08x.smt2", base, hashStr(ob.Func+"|"+ob.Name)))
	os.WriteFile(file, []byte(ob.Query), 0o644)
	res, dt := runSolver(solvers[0], file, timeout)
	ob.Time += dt
	if res == "unsat" && !agree {
		ob.Status, ob.Solver = "proved", solvers[0].name
		if !keepQueries {
			os.Remove(file) // disk is limited: only the queries of undischarged obligations are kept
		}
		return
	}
	type r struct {
		res  string
		name string
		dt   float64
	}
	results := []r{{res, solvers[0].name, dt}}
	ch := make(chan r, len(solvers))
	var wg sync.WaitGroup
	for k, s := range solvers {
		if k == 0 && (res == "unsat" || res == "sat") {
			continue
		}
		wg.Add(1)
		go func(s solverSpec) {
			defer wg.Done()
			rr, d := runSolver(s, file, timeout)
			ch <- r{rr, s.name, d}
		}(s)
	}
	wg.Wait()
	close(ch)
	for rr := range ch {
		results = append(results, rr)
		if rr.dt > ob.Time {
			ob.Time = rr.dt
		}
	}
	var unsat, satBy []string
	var notes []string
	for _, rr := range results {
		switch rr.res {
		case "unsat":
			unsat = append(unsat, rr.name)
		case "sat":
			satBy = append(satBy, rr.name)
		}
		notes = append(notes, rr.name+"="+rr.res)
	}
	sort.Strings(unsat)
	switch {
	case len(unsat) > 0 && len(satBy) == 0 && (!agree || len(unsat) >= 2):
		ob.Status, ob.Solver = "proved", strings.Join(unsat, "+")
	case len(unsat) > 0 && len(satBy) > 0:
		ob.Status, ob.Solver = "unknown", "DISAGREEMENT "+strings.Join(notes, " ")
	case len(satBy) > 0:
		ob.Status, ob.Solver = "failed", strings.Join(satBy, "+")
		ob.Model = getModel(ob, file, satBy[0], timeout)
	case len(unsat) > 0:
		ob.Status, ob.Solver = "proved", strings.Join(unsat, "+")+" (single)"
	default:
		ob.Status, ob.Solver = "unknown", strings.Join(notes, " ")
	}
	ob.SolverOutput = strings.Join(notes, " ")
	if ob.Status == "proved" && !keepQueries {
		os.Remove(file)
	}
}

// keepQueries (flag -keep): keep the SMT files of discharged obligations too.
var keepQueries bool

// getModel asks the solver that answered sat for the values of the input terms.
func getModel(ob *Obligation, file, solver string, timeout int) string {
	if len(ob.Inputs) == 0 {
		return ""
	}
	q := strings.Replace(ob.Query, "(check-sat)\n", "(check-sat)\n(get-value ("+strings.Join(ob.Inputs, " ")+"))\n", 1)
	mf := strings.TrimSuffix(file, ".smt2") + ".model.smt2"
	os.WriteFile(mf, []byte(q), 0o644)
	for _, s := range solvers {
		if s.name != solver {
			continue
		}
		argv := s.argv(mf, timeout)
		ctx, cancel := context.WithTimeout(context.Background(), time.Duration(timeout*12+5)*time.Second)
		defer cancel()
		out, _ := exec.CommandContext(ctx, argv[0], argv[1:]...).CombinedOutput()
		txt := string(out)
		if strings.HasPrefix(strings.TrimSpace(txt), "sat") {
			return strings.TrimSpace(strings.TrimPrefix(strings.TrimSpace(txt), "sat"))
		}
	}
	return ""
}

func hashStr(s string) uint32 {
	var h uint32 = 2166136261
	for i := 0; i < len(s); i++ {
		h ^= uint32(s[i])
		h *= 16777619
	}
	return h
}

// dischargeAll runs all obligations with a worker pool.
func dischargeAll(obs []*Obligation, dir string, timeout int, agree bool, workers int) {
	ch := make(chan *Obligation)
	var wg sync.WaitGroup
	for w := 0; w < workers; w++ {
		wg.Add(1)
		go func() {
			defer wg.Done()
			for ob := range ch {
				discharge(ob, dir, timeout, agree)
			}
		}()
	}
	for _, ob := range obs {
		ch <- ob
	}
	close(ch)
	wg.Wait()
}
