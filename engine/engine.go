package main

import (
	"bytes"
	"fmt"
	"go/ast"
	"go/token"
	"go/types"
	"math"
	"os"
	"path/filepath"
	"sort"
	"strings"

	"golang.org/x/tools/go/packages"
	"golang.org/x/tools/go/ssa"
	"golang.org/x/tools/go/ssa/ssautil"
)

const modPath = "github.com/grindlemire/go-lucene"

var repoPkgs = []string{"internal/lex", "internal/verifspec", "pkg/lucene/expr", "pkg/lucene/reduce", "pkg/driver", "."}

type Engine struct {
	repo  string
	fset  *token.FileSet
	prog  *ssa.Program
	pkgs  []*packages.Package
	spkgs map[string]*ssa.Package // by import path
	files map[string]*ast.File    // by filename
	src   map[string][]byte
	tc    *typeConv

	contracts   []*Contract
	contractOf  map[*ssa.Function]*Contract
	fnByKey     map[string]*ssa.Function // "pkgpath.Name" / "pkgpath.(*T).m"
	fnIDs       map[*ssa.Function]int
	fnByID      []*ssa.Function
	strConsts   map[string]string
	strList     []string
	f64s        map[float64]string
	f64List     []float64
	mods        map[*ssa.Function]*modInfo
	addrTaken   map[string][]*ssa.Function // "" -> functions used as values
	tables      map[*ssa.Global]*table
	recursive   map[*ssa.Function]bool
	allFuncs    []*ssa.Function
	weaveErrs   []string
	orphans     []*Contract
	overlayDir  string
	specFns     map[*ssa.Function]bool // functions declared in zz_verif_* files (spec / lemma / generated)
	extraAxioms []axiom
	extraDecls  []ufDecl
	ctorTypes   map[string]types.Type
	jsonShapeHook func(x *Exec, v Term, g Term, i *ssa.Call)
	scc         map[*ssa.Function]int
	sliceTables map[*ssa.Global][]Term // package-level slices initialised from a composite literal
	errGlobals  map[*ssa.Global]bool   // package-level sentinel errors: initialised by errors.New / fmt.Errorf (non-nil; frame/init-only keeps them so)
	overlay     map[string][]byte
}

func (e *Engine) sameSCC(a, b *ssa.Function) bool {
	if a == b {
		return e.recursive[a]
	}
	return e.recursive[a] && e.recursive[b] && e.scc[a] == e.scc[b] && e.scc[a] != 0
}

func (e *Engine) dynHook(t types.Type) func(fr *Frame, i *ssa.Call, ft Term, args []Val, st *State, g Term) {
	return nil
}

type modInfo struct {
	params  map[int]bool // indices into fn.Params
	free    map[int]bool
	globals map[*ssa.Global]bool
	unknown bool
}

func (e *Engine) fileOf(pos token.Pos) *ast.File {
	p := e.fset.Position(pos)
	return e.files[p.Filename]
}

func (e *Engine) nodeText(n ast.Node) string {
	p1 := e.fset.Position(n.Pos())
	p2 := e.fset.Position(n.End())
	src := e.src[p1.Filename]
	if src == nil || p2.Offset > len(src) || p1.Offset > p2.Offset {
		return "?"
	}
	return string(src[p1.Offset:p2.Offset])
}

// load weaves the contracts into an overlay and builds SSA for the repository.
// load builds the engine; a contract that does not compile against the current sources (a clause
// mentions a field, variable or type that changed) is dropped - it becomes one failed obligation of
// its function - and the load is retried, so that one stale contract does not take every other
// function's obligations with it.
func load(repo string) (*Engine, error) {
	dropped := map[string]string{}
	for round := 0; ; round++ {
		e, culprits, err := loadOnce(repo, dropped)
		if err == nil || len(culprits) == 0 || round >= 6 {
			return e, err
		}
		progress := false
		for k, why := range culprits {
			if _, ok := dropped[k]; !ok {
				dropped[k] = why
				progress = true
			}
		}
		if !progress {
			return e, err
		}
	}
}

func contractKey(c *Contract) string { return c.PkgDir + "|" + c.FuncName }

func loadOnce(repo string, dropped map[string]string) (*Engine, map[string]string, error) {
	e := &Engine{repo: repo, spkgs: map[string]*ssa.Package{}, files: map[string]*ast.File{}, src: map[string][]byte{},
		contractOf: map[*ssa.Function]*Contract{}, fnByKey: map[string]*ssa.Function{}, fnIDs: map[*ssa.Function]int{},
		strConsts: map[string]string{}, f64s: map[float64]string{}, mods: map[*ssa.Function]*modInfo{},
		addrTaken: map[string][]*ssa.Function{}, tables: map[*ssa.Global]*table{}, recursive: map[*ssa.Function]bool{},
		specFns: map[*ssa.Function]bool{}, ctorTypes: map[string]types.Type{}}
	w := &weaver{files: map[string]*srcFile{}, gen: map[string]*bytes.Buffer{}, genImports: map[string]map[string]string{}, pkgNames: map[string]string{}}
	for _, d := range repoPkgs {
		dir := filepath.Join(repo, d)
		if err := w.loadDir(dir); err != nil {
			return nil, nil, err
		}
		cf := filepath.Join(dir, "zz_verif_contracts.go")
		if _, err := os.Stat(cf); err == nil {
			cs, err := parseContractFile(cf)
			if err != nil {
				return nil, nil, err
			}
			e.contracts = append(e.contracts, cs...)
		}
	}
	var kept []*Contract
	for _, c := range e.contracts {
		if why, bad := dropped[contractKey(c)]; bad {
			c.Broken = why
			e.orphans = append(e.orphans, c)
			continue
		}
		kept = append(kept, c)
	}
	e.contracts = kept
	for _, c := range e.contracts {
		w.weave(c)
	}
	e.weaveErrs = w.errs
	e.orphans = append(e.orphans, w.orphans...)
	ov := w.overlay()
	e.overlay = ov
	cfg := &packages.Config{
		Mode:       packages.LoadAllSyntax,
		Dir:        repo,
		BuildFlags: []string{"-tags=verif"},
		Overlay:    ov,
		Env:        append(os.Environ(), "GOFLAGS=-mod=mod", "GOPROXY=off", "GOSUMDB=off", "GOTOOLCHAIN=local", "GOWORK=off"),
	}
	var pats []string
	for _, d := range repoPkgs {
		if d == "." {
			pats = append(pats, modPath)
		} else {
			pats = append(pats, modPath+"/"+d)
		}
	}
	pkgs, err := packages.Load(cfg, pats...)
	if err != nil {
		return nil, nil, err
	}
	var errs []string
	packages.Visit(pkgs, nil, func(p *packages.Package) {
		for _, er := range p.Errors {
			errs = append(errs, er.Error())
		}
	})
	if len(errs) > 0 {
		culprits := map[string]string{}
		for _, er := range errs {
			if c := w.contractAt(er, ov); c != nil {
				if _, ok := culprits[contractKey(c)]; !ok {
					culprits[contractKey(c)] = er
				}
			}
		}
		return e, culprits, fmt.Errorf("package errors (contracts or sources do not compile):\n  %s", strings.Join(errs, "\n  "))
	}
	e.pkgs = pkgs
	e.fset = pkgs[0].Fset
	prog, spkgs := ssautil.AllPackages(pkgs, ssa.GlobalDebug|ssa.InstantiateGenerics)
	prog.Build()
	e.prog = prog
	for i, p := range pkgs {
		if spkgs[i] != nil {
			e.spkgs[p.PkgPath] = spkgs[i]
		}
		for j, f := range p.Syntax {
			name := p.CompiledGoFiles[j]
			e.files[name] = f
			if b, ok := ov[name]; ok {
				e.src[name] = b
			} else if b, err := os.ReadFile(name); err == nil {
				e.src[name] = b
			}
		}
	}
	e.tc = newTypeConv()
	e.index()
	return e, nil, nil
}

func fnKey(f *ssa.Function) string {
	if f.Pkg == nil {
		if f.Object() != nil && f.Object().Pkg() != nil {
			return f.Object().Pkg().Path() + "." + f.Name()
		}
		return f.String()
	}
	if recv := f.Signature.Recv(); recv != nil {
		return f.Pkg.Pkg.Path() + ".(" + types.TypeString(recv.Type(), func(*types.Package) string { return "" }) + ")." + f.Name()
	}
	return f.Pkg.Pkg.Path() + "." + f.Name()
}

func (e *Engine) inRepo(f *ssa.Function) bool {
	p := f.Pkg
	if p == nil && f.Origin() != nil {
		p = f.Origin().Pkg
	}
	if p == nil && f.Parent() != nil {
		return e.inRepo(f.Parent())
	}
	return p != nil && strings.HasPrefix(p.Pkg.Path(), modPath) && !strings.HasSuffix(p.Pkg.Path(), "/cmd")
}

func (e *Engine) index() {
	all := ssautil.AllFunctions(e.prog)
	var fns []*ssa.Function
	for f := range all {
		if e.inRepo(f) && f.Synthetic == "" || (e.inRepo(f) && strings.HasPrefix(f.Synthetic, "instance")) {
			fns = append(fns, f)
		}
	}
	sort.Slice(fns, func(i, j int) bool { return fns[i].String() < fns[j].String() })
	e.allFuncs = fns
	for _, f := range fns {
		e.fnByKey[fnKey(f)] = f
		e.fnIDs[f] = len(e.fnByID) + 1
		e.fnByID = append(e.fnByID, f)
		if pos := f.Pos(); pos.IsValid() {
			if strings.HasPrefix(filepath.Base(e.fset.Position(pos).Filename), "zz_verif") || strings.Contains(e.fset.Position(pos).Filename, "/verifspec/") {
				e.specFns[f] = true
			}
		}
	}
	// contracts -> functions
	for _, c := range e.contracts {
		rel, _ := filepath.Rel(e.repo, c.PkgDir)
		pp := modPath
		if rel != "." {
			pp = modPath + "/" + filepath.ToSlash(rel)
		}
		key := pp + "." + c.FuncName
		f := e.fnByKey[key]
		if f == nil {
			known := false
			for _, o := range e.orphans {
				known = known || o == c
			}
			if !known {
				e.orphans = append(e.orphans, c)
			}
			continue
		}
		e.contractOf[f] = c
	}
	// pre-register Any constructors and address-taken functions
	scan := append([]*ssa.Function{}, fns...)
	for path, p := range e.spkgs {
		if strings.HasPrefix(path, modPath) {
			if in := p.Func("init"); in != nil {
				scan = append(scan, in)
			}
		}
	}
	sort.Slice(scan, func(i, j int) bool { return scan[i].String() < scan[j].String() })
	for _, f := range scan {
		for _, b := range f.Blocks {
			for _, in := range b.Instrs {
				switch i := in.(type) {
				case *ssa.MakeInterface:
					if e.tc.sortOf(i.Type()).Kind == KAny {
						e.tc.ctorFor(i.X.Type())
						e.ctorTypes[types.TypeString(i.X.Type(), nil)] = i.X.Type()
					}
				case *ssa.ChangeInterface:
					if e.tc.sortOf(i.Type()).Kind == KAny && e.tc.sortOf(i.X.Type()) == SErr {
						e.tc.ctorFor(i.X.Type())
						e.ctorTypes[types.TypeString(i.X.Type(), nil)] = i.X.Type()
					}
				case *ssa.TypeAssert:
					if _, isIface := i.AssertedType.Underlying().(*types.Interface); !isIface {
						e.tc.ctorFor(i.AssertedType)
						e.ctorTypes[types.TypeString(i.AssertedType, nil)] = i.AssertedType
					}
				}
				if _, isDbg := in.(*ssa.DebugRef); isDbg {
					continue
				}
				var rands [12]*ssa.Value
				for _, r := range in.Operands(rands[:0]) {
					if r == nil || *r == nil {
						continue
					}
					if fv, ok := (*r).(*ssa.Function); ok {
						if call, isCall := in.(ssa.CallInstruction); isCall && call.Common().Value == fv {
							continue
						}
						e.addrTaken[""] = appendUnique(e.addrTaken[""], fv)
					}
				}
			}
		}
	}
	// functions in package-level tables are address-taken inside init
	e.tc.freezeAny()
	e.installJSONHook()
	e.computeRecursion()
	e.computeMods()
	e.buildTables()
}

func appendUnique(xs []*ssa.Function, f *ssa.Function) []*ssa.Function {
	for _, x := range xs {
		if x == f {
			return xs
		}
	}
	return append(xs, f)
}

// ---- function ids, constants ------------------------------------------------------

func (e *Engine) fnID(f *ssa.Function) Term {
	id, ok := e.fnIDs[f]
	if !ok {
		id = len(e.fnByID) + 1
		e.fnIDs[f] = id
		e.fnByID = append(e.fnByID, f)
	}
	return IntLit(int64(id))
}

func (e *Engine) closureID(x *Exec, c CloV, st *State) Term {
	var caps []Term
	for _, b := range c.Bind {
		if pv, ok := b.(PV); ok && st != nil {
			caps = append(caps, x.load(pv, st))
			continue
		}
		t, ok := x.termOf(b, st)
		if !ok {
			return x.fresh("clo", SInt)
		}
		caps = append(caps, t)
	}
	if len(caps) == 0 {
		return e.fnID(c.Fn)
	}
	return x.closureTerm(c.Fn, caps)
}

// openWorld: function types whose values may be supplied by users of the library.
func (e *Engine) openWorld(t types.Type) bool {
	n, ok := t.(*types.Named)
	return ok && n.Obj().Name() == "RenderFN"
}

func (x *Exec) declareOnce(text string) {
	if x.decl == nil {
		x.decl = map[string]bool{}
	}
	if x.decl[text] {
		return
	}
	x.decl[text] = true
	x.events = append(x.events, Event{Kind: EvDecl, Text: text})
}

func (e *Engine) strConst(s string) Term {
	if n, ok := e.strConsts[s]; ok {
		return Term{n, SStr}
	}
	n := fmt.Sprintf("str_k%d", len(e.strList))
	e.strConsts[s] = n
	e.strList = append(e.strList, s)
	return Term{n, SStr}
}

func (e *Engine) f64Const(f float64) Term {
	if n, ok := e.f64s[f]; ok {
		return Term{n, SF64}
	}
	n := fmt.Sprintf("f64_k%d", len(e.f64List))
	e.f64s[f] = n
	e.f64List = append(e.f64List, f)
	return Term{n, SF64}
}

// strEq translates Go string equality.  Against a constant it is expanded into
// length and byte facts (decidable without extensionality).
func (e *Engine) strEq(a, b Term) Term {
	if lit, ok := e.litOf(b); ok {
		return e.eqLit(a, lit)
	}
	if lit, ok := e.litOf(a); ok {
		return e.eqLit(b, lit)
	}
	return Eq(a, b)
}

func (e *Engine) litOf(t Term) (string, bool) {
	if !strings.HasPrefix(t.S, "str_k") {
		return "", false
	}
	var k int
	if _, err := fmt.Sscanf(t.S, "str_k%d", &k); err != nil || k >= len(e.strList) {
		return "", false
	}
	return e.strList[k], true
}

func (e *Engine) eqLit(a Term, lit string) Term {
	if l2, ok := e.litOf(a); ok {
		return BoolLit(l2 == lit)
	}
	cs := []Term{Eq(mk(SInt, "slen", a), IntLit(int64(len(lit))))}
	for i := 0; i < len(lit); i++ {
		cs = append(cs, Eq(mk(SInt, "sat", a, IntLit(int64(i))), IntLit(int64(lit[i]))))
	}
	if len(lit) <= 12 {
		// mention the literal so that its extensionality axiom is part of the query
		return Or(Eq(a, e.strConst(lit)), And(cs...))
	}
	return And(cs...)
}

func (e *Engine) isTreeSort(s *Sort) bool {
	switch s.Name {
	case "Expression", "RangeBoundary":
		return true
	}
	return false
}

func (x *Exec) globalCell(g *ssa.Global, st *State) *Cell {
	if x.globals == nil {
		x.globals = map[*ssa.Global]*Cell{}
	}
	c, ok := x.globals[g]
	if !ok {
		s := x.eng.tc.sortOf(g.Type().(*types.Pointer).Elem())
		c = x.newCell("G_"+g.Name(), s)
		x.globals[g] = c
		name := "G_" + sanitize(g.Pkg.Pkg.Name()) + "_" + sanitize(g.Name())
		if elems, ok := x.eng.sliceTables[g]; ok && s.Kind == KSlice {
			arr := x.zero(s.Deps[0], nil)
			for k, t := range elems {
				arr = Store(arr, IntLit(int64(k)), t)
			}
			x.globalInit[c] = SlMk(s, IntLit(int64(len(elems))), arr)
		} else if x.eng.errGlobals[g] && s == SErr {
			// a sentinel error: some non-nil error, the same one at every use
			x.declareOnce(fmt.Sprintf("(declare-const %s_id Int)", name))
			x.globalInit[c] = mk(SErr, "SomeErr", Term{name + "_id", SInt})
			x.usedAssumptions["GLOBAL: package-level error "+g.Name()+" keeps the non-nil value its initialiser (errors.New / fmt.Errorf) gave it (frame/init-only)"] = true
		} else {
			x.declareOnce(fmt.Sprintf("(declare-const %s %s)", name, s.Name))
			x.globalInit[c] = Term{name, s}
		}
	}
	if _, live := st.cells[c]; !live {
		st.cells[c] = x.globalInit[c]
	}
	return c
}

func (x *Exec) globalCellIfAny(g *ssa.Global) *Cell {
	return x.globals[g]
}

// ---- recursion and modifies inference -------------------------------------------------

func (e *Engine) callees(f *ssa.Function) []*ssa.Function {
	var out []*ssa.Function
	if f.Pkg != nil && f.Pkg.Pkg.Path() == verifspecPath {
		return nil // ghost vocabulary: quantifier bodies are accounted for at the call site
	}
	for _, b := range f.Blocks {
		for _, in := range b.Instrs {
			call, ok := in.(ssa.CallInstruction)
			if !ok {
				continue
			}
			if c := call.Common().StaticCallee(); c != nil {
				out = append(out, c)
			} else if !call.Common().IsInvoke() {
				out = append(out, e.candidates(call.Common().Value.Type())...)
			}
			for _, a := range call.Common().Args {
				if mc, ok := a.(*ssa.MakeClosure); ok {
					out = append(out, mc.Fn.(*ssa.Function))
				}
			}
		}
	}
	for _, af := range f.AnonFuncs {
		out = append(out, af)
	}
	return out
}

// candidates lists the repository functions whose address is taken with the
// given (function) type: the possible targets of a dynamic call.
func (e *Engine) candidates(t types.Type) []*ssa.Function {
	sig, ok := t.Underlying().(*types.Signature)
	if !ok {
		return nil
	}
	var out []*ssa.Function
	for _, f := range e.addrTaken[""] {
		fs := f.Signature
		if fs.Recv() != nil {
			continue
		}
		if types.Identical(types.NewSignatureType(nil, nil, nil, fs.Params(), fs.Results(), fs.Variadic()), types.NewSignatureType(nil, nil, nil, sig.Params(), sig.Results(), sig.Variadic())) {
			out = append(out, f)
		}
	}
	return out
}

func (e *Engine) computeRecursion() {
	// Tarjan SCC over the static+dynamic call graph
	index := map[*ssa.Function]int{}
	low := map[*ssa.Function]int{}
	on := map[*ssa.Function]bool{}
	var stack []*ssa.Function
	n := 0
	var strong func(f *ssa.Function)
	strong = func(f *ssa.Function) {
		n++
		index[f], low[f] = n, n
		stack = append(stack, f)
		on[f] = true
		for _, c := range e.callees(f) {
			if !e.inRepo(c) {
				continue
			}
			if index[c] == 0 {
				strong(c)
				if low[c] < low[f] {
					low[f] = low[c]
				}
			} else if on[c] && index[c] < low[f] {
				low[f] = index[c]
			}
			if c == f {
				e.recursive[f] = true
			}
		}
		if low[f] == index[f] {
			var comp []*ssa.Function
			for {
				w := stack[len(stack)-1]
				stack = stack[:len(stack)-1]
				on[w] = false
				comp = append(comp, w)
				if w == f {
					break
				}
			}
			if e.scc == nil {
				e.scc = map[*ssa.Function]int{}
			}
			for _, w := range comp {
				e.scc[w] = index[f]
			}
			if len(comp) > 1 {
				for _, w := range comp {
					e.recursive[w] = true
				}
			}
		}
	}
	for _, f := range e.allFuncs {
		if index[f] == 0 {
			strong(f)
		}
	}
}

func (e *Engine) modOf(f *ssa.Function) *modInfo {
	m := e.mods[f]
	if m == nil {
		m = &modInfo{params: map[int]bool{}, free: map[int]bool{}, globals: map[*ssa.Global]bool{}}
		e.mods[f] = m
	}
	return m
}

func paramIndex(f *ssa.Function, v ssa.Value) int {
	for i, p := range f.Params {
		if p == v {
			return i
		}
	}
	return -1
}

// libMods: which arguments library functions write through.
func libMods(f *ssa.Function) []int {
	switch f.String() {
	case "encoding/json.Unmarshal":
		return []int{1}
	}
	return nil
}

func (e *Engine) computeMods() {
	changed := true
	note := func(f *ssa.Function, root ssa.Value) bool {
		m := e.modOf(f)
		switch r := root.(type) {
		case *ssa.Parameter:
			i := paramIndex(f, r)
			if i >= 0 && !m.params[i] {
				m.params[i] = true
				return true
			}
		case *ssa.FreeVar:
			for i, fv := range f.FreeVars {
				if fv == r && !m.free[i] {
					m.free[i] = true
					return true
				}
			}
		case *ssa.Global:
			if !m.globals[r] {
				m.globals[r] = true
				return true
			}
		case nil:
			if !m.unknown {
				m.unknown = true
				return true
			}
		}
		return false
	}
	for changed {
		changed = false
		for _, f := range e.allFuncs {
			for _, b := range f.Blocks {
				for _, in := range b.Instrs {
					switch i := in.(type) {
					case *ssa.Store:
						r := rootOf(i.Addr)
						if _, isAlloc := r.(*ssa.Alloc); isAlloc {
							continue
						}
						if r == nil {
							// address computed from a phi or call result: look one level further
							continue
						}
						if note(f, r) {
							changed = true
						}
					case *ssa.MapUpdate:
						r := rootOf(i.Map)
						if _, isMk := r.(*ssa.MakeMap); isMk {
							continue
						}
						if r != nil && note(f, r) {
							changed = true
						}
					case ssa.CallInstruction:
						e.callMods(i, func(arg ssa.Value) {
							r := rootOf(arg)
							if _, isAlloc := r.(*ssa.Alloc); isAlloc || r == nil {
								return
							}
							if note(f, r) {
								changed = true
							}
						}, func() {})
					}
				}
			}
		}
	}
}

// callMods reports, for one call instruction, the argument values whose
// pointees the callee may write (using the inferred modifies sets).
func (e *Engine) callMods(call ssa.CallInstruction, onArg func(ssa.Value), onUnknown func()) {
	cc := call.Common()
	if cc.IsInvoke() {
		return
	}
	var targets []*ssa.Function
	if c := cc.StaticCallee(); c != nil {
		targets = []*ssa.Function{c}
	} else {
		targets = e.candidates(cc.Value.Type())
	}
	for _, t := range targets {
		if !e.inRepo(t) {
			for _, i := range libMods(t) {
				if i < len(cc.Args) {
					onArg(cc.Args[i])
				}
			}
			continue
		}
		m := e.mods[t]
		if m == nil {
			continue
		}
		for i := range m.params {
			if i < len(cc.Args) {
				onArg(cc.Args[i])
			}
		}
		if len(m.free) > 0 {
			if mc, ok := cc.Value.(*ssa.MakeClosure); ok {
				for i := range m.free {
					if i < len(mc.Bindings) {
						onArg(mc.Bindings[i])
					}
				}
			}
		}
	}
}

// ---- package-level tables -----------------------------------------------------------------

// table is a package-level map variable initialised by a composite literal and
// never written afterwards (checked by the frame analysis): a finite function.
type table struct {
	g       *ssa.Global
	keys    []Term
	vals    []Term
	valSort *Sort
}

func (t *table) lookup(x *Exec, key Term) (has Term, val Term) {
	for _, v := range t.vals {
		if strings.HasPrefix(v.S, "(clo_") {
			op, args := splitApp(v.S)
			var id int
			fmt.Sscanf(op, "clo_%d", &id)
			if id >= 1 && id <= len(x.eng.fnByID) {
				fn := x.eng.fnByID[id-1]
				var caps []Term
				for k, a := range args {
					if k < len(fn.FreeVars) {
						if pt, ok := fn.FreeVars[k].Type().(*types.Pointer); ok {
							caps = append(caps, Term{a, x.eng.tc.sortOf(pt.Elem())})
						}
					}
				}
				if len(caps) == len(args) {
					x.closureTerm(fn, caps)
				}
			}
		} else if isNumLit(v.S) && v.Sort == SInt && t.valSort == SInt {
			x.assume(TTrue, Eq(x.fnTag(v), IntLit(0)))
		}
	}
	has = TFalse
	val = x.zero(t.valSort, nil)
	for i := len(t.keys) - 1; i >= 0; i-- {
		eq := Eq(key, t.keys[i])
		if key.Sort == SStr {
			eq = x.eng.strEq(key, t.keys[i])
		}
		has = Ite(eq, TTrue, has)
		val = Ite(eq, t.vals[i], val)
	}
	return x.define("tabhas", has), x.define("tabval", val)
}

func (e *Engine) table(g *ssa.Global) *table { return e.tables[g] }

// buildTables reads map-typed package variables from the init function's SSA:
// MakeMap followed by constant MapUpdates and one Store to the global.
func (e *Engine) buildTables() {
	for path, p := range e.spkgs {
		if !strings.HasPrefix(path, modPath) {
			continue
		}
		init := p.Func("init")
		if init == nil {
			continue
		}
		maps := map[ssa.Value]*table{}
		ok := map[ssa.Value]bool{}
		arrays := map[ssa.Value]map[int64]Term{}
		arrOK := map[ssa.Value]bool{}
		sliceOf := map[ssa.Value]ssa.Value{}
		for _, b := range init.Blocks {
			for _, in := range b.Instrs {
				switch i := in.(type) {
				case *ssa.MakeMap:
					mt := i.Type().Underlying().(*types.Map)
					maps[i] = &table{valSort: e.tc.sortOf(mt.Elem())}
					ok[i] = true
				case *ssa.MapUpdate:
					t := maps[i.Map]
					if t == nil {
						continue
					}
					k, kok := e.staticTerm(i.Key)
					v, vok := e.staticTerm(i.Value)
					if !kok || !vok {
						ok[i.Map] = false
						continue
					}
					t.keys = append(t.keys, k)
					t.vals = append(t.vals, v)
				case *ssa.Alloc:
					if pt, isP := i.Type().(*types.Pointer); isP {
						if _, isArr := pt.Elem().Underlying().(*types.Array); isArr {
							arrays[i] = map[int64]Term{}
							arrOK[i] = true
						}
					}
				case *ssa.Slice:
					if _, isArr := arrays[i.X]; isArr && i.Low == nil && i.High == nil {
						sliceOf[i] = i.X
					}
				case *ssa.Store:
					if ia, isIA := i.Addr.(*ssa.IndexAddr); isIA {
						if arr, isArr := arrays[ia.X]; isArr {
							c, isC := ia.Index.(*ssa.Const)
							v, vok := e.staticTerm(i.Val)
							if isC && vok {
								arr[c.Int64()] = v
							} else {
								arrOK[ia.X] = false
							}
						}
					}
					if g, isG := i.Addr.(*ssa.Global); isG {
						if c, isCall := i.Val.(*ssa.Call); isCall {
							if sc := c.Call.StaticCallee(); sc != nil && (sc.String() == "errors.New" || sc.String() == "fmt.Errorf") {
								if e.errGlobals == nil {
									e.errGlobals = map[*ssa.Global]bool{}
								}
								e.errGlobals[g] = true
							}
						}
						if t := maps[i.Val]; t != nil && ok[i.Val] {
							t.g = g
							e.tables[g] = t
						}
						if a, isSl := sliceOf[i.Val]; isSl && arrOK[a] {
							n := a.Type().(*types.Pointer).Elem().Underlying().(*types.Array).Len()
							var elems []Term
							good := true
							for k := int64(0); k < n; k++ {
								t, has := arrays[a][k]
								if !has {
									good = false
									break
								}
								elems = append(elems, t)
							}
							if good {
								if e.sliceTables == nil {
									e.sliceTables = map[*ssa.Global][]Term{}
								}
								e.sliceTables[g] = elems
							}
						}
					}
				}
			}
		}
		for v, t := range maps {
			if !ok[v] && t.g != nil {
				delete(e.tables, t.g)
			}
		}
	}
}

// staticTerm evaluates values that are constants at init time.
func (e *Engine) staticTerm(v ssa.Value) (Term, bool) {
	switch x := v.(type) {
	case *ssa.Const:
		ex := &Exec{eng: e, names: map[string]int{}}
		return ex.constTerm(x), true
	case *ssa.Function:
		return e.fnID(x), true
	case *ssa.ChangeType:
		return e.staticTerm(x.X)
	case *ssa.Call:
		// closure factories such as basicCompound(expr.And): identify the closure by
		// factory and constant arguments
		if c := x.Call.StaticCallee(); c != nil && e.inRepo(c) {
			args := []Term{e.fnID(c)}
			for _, a := range x.Call.Args {
				t, ok := e.staticTerm(a)
				if !ok {
					return Term{}, false
				}
				args = append(args, t)
			}
			return e.factoryResult(c, args[1:]), true
		}
	case *ssa.MakeInterface:
		return Term{}, false
	}
	return Term{}, false
}

// factoryResult is the function-value id of calling closure factory c on args.
func (e *Engine) factoryResult(c *ssa.Function, args []Term) Term {
	// a factory of the form "return func(...) {... captured parameters ...}": the
	// value is the closure term over the captured arguments
	if len(c.Blocks) == 1 {
		for _, in := range c.Blocks[0].Instrs {
			if mc, ok := in.(*ssa.MakeClosure); ok {
				var caps []Term
				good := true
				for _, b := range mc.Bindings {
					al, isAl := b.(*ssa.Alloc)
					if !isAl {
						good = false
						break
					}
					var src ssa.Value
					if refs := al.Referrers(); refs != nil {
						for _, r := range *refs {
							if st, ok := r.(*ssa.Store); ok && st.Addr == al {
								src = st.Val
							}
						}
					}
					idx := paramIndex(c, src)
					if idx < 0 || idx >= len(args) {
						good = false
						break
					}
					caps = append(caps, args[idx])
				}
				if good {
					return mk(SInt, fmt.Sprintf("clo_%d", e.fnIDs[mc.Fn.(*ssa.Function)]), caps...)
				}
			}
		}
	}
	name := fmt.Sprintf("fac_%d", e.fnIDs[c])
	return mk(SInt, name, args...)
}

func f64Key(f float64) string {
	if math.IsInf(f, 0) || math.IsNaN(f) {
		return fmt.Sprint(f)
	}
	return fmt.Sprintf("%g", f)
}

// isRoot: functions verified on their own.  Unexported loop-free helpers
// without a contract are verified in the context of each call site instead.
func (e *Engine) isRoot(f *ssa.Function) bool {
	if c := e.contractOf[f]; c != nil && !c.Flags["inline"] {
		return true
	}
	if c := e.contractOf[f]; c != nil && c.Flags["inline"] {
		// inlined at call sites; its own postconditions (if any) are still proved here
		return len(c.clauses("ensures")) > 0
	}
	return !e.inlinable(f)
}

func (e *Engine) selfRecursive(f *ssa.Function) bool {
	for _, c := range e.callees(f) {
		if c == f {
			return true
		}
	}
	return false
}

// installJSONHook: the JSON assumption - when encoding/json fills an
// *Expression target without error it has called UnmarshalJSON on it, whose
// postcondition (the spec predicate DShape, if the contracts define it) holds of
// the new value.  Inside UnmarshalJSON itself this is the induction hypothesis.
func (e *Engine) installJSONHook() {
	e.jsonShapeHook = func(x *Exec, v Term, g Term, i *ssa.Call) {
		if v.Sort.Kind == KRecord && v.Sort.Name != "Expression" {
			// fields of static type interface{} receive only the kinds encoding/json produces
			for k, f := range v.Sort.Fields {
				if f.Sort.Kind != KAny {
					continue
				}
				fv := FieldSel(v, k)
				var alts []Term
				alts = append(alts, Eq(fv, Term{"ANil", f.Sort}))
				for _, c := range e.tc.anyCtors {
					if c.Payload == nil {
						continue
					}
					switch c.Key {
					case "bool", "float64", "string", "[]interface{}", "[]any":
						alts = append(alts, mk(SBool, "(_ is "+c.Name+")", fv))
					}
				}
				alts = append(alts, mk(SBool, "(_ is AOther)", fv)) // map[string]interface{}
				x.assume(g, Or(alts...))
				x.usedAssumptions["JSON: interface{}-typed struct fields are filled with nil, bool, float64, string, []interface{} or map[string]interface{} only"] = true
			}
			return
		}
		if v.Sort.Name != "Expression" {
			return
		}
		p := e.spkgs[modPath+"/pkg/lucene/expr"]
		if p == nil {
			return
		}
		ds := p.Func("DShape")
		if ds == nil {
			return
		}
		ptr := PMk(PtrSort(v.Sort), v)
		anyT := e.tc.makeAny(types.NewPointer(ds.Pkg.Pkg.Scope().Lookup("Expression").Type()), ptr, func() Term { return IntLit(0) })
		x.assume(g, x.pureApp(ds, 0, []Term{anyT}))
		x.usedAssumptions["JSON: a value encoding/json decoded into an *Expression without error satisfies UnmarshalJSON's postcondition DShape"] = true
	}
}
