package main

import (
	"fmt"
	"go/token"
	"sort"
	"strings"

	"golang.org/x/tools/go/ssa"
)

// Cost obligations (C01, "time polynomial in the input length").
//
// Termination of every loop and every recursion is proved by variants
// (decr/... obligations).  A variant bounds the depth of a recursion, not the
// number of calls: a function that descends twice into the same child is still
// structurally decreasing but makes 2^depth calls.  The obligation
//
//	cost/single-visit/<function>
//
// is the syntactic condition that rules this out: within one activation, every
// call that stays inside the function's recursion group (static recursion, or
// the fmt -> String()/GoString() call-back group of the printers) is handed a
// component of a parameter, and no two such calls that can both execute in the
// same activation are handed the same component; a call inside a loop must be
// handed a component that is indexed by the loop.  Trees are finite and acyclic
// (frame analysis, C14), so under this condition each (function, node) pair is
// visited at most once and the number of activations is at most
// |group| * |tree|.  The check is static (no solver); it is sufficient, not
// necessary: a legitimate second visit would have to be justified by a cost
// contract, which this engine does not have.

type costSite struct {
	blk   *ssa.BasicBlock
	pos   token.Pos
	group string
	path  string
	what  string
	loopy bool // the path contains a loop-varying index
}

// accessPath describes v as a component of a parameter: "p0.Left", "p0.Right[i]" ...
func accessPath(v ssa.Value) (string, bool, bool) {
	var sel []string
	loopy := false
	for depth := 0; depth < 60; depth++ {
		switch x := v.(type) {
		case *ssa.Parameter:
			idx := 0
			for i, p := range x.Parent().Params {
				if p == x {
					idx = i
				}
			}
			s := fmt.Sprintf("p%d", idx)
			for i := len(sel) - 1; i >= 0; i-- {
				s += sel[i]
			}
			return s, true, loopy
		case *ssa.FieldAddr:
			sel = append(sel, "."+fieldName(x.X.Type(), x.Field))
			v = x.X
		case *ssa.Field:
			sel = append(sel, "."+fieldName(x.X.Type(), x.Field))
			v = x.X
		case *ssa.IndexAddr:
			sel = append(sel, indexKey(x.Index, &loopy))
			v = x.X
		case *ssa.Index:
			sel = append(sel, indexKey(x.Index, &loopy))
			v = x.X
		case *ssa.UnOp:
			v = x.X
		case *ssa.TypeAssert:
			v = x.X
		case *ssa.Extract:
			if nx, ok := x.Tuple.(*ssa.Next); ok {
				// element of a range over a map or string: varies with the loop
				_ = nx
				loopy = true
				sel = append(sel, "[range]")
				v = nx.Iter.(*ssa.Range).X
				continue
			}
			v = x.Tuple
		case *ssa.ChangeType:
			v = x.X
		case *ssa.ChangeInterface:
			v = x.X
		case *ssa.MakeInterface:
			v = x.X
		case *ssa.Alloc:
			var src ssa.Value
			n := 0
			if refs := x.Referrers(); refs != nil {
				for _, r := range *refs {
					if st, ok := r.(*ssa.Store); ok && st.Addr == x {
						n++
						src = st.Val
					}
				}
			}
			if n != 1 {
				return "", false, false
			}
			v = src
		default:
			return "", false, false
		}
	}
	return "", false, false
}

func indexKey(idx ssa.Value, loopy *bool) string {
	if c, ok := idx.(*ssa.Const); ok {
		return "[" + c.Value.String() + "]"
	}
	*loopy = true
	return "[i]"
}

func fieldName(t interface{ String() string }, i int) string {
	return fmt.Sprintf("f%d", i)
}

// varargOperands returns the values stored into the variadic slice of a call.
func varargOperands(c *ssa.CallCommon) []ssa.Value {
	if len(c.Args) == 0 {
		return nil
	}
	sl, ok := c.Args[len(c.Args)-1].(*ssa.Slice)
	if !ok {
		return nil
	}
	al, ok := sl.X.(*ssa.Alloc)
	if !ok || al.Referrers() == nil {
		return nil
	}
	var out []ssa.Value
	for _, r := range *al.Referrers() {
		ia, ok := r.(*ssa.IndexAddr)
		if !ok || ia.Referrers() == nil {
			continue
		}
		for _, rr := range *ia.Referrers() {
			if st, ok := rr.(*ssa.Store); ok && st.Addr == ia {
				out = append(out, st.Val)
			}
		}
	}
	return out
}

// blockReaches: to is reachable from from along at least one edge, not counting back
// edges (an edge into a block that dominates its source): "later in the same iteration".
// With loops=true back edges are followed too.
func blockReaches(from, to *ssa.BasicBlock, loops bool) bool {
	seen := map[*ssa.BasicBlock]bool{}
	var stack []*ssa.BasicBlock
	push := func(u *ssa.BasicBlock) {
		for _, v := range u.Succs {
			if !loops && v.Dominates(u) {
				continue
			}
			stack = append(stack, v)
		}
	}
	push(from)
	for len(stack) > 0 {
		b := stack[len(stack)-1]
		stack = stack[:len(stack)-1]
		if seen[b] {
			continue
		}
		seen[b] = true
		if b == to {
			return true
		}
		push(b)
	}
	return false
}

// constantVariant: the variant expression is built from integer constants and B2I(...) of
// conditions only, so its value - and with it the depth and the number of activations of
// the recursion it bounds - is bounded by a constant.
func constantVariant(expr string) bool {
	for {
		i := strings.Index(expr, "B2I(")
		if i < 0 {
			break
		}
		depth, j := 0, i+3
		for ; j < len(expr); j++ {
			if expr[j] == '(' {
				depth++
			} else if expr[j] == ')' {
				depth--
				if depth == 0 {
					break
				}
			}
		}
		if j >= len(expr) {
			return false
		}
		start := i
		if strings.HasSuffix(expr[:i], "verifspec.") {
			start = i - len("verifspec.")
		}
		expr = expr[:start] + "1" + expr[j+1:]
	}
	for _, r := range expr {
		if !strings.ContainsRune("0123456789+-*() \t", r) {
			return false
		}
	}
	return true
}

// costCheck produces the cost/single-visit obligations.
func (e *Engine) costCheck() *FuncResult {
	res := &FuncResult{Func: "cost", Key: "cost", HasContract: true, Props: []string{"C01"}}
	reach := e.frameReachable()
	// the printer group: methods fmt calls back, and the functions they reach that format with fmt
	printer := map[*ssa.Function]bool{}
	{
		var visit func(f *ssa.Function)
		visit = func(f *ssa.Function) {
			if f == nil || printer[f] || !e.realFunc(f) {
				return
			}
			printer[f] = true
			for _, c := range e.callees(f) {
				visit(c)
			}
		}
		for _, f := range e.allFuncs {
			if f.Signature.Recv() != nil && e.realFunc(f) && (f.Name() == "String" || f.Name() == "GoString") && strings.Contains(f.String(), "Expression") {
				visit(f)
			}
		}
	}
	for _, f := range reach {
		if c := e.contractOf[f]; c != nil && (c.Flags["lemma"] || c.Flags["spec"]) {
			continue
		}
		if isGhostClosure(f) {
			continue // a woven invariant/assertion closure: never executed
		}
		if c := e.contractOf[f]; c != nil && !c.Flags["structural"] {
			if decs := c.clauses("decreases"); len(decs) > 0 && constantVariant(decs[0].Expr) {
				continue // every cycle through f lowers a variant that is bounded by a constant
			}
		}
		var sites []costSite
		for _, b := range f.Blocks {
			for _, in := range b.Instrs {
				call, ok := in.(ssa.CallInstruction)
				if !ok {
					continue
				}
				cc := call.Common()
				sc := cc.StaticCallee()
				if sc == nil {
					continue
				}
				if e.sameSCC(f, sc) {
					if c := e.contractOf[sc]; c != nil && !c.Flags["structural"] {
						if decs := c.clauses("decreases"); len(decs) > 0 && constantVariant(decs[0].Expr) {
							continue // constant-depth recursion (the variant obligation decr@ bounds it)
						}
					}
					var parts []string
					loopy, anySel := false, false
					for _, a := range cc.Args {
						if !isPtrType(a.Type()) && !isIfaceOrStruct(a.Type()) {
							continue
						}
						p, ok, l := accessPath(a)
						if !ok {
							parts = append(parts, "?")
							continue
						}
						parts = append(parts, p)
						loopy = loopy || l
						anySel = anySel || strings.ContainsAny(p, ".[")
					}
					key := sc.Name() + "(" + strings.Join(parts, ", ") + ")"
					if len(parts) == 0 || strings.Contains(key, "?") {
						sites = append(sites, costSite{blk: b, pos: in.Pos(), group: "scc", path: "?", what: key + " (an argument is not a component of a parameter)"})
					} else {
						sites = append(sites, costSite{blk: b, pos: in.Pos(), group: fmt.Sprintf("scc%d", e.scc[f]), path: key, what: sc.Name(), loopy: loopy})
					}
					continue
				}
				if printer[f] && sc.Pkg != nil && sc.Pkg.Pkg.Path() == "fmt" {
					for _, op := range varargOperands(cc) {
						mi, ok := op.(*ssa.MakeInterface)
						var inner ssa.Value = op
						if ok {
							inner = mi.X
						}
						if !isPtrType(inner.Type()) && !isIfaceOrStruct(inner.Type()) {
							continue
						}
						if p, ok, l := accessPath(op); ok && strings.ContainsAny(p, ".[") {
							sites = append(sites, costSite{blk: b, pos: in.Pos(), group: "printers", path: "fmt(" + p + ")", what: "fmt operand " + p, loopy: l})
						}
					}
				}
			}
		}
		if len(sites) == 0 {
			continue
		}
		var problems []string
		for i, s := range sites {
			if s.path == "?" {
				problems = append(problems, fmt.Sprintf("%s: recursive call of %s", e.posStr(s.pos), s.what))
				continue
			}
			if blockReaches(s.blk, s.blk, true) && !s.loopy {
				problems = append(problems, fmt.Sprintf("%s: %s is called in a loop with the same component every time", e.posStr(s.pos), s.path))
			}
			for j := i + 1; j < len(sites); j++ {
				t := sites[j]
				if s.group != t.group || s.path != t.path {
					continue
				}
				if s.blk == t.blk || blockReaches(s.blk, t.blk, false) || blockReaches(t.blk, s.blk, false) {
					problems = append(problems, fmt.Sprintf("%s and %s: %s is visited twice in one activation", e.posStr(s.pos), e.posStr(t.pos), s.path))
				}
			}
		}
		st := "proved"
		info := fmt.Sprintf("%d calls into the recursion group, each on a different component of a parameter or on mutually exclusive paths", len(sites))
		if len(problems) > 0 {
			st = "failed"
			sort.Strings(problems)
			info = strings.Join(problems, "; ")
		}
		name := "cost/single-visit/" + shortFuncName(f)
		res.Obligations = append(res.Obligations, &Obligation{Func: "cost", Name: name, Short: name, Status: st, Solver: "static", Pos: e.posStr(f.Pos()), Info: info, Props: []string{"C01"}})
	}
	return res
}

func (e *Engine) posStr(pos token.Pos) string {
	if !pos.IsValid() {
		return ""
	}
	ps := e.fset.Position(pos)
	return fmt.Sprintf("%s:%d", shortPath(ps.Filename), ps.Line)
}

// isGhostClosure: an anonymous function that only occurs as an operand of a verifspec call.
func isGhostClosure(f *ssa.Function) bool {
	p := f.Parent()
	if p == nil {
		return false
	}
	found := false
	for _, b := range p.Blocks {
		for _, in := range b.Instrs {
			mc, ok := in.(*ssa.MakeClosure)
			var val ssa.Value
			if ok && mc.Fn == f {
				val = mc
			}
			if val == nil {
				// a closure without free variables is used as a plain function value
				if call, isCall := in.(ssa.CallInstruction); isCall {
					for _, a := range call.Common().Args {
						if a == ssa.Value(f) {
							if sc := call.Common().StaticCallee(); sc != nil && sc.Pkg != nil && sc.Pkg.Pkg.Path() == verifspecPath {
								found = true
							} else {
								return false
							}
						}
					}
				}
				continue
			}
			refs := val.Referrers()
			if refs == nil {
				continue
			}
			for _, r := range *refs {
				call, isCall := r.(ssa.CallInstruction)
				if !isCall {
					if _, isDbg := r.(*ssa.DebugRef); isDbg {
						continue
					}
					return false
				}
				sc := call.Common().StaticCallee()
				if sc == nil || sc.Pkg == nil || sc.Pkg.Pkg.Path() != verifspecPath {
					return false
				}
				found = true
			}
		}
	}
	return found
}
