package main

import (
	"fmt"
	"go/constant"
	"go/types"
	"strings"

	"golang.org/x/tools/go/ssa"
)

// splitApp splits "(op a b c)" into op and top-level arguments.
func splitApp(s string) (string, []string) {
	if len(s) < 2 || s[0] != '(' {
		return s, nil
	}
	body := s[1 : len(s)-1]
	var parts []string
	d, start := 0, 0
	for i := 0; i < len(body); i++ {
		switch body[i] {
		case '(':
			d++
		case ')':
			d--
		case ' ':
			if d == 0 {
				if i > start {
					parts = append(parts, body[start:i])
				}
				start = i + 1
			}
		}
	}
	if start < len(body) {
		parts = append(parts, body[start:])
	}
	if len(parts) == 0 {
		return "", nil
	}
	return parts[0], parts[1:]
}

func slen(t Term) Term        { return mk(SInt, "slen", t) }
func sat(t, i Term) Term      { return mk(SInt, "sat", t, i) }

// libCall models calls that leave the repository.  Every model is an assumed
// contract on a dependency and is recorded in usedAssumptions.
func (fr *Frame) libCall(i *ssa.Call, callee *ssa.Function, args []Val, st *State, g Term) {
	x := fr.x
	name := callee.String()
	ts := func(k int) Term { return x.t(args[k], st) }
	use := func(group string) { x.usedAssumptions[group] = true }
	switch name {
	case "unicode/utf8.DecodeRuneInString":
		use("UTF8: contract of utf8.DecodeRuneInString")
		s := ts(0)
		base, off := s, IntLit(0)
		if op, a := splitApp(s.S); op == "ssub" && len(a) == 3 && a[2] == "(slen "+a[0]+")" {
			base, off = Term{a[0], SStr}, Term{a[1], SInt}
		}
		fr.regs[i] = Tuple{TV{T: mk(SInt, "u8rune", base, off)}, TV{T: mk(SInt, "u8width", base, off)}}
	case "unicode/utf8.DecodeLastRuneInString":
		use("UTF8: contract of utf8.DecodeLastRuneInString (incl. UTF8-BW on forward boundaries)")
		s := ts(0)
		base, end := s, slen(s)
		if op, a := splitApp(s.S); op == "ssub" && len(a) == 3 && a[1] == "0" {
			base, end = Term{a[0], SStr}, Term{a[2], SInt}
		}
		fr.regs[i] = Tuple{TV{T: mk(SInt, "u8lastr", base, end)}, TV{T: mk(SInt, "u8lastw", base, end)}}
	case "unicode/utf8.ValidString":
		use("UTF8: utf8.ValidString as uninterpreted predicate")
		fr.regs[i] = TV{T: mk(SBool, "u8valid", ts(0))}
	case "unicode.IsLetter":
		use("UNI: unicode.IsLetter uninterpreted, fixed on ASCII")
		fr.regs[i] = TV{T: mk(SBool, "uni_letter", ts(0))}
	case "unicode.IsDigit":
		use("UNI: unicode.IsDigit uninterpreted, fixed on ASCII")
		fr.regs[i] = TV{T: mk(SBool, "uni_digit", ts(0))}
	case "strings.ToUpper":
		use("STR: strings.ToUpper(s) equals an ASCII keyword iff s is a case variant of it")
		fr.regs[i] = TV{T: mk(SStr, "str_upper", ts(0))}
	case "strings.ReplaceAll":
		use("STR: strings.ReplaceAll axioms (nothing to replace: unchanged; one byte by one byte: same length, byte-wise map)")
		fr.regs[i] = TV{T: mk(SStr, "str_replace", ts(0), ts(1), ts(2))}
	case "strings.Contains":
		use("STR: strings.Contains uninterpreted")
		fr.regs[i] = TV{T: mk(SBool, "str_contains", ts(0), ts(1))}
	case "strings.ContainsAny":
		use("STR: strings.ContainsAny uninterpreted")
		fr.regs[i] = TV{T: mk(SBool, "str_containsany", ts(0), ts(1))}
	case "strings.ContainsRune":
		use("STR: strings.ContainsRune uninterpreted")
		fr.regs[i] = TV{T: mk(SBool, "str_containsrune", ts(0), ts(1))}
	case "strings.Trim":
		use("STR: strings.Trim axioms")
		fr.regs[i] = TV{T: mk(SStr, "str_trim", ts(0), ts(1))}
	case "strings.Join":
		use("STR: strings.Join uninterpreted")
		a := ts(0)
		x.declareOnce(fmt.Sprintf("(declare-fun str_join (%s Str) Str)", a.Sort.Name))
		fr.regs[i] = TV{T: mk(SStr, "str_join", a, ts(1))}
	case "strings.Split":
		use("STR: strings.Split axioms")
		ss := x.eng.tc.sortOf(i.Type())
		x.declareOnce(fmt.Sprintf("(declare-fun str_split (Str Str) %s)", ss.Name))
		r := mk(ss, "str_split", ts(0), ts(1))
		x.assume(g, Le(IntLit(1), SlLen(r)))
		fr.regs[i] = TV{T: r}
	case "strings.Fields":
		use("STR: strings.Fields uninterpreted")
		ss := x.eng.tc.sortOf(i.Type())
		x.declareOnce(fmt.Sprintf("(declare-fun str_fields (Str) %s)", ss.Name))
		fr.regs[i] = TV{T: mk(ss, "str_fields", ts(0))}
	case "bytes.TrimSpace":
		use("STR: bytes.TrimSpace axioms")
		fr.regs[i] = TV{T: mk(SStr, "bytes_trimspace", ts(0))}
	case "strconv.Atoi":
		use("STR: strconv.Atoi as uninterpreted functions of its argument")
		fr.regs[i] = Tuple{TV{T: mk(SInt, "atoi_val", ts(0))}, TV{T: mk(SErr, "atoi_err", ts(0))}}
	case "strconv.ParseInt":
		// ParseInt(s, 10, 0|64) is what Atoi computes (int is 64 bits wide on the platforms the module targets)
		if b, ok := i.Call.Args[1].(*ssa.Const); ok && b.Value != nil && b.Value.ExactString() == "10" {
			if w, ok := i.Call.Args[2].(*ssa.Const); ok && w.Value != nil && (w.Value.ExactString() == "0" || w.Value.ExactString() == "64") {
				use("STR: strconv.ParseInt(s, 10, 0|64) is strconv.Atoi (64-bit int)")
				fr.regs[i] = Tuple{TV{T: mk(SInt, "atoi_val", ts(0))}, TV{T: mk(SErr, "atoi_err", ts(0))}}
				break
			}
		}
		x.usedAssumptions["EXT: "+name+" treated as an arbitrary total function without side effects"] = true
		fr.setResult(i, x.havocResultsSig(i.Call.Signature(), "ext"), st)
	case "strconv.ParseFloat":
		use("STR: strconv.ParseFloat as uninterpreted functions of its arguments (text and bit size)")
		fr.regs[i] = Tuple{TV{T: mk(SF64, "pf_val", ts(0), ts(1))}, TV{T: mk(SErr, "pf_err", ts(0), ts(1))}}
	case "math.IsNaN":
		use("F64: math.IsNaN / math.IsInf as uninterpreted predicates of their argument")
		fr.regs[i] = TV{T: mk(SBool, "f64_isnan", ts(0))}
	case "math.IsInf":
		use("F64: math.IsNaN / math.IsInf as uninterpreted predicates of their argument")
		fr.regs[i] = TV{T: mk(SBool, "f64_isinf", ts(0), ts(1))}
	case "errors.New":
		fr.regs[i] = TV{T: mk(SErr, "SomeErr", x.fresh("errid", SInt))}
	case "fmt.Errorf":
		use("FMT: fmt.Errorf returns a non-nil error and formats like Sprintf")
		fr.sprintf(i, args, st, g, true)
		fr.regs[i] = TV{T: mk(SErr, "SomeErr", x.fresh("errid", SInt))}
	case "fmt.Sprintf":
		use("FMT: verb-by-verb expansion of constant format strings; an int or float64 prints as at least one character")
		fr.regs[i] = TV{T: fr.sprintf(i, args, st, g, false)}
	case "reflect.TypeOf":
		fr.regs[i] = TV{T: x.fresh("rtype", x.eng.tc.sortOf(i.Type()))}
	case "encoding/json.Marshal":
		use("JSON: json.Marshal returns arbitrary bytes or an error; calls MarshalJSON of the operands; the same value encodes to the same bytes")
		if a := ts(0); a.Sort.Kind == KAny {
			// a function of the encoded value (interface operands; struct operands stay opaque)
			fr.regs[i] = Tuple{TV{T: mk(SStr, "json_bytes", a)}, TV{T: mk(SErr, "json_err", a)}}
		} else {
			fr.regs[i] = Tuple{TV{T: x.fresh("json", SStr)}, TV{T: x.fresh("jerr", SErr)}}
		}
	case "encoding/json.Unmarshal":
		use("JSON: json.Unmarshal fills its target with an arbitrary value of the target's static type or returns an error")
		fr.jsonUnmarshal(i, args, st, g)
	default:
		x.usedAssumptions["EXT: "+name+" treated as an arbitrary total function without side effects"] = true
		fr.setResult(i, x.havocResultsSig(i.Call.Signature(), "ext"), st)
	}
}

// jsonUnmarshal havocs the target of json.Unmarshal.
func (fr *Frame) jsonUnmarshal(i *ssa.Call, args []Val, st *State, g Term) {
	x := fr.x
	err := x.fresh("jerr", SErr)
	fr.regs[i] = TV{T: err}
	switch a := args[1].(type) {
	case IfaceRef:
		cur := x.load(a.P, st)
		nv := x.fresh("junm", cur.Sort)
		fr.store(a.P, nv, st, g, i.Pos())
		x.jsonShape(nv, And(g, Eq(err, Term{"NoErr", SErr})), i)
	case TV:
		// an interface holding a pointer to tree data that lives in a cell field
		if a.Origin != nil && a.T.Sort.Kind == KAny {
			for _, c := range x.eng.tc.anyCtors {
				if c.Payload != nil && c.Payload.Kind == KPtr && x.eng.isTreeSort(c.Payload.Elem) {
					// if the interface holds such a pointer, the pointee is replaced
					is := mk(SBool, "(_ is "+c.Name+")", a.T)
					nv := x.fresh("junm", c.Payload.Elem)
					cur := x.load(*a.Origin, st)
					upd := Ite(And(is, Not(PIsNil(mk(c.Payload, c.Sel, a.T)))), mk(a.T.Sort, c.Name, PMk(c.Payload, nv)), cur)
					fr.store(*a.Origin, x.define("junm", upd), st, g, i.Pos())
					x.jsonShape(nv, And(g, Eq(err, Term{"NoErr", SErr})), i)
				}
			}
			return
		}
		x.unsupported("%s: json.Unmarshal into an untracked target", fr.fn)
	default:
		x.unsupported("%s: json.Unmarshal target %T", fr.fn, a)
	}
}

// jsonShape: hook for the assumed shape of values produced by encoding/json
// (set by the JSON contract group).
func (x *Exec) jsonShape(v Term, g Term, i *ssa.Call) {
	if h := x.eng.jsonShapeHook; h != nil {
		h(x, v, g, i)
	}
}

// ---- fmt ----------------------------------------------------------------------------------------------

type fmtPiece struct {
	lit  string
	verb string // "" for literal
	arg  int
}

func parseFormat(f string) ([]fmtPiece, int, bool) {
	var out []fmtPiece
	arg := 0
	for i := 0; i < len(f); {
		if f[i] != '%' {
			j := strings.IndexByte(f[i:], '%')
			if j < 0 {
				j = len(f) - i
			}
			out = append(out, fmtPiece{lit: f[i : i+j]})
			i += j
			continue
		}
		j := i + 1
		for j < len(f) && strings.ContainsRune("+-# 0123456789.", rune(f[j])) {
			j++
		}
		if j >= len(f) {
			return nil, 0, false
		}
		verb := f[i : j+1]
		if f[j] == '%' {
			out = append(out, fmtPiece{lit: "%"})
		} else {
			out = append(out, fmtPiece{verb: verb, arg: arg})
			arg++
		}
		i = j + 1
	}
	return out, arg, true
}

// sprintf expands a Sprintf/Errorf call with a constant format into a rope and
// emits the verb/operand compatibility obligations (the "%!" clause).
func (fr *Frame) sprintf(i *ssa.Call, args []Val, st *State, g Term, isErr bool) Term {
	x := fr.x
	fc, ok := i.Call.Args[0].(*ssa.Const)
	if !ok || fc.Value.Kind() != constant.String {
		x.usedAssumptions["FMT: non-constant format string treated as opaque"] = true
		if _, isParam := i.Call.Args[0].(*ssa.Parameter); !isParam && !isErr && !fr.ghost {
			// a format string computed at run time (not a constant, not the format parameter of a
			// printf-like wrapper): its verbs cannot be matched against the operands, so "%!" markers
			// cannot be excluded (C01)
			x.assert(g, fr.oname(fmt.Sprintf("fmt/format-is-constant@%s", x.srcText(i.Pos(), "call"))), TFalse, x.posOf(i.Pos()), "the format string of this Sprintf is computed at run time: operands cannot be checked against its verbs")
		}
		return x.fresh("fmt", SStr)
	}
	format := constant.StringVal(fc.Value)
	pieces, nargs, ok := parseFormat(format)
	if !ok {
		x.unsupported("%s: cannot parse format %q", fr.fn, format)
		return x.fresh("fmt", SStr)
	}
	var sl Term
	if len(args) > 1 {
		sl = x.t(args[1], st)
	}
	have := 0
	if len(args) > 1 {
		if n, ok := litInt(SlLen(sl)); ok {
			have = n
		} else if nargs > 0 {
			// variadic slice passed through (errorf(format, args...)): opaque
			x.usedAssumptions["FMT: forwarded variadic arguments treated as opaque"] = true
			return x.fresh("fmt", SStr)
		}
	}
	if have != nargs && !fr.ghost {
		x.assert(g, fr.oname(fmt.Sprintf("fmt/argcount@%s", x.srcText(i.Pos(), "call"))), TFalse, x.posOf(i.Pos()), fmt.Sprintf("format %q needs %d operands, call has %d", format, nargs, have))
	}
	var rope *Term
	cat := func(t Term) {
		if rope == nil {
			rope = &t
		} else {
			r := mk(SStr, "scat", *rope, t)
			rope = &r
		}
	}
	for _, p := range pieces {
		if p.verb == "" {
			cat(x.eng.strConst(p.lit))
			continue
		}
		if p.arg >= have {
			cat(x.fresh("fmtmissing", SStr))
			continue
		}
		a := x.define("fa", SlAt(sl, IntLit(int64(p.arg))))
		okc := Imp(And(x.fmtHyp...), x.eng.verbOK(p.verb, a))
		if !fr.ghost {
			fr.stringerPre(i, p.verb, a, st, g)
		}
		if !fr.ghost && !isErr {
			x.assert(g, fr.oname(fmt.Sprintf("fmt/%s@%d:%s", p.verb, p.arg, x.srcText(i.Pos(), "call"))), okc, x.posOf(i.Pos()),
				fmt.Sprintf("operand %d of format %q is compatible with verb %s (no %%! marker)", p.arg, format, p.verb))
		}
		cat(x.eng.fmtArg(x, p.verb, a))
	}
	if rope == nil {
		return x.eng.strConst("")
	}
	return x.define("rope", *rope)
}

// verbOK is the dynamic-type compatibility table of package fmt for the verbs the
// repository uses.
func (e *Engine) verbOK(verb string, a Term) Term {
	last := verb[len(verb)-1]
	if last == 'v' || last == 'T' {
		return TTrue
	}
	var oks []Term
	for _, c := range e.tc.anyCtors {
		if c.Payload == nil {
			continue
		}
		good := false
		t := e.goTypeOf(c)
		switch last {
		case 's', 'q':
			good = c.Payload == SStr || isErrorCtor(c) || e.hasStringer(t) || e.sliceOfStringers(t)
		case 'd':
			good = c.Payload == SInt && !e.hasStringerOnly(t)
		case 'f', 'g', 'e':
			good = c.Payload == SF64
		case 't':
			good = c.Payload == SBool
		}
		if good {
			oks = append(oks, mk(SBool, "(_ is "+c.Name+")", a))
		}
	}
	return Or(oks...)
}

func isErrorCtor(c *anyCtor) bool { return c.Payload == SErr }

func (e *Engine) goTypeOf(c *anyCtor) types.Type { return e.ctorTypes[c.Key] }

func (e *Engine) hasStringer(t types.Type) bool {
	if t == nil {
		return false
	}
	for _, name := range []string{"String", "Error"} {
		obj, _, _ := types.LookupFieldOrMethod(t, false, nil, name)
		if f, ok := obj.(*types.Func); ok {
			sig := f.Type().(*types.Signature)
			if sig.Params().Len() == 0 && sig.Results().Len() == 1 {
				return true
			}
		}
	}
	return false
}

func (e *Engine) hasStringerOnly(t types.Type) bool { return false }

func (e *Engine) sliceOfStringers(t types.Type) bool {
	if t == nil {
		return false
	}
	if s, ok := t.Underlying().(*types.Slice); ok {
		return e.hasStringer(s.Elem())
	}
	return false
}

// fmtArg is the text one operand contributes under a verb.
func (e *Engine) fmtArg(x *Exec, verb string, a Term) Term {
	last := verb[len(verb)-1]
	op, args := splitApp(peek(a).S)
	// syntactically known dynamic type
	if len(args) == 1 {
		switch {
		case (op == "A_string" || op == "A_expr_Column") && (verb == "%s" || verb == "%v"):
			return Term{args[0], SStr}
		case op == "A_int" && (verb == "%d" || verb == "%v"):
			return mk(SStr, "itoa", Term{args[0], SInt})
		}
	}
	name := "fmt_" + sanitize(strings.TrimPrefix(verb, "%"))
	_ = last
	if name != "fmt_v" { // fmt_v is a static symbol (it has an axiom)
		x.declareOnce(fmt.Sprintf("(declare-fun %s (Any) Str)", name))
	}
	return mk(SStr, name, a)
}

// stringerPre: fmt calls String()/GoString()/Error() of its operands.  When an
// operand may hold a repository type whose method has a contract, the method's
// precondition becomes an obligation of the Sprintf call (this is how recursion
// through package fmt stays inside the verified world).
func (fr *Frame) stringerPre(i *ssa.Call, verb string, a Term, st *State, g Term) {
	x := fr.x
	e := x.eng
	method := "String"
	if strings.Contains(verb, "#") {
		method = "GoString"
	}
	for _, c := range e.tc.anyCtors {
		if c.Payload == nil {
			continue
		}
		t := e.ctorTypes[c.Key]
		if t == nil {
			continue
		}
		elem := t
		isPtr := false
		if pt, ok := t.(*types.Pointer); ok {
			elem, isPtr = pt.Elem(), true
		}
		named, ok := elem.(*types.Named)
		if !ok || named.Obj().Pkg() == nil || !strings.HasPrefix(named.Obj().Pkg().Path(), modPath) {
			continue
		}
		var m *ssa.Function
		for _, cand := range e.allFuncs {
			if cand.Name() == method && cand.Signature.Recv() != nil {
				rt := cand.Signature.Recv().Type()
				if types.Identical(rt, elem) || (isPtr && types.Identical(rt, t)) {
					m = cand
				}
			}
		}
		if m == nil {
			continue
		}
		ct := e.contractOf[m]
		if ct == nil || len(ct.clauses("requires")) == 0 {
			continue
		}
		is := mk(SBool, "(_ is "+c.Name+")", a)
		pay := mk(c.Payload, c.Sel, a)
		var recv Val
		guard := And(g, is)
		if isPtr && !isPtrType(m.Signature.Recv().Type()) {
			// value receiver reached through a pointer: fmt prints <nil> for nil pointers
			guard = And(guard, Not(PIsNil(pay)))
			recv = TV{T: PVal(pay)}
		} else {
			recv = TV{T: pay}
		}
		gg := x.define("gstr", guard)
		k := x.callCount["fmt."+method]
		x.callCount["fmt."+method] = k + 1
		for n, cl := range ct.clauses("requires") {
			// the generated clause takes the receiver by value or pointer as declared
			var arg Val = recv
			if pv, isTV := recv.(TV); isTV && !isPtrType(m.Params[0].Type()) && pv.T.Sort.Kind == KRecord {
				cell := x.newCell("fmtrecv", pv.T.Sort)
				cell.Ghost = true
				st.cells[cell] = pv.T
				_ = cell
			}
			t := fr.evalClause(m, cl, []Val{arg}, st, gg)
			x.assert(gg, fr.oname(fmt.Sprintf("fmt/nested-%s#%d/%s", method, k, clauseLabel(cl, n))), Imp(And(x.fmtHyp...), t), x.posOf(i.Pos()),
				"precondition of "+method+"() called by package fmt on this operand (a panic there would print a %!-marker): "+cl.Expr)
		}
	}
}
