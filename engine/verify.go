package main

import (
	"go/token"
	"runtime/debug"
	"fmt"
	"go/types"
	"strings"

	"golang.org/x/tools/go/ssa"
)

type FuncResult struct {
	Func        string
	Key         string
	HasContract bool
	Trusted     bool
	Unsupported []string
	Obligations []*Obligation
	Vacuity     string // query: the requires clauses must be satisfiable
	VacuityStatus string // sat/unknown (fine), unsat (contradictory requires)
	EndQuery      string
	EndStatus     string // unsat: the whole assumption set of the function is contradictory
	Assumptions []string
	Props       []string
}

func (e *Engine) newExec(root *ssa.Function) *Exec {
	return &Exec{eng: e, root: root, names: map[string]int{}, usedAssumptions: map[string]bool{}, callCount: map[string]int{},
		unfolded: map[string]bool{}, globalInit: map[*Cell]Term{}, carve: map[string]Term{}}
}

func shortFuncName(f *ssa.Function) string {
	k := fnKey(f)
	if f.Origin() != nil {
		k = fnKey(f.Origin()) + "[" + strings.TrimPrefix(strings.TrimPrefix(f.Name(), f.Origin().Name()), "[")
		if i := strings.Index(k, "["); i >= 0 {
			k = k[:i]
		}
	}
	k = strings.TrimPrefix(k, modPath+"/")
	k = strings.TrimPrefix(k, modPath)
	k = strings.TrimPrefix(k, ".")
	if strings.HasPrefix(k, "(") || !strings.Contains(k, "/") && !strings.Contains(k, ".") {
		k = "lucene." + k
	}
	// internal/lex.lexSpace -> lex.lexSpace
	if i := strings.LastIndex(k, "/"); i >= 0 {
		k = k[i+1:]
	}
	return k
}

// verifyFunc generates the obligations of one function under its contract
// (or the default contract "requires true, ensures true").
func (e *Engine) verifyFunc(fn *ssa.Function) (res *FuncResult) {
	c := e.contractOf[fn]
	res = &FuncResult{Func: shortFuncName(fn), Key: fnKey(fn), HasContract: c != nil}
	if c != nil {
		res.Props = c.Props
		if c.Flags["trusted"] {
			res.Trusted = true
			return res
		}
	}
	x := e.newExec(fn)
	curDefs = map[string]Term{}
	defer func() {
		if r := recover(); r != nil {
			res.Unsupported = append(res.Unsupported, fmt.Sprintf("engine panic: %v\n%s", r, debug.Stack()))
		}
	}()
	st := &State{cells: map[*Cell]Term{}, ptrs: map[*Cell]PV{}}
	g := TTrue
	m := e.mods[fn]
	params := make([]Val, len(fn.Params))
	var olds []Val
	for j, p := range fn.Params {
		s := e.tc.sortOf(p.Type())
		if pt, ok := p.Type().(*types.Pointer); ok && ((m != nil && m.params[j]) || e.isCellParam(p)) {
			es := e.tc.sortOf(pt.Elem())
			cell := x.newCell(p.Name(), es)
			init := x.fresh("in_"+p.Name(), es)
			x.inputs = append(x.inputs, init.S)
			st.cells[cell] = init
			params[j] = PV{Cell: cell}
			oc := x.newCell("old_"+p.Name(), es)
			oc.Ghost = true
			st.cells[oc] = init
			olds = append(olds, PV{Cell: oc})
			continue
		}
		t := x.fresh("in_"+p.Name(), s)
		x.inputs = append(x.inputs, t.S)
		params[j] = TV{T: t}
		if isPtrType(p.Type()) {
			olds = append(olds, TV{T: t})
		}
		x.typeInvariant(t, p.Type(), g)
	}
	var free []Val
	for _, fv := range fn.FreeVars {
		pt, ok := fv.Type().(*types.Pointer)
		if !ok {
			free = append(free, TV{T: x.fresh("fv_"+fv.Name(), e.tc.sortOf(fv.Type()))})
			continue
		}
		es := e.tc.sortOf(pt.Elem())
		cell := x.newCell(fv.Name(), es)
		st.cells[cell] = x.fresh("fv_"+fv.Name(), es)
		free = append(free, PV{Cell: cell})
	}
	fuel := 2
	if c != nil && c.Fuel > 0 {
		fuel = c.Fuel
	}
	if c != nil {
		x.fuelFor = c.FuelFor
	}
	// requires
	pre := &Frame{x: x, fn: fn, regs: map[ssa.Value]Val{}, ghost: true, fuel: fuel}
	if c != nil {
		for _, cl := range c.clauses("requires") {
			x.assume(g, pre.evalClause(fn, cl, params, st, g))
		}
		for _, cl := range c.clauses("assumes") {
			x.assume(g, pre.evalClause(fn, cl, params, st, g))
			x.usedAssumptions["ASSUMED in contract of "+res.Func+": "+cl.Expr] = true
		}
		for _, cl := range c.clauses("fmtwhen") {
			x.fmtHyp = append(x.fmtHyp, x.define("fmthyp", pre.evalClause(fn, cl, params, st, g)))
		}
		for _, cl := range c.clauses("decreases") {
			x.rootDec = append(x.rootDec, x.define("rootdec", pre.evalClause(fn, cl, params, st, g)))
		}
	}
	x.vacuityAt = len(x.events)
	entryParams := append([]Val{}, params...)
	setup := func(fr *Frame) {
		fr.isRoot = true
		fr.fuel = fuel
		fr.onReturn = func(fr *Frame, rg Term, vals []Val, rst *State, rpos token.Pos) {
			if c == nil {
				return
			}
			all := append(append(append([]Val{}, entryParams...), olds...), vals...)
			for n, cl := range c.clauses("ensures") {
				x.proving = true
				t := fr.evalClause(fn, cl, all, rst, rg)
				x.proving = false
				p := x.posOf(rpos)
				if p == "" {
					p = x.posOf(fn.Pos())
				}
				x.assert(rg, "post/"+clauseLabel(cl, n), t, p, "postcondition: "+cl.Expr)
			}
		}
	}
	x.runFunc(fn, params, free, st, g, nil, "", false, setup)
	res.Unsupported = x.errors
	res.Obligations = x.queries(res.Func)
	if c != nil {
		for _, m := range c.Missing {
			parts := strings.SplitN(m, ": ", 2)
			name := res.Func + "/" + parts[0]
			res.Obligations = append(res.Obligations, &Obligation{Func: res.Func, Name: name, Short: parts[0], Status: "failed", Solver: "static", Info: parts[1], Pos: x.posOf(fn.Pos())})
		}
	}
	for _, ob := range res.Obligations {
		ob.Props = res.Props
	}
	if c != nil && len(c.clauses("requires")) > 0 {
		res.Vacuity = x.vacuityQuery()
	}
	res.EndQuery = x.endQuery()
	for a := range x.usedAssumptions {
		res.Assumptions = append(res.Assumptions, a)
	}
	return res
}

// typeInvariant: facts every value of a Go type satisfies (byte/rune ranges are
// left to the string and UTF-8 axioms; slice lengths are non-negative).
func (x *Exec) typeInvariant(t Term, typ types.Type, g Term) {
	switch t.Sort.Kind {
	case KSlice:
		x.assume(g, Le(IntLit(0), SlLen(t)))
	}
}
