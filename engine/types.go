package main

import (
	"fmt"
	"go/types"
	"sort"
	"strings"
)

// typeConv maps Go types to SMT sorts.
type typeConv struct {
	named map[string]*Sort // by qualified Go type string
	names map[string]string // SMT name -> qualified type (collision detection)
	any   *Sort
	anyCtors []*anyCtor
	anyByKey map[string]*anyCtor
	frozen bool
}

type anyCtor struct {
	Key     string // Go type string
	Name    string // SMT constructor
	Sel     string // selector name ("" for other)
	Payload *Sort  // nil for "other" types (encoded as AOther tid)
	Tid     int    // for other
}

func newTypeConv() *typeConv {
	tc := &typeConv{named: map[string]*Sort{}, names: map[string]string{}, anyByKey: map[string]*anyCtor{}}
	tc.any = &Sort{Name: "Any", Kind: KAny}
	sorts.put(tc.any)
	sorts.put(SErr)
	return tc
}

func isByteSlice(t types.Type) bool {
	if s, ok := t.Underlying().(*types.Slice); ok {
		if b, ok := s.Elem().Underlying().(*types.Basic); ok && b.Kind() == types.Uint8 {
			return true
		}
	}
	return false
}

func isErrorType(t types.Type) bool {
	return types.Identical(t, types.Universe.Lookup("error").Type())
}

func (tc *typeConv) sortOf(t types.Type) *Sort {
	switch tt := t.(type) {
	case *types.Named:
		if _, ok := tt.Underlying().(*types.Struct); ok {
			return tc.structSort(tt)
		}
		if isErrorType(tt) {
			return SErr
		}
		return tc.sortOf(tt.Underlying())
	case *types.Alias:
		return tc.sortOf(types.Unalias(tt))
	case *types.Basic:
		switch {
		case tt.Info()&types.IsBoolean != 0:
			return SBool
		case tt.Info()&types.IsInteger != 0:
			return SInt
		case tt.Info()&types.IsFloat != 0:
			return SF64
		case tt.Info()&types.IsString != 0:
			return SStr
		case tt.Kind() == types.UntypedNil:
			return tc.any
		case tt.Kind() == types.UnsafePointer:
			return SInt
		}
	case *types.Pointer:
		return PtrSort(tc.sortOf(tt.Elem()))
	case *types.Slice:
		if isByteSlice(tt) {
			return SStr
		}
		return SliceSort(tc.sortOf(tt.Elem()))
	case *types.Array:
		return ArraySort(SInt, tc.sortOf(tt.Elem()))
	case *types.Map:
		return MapSort(tc.sortOf(tt.Key()), tc.sortOf(tt.Elem()))
	case *types.Signature:
		return SInt
	case *types.Interface:
		if tt.NumMethods() == 0 {
			return tc.any
		}
		if isErrorType(tt) {
			return SErr
		}
		return SInt // opaque interface value (reflect.Type, fmt.Stringer, ...)
	case *types.Struct:
		return tc.anonStruct(tt)
	case *types.Chan:
		return SInt
	}
	panic(fmt.Sprintf("sortOf: unsupported type %v (%T)", t, t))
}

func (tc *typeConv) structSort(n *types.Named) *Sort {
	key := types.TypeString(n, nil)
	if s, ok := tc.named[key]; ok {
		return s
	}
	name := sanitize(n.Obj().Name())
	if prev, clash := tc.names[name]; clash && prev != key {
		name = sanitize(n.Obj().Pkg().Name() + "_" + n.Obj().Name())
	}
	tc.names[name] = key
	s := &Sort{Name: name, Kind: KRecord, Ctor: name + "_mk"}
	tc.named[key] = s
	sorts.put(s)
	tc.fillStruct(s, n.Underlying().(*types.Struct))
	return s
}

func (tc *typeConv) anonStruct(st *types.Struct) *Sort {
	key := types.TypeString(st, nil)
	if s, ok := tc.named[key]; ok {
		return s
	}
	name := fmt.Sprintf("Anon%d", len(tc.named))
	s := &Sort{Name: name, Kind: KRecord, Ctor: name + "_mk"}
	tc.named[key] = s
	sorts.put(s)
	tc.fillStruct(s, st)
	return s
}

func (tc *typeConv) fillStruct(s *Sort, st *types.Struct) {
	var parts []string
	for i := 0; i < st.NumFields(); i++ {
		f := st.Field(i)
		fs := tc.sortOf(f.Type())
		sel := s.Name + "_" + sanitize(f.Name())
		s.Fields = append(s.Fields, Field{Name: f.Name(), Sel: sel, Sort: fs})
		s.Deps = append(s.Deps, fs)
		parts = append(parts, fmt.Sprintf("(%s %s)", sel, fs.Name))
	}
	if len(parts) == 0 {
		s.Decl = fmt.Sprintf("((%s))", s.Ctor)
	} else {
		s.Decl = fmt.Sprintf("((%s %s))", s.Ctor, strings.Join(parts, " "))
	}
}

// ---- interface values ------------------------------------------------------

// payloadable decides which dynamic types get their own Any constructor with a
// payload; everything else is AOther(tid, opaque).
func (tc *typeConv) ctorFor(t types.Type) *anyCtor {
	key := types.TypeString(t, nil)
	if c, ok := tc.anyByKey[key]; ok {
		return c
	}
	if tc.frozen {
		// a dynamic type the pre-scan did not see: it is one of the "other" types (no payload)
		c := &anyCtor{Key: key, Tid: 100 + len(tc.anyCtors)}
		tc.anyCtors = append(tc.anyCtors, c)
		tc.anyByKey[key] = c
		return c
	}
	c := &anyCtor{Key: key}
	payload := false
	switch tt := t.(type) {
	case *types.Basic:
		switch tt.Kind() {
		case types.Int, types.Float64, types.Bool, types.String:
			payload = true
		}
	case *types.Named:
		payload = true
		if _, isIface := tt.Underlying().(*types.Interface); isIface {
			payload = false
		}
	case *types.Pointer:
		if _, ok := tt.Elem().(*types.Named); ok {
			payload = true
		}
	case *types.Slice:
		payload = true
	}
	short := types.TypeString(t, func(p *types.Package) string { return p.Name() })
	short = strings.ReplaceAll(short, "[]", "Sl")
	short = strings.ReplaceAll(short, "*", "P")
	if payload {
		c.Payload = tc.sortOf(t)
		c.Name = "A_" + sanitize(short)
		c.Sel = "a_" + sanitize(short)
	} else {
		c.Tid = 100 + len(tc.anyCtors)
	}
	tc.anyCtors = append(tc.anyCtors, c)
	tc.anyByKey[key] = c
	return c
}

// freezeAny fixes the constructor list of Any and writes its declaration.
func (tc *typeConv) freezeAny() {
	tc.frozen = true
	var parts []string
	parts = append(parts, "(ANil)")
	seen := map[string]bool{}
	cs := append([]*anyCtor(nil), tc.anyCtors...)
	sort.Slice(cs, func(i, j int) bool { return cs[i].Key < cs[j].Key })
	for _, c := range cs {
		if c.Payload == nil || seen[c.Name] {
			continue
		}
		seen[c.Name] = true
		parts = append(parts, fmt.Sprintf("(%s (%s %s))", c.Name, c.Sel, c.Payload.Name))
		tc.any.Deps = append(tc.any.Deps, c.Payload)
	}
	parts = append(parts, "(AOther (a_tid Int) (a_opq Int))")
	tc.any.Decl = "(" + strings.Join(parts, " ") + ")"
}

func ANil(tc *typeConv) Term { return Term{"ANil", tc.any} }

func (tc *typeConv) makeAny(t types.Type, v Term, opaque func() Term) Term {
	c := tc.ctorFor(t)
	if c.Payload != nil {
		return mk(tc.any, c.Name, v)
	}
	return mk(tc.any, "AOther", IntLit(int64(c.Tid)), opaque())
}

func (tc *typeConv) isAny(t types.Type, x Term) Term {
	c := tc.ctorFor(t)
	if c.Payload != nil {
		return mk(SBool, "(_ is "+c.Name+")", x)
	}
	return And(mk(SBool, "(_ is AOther)", x), Eq(mk(SInt, "a_tid", x), IntLit(int64(c.Tid))))
}

func (tc *typeConv) anyPayload(t types.Type, x Term) (Term, bool) {
	c := tc.ctorFor(t)
	if c.Payload != nil {
		return mk(c.Payload, c.Sel, x), true
	}
	return Term{}, false
}
