package main

import (
	"fmt"
	"sort"
	"strings"
)

// Sort is an SMT sort.  Datatype sorts carry their declaration so that a query
// can emit exactly the sorts it uses.
type Sort struct {
	Name  string  // SMT text of the sort, e.g. "Int", "P_Expression", "(Array Int Any)"
	Decl  string  // for datatypes: the constructor list "((C (f S)) ...)"; "" otherwise
	Deps  []*Sort // sorts mentioned in Decl / array component sorts
	Uninterp bool // declare-sort

	// structure for engine use
	Kind   SortKind
	Fields []Field // Record: fields in order
	Elem   *Sort   // Ptr: pointee; Slice/Array: element
	Key    *Sort   // Map key
	Ctor   string  // Record / Ptr / Slice / Map: constructor name
}

type SortKind int

const (
	KBasic SortKind = iota
	KRecord
	KPtr
	KSlice
	KMap
	KArray
	KAny
	KErr
)

type Field struct {
	Name string // Go field name
	Sel  string // SMT selector
	Sort *Sort
}

var (
	SInt  = &Sort{Name: "Int"}
	SBool = &Sort{Name: "Bool"}
	SStr  = &Sort{Name: "Str", Uninterp: true}
	SF64  = &Sort{Name: "F64", Uninterp: true}
	SErr  = &Sort{Name: "Err", Decl: "((NoErr) (SomeErr (errid Int)))", Kind: KErr}
)

// Term is an SMT term with its sort.
type Term struct {
	S    string
	Sort *Sort
}

func (t Term) String() string { return t.S }

func mk(s *Sort, op string, args ...Term) Term {
	if len(args) == 0 {
		return Term{op, s}
	}
	var b strings.Builder
	b.WriteByte('(')
	b.WriteString(op)
	for _, a := range args {
		b.WriteByte(' ')
		b.WriteString(a.S)
	}
	b.WriteByte(')')
	return Term{b.String(), s}
}

func IntLit(i int64) Term {
	if i < 0 {
		return Term{fmt.Sprintf("(- %d)", -i), SInt}
	}
	return Term{fmt.Sprintf("%d", i), SInt}
}
func BoolLit(b bool) Term {
	if b {
		return Term{"true", SBool}
	}
	return Term{"false", SBool}
}

var TTrue = BoolLit(true)
var TFalse = BoolLit(false)

func And(ts ...Term) Term {
	var xs []Term
	for _, t := range ts {
		if t.S == "true" {
			continue
		}
		if t.S == "false" {
			return TFalse
		}
		xs = append(xs, t)
	}
	if len(xs) == 0 {
		return TTrue
	}
	if len(xs) == 1 {
		return xs[0]
	}
	return mk(SBool, "and", xs...)
}
func Or(ts ...Term) Term {
	var xs []Term
	for _, t := range ts {
		if t.S == "false" {
			continue
		}
		if t.S == "true" {
			return TTrue
		}
		xs = append(xs, t)
	}
	if len(xs) == 0 {
		return TFalse
	}
	if len(xs) == 1 {
		return xs[0]
	}
	return mk(SBool, "or", xs...)
}
func Not(t Term) Term {
	if t.S == "true" {
		return TFalse
	}
	if t.S == "false" {
		return TTrue
	}
	return mk(SBool, "not", t)
}
func Imp(a, b Term) Term {
	if a.S == "true" {
		return b
	}
	if a.S == "false" || b.S == "true" {
		return TTrue
	}
	return mk(SBool, "=>", a, b)
}
func Eq(a, b Term) Term {
	if a.S == b.S {
		return TTrue
	}
	if a.Sort == SInt {
		x, ok1 := litVal(a)
		y, ok2 := litVal(b)
		if ok1 && ok2 {
			return BoolLit(x == y)
		}
	}
	return mk(SBool, "=", a, b)
}
func Ite(c, a, b Term) Term {
	if c.S == "true" {
		return a
	}
	if c.S == "false" {
		return b
	}
	if a.S == b.S {
		return a
	}
	return mk(a.Sort, "ite", c, a, b)
}
func litVal(t Term) (int64, bool) {
	s := t.S
	neg := false
	if strings.HasPrefix(s, "(- ") && strings.HasSuffix(s, ")") {
		s = s[3 : len(s)-1]
		neg = true
	}
	if !isNumLit(s) || len(s) > 17 {
		return 0, false
	}
	var v int64
	for _, c := range s {
		v = v*10 + int64(c-'0')
	}
	if neg {
		v = -v
	}
	return v, true
}
func Add(a, b Term) Term {
	x, ok1 := litVal(a)
	y, ok2 := litVal(b)
	if ok1 && ok2 {
		return IntLit(x + y)
	}
	if ok2 && y == 0 {
		return a
	}
	if ok1 && x == 0 {
		return b
	}
	return mk(SInt, "+", a, b)
}
func Sub(a, b Term) Term {
	x, ok1 := litVal(a)
	y, ok2 := litVal(b)
	if ok1 && ok2 {
		return IntLit(x - y)
	}
	if ok2 && y == 0 {
		return a
	}
	return mk(SInt, "-", a, b)
}
func Lt(a, b Term) Term {
	x, ok1 := litVal(a)
	y, ok2 := litVal(b)
	if ok1 && ok2 {
		return BoolLit(x < y)
	}
	return mk(SBool, "<", a, b)
}
func Le(a, b Term) Term {
	x, ok1 := litVal(a)
	y, ok2 := litVal(b)
	if ok1 && ok2 {
		return BoolLit(x <= y)
	}
	if a.S == b.S {
		return TTrue
	}
	return mk(SBool, "<=", a, b)
}

// ---- sort registry -------------------------------------------------------

type sortReg struct {
	byName map[string]*Sort
}

var sorts = &sortReg{byName: map[string]*Sort{}}

func (r *sortReg) get(name string) *Sort { return r.byName[name] }
func (r *sortReg) put(s *Sort) *Sort {
	r.byName[s.Name] = s
	return s
}

func ArraySort(k, v *Sort) *Sort {
	name := fmt.Sprintf("(Array %s %s)", k.Name, v.Name)
	if s := sorts.get(name); s != nil {
		return s
	}
	return sorts.put(&Sort{Name: name, Kind: KArray, Key: k, Elem: v, Deps: []*Sort{k, v}})
}

func sanitize(s string) string {
	var b strings.Builder
	for _, c := range s {
		switch {
		case c >= 'a' && c <= 'z', c >= 'A' && c <= 'Z', c >= '0' && c <= '9', c == '_':
			b.WriteRune(c)
		default:
			b.WriteByte('_')
		}
	}
	return b.String()
}

func PtrSort(elem *Sort) *Sort {
	name := "P_" + sanitize(elem.Name)
	if s := sorts.get(name); s != nil {
		return s
	}
	s := &Sort{Name: name, Kind: KPtr, Elem: elem, Ctor: name + "_mk", Deps: []*Sort{elem}}
	s.Decl = fmt.Sprintf("((%s_nil) (%s_mk (%s_val %s)))", name, name, name, elem.Name)
	return sorts.put(s)
}

func SliceSort(elem *Sort) *Sort {
	name := "Sl_" + sanitize(elem.Name)
	if s := sorts.get(name); s != nil {
		return s
	}
	arr := ArraySort(SInt, elem)
	s := &Sort{Name: name, Kind: KSlice, Elem: elem, Ctor: name + "_mk", Deps: []*Sort{arr}}
	s.Decl = fmt.Sprintf("((%s_mk (%s_len Int) (%s_arr %s)))", name, name, name, arr.Name)
	s.Fields = []Field{{"len", name + "_len", SInt}, {"arr", name + "_arr", arr}}
	return sorts.put(s)
}

func MapSort(k, v *Sort) *Sort {
	name := "Map_" + sanitize(k.Name) + "_" + sanitize(v.Name)
	if s := sorts.get(name); s != nil {
		return s
	}
	has := ArraySort(k, SBool)
	val := ArraySort(k, v)
	s := &Sort{Name: name, Kind: KMap, Key: k, Elem: v, Ctor: name + "_mk", Deps: []*Sort{has, val}}
	s.Decl = fmt.Sprintf("((%s_mk (%s_has %s) (%s_val %s)))", name, name, has.Name, name, val.Name)
	return sorts.put(s)
}

// sort-specific helpers
func PNil(ps *Sort) Term          { return Term{ps.Name + "_nil", ps} }
func PMk(ps *Sort, v Term) Term   { return mk(ps, ps.Name+"_mk", v) }

// curDefs maps constants introduced by Exec.define to their definitions, so that
// the peephole simplifications below can look through them.
var curDefs = map[string]Term{}

func peek(t Term) Term {
	for k := 0; k < 8; k++ {
		d, ok := curDefs[t.S]
		if !ok {
			return t
		}
		t = d
	}
	return t
}

// ctorArgs returns the arguments of t if it is (after looking through
// definitions) an application of constructor ctor.
func ctorArgs(t Term, ctor string) ([]string, bool) {
	t = peek(t)
	if !strings.HasPrefix(t.S, "("+ctor+" ") {
		return nil, false
	}
	op, args := splitApp(t.S)
	return args, op == ctor
}

func PVal(p Term) Term {
	if a, ok := ctorArgs(p, p.Sort.Name+"_mk"); ok && len(a) == 1 {
		return Term{a[0], p.Sort.Elem}
	}
	return mk(p.Sort.Elem, p.Sort.Name+"_val", p)
}
func PIsNil(p Term) Term {
	pp := peek(p)
	if pp.S == p.Sort.Name+"_nil" {
		return TTrue
	}
	if strings.HasPrefix(pp.S, "("+p.Sort.Name+"_mk ") {
		return TFalse
	}
	return mk(SBool, "(_ is "+p.Sort.Name+"_nil)", p)
}
func SlLen(s Term) Term {
	if a, ok := ctorArgs(s, s.Sort.Name+"_mk"); ok && len(a) == 2 {
		return Term{a[0], SInt}
	}
	return mk(SInt, s.Sort.Name+"_n", s)
}
func SlArr(s Term) Term {
	if a, ok := ctorArgs(s, s.Sort.Name+"_mk"); ok && len(a) == 2 {
		return Term{a[1], s.Sort.Deps[0]}
	}
	return mk(s.Sort.Deps[0], s.Sort.Name+"_arr", s)
}
func SlMk(ss *Sort, l, a Term) Term { return mk(ss, ss.Name+"_mk", l, a) }
func isNumLit(s string) bool {
	if s == "" {
		return false
	}
	for _, c := range s {
		if c < '0' || c > '9' {
			return false
		}
	}
	return true
}
func Select(a, i Term) Term {
	cur := peek(a)
	for k := 0; k < 16 && isNumLit(i.S); k++ {
		if !strings.HasPrefix(cur.S, "(store ") {
			break
		}
		_, args := splitApp(cur.S)
		if len(args) != 3 || !isNumLit(args[1]) {
			break
		}
		if args[1] == i.S {
			return Term{args[2], a.Sort.Elem}
		}
		cur = peek(Term{args[0], a.Sort})
	}
	if cur.S != peek(a).S {
		return mk(a.Sort.Elem, "select", cur, i)
	}
	return mk(a.Sort.Elem, "select", a, i)
}
func Store(a, i, v Term) Term { return mk(a.Sort, "store", a, i, v) }
func SlAt(s, i Term) Term     { return Select(SlArr(s), i) }
func FieldSel(rec Term, i int) Term {
	f := rec.Sort.Fields[i]
	if a, ok := ctorArgs(rec, rec.Sort.Ctor); ok && len(a) == len(rec.Sort.Fields) {
		return Term{a[i], f.Sort}
	}
	return mk(f.Sort, f.Sel, rec)
}
func RecUpdate(rec Term, i int, v Term) Term {
	args := make([]Term, len(rec.Sort.Fields))
	for j := range rec.Sort.Fields {
		if j == i {
			args[j] = v
		} else {
			args[j] = FieldSel(rec, j)
		}
	}
	return mk(rec.Sort, rec.Sort.Ctor, args...)
}

// closure computes the set of sorts reachable from the given ones, in a stable order.
func sortClosure(roots map[*Sort]bool) []*Sort {
	seen := map[*Sort]bool{}
	var out []*Sort
	var visit func(s *Sort)
	visit = func(s *Sort) {
		if s == nil || seen[s] {
			return
		}
		seen[s] = true
		for _, d := range s.Deps {
			visit(d)
		}
		out = append(out, s)
	}
	var names []string
	byName := map[string]*Sort{}
	for s := range roots {
		names = append(names, s.Name)
		byName[s.Name] = s
	}
	sort.Strings(names)
	for _, n := range names {
		visit(byName[n])
	}
	return out
}

// sortDecls emits declare-sort / declare-datatypes for the closure of roots.
func sortDecls(roots map[*Sort]bool) string {
	all := sortClosure(roots)
	var b strings.Builder
	var dts []*Sort
	for _, s := range all {
		if s.Uninterp {
			fmt.Fprintf(&b, "(declare-sort %s 0)\n", s.Name)
		} else if s.Decl != "" {
			dts = append(dts, s)
		}
	}
	if len(dts) > 0 {
		b.WriteString("(declare-datatypes (")
		for _, s := range dts {
			fmt.Fprintf(&b, "(%s 0) ", s.Name)
		}
		b.WriteString(") (\n")
		for _, s := range dts {
			fmt.Fprintf(&b, "  %s\n", s.Decl)
		}
		b.WriteString("))\n")
	}
	return b.String()
}
