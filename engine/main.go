package main

import (
	"path/filepath"
	"sync"
	"golang.org/x/tools/go/ssa"
	"encoding/json"
	"flag"
	"fmt"
	"os"
	"regexp"
	"runtime"
	"sort"
	"strings"
	"time"
)

func main() {
	repo := flag.String("repo", "/repo", "repository root")
	funcs := flag.String("funcs", "", "regexp over short function names (pkg.func)")
	timeout := flag.Int("timeout", 10, "solver timeout per obligation (s)")
	dump := flag.String("dump", "", "directory for SMT files (default: temp dir removed at exit)")
	jsonOut := flag.String("json", "", "write results as JSON")
	agree := flag.Bool("agree", false, "require two solvers to agree")
	list := flag.Bool("list", false, "list functions and exit")
	verbose := flag.Bool("v", false, "print every obligation")
	allFuncs := flag.Bool("all", false, "also verify inlinable unexported functions as roots")
	noReplay := flag.Bool("noreplay", false, "do not replay counterexamples on the real code")
	flag.BoolVar(&keepQueries, "keep", false, "with -dump: keep the SMT files of discharged obligations as well")
	cost := flag.Bool("cost", false, "also produce the cost/single-visit obligations when -funcs is given")
	frame := flag.Bool("frame", false, "run the frame analysis (C14) instead of the contract verification")
	withFrame := flag.Bool("withframe", false, "run the frame analysis in addition to the contract verification")
	flag.Parse()

	t0 := time.Now()
	e, err := load(*repo)
	if err != nil {
		fmt.Fprintln(os.Stderr, "LOAD ERROR:", err)
		os.Exit(2)
	}
	for _, w := range e.weaveErrs {
		fmt.Fprintln(os.Stderr, "CONTRACT ERROR:", w)
	}
	if len(e.weaveErrs) > 0 {
		os.Exit(2)
	}
	var re *regexp.Regexp
	if *funcs != "" {
		re = regexp.MustCompile(*funcs)
	}
	dir := *dump
	if dir == "" {
		dir, _ = os.MkdirTemp(os.Getenv("TMPDIR"), "govc")
		defer os.RemoveAll(dir)
	} else {
		os.MkdirAll(dir, 0o755)
	}
	var results []*FuncResult
	var obs []*Obligation
	fnOf := map[string]*ssa.Function{}
	if *frame {
		results = append(results, e.frameCheck())
	}
	if !*frame {
		for _, c := range e.orphans {
			rel, _ := filepath.Rel(e.repo, c.PkgDir)
			pk := filepath.Base(c.PkgDir)
			if rel == "." {
				pk = "lucene"
			}
			name := pk + "." + c.FuncName
			if re != nil && !re.MatchString(name) {
				continue
			}
			ob := &Obligation{Func: name, Name: name + "/post/contract-without-function", Short: "contract-without-function", Status: "failed", Solver: "static",
				Info: "the contract file has a contract for " + c.FuncName + ", but the package has no such function any more (renamed, removed, or its receiver changed): what the contract states is not established", Props: c.Props}
			if c.Broken != "" {
				ob.Name, ob.Short = name+"/post/contract-does-not-compile", "contract-does-not-compile"
				ob.Info = "the contract of " + c.FuncName + " no longer compiles against the sources (" + c.Broken + "): what it states is not established"
			}
			results = append(results, &FuncResult{Func: name, Key: name, HasContract: true, Props: c.Props, Obligations: []*Obligation{ob}})
		}
	}
	if !*frame && !*list && (re == nil || *cost) {
		cr := e.costCheck()
		results = append(results, cr)
	}
	for _, f := range e.allFuncs {
		if *frame {
			break
		}
		isLemma := e.contractOf[f] != nil && e.contractOf[f].Flags["lemma"]
		if (e.specFns[f] && !isLemma) || f.Parent() != nil || f.Name() == "init" || f.Origin() != nil {
			continue
		}
		if !*allFuncs && !e.isRoot(f) {
			continue
		}
		name := shortFuncName(f)
		if re != nil && !re.MatchString(name) {
			continue
		}
		if *list {
			fmt.Println(name, "inlinable:", e.inlinable(f), "recursive:", e.recursive[f], "mods:", fmtMods(e.mods[f]))
			continue
		}
		tf := time.Now()
		r := e.verifyFunc(f)
		if d := time.Since(tf).Seconds(); d > 1.5 {
			fmt.Fprintf(os.Stderr, "gen %-40s %.1fs\n", name, d)
		}
		results = append(results, r)
		fnOf[r.Func] = f
		obs = append(obs, r.Obligations...)
	}
	if *list {
		return
	}
	if *withFrame && !*frame {
		results = append(results, e.frameCheck())
	}
	tgen := time.Since(t0).Seconds()
	dischargeAll(obs, dir, *timeout, *agree, runtime.NumCPU())
	bad := 0
	{
		var wg sync.WaitGroup
		sem := make(chan struct{}, runtime.NumCPU())
		for _, r := range results {
			r := r
			wg.Add(1)
			go func() {
				defer wg.Done()
				sem <- struct{}{}
				defer func() { <-sem }()
				if r.EndQuery != "" {
					f := dir + "/end_" + sanitize(r.Func) + ".smt2"
					os.WriteFile(f, []byte(r.EndQuery), 0o644)
					r.EndStatus, _ = runSolver(solvers[0], f, 3)
					r.EndQuery = ""
				}
				if r.Vacuity != "" {
					f := dir + "/vacuity_" + sanitize(r.Func) + ".smt2"
					os.WriteFile(f, []byte(r.Vacuity), 0o644)
					r.VacuityStatus, _ = runSolver(solvers[0], f, 3)
					r.Vacuity = ""
				}
			}()
		}
		wg.Wait()
		for _, r := range results {
			if r.EndStatus == "unsat" {
				fmt.Printf("VACUOUS %s: the assumptions of this function are contradictory\n", r.Func)
				bad++
			}
		}
	}
	// replay the solver's counterexamples against the real code
	if !*noReplay {
		var wg sync.WaitGroup
		sem := make(chan struct{}, 4)
		for _, ob := range obs {
			if ob.Status == "proved" || fnOf[ob.Func] == nil {
				continue
			}
			ob := ob
			wg.Add(1)
			go func() {
				defer wg.Done()
				sem <- struct{}{}
				defer func() { <-sem }()
				defer func() { recover() }()
				ob.Replay = e.replay(fnOf[ob.Func], ob, dir, e.overlay)
			}()
		}
		wg.Wait()
	}
	for _, r := range results {
		if len(r.Unsupported) > 0 {
			fmt.Printf("OUTSIDE-SUBSET %s\n", r.Func)
			for _, u := range r.Unsupported {
				fmt.Printf("    %s\n", u)
			}
		}
		np, nf := 0, 0
		for _, ob := range r.Obligations {
			if ob.Status == "proved" {
				np++
			} else {
				nf++
				bad++
			}
			if *verbose || ob.Status != "proved" {
				fmt.Printf("  %-8s %-70s %s %.2fs [%s] %s\n", ob.Status, ob.Name, ob.Solver, ob.Time, ob.Pos, ob.Info)
				if ob.Replay != nil {
					fmt.Printf("           replay: %s %s  inputs: %s\n", ob.Replay.Outcome, ob.Replay.Detail, strings.Join(ob.Replay.Inputs, "; "))
				}
			}
		}
		fmt.Printf("%-40s obligations=%d proved=%d other=%d\n", r.Func, len(r.Obligations), np, nf)
	}
	fmt.Printf("generation %.1fs total %.1fs obligations=%d not-proved=%d\n", tgen, time.Since(t0).Seconds(), len(obs), bad)
	if *jsonOut != "" {
		type jo struct {
			Results []*FuncResult
		}
		for _, ob := range obs {
			ob.Query = ""
		}
		b, _ := json.MarshalIndent(jo{results}, "", " ")
		os.WriteFile(*jsonOut, b, 0o644)
	}
}

func fmtMods(m *modInfo) string {
	if m == nil {
		return "-"
	}
	var ps []string
	for i := range m.params {
		ps = append(ps, fmt.Sprint(i))
	}
	sort.Strings(ps)
	s := "params[" + strings.Join(ps, ",") + "]"
	if len(m.globals) > 0 {
		s += fmt.Sprintf(" globals=%d", len(m.globals))
	}
	return s
}
